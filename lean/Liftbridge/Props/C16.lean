/-
C16 — A conditional publish lands only at the offset it expected.
On a log with optimistic concurrency control the leader's sequencer appends one message at
a time (`batchSize = 1`, extracted fact `Gen.Partition.occBatchOne`); concurrency between
publishers is the arrival order at that sequencer, i.e. an arbitrary list of publishes.
-/
import Liftbridge.Model.Log
import Liftbridge.Proofs.Log
import Liftbridge.Proofs.Occ
import Liftbridge.Gen.Partition

namespace Liftbridge.Props.C16
open Liftbridge Liftbridge.Log Liftbridge.Log.CLog Liftbridge.Proofs.Log Liftbridge.Proofs

/-- One conditional publish as processed by the sequencer: the new state and the outcome
(assigned offset, or the error of the negative acknowledgement). -/
def publish (l : CLog) (m : Msg) : CLog × Res Int :=
  match l.append [m] with
  | .ok (l', offs) => (l', match offs with | [o] => .ok o | _ => .panic)
  | .err e => (l.checkSplitIfWritable, .err e)
  | .panic => (l, .panic)

/-- Publishes processed in arrival order; each paired with its outcome. -/
def runPubs : CLog → List Msg → List (Msg × Res Int)
  | _, [] => []
  | l, m :: ms => let (l', r) := publish l m; (m, r) :: runPubs l' ms

def finalLog : CLog → List Msg → CLog
  | l, [] => l
  | l, m :: ms => finalLog (publish l m).1 ms

/- Some hypotheses of the statements below are not needed by the proofs (`Inv l` in `stored_iff`,
`rejected_incorrect_offset`, `rejected_unchanged`, `waived_accepted`, `unencodable_rejected`;
`l.occ = true` in
`stored_are_appended`); the statements are kept as specified. -/
set_option linter.unusedVariables false

/-! `publish` / `runPubs` / `finalLog` are the functions the helper lemmas of `Proofs/Occ.lean`
are stated on. -/
theorem publish_eq (l : CLog) (m : Msg) : publish l m = Occ.pub l m := rfl

theorem runPubs_eq (l : CLog) (ms : List Msg) : runPubs l ms = Occ.runP l ms := by
  induction ms generalizing l with
  | nil => rfl
  | cons m ms ih => exact congrArg ((m, (publish l m).2) :: ·) (ih (publish l m).1)

theorem finalLog_eq (l : CLog) (ms : List Msg) : finalLog l ms = Occ.finalP l ms := by
  induction ms generalizing l with
  | nil => rfl
  | cons m ms ih => exact ih (publish l m).1

/-- Stored if and only if the expected offset is waived (-1) or equals the offset the message
would be assigned. -/
theorem stored_iff (l : CLog) (m : Msg) (h : Inv l) (hocc : l.occ = true) (hro : l.readonly = false)
    (henc : m.body.encodable = true) :
    (∃ o, (publish l m).2 = .ok o) ↔ (m.expected = -1 ∨ m.expected = l.nextOffset) :=
  Occ.pub_stored_iff l m hocc hro henc

/-- A stored conditional publish is stored at exactly the next offset — which is the expected
one unless the check was waived — and appended at the end of the log. -/
theorem stored_at_expected (l : CLog) (m : Msg) (o : Int) (h : Inv l) (hocc : l.occ = true)
    (hp : (publish l m).2 = .ok o) :
    o = l.nextOffset ∧ (m.expected ≠ -1 → o = m.expected) ∧
    (publish l m).1.abs = l.abs ++ [{ offset := o, ts := m.ts, epoch := m.epoch, body := m.body }] :=
  Occ.pub_stored_at_expected l m o h hocc hp

/-- Otherwise the publisher gets the incorrect-offset error … -/
theorem rejected_incorrect_offset (l : CLog) (m : Msg) (h : Inv l) (hocc : l.occ = true)
    (hro : l.readonly = false) (henc : m.body.encodable = true)
    (hne : m.expected ≠ -1) (hne' : m.expected ≠ l.nextOffset) :
    (publish l m).2 = .err "incorrect-offset" :=
  Occ.pub_rejected l m hocc hro henc hne hne'

/-- … and the log is unchanged. -/
theorem rejected_unchanged (l : CLog) (m : Msg) (e : String) (h : Inv l)
    (hp : (publish l m).2 = .err e) :
    (publish l m).1.abs = l.abs ∧ (publish l m).1.nextOffset = l.nextOffset :=
  (Occ.pub_err hp).2.2

/-- Publishes that waive the check are always accepted (on a writable log). -/
theorem waived_accepted (l : CLog) (m : Msg) (h : Inv l) (hro : l.readonly = false)
    (henc : m.body.encodable = true) (hw : m.expected = -1) : ∃ o, (publish l m).2 = .ok o :=
  Occ.pub_waived l m hro henc hw

/-- A message that cannot be encoded (a header key longer than 32767 bytes) is refused with the
encode error — no panic — and nothing is written. -/
theorem unencodable_rejected (l : CLog) (m : Msg) (h : Inv l) (hro : l.readonly = false)
    (henc : m.body.encodable = false) :
    (publish l m).2 = .err "encode" ∧ (publish l m).1.abs = l.abs :=
  Occ.pub_unencodable l m hro henc

/-- The invariant is kept, so the statements above apply to every publish of a history. -/
theorem publish_inv (l : CLog) (m : Msg) (h : Inv l) : Inv (publish l m).1 ∧
    (publish l m).1.occ = l.occ ∧ (publish l m).1.readonly = l.readonly :=
  Occ.pub_inv l m h

/-- Of any set of publishers racing with the same expected offset `e ≠ -1` — in ANY arrival
order, interleaved with any other publishes — at most one succeeds. -/
theorem at_most_one_winner (l : CLog) (ms : List Msg) (e : Int) (h : Inv l) (hocc : l.occ = true)
    (he : e ≠ -1) :
    ((runPubs l ms).filter (fun pr => pr.2.isOk && decide (pr.1.expected = e))).length ≤ 1 := by
  rw [runPubs_eq]; exact Occ.at_most_one ms e he l h hocc

/-- Every stored publish of a history got a distinct offset, and the log grew by exactly the
stored ones, in arrival order. -/
theorem stored_are_appended (l : CLog) (ms : List Msg) (h : Inv l) (hocc : l.occ = true) :
    (finalLog l ms).abs = l.abs ++ (runPubs l ms).filterMap (fun pr =>
      match pr.2 with
      | .ok o => some { offset := o, ts := pr.1.ts, epoch := pr.1.epoch, body := pr.1.body }
      | _ => none) := by
  rw [finalLog_eq, runPubs_eq]; exact Occ.stored_appended ms l h

/-- With concurrency control a batch of more than one message is not processed (it panics):
the reason the sequencer forces the batch size to 1. -/
theorem batch_panics (l : CLog) (ms : List Msg) (hocc : l.occ = true) (hro : l.readonly = false)
    (hlen : 1 < ms.length) : l.append ms = .panic :=
  Occ.batch_panics l ms hocc hro hlen

/-- The sequencer really does process one message at a time on such streams, and the API
refuses the NONE ack policy for them (facts regenerated from partition.go / api.go). -/
theorem sequencer_single_message : Gen.Partition.occBatchOne = true ∧ Gen.Partition.occRefusesAckNone = true := by
  decide

/-- Non-vacuity: a race of three publishers on offset 0 of a fresh OCC log — exactly one wins. -/
example : ((runPubs (CLog.init 100 true)
    [{ ts := 1, epoch := 1, body := ⟨none, some [1], []⟩, expected := 0 },
     { ts := 2, epoch := 1, body := ⟨none, some [2], []⟩, expected := 0 },
     { ts := 3, epoch := 1, body := ⟨none, some [3], []⟩, expected := 0 }]).map (fun pr => pr.2.isOk))
    = [true, false, false] := by decide

end Liftbridge.Props.C16
