/-
The failure detector of the hand-written failover model IS the translated Go code.

`Gen/GoFailover.lean` is regenerated on every run from the bodies of `failoverStatus.report`,
`partitionFailover.Quorum` / `IsWitness` / `Timeout` (server/failover.go) and `partition.inISR` /
`ISRSize` / `GetLeader` (server/partition.go). `go_report` states, for EVERY witness map, in-sync set,
leader, timer state and reporter: the report is recorded, the witnesses counted are exactly the recorded
reporters that are in the in-sync set NOW and are not the leader, `Failover` runs iff that count exceeds
`(|ISR| - 1) / 2` (Go's truncating division), and otherwise the timer is reset (or created). The
count and the quorum are the model's (`counted_is_model`, `quorum_is_model`): `Failover.reports`,
`Failover.quorum`, `Failover.isWitness`, which C07's theorems `quorum_ok`, `failover_entries_fresh`, … are about.
-/
import Liftbridge.Proofs.GoFailover

namespace Liftbridge.Props.GoFailover
open Liftbridge Liftbridge.GoMini Liftbridge.GoCode
open Liftbridge.Gen.GoFailover

/-- every construct of the translated functions is inside the subset -/
theorem translation_complete : unsupported = [] := rfl

set_option maxRecDepth 8000 in
set_option maxHeartbeats 1600000 in
theorem go_report (W : List (String × Val)) (timer : Bool) (isr : List String) (leader : String) (epoch timeout : Int)
    (ctx : Val) (w : String) :
    effView (run prog timerExt 40 "report" (some (encStatus W timer isr leader epoch timeout)) [ctx, .str w]) =
      some ([.nil],
        if (counted isr leader (update w (.struct []) W) : Int) > Int.tdiv ((isr.length : Int) - 1) 2 then
          (if timer then [("Stop", [])] else []) ++ [("Failover", [ctx])]
        else if timer then [("Reset", [.int timeout])] else [("time.AfterFunc", [.int timeout, .nil])]) := by
  have hl := report_loop timerExt 19 isr leader epoch timeout (update w (.struct []) W) 0
  have hrep := repSt_reports isr leader (update w (.struct []) W) 0
  have hff := repSt_frame isr leader "f" (by decide) (by decide) (update w (.struct []) W) 0
  have hfc := repSt_frame isr leader "ctx" (by decide) (by decide) (update w (.struct []) W) 0
  simp [run, runG, fn_failoverStatus_report, gomini, encStatus, assignTo]
  rw [hl _ (by simp [gomini]) ⟨[("witnesses", .struct (update w (.struct []) W)), ("timer", if timer then .struct [] else .nil),
      ("failover", encFO isr leader epoch timeout)], by simp [gomini], by simp [gomini]⟩]
  have hlen : ((encSet isr).length : Int) = isr.length := by simp [encSet]
  by_cases hq : (counted isr leader (update w (.struct []) W) : Int) > Int.tdiv ((isr.length : Int) - 1) 2
  · have hq' : Int.tdiv ((isr.length : Int) - 1) 2 <
        ((List.filter (fun e => !decide (e.fst = leader) && decide (e.fst ∈ isr)) (update w (Val.struct []) W)).length : Int) := by
      simpa [counted] using hq
    cases timer <;>
      simp [gomini, hrep, hff, hfc, repSt_eff, fn_partitionFailover_Quorum, fn_partition_ISRSize, fn_partitionFailover_Timeout,
        encFO, encPartition, binInt, hlen, counted, effView, timerExt, hq', builtin, convert]
  · have hq' : ¬ (Int.tdiv ((isr.length : Int) - 1) 2 <
        ((List.filter (fun e => !decide (e.fst = leader) && decide (e.fst ∈ isr)) (update w (Val.struct []) W)).length : Int)) := by
      simpa [counted] using hq
    cases timer <;>
      simp [gomini, hrep, hff, hfc, repSt_eff, fn_partitionFailover_Quorum, fn_partition_ISRSize, fn_partitionFailover_Timeout,
        encFO, encPartition, binInt, hlen, counted, effView, timerExt, hq', builtin, convert]

/-- what the code counts is what the model counts (`Failover.reports` with follower-only witnesses) -/
theorem counted_is_model (pt : Failover.Part) (ws : List String) :
    counted pt.isr pt.leader (encSet ws) = (ws.filter (Failover.isWitness pt)).length := by
  induction ws with
  | nil => simp [counted, encSet]
  | cons a rest ih =>
    simp only [counted, encSet, List.map_cons, List.filter_cons, Failover.isWitness] at ih ⊢
    by_cases h : (decide (a ≠ pt.leader) && decide (a ∈ pt.isr)) = true
    · simp only [h, ↓reduceIte, List.length_cons]; omega
    · simp only [h, Bool.false_eq_true, ↓reduceIte]; exact ih

/-- the quorum of the code (`(ISRSize() - 1) / 2`, truncating) is the model's -/
theorem quorum_is_model (pt : Failover.Part) :
    Int.tdiv ((pt.isr.length : Int) - 1) 2 = (Failover.quorum pt : Int) := by
  have hc : Gen.Failover.quorumSub = 1 ∧ Gen.Failover.quorumDiv = 2 := by decide
  simp only [Failover.quorum, hc.1, hc.2]
  cases hn : pt.isr.length with
  | zero => decide
  | succ n =>
    have : ((n + 1 : Nat) : Int) - 1 = (n : Int) := by omega
    rw [this, Int.tdiv_eq_ediv_of_nonneg (by omega)]
    simp

end Liftbridge.Props.GoFailover
