/-
C19 at the level of the function bodies: the two places where "telemetry is switched off" is decided,
translated from the code.

`Gen/GoTelemetry.lean` is regenerated on every run from `telemetry.Collector.Start` and
`parseTelemetryConfig` (server/config.go). Starting the reporting goroutine is an effect (`go:run`) of the
translated body; the configuration source (viper) is an external call whose answers are parameters.

* `Collector.Start` on a collector whose config says disabled: no goroutine is started, nothing else happens;
  enabled: exactly one.
* `parseTelemetryConfig`: when the source has the `enabled` key, `Config.Telemetry.Enabled` becomes exactly
  what the source says - whatever the interval key says, set or not, positive or not; without the key it
  keeps its value. The interval never touches `Enabled`.
-/
import Liftbridge.Proofs.GoCodeBase
import Liftbridge.Gen.GoTelemetry

namespace Liftbridge.Props.GoTelemetry
open Liftbridge Liftbridge.GoMini Liftbridge.GoCode
open Liftbridge.Gen.GoTelemetry

/-- every construct of the translated functions is inside the subset -/
theorem translation_complete : unsupported = [] := rfl

def encCollector (enabled : Bool) : Val :=
  .struct [("config", .struct [("Enabled", .bool enabled), ("Interval", .int 3600)]), ("wg", .struct [("n", .int 0)]), ("instanceID", .str "id")]

/-- the names of the external calls / effects, in order -/
def effects : R Out → Option (List String)
  | .ok o => some (o.eff.map (·.1))
  | _ => none

set_option maxRecDepth 8000 in
/-- a disabled collector starts nothing -/
theorem go_Start_disabled (ext : Ext) :
    effects (runG prog ext 20 "Start" (some (encCollector false)) [] []) = some [] := by
  simp [runG, fn_Collector_Start, prog, gomini, encCollector, effects]

set_option maxRecDepth 8000 in
/-- an enabled one registers with its wait group and starts exactly one reporting goroutine -/
theorem go_Start_enabled (ext : Ext) :
    effects (runG prog ext 20 "Start" (some (encCollector true)) [] []) = some ["Add", "go:run"] := by
  cases h1 : ext "Add" [Val.struct [("n", Val.int 0)], Val.int 1] [] <;>
  cases h2 : ext "go:run" [] [("Add", [Val.int 1])] <;>
    simp [runG, fn_Collector_Start, prog, gomini, encCollector, effects, builtin, h1, h2]

/-- the configuration source: is the key set, and what it holds -/
structure Source where
  enabledSet : Bool
  enabled : Bool
  intervalSet : Bool
  interval : Int

def srcExt (s : Source) : Ext := fun f args _ =>
  match f, args with
  | "IsSet", [_, .str k] => some (.bool (if k = "telemetry.enabled" then s.enabledSet else if k = "telemetry.interval.seconds" then s.intervalSet else false))
  | "GetBool", [_, .str k] => some (.bool (if k = "telemetry.enabled" then s.enabled else false))
  | "GetInt", [_, .str k] => some (.int (if k = "telemetry.interval.seconds" then s.interval else 0))
  | _, _ => none

def encConfig (enabled : Bool) (interval : Int) : Val :=
  .struct [("Telemetry", .struct [("Enabled", .bool enabled), ("IntervalSeconds", .int interval)])]

def keys : List (String × Val) :=
  [("configTelemetryEnabled", .str "telemetry.enabled"), ("configTelemetryIntervalSeconds", .str "telemetry.interval.seconds")]

/-- the `*Config` after the call: `config` is a pointer parameter, so the body is run on a state in which `config`
is bound and the variable's final value is read (what `runG` does for a receiver) -/
def configAfter (s : Source) (cfg : Val) : Option Val :=
  match runBlock (exec prog (srcExt s) 30) fn_parseTelemetryConfig.body
      { env := envOf ([("config", cfg), ("v", .str "viper")] ++ keys), eff := [] } with
  | .ok (_, st) => st.env "config"
  | _ => none

set_option maxRecDepth 8000 in
/-- `Enabled` after parsing = what the source says when it has the key, else unchanged - for EVERY interval setting;
`IntervalSeconds` likewise follows its own key only -/
theorem go_parseTelemetryConfig (s : Source) (enabled : Bool) (interval : Int) :
    configAfter s (encConfig enabled interval) =
      some (encConfig (if s.enabledSet then s.enabled else enabled) (if s.intervalSet then s.interval else interval)) := by
  obtain ⟨es, e, is, i⟩ := s
  cases es <;> cases is <;>
    simp [configAfter, fn_parseTelemetryConfig, prog, gomini, encConfig, keys, srcExt, update, builtin]

/-- the opt-out survives any interval: `telemetry.enabled: false` in the source gives `Enabled = false` -/
theorem optout_wins (s : Source) (h1 : s.enabledSet = true) (h2 : s.enabled = false) (enabled : Bool) (interval : Int) :
    ∃ iv, configAfter s (encConfig enabled interval) = some (encConfig false iv) := by
  rw [go_parseTelemetryConfig, h1, h2]
  exact ⟨_, rfl⟩

end Liftbridge.Props.GoTelemetry
