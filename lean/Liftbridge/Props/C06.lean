/-
C06 — Cluster metadata is a deterministic, restart-stable state machine.

Theorems about `Liftbridge.Metadata` (model of server/fsm.go `apply` / `Snapshot` / `Restore` /
`finishedRecovery` and the metadata.go / stream.go / partition.go / groups.go mutators they call) for
EVERY history of create / delete / pause / resume / read-only / ISR-shrink / ISR-expand /
leader-change / consumer-group operations that passes the propose-time checks (`Valid`), EVERY
position of the snapshot and EVERY crash point — by a simulation between the live server and the
replaying server (`Proofs.Metadata.Sim`) kept by every log entry, established by `Restore ∘ Snapshot`
and discharged by `finishedRecovery`.  Only property statements here; lemmas are in
`Liftbridge/Proofs/Metadata.lean`.

A history is split as `pre ++ suf` (snapshot after `pre`, `suf` replayed; `pre = []` is the restart
without snapshot) or `pre ++ mid ++ post` (additionally: the server crashed after `pre ++ mid`, which
fixes what is on its disk).  Log entry `j` (0-based) carries Raft index `j + 1`.

The model carries four behavioural switches (`Cfg`, regenerated from the source: `Cfg.current`), one
per repair proposed below, so the same theorems speak about the code as found, about every partially
repaired tree and about the fully repaired one.

The full-strength statement `replay_split_asStated cfg` (ALL observable fields: paused / read-only
flags as kept at run time and as reported, consumer-group epochs included) is
  * FALSE whenever one of the four defects is in the code — `decide`d witnesses, each replayed on the
    real server by the harness:
      `paused-flag-survives-resume`       (`…_false_paused`)      fixes/C06-clear-paused.diff
      `readonly-flag-lost-on-restore`     (`…_false_readonly`)    fixes/C06-restore-readonly.diff
      `group-epoch-differs-after-replay`  (`…_false_groupEpoch`)  two root causes:
           replayed deletes tell the groups only at the end    fixes/C12-streamdeleted-sync.diff
           empty subscriber heaps bump the epoch               fixes/C06-group-epoch-empty-heap.diff
  * a THEOREM once all four repairs are in (`replay_split_allRepaired`);
  * in between: `replay_split_partial` (everything but the group epochs, for histories without
    `resume` / `readonly on` before the snapshot point or with the two flag repairs),
    `replay_from_scratch` (no snapshot: holds for the code as found).
-/
import Liftbridge.Model.Metadata
import Liftbridge.Proofs.Metadata
import Liftbridge.Proofs.MetadataGroups

namespace Liftbridge.Props.C06
open Liftbridge Liftbridge.Metadata Liftbridge.Proofs.Metadata

/-! ### Ties to the source that the model relies on without evaluating them (a change breaks the
build of this file and thereby the check; the extractor reports the same as `lost`). -/

/-- Every op of `enum Op` is either dispatched by `Server.apply` to the function the model mirrors
or is one of the two ops that are never written to the Raft log. -/
theorem dispatch_complete :
    Gen.Metadata.opEnum.all (fun op =>
      (Gen.Metadata.dispatch.map (·.1)).contains op ||
        ["REPORT_LEADER", "REPORT_CONSUMER_GROUP_COORDINATOR"].contains op) = true ∧
    Gen.Metadata.dispatch =
      [("CREATE_STREAM", "s.applyCreateStream"), ("SHRINK_ISR", "s.applyShrinkISR"),
       ("CHANGE_LEADER", "s.applyChangePartitionLeader"), ("EXPAND_ISR", "s.applyExpandISR"),
       ("DELETE_STREAM", "s.applyDeleteStream"), ("PAUSE_STREAM", "s.applyPauseStream"),
       ("SET_STREAM_READONLY", "s.applySetStreamReadonly"), ("RESUME_STREAM", "s.applyResumeStream"),
       ("CREATE_CONSUMER_GROUP", "s.applyCreateConsumerGroup"), ("JOIN_CONSUMER_GROUP", "s.applyJoinConsumerGroup"),
       ("LEAVE_CONSUMER_GROUP", "s.applyLeaveConsumerGroup"),
       ("CHANGE_CONSUMER_GROUP_COORDINATOR", "s.applyChangeConsumerGroupCoordinator"),
       ("PUBLISH_ACTIVITY", "s.activity.SetLastPublishedRaftIndex")] := by
  decide

/-- What a snapshot carries: the protobuf messages have exactly the fields the model knows
(`PartP`, `StreamP`, `GroupP`, `Snap`; `subject/stream/group/replicationFactor/config` are immutable
after creation and not modelled), and `Snapshot()` fills in exactly these. -/
theorem snapshot_fields :
    Gen.Metadata.protoPartitionFields =
      ["subject", "stream", "id", "group", "replicationFactor", "replicas", "leader", "isr", "leaderEpoch",
       "epoch", "paused", "readonly"] ∧
    Gen.Metadata.protoStreamFields = ["name", "subject", "partitions", "config", "creationTimestamp"] ∧
    Gen.Metadata.protoConsumerGroupFields = ["id", "members", "coordinator", "epoch"] ∧
    Gen.Metadata.protoConsumerFields = ["id", "streams"] ∧
    Gen.Metadata.protoSnapshotFields = ["streams", "groups"] ∧
    Gen.Metadata.snapshotStreamFields = ["Name", "Subject", "Config", "Partitions", "CreationTimestamp"] ∧
    Gen.Metadata.snapshotGroupFields = ["Id", "Coordinator", "Epoch", "Members"] := by
  decide

/-- `Members[].Streams` of a snapshot come from `consumerGroup.GetMembers`, which lists every member
with its SUBSCRIPTION set (`consumer.streams`, the model's `Group.members`) — whether or not the
member currently holds a partition of each stream (`snapGroup` writes exactly `g.members`). -/
theorem snapshot_member_streams_are_subscriptions :
    Gen.Metadata.getMembersRanges = ["c.members", "member.streams"] ∧
    ∀ g : Metadata.Group, (Metadata.snapGroup g).members = g.members := by
  exact ⟨by decide, fun _ => rfl⟩

/-- Shape of the recovery code: a replayed delete only tombstones (no group notification), a
replayed create un-tombstones (Close + removeStream), `finishedRecovery` purges and starts,
`Restore` = `Reset` + create(recovered, epoch 0) + createGroup(recovered). -/
theorem recovery_shape :
    Gen.Metadata.removeStreamCalls = ["stream.Tombstone", "m.deleteStream", "stream.GetPartitions"] ∧
    Gen.Metadata.addStreamCalls =
      ["existing.IsTombstoned", "existing.Close", "m.removeStream", "m.addPartition", "m.removeStream"] ∧
    Gen.Metadata.finishedRecoveryCalls =
      ["stream.IsTombstoned", "s.metadata.RemoveTombstonedStream", "partition.StartRecovered", "group.StartRecovered"] ∧
    Gen.Metadata.restoreCalls =
      ["s.metadata.Reset()", "s.applyCreateStream(stream,true,0)", "s.applyCreateConsumerGroup(group,true)"] := by
  decide

/-! ### (1) determinism -/

/-- **Determinism.** The state after a history is a function of the history (the model has no other
input: no clock, no map iteration order, no goroutine timing).  The substance of this clause is the
correspondence: the harness applies every history to two fresh real servers and compares them with
each other and with this function after every op. -/
theorem deterministic (cfg : Cfg) (ops₁ ops₂ : List Op) (h : ops₁ = ops₂) : run cfg ops₁ = run cfg ops₂ := by
  rw [h]

/-- `Server.apply` fails on no op that the propose-time checks accepted (`Server.Apply` would panic). -/
theorem valid_op_applies (cfg : Cfg) (s : State) (i : Nat) (h : Inv cfg s i) (op : Op) (hp : pre s op = true) :
    applyErr s op (i + 1) false = none := by
  have hle : ∀ g ∈ s.groups, g.epoch ≤ i := h.ep
  cases op with
  | create sp =>
    simp only [pre, Bool.and_eq_true, Bool.not_eq_true', decide_eq_true_eq] at hp
    obtain ⟨⟨⟨h1, h2⟩, _⟩, h4⟩ := hp
    have hnone : findStream s.streams sp.name = none := by
      unfold findStream
      rw [List.find?_eq_none]
      intro st hst hn
      have : hasStream s sp.name = true := hasStream_iff.2 ⟨st, hst, by simpa using hn⟩
      rw [h4] at this; cases this
    simp [applyErr, addStreamErr, h1, h2, hnone]
  | delete n => simp only [pre] at hp; simp [applyErr, hp]
  | pause n ids ra => simp only [pre, Bool.and_eq_true] at hp; simp [applyErr, hp.1, hp.2]
  | resume n ids => simp only [pre, Bool.and_eq_true] at hp; simp [applyErr, hp.1, hp.2]
  | readonly n ids ro => simp only [pre, Bool.and_eq_true] at hp; simp [applyErr, hp.1, hp.2]
  | shrink n pid r =>
    simp only [pre] at hp
    simp only [applyErr]
    split at hp
    · next p hpp =>
      have : r ∈ p.replicas := by simpa using hp
      simp [hpp, this]
    · cases hp
  | expand n pid r =>
    simp only [pre] at hp
    simp only [applyErr]
    split at hp
    · next p hpp =>
      have : r ∈ p.replicas := by simpa using hp
      simp [hpp, this]
    · cases hp
  | leader n pid l =>
    simp only [pre, hasPart] at hp
    simp only [applyErr, getPart]
    cases hfs : findStream s.streams n with
    | none => simp [hfs] at hp
    | some st =>
      simp only [hfs] at hp ⊢
      have hst : st ∈ s.streams := List.mem_of_find?_eq_some hfs
      obtain ⟨p, hpm, hpid⟩ := List.any_eq_true.1 hp
      cases hf : findPart st.parts pid with
      | none =>
        unfold findPart at hf
        rw [List.find?_eq_none] at hf
        exact absurd hpid (hf p hpm)
      | some q =>
        have hq : q ∈ st.parts := List.mem_of_find?_eq_some hf
        have hle := (h.sync st hst q hq).le
        simp only
        by_cases hs : staleLeader q (i + 1) = true
        · simp [hs]
        · have : leaderRefused q (i + 1) = false := by
            have h1 : ¬ q.epoch ≥ i + 1 := by
              simpa [staleLeader, Gen.Metadata.leaderEpochGuard, Cmp.evalNat] using hs
            simp [leaderRefused, Gen.Metadata.setLeaderGuard, Cmp.evalNat]; omega
          simp [hs, this]
  | group gp =>
    simp only [pre, Bool.and_eq_true, Bool.not_eq_true'] at hp
    simp [applyErr, hp.1.1.1]
  | join gid cid ss =>
    simp only [pre] at hp
    simp only [applyErr]
    split at hp
    · next g hg =>
      simp only [hg]
      have hmem : g ∈ s.groups := List.mem_of_find?_eq_some hg
      have : Gen.Groups.epochAddCmp.evalNat (i + 1) g.epoch = false := by
        have := hle g hmem
        simp [Gen.Groups.epochAddCmp, Cmp.evalNat]; omega
      simp [this]
    · cases hp
  | leave gid cid =>
    simp only [pre] at hp
    simp only [applyErr]
    split at hp
    · next g hg =>
      simp only [hg]
      have hmem : g ∈ s.groups := List.mem_of_find?_eq_some hg
      have : Gen.Groups.epochRemoveCmp.evalNat (i + 1) g.epoch = false := by
        have := hle g hmem
        simp [Gen.Groups.epochRemoveCmp, Cmp.evalNat]; omega
      simp [this, hp]
    · cases hp
  | coord gid c =>
    simp only [pre] at hp
    simp only [applyErr]
    obtain ⟨g, hg, hgid⟩ := List.any_eq_true.1 hp
    cases hf : findGroup s.groups gid with
    | none =>
      unfold findGroup at hf
      rw [List.find?_eq_none] at hf
      exact absurd hgid (hf g hg)
    | some q =>
      have hmem : q ∈ s.groups := List.mem_of_find?_eq_some hf
      have h1 : Gen.Metadata.setCoordinatorGuard.evalNat (i + 1) q.epoch = false := by
        have := hle q hmem
        simp [Gen.Metadata.setCoordinatorGuard, Cmp.evalNat]; omega
      simp [h1]
  | activity k => rfl
  | unknown => simp [pre] at hp


/-- The invariant of the live server after a valid history whose ops all keep the run-time and the
protobuf flags in step (`OpOK`: automatic for the repaired code). -/
theorem live_invariant (cfg : Cfg) (ops : List Op) (hv : Valid cfg ops) (hok : ∀ op ∈ ops, OpOK cfg op) :
    Inv cfg (run cfg ops) ops.length := by
  have := inv_run cfg ops init 0 (inv_init cfg) hv hok
  rwa [Nat.zero_add] at this

/-- On the repaired code every op is `OpOK`. -/
theorem opOK_repaired (cfg : Cfg) (h1 : cfg.clearPaused = true) (h2 : cfg.restoreReadonly = true) (op : Op) :
    OpOK cfg op := ⟨Or.inl h1, Or.inl h2⟩

/-! ### (2) restart from any snapshot + replay split -/

/-- **The full-strength statement** for a given behaviour of the code: for every valid history, every
split into a snapshotted prefix and a replayed suffix, and whatever is on disk, the restarted server
shows ALL the observable metadata of the live server. -/
def replay_split_asStated (cfg : Cfg) : Prop :=
  ∀ (pre suf : List Op), Valid cfg (pre ++ suf) → ∀ (d : List String),
    obs (replay cfg (run cfg pre) d pre.length suf) = obs (run cfg (pre ++ suf))

def sA : StreamP := { name := "a", subject := "sa", ctime := 11, parts := [{ id := 0, replicas := ["b", "c", "d"], isr := ["b", "c", "d"], leader := "b" }] }
def sS : StreamP := { name := "s", subject := "ss", ctime := 22, parts := [{ id := 0, replicas := ["b", "c", "d"], isr := ["b", "c", "d"], leader := "b" }] }

/-- F-C06-a: `create a; pause a; resume a`, snapshot, restart: the partition comes back PAUSED
(`Pause` sets the protobuf flag, `ResumePartition` never clears it, `addPartition` re-pauses). -/
def witnessPaused : List Op := [.create sA, .pause "a" [] false, .resume "a" [0]]

/-- `create a; readonly a on`, snapshot, restart: the partition's new commit log is writable. -/
def witnessReadonly : List Op := [.create sA, .readonly "a" [] true]

/-- `create a; group g{m1:a}; delete a; create s` replayed from scratch: the group hears of the
deletion at the END of the replay (`RemoveTombstonedStream(stream, last index)`) and ends with epoch 4,
the live server has epoch 3. -/
def witnessGroupEpoch : List Op :=
  [.create sA, .group { id := "g", coordinator := "x", epoch := 0, members := [("m1", ["a"])] }, .delete "a", .create sS]

theorem witnessPaused_valid (cfg : Cfg) : Valid cfg witnessPaused := by
  cases cfg with | mk a b c d => cases a <;> cases b <;> cases c <;> cases d <;> decide

theorem witnessReadonly_valid (cfg : Cfg) : Valid cfg witnessReadonly := by
  cases cfg with | mk a b c d => cases a <;> cases b <;> cases c <;> cases d <;> decide

theorem witnessGroupEpoch_valid (cfg : Cfg) : Valid cfg witnessGroupEpoch := by
  cases cfg with | mk a b c d => cases a <;> cases b <;> cases c <;> cases d <;> decide

/-- **`replay_split_asStated` is false on the code as found: the paused flag.** -/
theorem replay_split_asStated_false_paused : ¬ replay_split_asStated Cfg.asFound := by
  intro h
  have := h witnessPaused [] (witnessPaused_valid _) []
  revert this
  decide

/-- **… and the read-only flag.** -/
theorem replay_split_asStated_false_readonly : ¬ replay_split_asStated Cfg.asFound := by
  intro h
  have := h witnessReadonly [] (witnessReadonly_valid _) []
  revert this
  decide

/-- `create a; group g{m1:-}; join g m2{a}; leave g m2`, snapshot, `delete a`: the live group still
has an (empty) subscriber heap for `a` and bumps its epoch, the restored group has none. -/
def witnessEmptyHeapPre : List Op :=
  [.create sA, .group { id := "g", coordinator := "x", epoch := 0, members := [("m1", [])] }, .join "g" "m2" ["a"], .leave "g" "m2"]

theorem witnessEmptyHeap_valid (cfg : Cfg) : Valid cfg (witnessEmptyHeapPre ++ [.delete "a"]) := by
  cases cfg with | mk a b c d => cases a <;> cases b <;> cases c <;> cases d <;> decide

/-- **… and the consumer-group epoch**, as long as either of its two root causes is in the code:
a replayed delete that does not tell the groups (`notifyOnTombstone = false`), or an empty subscriber
heap that bumps the epoch (`emptyHeapNoEpoch = false`) — whatever the other switches are. -/
theorem replay_split_asStated_false_groupEpoch (cfg : Cfg)
    (hc : cfg.notifyOnTombstone = false ∨ cfg.emptyHeapNoEpoch = false) : ¬ replay_split_asStated cfg := by
  intro h
  rcases hc with hc | hc
  · have := h [] witnessGroupEpoch (witnessGroupEpoch_valid cfg) []
    revert this
    cases cfg with | mk a b c d =>
      simp only at hc; subst hc
      cases a <;> cases b <;> cases d <;> decide
  · have := h witnessEmptyHeapPre [.delete "a"] (witnessEmptyHeap_valid cfg) []
    revert this
    cases cfg with | mk a b c d =>
      simp only at hc; subst hc
      cases a <;> cases b <;> cases c <;> decide

/-- The flag defects are gone on the repaired code (same witnesses); the group-epoch witnesses are
gone on the fully repaired code. -/
theorem witnesses_allRepaired :
    obs (replay Cfg.allRepaired init [] 0 witnessGroupEpoch) = obs (run Cfg.allRepaired witnessGroupEpoch) ∧
    obs (replay Cfg.allRepaired (run Cfg.allRepaired witnessEmptyHeapPre) [] 4 [.delete "a"]) =
      obs (run Cfg.allRepaired (witnessEmptyHeapPre ++ [.delete "a"])) := by
  decide

/-- The two flag defects are gone on the repaired code (same witnesses). -/
theorem witnesses_repaired :
    obs (replay Cfg.repaired (run Cfg.repaired witnessPaused) [] 3 []) = obs (run Cfg.repaired witnessPaused) ∧
    obs (replay Cfg.repaired (run Cfg.repaired witnessReadonly) [] 2 []) = obs (run Cfg.repaired witnessReadonly) := by
  decide

/-- **Restart stability (strongest true variant).**  For EVERY valid history `pre ++ suf`, whatever
the crashed server left on disk: a server that restores the snapshot taken after `pre`, replays `suf`
in recovery mode and finishes recovery shows the same streams, partitions, replicas, leaders, ISRs,
partition and leader epochs, paused and read-only flags (run-time AND as reported by FetchMetadata),
consumer groups, coordinators and members with their subscriptions as the live server —
everything in `obs` except the consumer-group epochs (`replay_split_asStated_false_groupEpoch`).
Excluding hypothesis: every op BEFORE THE SNAPSHOT keeps the run-time and protobuf flags in step
(`OpOK`): on the repaired code that is every op; on the code as found it excludes `resume` and
`readonly on` before the snapshot point (`replay_split_asStated_false_paused/_readonly`). -/
theorem replay_split_partial (cfg : Cfg) (pre suf : List Op) (hv : Valid cfg (pre ++ suf))
    (hok : ∀ op ∈ pre, OpOK cfg op) (d : List String) :
    obsNoGroupEpoch (replay cfg (run cfg pre) d pre.length suf) = obsNoGroupEpoch (run cfg (pre ++ suf)) := by
  have hv' := (validFrom_append cfg pre suf init 0).1 hv
  have hinv := inv_run cfg pre init 0 (inv_init cfg) hv'.1 hok
  have hsim := sim_run cfg suf _ _ _ (sim_restore cfg d hinv) hv'.2
  have hrun : run cfg (pre ++ suf) = runFrom cfg false (run cfg pre) (0 + pre.length) suf :=
    runFrom_append cfg false pre suf init 0
  rw [hrun]
  unfold replay
  rw [Nat.zero_add] at hsim ⊢
  exact sim_finish cfg hsim _ (Nat.le_refl _)

/-- The same with the split given as a position `k` in the log. -/
theorem replay_split_partial_at (cfg : Cfg) (ops : List Op) (k : Nat) (hk : k ≤ ops.length) (hv : Valid cfg ops)
    (hok : ∀ op ∈ ops.take k, OpOK cfg op) (d : List String) :
    obsNoGroupEpoch (replay cfg (run cfg (ops.take k)) d k (ops.drop k)) = obsNoGroupEpoch (run cfg ops) := by
  have := replay_split_partial cfg (ops.take k) (ops.drop k) (by rwa [List.take_append_drop]) hok d
  rwa [List.take_append_drop, List.length_take, Nat.min_eq_left hk] at this

/-- **On the repaired code** (fixes/C06-clear-paused.diff + fixes/C06-restore-readonly.diff) the
restart-stability statement holds for every valid history and every split, group epochs aside. -/
theorem replay_split_repaired (pre suf : List Op) (hv : Valid Cfg.repaired (pre ++ suf)) (d : List String) :
    obsNoGroupEpoch (replay Cfg.repaired (run Cfg.repaired pre) d pre.length suf) =
      obsNoGroupEpoch (run Cfg.repaired (pre ++ suf)) :=
  replay_split_partial Cfg.repaired pre suf hv (fun op _ => opOK_repaired _ rfl rfl op) d

/-- **THE FULL-STRENGTH STATEMENT HOLDS ON THE FULLY REPAIRED CODE.**  With the four repairs
(fixes/C06-clear-paused.diff, fixes/C06-restore-readonly.diff, fixes/C12-streamdeleted-sync.diff,
fixes/C06-group-epoch-empty-heap.diff) `replay_split_asStated` is a theorem: for every valid history,
every snapshot position and whatever is on disk, the restarted server shows ALL observable metadata of
the live server — consumer-group epochs included.  Together with the three `…_false_…` theorems:
each of the four repairs is necessary, all four are sufficient. -/
theorem replay_split_allRepaired (cfg : Cfg) (h1 : cfg.clearPaused = true) (h2 : cfg.restoreReadonly = true)
    (h3 : cfg.notifyOnTombstone = true) (h4 : cfg.emptyHeapNoEpoch = true) : replay_split_asStated cfg := by
  intro pre suf hv d
  have hv' := (validFrom_append cfg pre suf init 0).1 hv
  have hinv := inv_run cfg pre init 0 (inv_init cfg) hv'.1 (fun op _ => opOK_repaired cfg h1 h2 op)
  have hsim := simE_run cfg ⟨h3, h4⟩ suf _ _ _ (simE_restore cfg d hinv) hv'.2
  have hrun : run cfg (pre ++ suf) = runFrom cfg false (run cfg pre) (0 + pre.length) suf :=
    runFrom_append cfg false pre suf init 0
  rw [hrun]
  unfold replay
  rw [Nat.zero_add] at hsim ⊢
  exact simE_finish cfg ⟨h3, h4⟩ hsim _ (Nat.le_refl _)

/-- The helper the design names: restoring a snapshot (nothing replayed) loses nothing observable. -/
theorem restore_snapshot_obs (cfg : Cfg) (ops : List Op) (hv : Valid cfg ops) (hok : ∀ op ∈ ops, OpOK cfg op)
    (d : List String) :
    obsNoGroupEpoch (restore cfg { disk := d } (snapshot (run cfg ops))) = obsNoGroupEpoch (run cfg ops) := by
  have hinv := live_invariant cfg ops hv hok
  have hsim := sim_restore cfg d hinv
  rw [obsNoGroupEpoch_eq, obsNoGroupEpoch_eq, hsim.streams, hsim.groups]
  have : tombNames (restore cfg { disk := d } (snapshot (run cfg ops))) = [] := by
    have hstr := (restore_streams cfg d (run cfg ops) hinv.nodup).1
    simp only [tombNames, hstr]
    rw [List.filter_map, List.filter_eq_nil_iff.2]
    · rfl
    · intro st _; simp [Function.comp, mkStream]
  rw [this]

/-! ### (3) restart without a snapshot -/

/-- **Replay from scratch** — for the code AS FOUND and repaired alike (no hypothesis on `cfg`):
a server that lost its snapshots and replays the whole valid log in recovery mode (deletes only
tombstone, creates un-tombstone, purge at the end) shows what the live server shows, group epochs
aside. -/
theorem replay_from_scratch (cfg : Cfg) (ops : List Op) (hv : Valid cfg ops) (d : List String) :
    obsNoGroupEpoch (replay cfg init d 0 ops) = obsNoGroupEpoch (run cfg ops) :=
  replay_split_partial cfg [] ops hv (fun _ h => by cases h) d

/-! ### (4), (5) data directories -/

/-- **No data loss.** Snapshot after `pre`, whatever (`d0`) is on disk at restart, `suf` replayed:
a stream that exists at the end of the log has its data directory after recovery, and if the
directory was there at restart it is there after EVERY replayed entry (never deleted and re-created).
No hypothesis on the flag switches and none on validity. -/
theorem replay_no_data_loss (cfg : Cfg) (pre suf : List Op) (d0 : List String) (x : String)
    (hx : x ∈ names (run cfg (pre ++ suf))) :
    x ∈ (replay cfg (run cfg pre) d0 pre.length suf).disk ∧
    (x ∈ d0 → ∀ a b, suf = a ++ b →
      x ∈ (runFrom cfg true (restore cfg { disk := d0 } (snapshot (run cfg pre))) pre.length a).disk) := by
  have hL : LInv (run cfg pre) := linv_run cfg pre init 0 linv_init
  have hN := nsim_run cfg suf _ _ (0 + pre.length) (nsim_restore cfg d0 hL)
  have hR := rinv_run cfg d0 suf _ (0 + pre.length) (rinv_restore cfg d0 (snapshot (run cfg pre)))
  have hrun : run cfg (pre ++ suf) = runFrom cfg false (run cfg pre) (0 + pre.length) suf :=
    runFrom_append cfg false pre suf init 0
  rw [Nat.zero_add] at hN hR hrun
  constructor
  · unfold replay
    rw [mem_disk_finish]
    rw [← liveNames_eq, hrun, hN.names] at hx
    exact ⟨hR.covers x (liveNames_sub_allNames hx), live_not_tomb hR.nodup hx⟩
  · intro hd a b _
    exact (rinv_run cfg d0 a _ pre.length (rinv_restore cfg d0 (snapshot (run cfg pre)))).keeps x hd

/-- **No resurrection.** Snapshot after `pre`, crash after `pre ++ mid` (so the disk holds what the
live server had then), log `pre ++ mid ++ post` replayed: a stream that does not exist at the end of
the log is not in the metadata after recovery and its data directory is gone. -/
theorem replay_no_resurrection (cfg : Cfg) (pre mid post : List Op) (x : String)
    (hx : x ∉ names (run cfg (pre ++ mid ++ post))) :
    x ∉ names (replay cfg (run cfg pre) (run cfg (pre ++ mid)).disk pre.length (mid ++ post)) ∧
    x ∉ (replay cfg (run cfg pre) (run cfg (pre ++ mid)).disk pre.length (mid ++ post)).disk := by
  have hL : LInv (run cfg pre) := linv_run cfg pre init 0 linv_init
  have hLj : LInv (run cfg (pre ++ mid)) := linv_run cfg (pre ++ mid) init 0 linv_init
  let d0 := (run cfg (pre ++ mid)).disk
  let R0 := restore cfg { disk := d0 } (snapshot (run cfg pre))
  have hN0 : NSim (run cfg pre) R0 := nsim_restore cfg d0 hL
  have hNj := nsim_run cfg mid _ _ (0 + pre.length) hN0
  have hN := nsim_run cfg (mid ++ post) _ _ (0 + pre.length) hN0
  have hR := rinv_run cfg d0 (mid ++ post) _ (0 + pre.length) (rinv_restore cfg d0 (snapshot (run cfg pre)))
  have hrunj : run cfg (pre ++ mid) = runFrom cfg false (run cfg pre) (0 + pre.length) mid :=
    runFrom_append cfg false pre mid init 0
  have hrun : run cfg (pre ++ mid ++ post) = runFrom cfg false (run cfg pre) (0 + pre.length) (mid ++ post) := by
    rw [List.append_assoc]; exact runFrom_append cfg false pre (mid ++ post) init 0
  have hsplit : runFrom cfg true R0 (0 + pre.length) (mid ++ post) =
      runFrom cfg true (runFrom cfg true R0 (0 + pre.length) mid) (0 + pre.length + mid.length) post :=
    runFrom_append cfg true mid post R0 (0 + pre.length)
  rw [Nat.zero_add] at hNj hN hR hrunj hrun hsplit
  rw [← liveNames_eq, hrun, hN.names] at hx
  constructor
  · unfold replay
    rw [← liveNames_eq, liveNames_finish]
    exact hx
  · unfold replay
    rw [mem_disk_finish]
    rintro ⟨hdisk, hnt⟩
    have hall : x ∈ allNames (runFrom cfg true R0 pre.length (mid ++ post)) := by
      rcases hR.bound x hdisk with h1 | h1
      · have h2 : x ∈ allNames (run cfg (pre ++ mid)) := hLj.disk x h1
        rw [← liveNames_eq_allNames hLj.noTomb, hrunj, hNj.names] at h2
        rw [hsplit]
        exact allNames_mono_run cfg post _ _ (liveNames_sub_allNames h2)
      · exact h1
    obtain ⟨st, hst, hstn⟩ := List.mem_map.1 hall
    cases ht : st.tombstone with
    | true => exact hnt (mem_tombNames.2 ⟨st, hst, ht, hstn⟩)
    | false => exact hx (mem_liveNames.2 ⟨st, hst, ht, hstn⟩)

/-! ### the consumer groups of this model are those of C12 -/

open Liftbridge.Proofs.MetadataGroups in
/-- **The group component is the projection of the C12 model** (Model/Groups.lean, which also
carries partition assignments and heap contents): join, leave, stream-deleted and construction from a
protobuf of the C12 model, seen through `Refines` (members with subscriptions, heap keys, epoch), are
the operations used here — for every partition-count function. Assignments cannot influence anything
C06 observes. -/
theorem group_component_is_projection (parts : String → Nat) :
    (∀ (lg : Group) (g g' : Groups.Group) (id : String) (streams : List String) (e : Nat), Refines lg g →
      Groups.join parts g id streams e = .ok g' → Refines { addMember lg (id, streams) with epoch := e } g') ∧
    (∀ (lg : Group) (g g' : Groups.Group) (id : String) (e : Nat), Refines lg g →
      Groups.leave parts g id e = .ok g' →
      Refines { lg with members := lg.members.filter (fun m => decide (m.1 ≠ id)), epoch := e } g') ∧
    (∀ (cfg : Cfg) (lg : Group) (g : Groups.Group) (s : String) (e : Nat),
      cfg.emptyHeapNoEpoch = Gen.Groups.emptyHeapKeepsEpoch →
      Proofs.Groups.Inv parts g → Refines lg g →
      Refines (notifyGroup cfg s e lg) (Groups.applyOp parts g (.deleted s e))) ∧
    (∀ (gp : GroupP) (r : Bool), (gp.members.map (·.1)).Nodup →
      Refines (mkGroup gp r) (gp.members.foldl (fun g m => Groups.addMember parts m.1 m.2 g) (Groups.Group.new gp.epoch))) :=
  ⟨fun _ _ _ id streams e h hok => join_refines parts id streams e h hok,
   fun _ _ _ id e h hok => leave_refines parts id e h hok,
   fun cfg _ _ s e hc hinv h => deleted_refines parts cfg hc s e hinv h,
   fun gp r hnd => mkGroup_refines parts gp r hnd⟩

/-! ### a snapshot installed on a running server (Restore resets, then re-adds) -/

/-- `metadataAPI.Reset` forgets every stream and every consumer group (regenerated list of the
fields it re-makes) and resets the failover table. -/
theorem reset_forgets_everything (s : State) :
    (resetState s).streams = [] ∧ (resetState s).groups = [] ∧ Gen.Metadata.resetFailovers = true := by
  have h1 : "m.streams" ∈ Gen.Metadata.resetClears := by decide
  have h2 : "m.consumerGroups" ∈ Gen.Metadata.resetClears := by decide
  exact ⟨by simp [resetState, h1], by simp [resetState, h2], by decide⟩

/-- Installing a snapshot on a server in ANY state `s` is restoring it on a freshly started server
with the same data directory: nothing of the previous metadata survives `Restore`. -/
theorem install_is_restore (cfg : Cfg) (s : State) (snap : Snap) :
    install cfg s snap = restore cfg { disk := s.disk, lastPublished := s.lastPublished } snap := by
  have h := reset_forgets_everything s
  have hr : resetState s = { ({ disk := s.disk, lastPublished := s.lastPublished } : State) with streams := [], groups := [] } := by
    have hd : (resetState s).disk = s.disk := rfl
    have hl : (resetState s).lastPublished = s.lastPublished := rfl
    cases hs : resetState s with
    | mk st gr d lp => simp [hs] at h hd hl; simp [h.1, h.2, hd, hl]
  simp only [install, restore, hr]

/-- Two servers with the same data directory that install the same snapshot end in the same state,
whatever each of them had applied before. -/
theorem install_discards_prior_state (cfg : Cfg) (s1 s2 : State) (snap : Snap)
    (hd : s1.disk = s2.disk) (hl : s1.lastPublished = s2.lastPublished) :
    install cfg s1 snap = install cfg s2 snap := by
  rw [install_is_restore, install_is_restore, hd, hl]

/-- An install never fails on a group id the server knew before (it would on a server whose `Reset`
keeps the consumer groups registered). -/
theorem install_never_refuses_known_group (s : State) (snap : Snap) : installErr s snap = none := by
  have h := (reset_forgets_everything s).2.1
  simp [installErr, h]

/-- non-vacuity: a server that knows a group installs a snapshot carrying the same group -/
example : let s := run Cfg.asFound [.create sA, .group { id := "g", coordinator := "x", epoch := 0, members := [("m1", ["a"])] }]
    (install Cfg.asFound s (snapshot s)).groups.map (·.id) = ["g"] ∧ s.groups.map (·.id) = ["g"] := by decide

/-! ### non-vacuity and recorded observations -/

/-- `Valid` is satisfiable by a history that uses every kind of op, deletes and re-creates a stream
and empties and re-creates a group. -/
example : Valid Cfg.asFound
    [.create sA, .create sS, .pause "a" [0] true, .readonly "s" [] true, .shrink "a" 0 "c", .expand "a" 0 "c",
     .leader "a" 0 "c", .group { id := "g", coordinator := "x", epoch := 0, members := [("m1", ["a", "s"])] },
     .join "g" "m2" ["s"], .resume "a" [0], .delete "a", .create sA, .leave "g" "m1", .leave "g" "m2",
     .group { id := "g", coordinator := "y", epoch := 0, members := [("m1", ["a"])] }, .coord "g" "z", .activity 3] := by
  decide

/-- A replay in which a deleted stream is re-created keeps the directory through the whole replay
(un-tombstone) while the live server had deleted and re-created it. -/
example : (runFrom Cfg.asFound true ({ disk := ["a"] } : State) 0 [.create sA, .delete "a"]).disk = ["a"] ∧
    (run Cfg.asFound [.create sA, .delete "a"]).disk = [] := by decide

/-- Observation (not claimed as a violation of C06: `resumeAll` is not among the listed fields):
`stream.resumeAll` is not part of the snapshot, a restart forgets it. -/
example :
    (run Cfg.asFound [.create sA, .pause "a" [] true]).streams.map (·.resumeAll) = [true] ∧
    (restore Cfg.asFound {} (snapshot (run Cfg.asFound [.create sA, .pause "a" [] true]))).streams.map (·.resumeAll) = [false] := by
  decide

/-- Observation: partitions restored from a snapshot stay in recovery mode until `finishedRecovery`
runs; `Server.Apply` calls it only when at least one log entry is replayed (slice C18 reproduced the
consequence on a real server: tag `activity-stalled-after-snapshot-restart`). -/
example :
    ((restore Cfg.asFound {} (snapshot (run Cfg.asFound [.create sA]))).streams.map fun st => st.parts.map (·.recovered)) = [[true]] ∧
    ((finish Cfg.asFound (restore Cfg.asFound {} (snapshot (run Cfg.asFound [.create sA]))) 1).streams.map fun st => st.parts.map (·.recovered)) = [[false]] := by
  decide

end Liftbridge.Props.C06
