/-
C08 at the level of the function body: the pieces of compact_cleaner.go around `cleanSegment` that decide WHICH offset a key's
table entry names and in WHAT ORDER an emptied segment disappears - translated from the code (`Gen/GoCompactAux.lean`,
regenerated on every run).

* `go_keyOffset_set`: `set` only ever RAISES the stored offset (`max`), for every stored and offered offset. The segments are
  scanned by several goroutines in no fixed order (`scanSegments` ranges over a channel under a label and stays outside the
  subset), so the table entry of a key is a fold of `set` over its offsets in SOME order: `fold_set_perm` - the result is the
  same for every order (it is the maximum, `fold_set_max`), i.e. the latest offset of the key whatever the schedule.
* `go_keyOffset_get`: the stored offset.
* `go_cleanupEmptySegment`: the new (empty) segment is deleted FIRST; if that fails nothing else happens (the old segment keeps
  its data); otherwise the old segment is flagged `replaced` (readers re-initialise instead of failing) and deleted; the result
  is the old segment's delete result.
-/
import Liftbridge.Proofs.GoCodeBase
import Liftbridge.Gen.GoCompactAux

set_option linter.unusedSimpArgs false

namespace Liftbridge.Props.GoCompactAux
open Liftbridge Liftbridge.GoMini Liftbridge.GoCode
open Liftbridge.Gen.GoCompactAux

theorem translation_complete : unsupported = [] := rfl

@[simp] theorem lk_set : evalE.lookup' "set" prog = some fn_keyOffset_set := by simp [prog, gomini]
@[simp] theorem lk_get : evalE.lookup' "get" prog = some fn_keyOffset_get := by simp [prog, gomini]
@[simp] theorem lk_cl : evalE.lookup' "cleanupEmptySegment" prog = some fn_cleanupEmptySegment := by simp [prog, gomini]
@[simp] theorem lk_del : evalE.lookup' "Delete" prog = none := by simp [prog, gomini]

def encKO (o : Int) : Val := .struct [("offset", .int o)]

/-- the receiver after the call -/
def recvOffset : R Out → Option Int
  | .ok o => match o.recv with
    | some (.struct [("offset", .int v)]) => some v
    | _ => none
  | _ => none

set_option maxRecDepth 8000 in
set_option maxHeartbeats 1000000 in
theorem go_keyOffset_set_raw (cur offset : Int) :
    recvOffset (runG prog noExt 30 "set" (some (encKO cur)) [.int offset] []) = some (if offset > cur then offset else cur) := by
  by_cases h : offset > cur <;>
    simp [runG, fn_keyOffset_set, gomini, encKO, recvOffset, binVal, binInt, h, getField, setField, lookup, update]

/-- `set` only ever raises the stored offset -/
theorem go_keyOffset_set (cur offset : Int) :
    recvOffset (runG prog noExt 30 "set" (some (encKO cur)) [.int offset] []) = some (max cur offset) := by
  rw [go_keyOffset_set_raw]
  congr 1
  split <;> omega

def retInt : R Out → Option Int
  | .ok o => match o.rets with
    | [.int v] => some v
    | _ => none
  | _ => none

theorem go_keyOffset_get (cur : Int) :
    retInt (runG prog noExt 30 "get" (some (encKO cur)) [] []) = some cur := by
  simp [runG, fn_keyOffset_get, gomini, encKO, retInt, getField, lookup]

/-- the table entry of a key after its offsets were offered in the order `os` (first `LoadOrStore` stores, later ones `set`) -/
def foldSet (first : Int) (os : List Int) : Int := os.foldl max first

theorem foldSet_ge (first : Int) (os : List Int) : first ≤ foldSet first os := by
  induction os generalizing first with
  | nil => simp [foldSet]
  | cons o tl ih => simp only [foldSet, List.foldl_cons] at *; have := ih (max first o); omega

theorem foldSet_mem_ge (first : Int) (os : List Int) : ∀ o ∈ os, o ≤ foldSet first os := by
  induction os generalizing first with
  | nil => simp
  | cons a tl ih =>
    intro o ho
    simp only [foldSet, List.foldl_cons] at *
    rcases List.mem_cons.mp ho with rfl | h
    · have := foldSet_ge (max first o) tl; simp only [foldSet] at this; omega
    · exact ih _ o h

theorem foldSet_mem (first : Int) (os : List Int) : foldSet first os = first ∨ foldSet first os ∈ os := by
  induction os generalizing first with
  | nil => simp [foldSet]
  | cons a tl ih =>
    simp only [foldSet, List.foldl_cons] at *
    rcases ih (max first a) with h | h
    · rw [h]; by_cases hc : first ≤ a
      · right; simp [Int.max_eq_right hc]
      · left; omega
    · right; exact List.mem_cons_of_mem _ h

/-- the entry is the MAXIMUM of the offered offsets: at least each of them, and one of them -/
theorem fold_set_max (first : Int) (os : List Int) :
    (∀ o ∈ first :: os, o ≤ foldSet first os) ∧ foldSet first os ∈ first :: os := by
  refine ⟨?_, ?_⟩
  · intro o ho
    rcases List.mem_cons.mp ho with rfl | h
    · exact foldSet_ge _ _
    · exact foldSet_mem_ge _ _ o h
  · rcases foldSet_mem first os with h | h
    · rw [h]; exact List.mem_cons_self
    · exact List.mem_cons_of_mem _ h

/-- ... and therefore the same whatever the order in which the scanning goroutines offered them -/
theorem fold_set_perm (a b : Int) (as bs : List Int) (h : (a :: as).Perm (b :: bs)) : foldSet a as = foldSet b bs := by
  have h1 := fold_set_max a as
  have h2 := fold_set_max b bs
  have m1 : foldSet a as ∈ b :: bs := h.mem_iff.mp h1.2
  have m2 : foldSet b bs ∈ a :: as := h.mem_iff.mpr h2.2
  have := h2.1 _ m1
  have := h1.1 _ m2
  omega

/-! ### `cleanupEmptySegment` -/

/-- result of the first `Delete` (of the new segment): nil or an error -/
def delExt (newFails oldFails : Bool) : Ext := fun f _ eff =>
  if f = "Delete" then
    let n := eff.countP (fun e => e.1 == "Delete")
    some (if n = 0 then (if newFails then .str "delete-new-failed" else .nil)
          else (if oldFails then .str "delete-old-failed" else .nil))
  else none

def newV : Val := .struct [("kind", .str "new")]
def oldV : Val := .struct [("kind", .str "old"), ("replaced", .bool false)]
def oldReplacedV : Val := .struct [("kind", .str "old"), ("replaced", .bool true)]

/-- (error?, the calls in order) -/
def viewCl : R Out → Option (Option String × List (String × List Val))
  | .ok o => match o.rets with
    | [.nil] => some (none, o.eff)
    | [.str e] => some (some e, o.eff)
    | _ => none
  | _ => none

theorem go_cleanupEmptySegment_ok (oldFails : Bool) :
    viewCl (runG prog (delExt false oldFails) 30 "cleanupEmptySegment" none [newV, oldV] []) =
      some (if oldFails then some "delete-old-failed" else none, [("Delete", []), ("Delete", [])]) := by
  cases oldFails <;>
  simp [runG, fn_cleanupEmptySegment, gomini, viewCl, delExt, newV, oldV, binVal, isNil, St.log, setField, getField, lookup, update]

/-- a failing delete of the new segment: the old one is neither flagged nor deleted -/
theorem go_cleanupEmptySegment_newFails (oldFails : Bool) :
    viewCl (runG prog (delExt true oldFails) 30 "cleanupEmptySegment" none [newV, oldV] []) =
      some (some "delete-new-failed", [("Delete", [])]) := by
  simp [runG, fn_cleanupEmptySegment, gomini, viewCl, delExt, newV, oldV, binVal, isNil, St.log, setField, getField, lookup, update]

example : foldSet 4 [9, 2, 7] = 9 ∧ foldSet 9 [2, 7, 4] = 9 := by decide

end Liftbridge.Props.GoCompactAux
