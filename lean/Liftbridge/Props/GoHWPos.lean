/-
C03 at the level of the function body: `getHWPos` (server/commitlog/reader.go) - the byte position in the high-watermark
segment up to which a committed reader may read - translated from the code. `Gen/GoHWPos.lean` is regenerated on every run.

`go_getHWPos`: for every answer of `findSegment` (a segment and its index, or none) and of `findEntry` (an entry or an
error): no segment -> `ErrSegmentNotFound`; an error of the entry search is returned; an entry whose offset lies ABOVE the
high watermark (the message at the HW was removed by retention or compaction, `findEntry` answers the first entry at or
after it) -> the limit is the START of that entry (it is not committed); otherwise the limit is the END of the entry
(`Position + Size`): the message at the HW is readable and nothing behind it.
`model_hwPos`: the model's `Log.hwPos` (slots) is that decision on the model's index: the byte position of the slot the
model answers is what the code computes from the entry the model's `findEntry` selects (`entries_slot`: the index entry of
slot k starts at the prefix sum of the sizes before it).
-/
import Liftbridge.Proofs.GoCodeBase
import Liftbridge.Gen.GoHWPos

set_option linter.unusedSimpArgs false

namespace Liftbridge.Props.GoHWPos
open Liftbridge Liftbridge.GoMini Liftbridge.GoCode Liftbridge.Log
open Liftbridge.Gen.GoHWPos

theorem translation_complete : unsupported = [] := rfl

theorem binVal_int (op : String) (a b : Int) : binVal op (Val.int a) (Val.int b) = binInt op a b := rfl
@[simp] theorem lk_getHWPos : evalE.lookup' "getHWPos" prog = some fn_getHWPos := by simp [prog, gomini]
@[simp] theorem lk_findSegment : evalE.lookup' "findSegment" prog = none := by simp [prog, gomini]
@[simp] theorem lk_findEntry : evalE.lookup' "findEntry" prog = none := by simp [prog, gomini]
@[simp] theorem lk_int64 : evalE.lookup' "int64" prog = none := by simp [prog, gomini]

/-- answer of `hwSeg.findEntry(hw)` -/
inductive EntryAns where
  | entry (offset position size : Int)
  | failed
  deriving DecidableEq, Repr

def encEntryAns : EntryAns → Val
  | .entry o p s => .tup [.struct [("Offset", .int o), ("Position", .int p), ("Size", .int s)], .nil]
  | .failed => .tup [.nil, .str "ErrEntryNotFound"]

/-- the segment `findSegment` answers: its index and what its `findEntry(hw)` says; `none`: no segment contains the offset -/
def encSegAns : Option (Int × EntryAns) → Val
  | some (i, a) => .tup [.struct [("ans", encEntryAns a)], .int i]
  | none => .tup [.nil, .int 0]

def hwExt (seg : Option (Int × EntryAns)) : Ext := fun f args _ =>
  if f = "findSegment" then some (encSegAns seg)
  else if f = "findEntry" then
    match args with
    | [.struct fs, _] => lookup "ans" fs
    | _ => none
  else none

inductive HWPos where
  | at (segIdx : Int) (pos : Int)
  | error
  deriving DecidableEq, Repr

def view : R Out → Option HWPos
  | .ok o => match o.rets with
    | [.int i, .int p, .nil] => some (.at i p)
    | [.int 0, .int 0, .str _] => some .error
    | _ => none
  | _ => none

/-- the decision of `getHWPos` -/
def hwPosSpec (hw : Int) : Option (Int × EntryAns) → HWPos
  | none => .error
  | some (_, .failed) => .error
  | some (i, .entry o p s) => if o > hw then .at i p else .at i (p + s)

set_option maxRecDepth 8000 in
set_option maxHeartbeats 1000000 in
theorem go_getHWPos (hw : Int) (segs : Val) (seg : Option (Int × EntryAns))
    (hsize : ∀ i o p s, seg = some (i, .entry o p s) → wrapS 64 s = s) :
    view (runG prog (hwExt seg) 30 "getHWPos" none [segs, .int hw] [("ErrSegmentNotFound", .str "ErrSegmentNotFound")]) =
      some (hwPosSpec hw seg) := by
  cases seg with
  | none => simp [runG, fn_getHWPos, gomini, view, hwPosSpec, hwExt, encSegAns, builtin, lookup, binVal, isNil]
  | some sa =>
    obtain ⟨i, a⟩ := sa
    cases a with
    | failed => simp [runG, fn_getHWPos, gomini, view, hwPosSpec, hwExt, encSegAns, encEntryAns, builtin, lookup, binVal, isNil]
    | entry o p s =>
      have hs := hsize i o p s rfl
      by_cases h : o > hw <;>
        simp [runG, fn_getHWPos, gomini, view, hwPosSpec, hwExt, encSegAns, encEntryAns, builtin, lookup, binVal, isNil, binVal_int, binInt, getField, h,
          convert, hs]

/-! ### the model's `hwPos` is this decision on the model's index -/

/-- byte position at which slot `k` starts -/
def slotPos (rs : List Rec) (k : Nat) : Nat := ((rs.take k).map Rec.size).sum

theorem entries_slot (rs : List Rec) : ∀ (p k : Nat),
    (Seg.entriesFrom p rs)[k]? = (rs[k]?).map fun r => { offset := r.offset, ts := r.ts, pos := p + slotPos rs k, size := r.size } := by
  induction rs with
  | nil => intro p k; simp [Seg.entriesFrom]
  | cons r tl ih =>
    intro p k
    cases k with
    | zero => simp [Seg.entriesFrom, slotPos]
    | succ j =>
      simp only [Seg.entriesFrom, List.getElem?_cons_succ, ih]
      cases tl[j]? with
      | none => rfl
      | some x => simp [slotPos, List.take_succ_cons, Nat.add_assoc]

theorem slotPos_succ (rs : List Rec) (k : Nat) (r : Rec) (h : rs[k]? = some r) : slotPos rs (k + 1) = slotPos rs k + r.size := by
  induction rs generalizing k with
  | nil => simp at h
  | cons a tl ih =>
    cases k with
    | zero => simp at h; subst h; simp [slotPos]
    | succ j =>
      simp at h
      have := ih j h
      simp [slotPos, List.take_succ_cons] at this ⊢
      omega

/-- what the code computes from the index entry of slot `k` -/
def entryAnsOf (e : Entry) : EntryAns := .entry e.offset e.pos e.size

/-- the model's answer, as (segment index, byte position of the slot) -/
def modelHWPos (segs : List Seg) (hw : Int) : Option HWPos :=
  match CLog.hwPos segs hw with
  | .ok (i, slot) => (segs[i]?).map fun s => .at i (slotPos s.recs slot)
  | .err _ => some .error
  | .panic => none

theorem model_hwPos (segs : List Seg) (hw : Int) (i : Nat) (s : Seg) (k : Nat) (e : Entry)
    (hseg : CLog.findSegmentIdx segs hw = some i) (hs : segs[i]? = some s) (hk : s.findEntryIdx hw = some k)
    (he : s.entries[k]? = some e) :
    modelHWPos segs hw = some (hwPosSpec hw (some ((i : Int), entryAnsOf e))) := by
  unfold modelHWPos CLog.hwPos
  simp only [hseg, hs, hk]
  rw [Seg.entries, entries_slot] at he
  cases hr : s.recs[k]? with
  | none => simp [hr] at he
  | some r =>
    simp only [hr, Option.map_some, Option.some.injEq] at he
    subst he
    by_cases hgt : r.offset > hw
    · simp [Gen.Log.hwGoneCheck, hgt, hs, hwPosSpec, entryAnsOf]
    · simp [Gen.Log.hwGoneCheck, hgt, hs, hwPosSpec, entryAnsOf, slotPos_succ _ _ _ hr]

/-- non-vacuity: the entry at the HW (offset 7 = hw, at 100, 40 bytes) -> limit 140; the HW message gone (first entry after it is 9) -> limit 100 -/
example : hwPosSpec 7 (some (2, .entry 7 100 40)) = .at 2 140 ∧ hwPosSpec 7 (some (2, .entry 9 100 40)) = .at 2 100 := by decide

end Liftbridge.Props.GoHWPos
