/-
The hand-over decision of the consumer-group model IS the translated Go code.

`Gen/GoGroupSub.lean` is regenerated on every run from server/partition.go (`partition.Subscribe`,
`partition.removeGroupSubscriber`). For EVERY registry `p.consumers`, group, consumer, epoch and every
outcome of what the model treats as a parameter (start/stop resolution, the range check, reader creation):
the translated `Subscribe` refuses exactly when `GroupSub.refusedBy` does, returns before touching the
previous member exactly in the model's `early` case, closes the previous member's subscription and returns
without registering in the `late` case, and otherwise closes the previous member (if any), starts the loop and
registers the new member under the group — `GroupSub.subscribe`. `removeGroupSubscriber` deletes the
group's entry exactly when it still names the given subscription (`GroupSub.cleanup` with `bySub`).
Locks are dropped by the translation (the atomicity of the section is the model's granularity assumption).
-/
import Liftbridge.Proofs.GoCodeBase
import Liftbridge.Gen.GoGroupSub
import Liftbridge.Model.GroupSub
import Liftbridge.Proofs.GroupSub

set_option linter.unusedSimpArgs false

namespace Liftbridge.Props.GoGroupSub
open Liftbridge Liftbridge.GoMini Liftbridge.GoCode
open Liftbridge.Gen.GoGroupSub

/-- every construct of the translated functions is inside the subset -/
theorem translation_complete : unsupported = [] := rfl

/-- `*groupMember`; the subscription pointer is the subscription's id -/
def encMember (m : GroupSub.Member) : Val :=
  .struct [("consumerID", .str m.consumer), ("groupEpoch", .int m.epoch), ("sub", .int m.subId)]

/-- `p.consumers` -/
def encConsumers (cs : List (String × GroupSub.Member)) : List (String × Val) := cs.map fun kv => (kv.1, encMember kv.2)

theorem lookup_enc (g : String) : ∀ cs : List (String × GroupSub.Member),
    lookup g (encConsumers cs) = (GroupSub.lookup g cs).map encMember
  | [] => rfl
  | (k, m) :: rest => by
    by_cases h : g = k
    · subst h; simp [encConsumers, GoMini.lookup, GroupSub.lookup]
    · have h' : ¬ k = g := fun e => h e.symm
      have := lookup_enc g rest
      simp [encConsumers, GoMini.lookup, GroupSub.lookup, h, h'] at this ⊢
      exact this

theorem eraseKey_enc (g : String) : ∀ cs : List (String × GroupSub.Member),
    eraseKey g (encConsumers cs) = encConsumers (GroupSub.del g cs)
  | [] => rfl
  | (k, m) :: rest => by
    have := eraseKey_enc g rest
    by_cases h : k = g
    · simp [encConsumers, eraseKey, GroupSub.del, h] at this ⊢; exact this
    · simp [encConsumers, eraseKey, GroupSub.del, h] at this ⊢; exact this

@[simp] theorem lk_a : evalE.lookup' "Subscribe" prog = some fn_partition_Subscribe := by simp [prog, gomini]
@[simp] theorem lk_b : evalE.lookup' "removeGroupSubscriber" prog = some fn_partition_removeGroupSubscriber := by simp [prog, gomini]
@[simp] theorem sig_b : fn_partition_removeGroupSubscriber.recv = some "p" ∧ fn_partition_removeGroupSubscriber.params = ["groupID", "sub"] := ⟨rfl, rfl⟩

theorem facts : Gen.GroupSub.refuseCmp = .gt ∧ Gen.GroupSub.cleanupBySubscription = true := by decide

/-- `removeGroupSubscriber(g, sub)`: the registry afterwards is the model's `cleanup` (by subscription) -/
theorem go_removeGroupSubscriber (cs : List (String × GroupSub.Member)) (l : GroupSub.Loop) (hg : l.group ≠ "") :
    (match run prog noExt 20 "removeGroupSubscriber" (some (.struct [("consumers", .struct (encConsumers cs))])) [.str l.group, .int l.subId] with
     | .ok o => o.recv
     | _ => none) =
      some (.struct [("consumers", .struct (encConsumers (GroupSub.cleanup GroupSub.Cfg.current cs l)))]) := by
  cases hl : GroupSub.lookup l.group cs with
  | none =>
    simp [run, runG, fn_partition_removeGroupSubscriber, gomini, builtin, lookup_enc, hl, GroupSub.cleanup, hg]
  | some m =>
    by_cases hs : m.subId = l.subId
    · have hs' : ((m.subId : Int) = (l.subId : Int)) := by omega
      simp [run, runG, fn_partition_removeGroupSubscriber, gomini, builtin, lookup_enc, hl, GroupSub.cleanup, hg, encMember, binInt, hs, hs',
        GroupSub.cleanupMatches, GroupSub.Cfg.current, facts, eraseKey_enc]
    · have hs' : ¬ ((m.subId : Int) = (l.subId : Int)) := by omega
      simp [run, runG, fn_partition_removeGroupSubscriber, gomini, builtin, lookup_enc, hl, GroupSub.cleanup, hg, encMember, binInt, hs, hs',
        GroupSub.cleanupMatches, GroupSub.Cfg.current, facts]

/-! ### `partition.Subscribe` -/

/-- what the model treats as parameters of a subscribe step -/
structure Env where
  start : Int
  startOK : Bool
  stop : Int
  stopOK : Bool
  readerOK : Bool
  reverse : Bool
  deriving Repr

def subExt (x : Env) : Ext := fun f args _ =>
  if f = "getStartOffset" then some (.tup [.int x.start, if x.startOK then .nil else .str "status: start"])
  else if f = "getStopOffset" then some (.tup [.int x.stop, if x.stopOK then .nil else .str "status: stop"])
  else if f = "NewReader" ∨ f = "NewReverseReader" then
    some (.tup [.struct [("reader", .str f)], if x.readerOK then .nil else .str "error: reader"])
  else if f = "status.New" then
    match args with
    | .int code :: _ => some (.struct [("code", .int code)])
    | _ => none
  else none

def globals : List (String × Val) :=
  [("codes.FailedPrecondition", .int 9), ("codes.InvalidArgument", .int 3), ("codes.Internal", .int 13), ("waitForNewMessages", .int (-1))]

def encReq (g c : String) (e : Nat) (x : Env) : Val :=
  .struct [("Consumer", .struct [("GroupId", .str g), ("ConsumerId", .str c), ("GroupEpoch", .int e)]), ("Reverse", .bool x.reverse)]

def encPart (cs : List (String × GroupSub.Member)) : Val :=
  .struct [("consumers", .struct (encConsumers cs)), ("log", .struct []), ("srv", .struct [])]

inductive Kind where
  | accepted | refused | invalid | readerFailed | other
  deriving Repr, DecidableEq

/-- (answer, was `Close` called on the previous member's subscription, who is registered under `g` afterwards) -/
def goView (g : String) : R Out → Option (Kind × Bool × Option (Val × Val))
  | .ok o =>
    let kind : Kind := match o.rets with
      | [.struct _, .nil] => .accepted
      | [.nil, .struct [("code", .int 9)]] => .refused
      | [.nil, .struct [("code", .int 3)]] => .invalid
      | [.nil, .str _] => .invalid
      | [.nil, .struct [("code", .int 13)]] => .readerFailed
      | _ => .other
    let closed := o.eff.any fun ev => ev.1 = "Close"
    let reg := match o.recv with
      | some (.struct fs) => (match lookup "consumers" fs with
        | some (.struct ms) => (match lookup g ms with
          | some (.struct m) => (match lookup "consumerID" m, lookup "groupEpoch" m with
            | some a, some b => some (a, b)
            | _, _ => none)
          | _ => none)
        | _ => none)
      | _ => none
    some (kind, closed, reg)
  | _ => none

/-- the range check of `Subscribe` (part of the model's `early` outcome) -/
def rangeOK (x : Env) : Bool :=
  x.stop = -1 || (if x.reverse then decide (x.stop ≤ x.start) else decide (x.start ≤ x.stop))

/-- the outcome parameter of the model's subscribe step -/
def outcome (x : Env) : GroupSub.Outcome :=
  if !(x.startOK && x.stopOK && rangeOK x) then .early else if !x.readerOK then .late else .ok

def memberView (m : GroupSub.Member) : Val × Val := (.str m.consumer, .int m.epoch)

/-- what the model's `subscribe` does, in the same terms -/
def modelView (cs : List (String × GroupSub.Member)) (g c : String) (e : Nat) (x : Env) : Kind × Bool × Option (Val × Val) :=
  let prev := GroupSub.lookup g cs
  if GroupSub.refusedBy GroupSub.Cfg.current prev e then (.refused, false, prev.map memberView)
  else match outcome x with
    | .early => (.invalid, false, prev.map memberView)
    | .late => (.readerFailed, prev.isSome, prev.map memberView)
    | .ok => (.accepted, prev.isSome, some (.str c, .int e))

@[simp] theorem sig_a : fn_partition_Subscribe.recv = some "p" ∧ fn_partition_Subscribe.params = ["ctx", "req"] := ⟨rfl, rfl⟩
@[simp] theorem lk_c : evalE.lookup' "getStartOffset" prog = none := by simp [prog, gomini]
@[simp] theorem lk_d : evalE.lookup' "getStopOffset" prog = none := by simp [prog, gomini]
@[simp] theorem lk_e : evalE.lookup' "NewReader" prog = none := by simp [prog, gomini]
@[simp] theorem lk_f : evalE.lookup' "NewReverseReader" prog = none := by simp [prog, gomini]
@[simp] theorem lk_g : evalE.lookup' "status.New" prog = none := by simp [prog, gomini]
@[simp] theorem lk_h : evalE.lookup' "fmt.Sprintf" prog = none := by simp [prog, gomini]
@[simp] theorem lk_i : evalE.lookup' "Close" prog = none := by simp [prog, gomini]
@[simp] theorem lk_j : evalE.lookup' "startGoroutine" prog = none := by simp [prog, gomini]
@[simp] theorem lk_k : evalE.lookup' "newSubscribeLoop" prog = none := by simp [prog, gomini]

/-- a subscriber older than the registered member is refused; nothing is touched -/
theorem go_Subscribe_refused (cs : List (String × GroupSub.Member)) (g c : String) (e : Nat) (x : Env) (hg : g ≠ "")
    (m : GroupSub.Member) (hm : GroupSub.lookup g cs = some m) (hr : e < m.epoch) :
    goView g (runG prog (subExt x) 40 "Subscribe" (some (encPart cs)) [.struct [], encReq g c e x] globals) =
      some (modelView cs g c e x) := by
  have hr' : ((e : Int) < (m.epoch : Int)) := by omega
  simp [runG, fn_partition_Subscribe, gomini, encReq, encPart, builtin, lookup_enc, hm, hg, encMember, binInt, hr', hr, subExt, globals,
    goView, modelView, GroupSub.refusedBy, GroupSub.Cfg.current, facts, Cmp.evalNat, memberView]

set_option maxHeartbeats 2000000 in
/- nobody is registered under the group: `Subscribe` = the model's step, whatever the parameters -/
theorem go_Subscribe_first (cs : List (String × GroupSub.Member)) (g c : String) (e : Nat) (x : Env) (hg : g ≠ "")
    (hm : GroupSub.lookup g cs = none) :
    goView g (runG prog (subExt x) 40 "Subscribe" (some (encPart cs)) [.struct [], encReq g c e x] globals) =
      some (modelView cs g c e x) := by
  obtain ⟨so, sok, eo, eok, rok, rev⟩ := x
  cases sok
  · simp [runG, fn_partition_Subscribe, gomini, encReq, encPart, builtin, lookup_enc, hm, hg, binInt, subExt, globals,
      goView, modelView, GroupSub.refusedBy, outcome, rangeOK, memberView]
  cases eok
  · simp [runG, fn_partition_Subscribe, gomini, encReq, encPart, builtin, lookup_enc, hm, hg, binInt, subExt, globals,
      goView, modelView, GroupSub.refusedBy, outcome, rangeOK, memberView]
  by_cases h1 : eo = -1
  · subst h1
    cases rok <;> cases rev <;>
      simp [runG, fn_partition_Subscribe, gomini, encReq, encPart, builtin, lookup_enc, hm, hg, binInt, subExt, globals,
        goView, modelView, GroupSub.refusedBy, outcome, rangeOK, memberView, isNil]
  · cases rev
    · by_cases h2 : so ≤ eo
      · have h2' : ¬ eo < so := by omega
        cases rok <;>
          simp [runG, fn_partition_Subscribe, gomini, encReq, encPart, builtin, lookup_enc, hm, hg, binInt, subExt, globals,
            goView, modelView, GroupSub.refusedBy, outcome, rangeOK, memberView, isNil, h1, h2, h2']
      · have h2' : eo < so := by omega
        simp [runG, fn_partition_Subscribe, gomini, encReq, encPart, builtin, lookup_enc, hm, hg, binInt, subExt, globals,
          goView, modelView, GroupSub.refusedBy, outcome, rangeOK, memberView, isNil, h1, h2, h2']
    · by_cases h2 : eo ≤ so
      · have h2' : ¬ so < eo := by omega
        cases rok <;>
          simp [runG, fn_partition_Subscribe, gomini, encReq, encPart, builtin, lookup_enc, hm, hg, binInt, subExt, globals,
            goView, modelView, GroupSub.refusedBy, outcome, rangeOK, memberView, isNil, h1, h2, h2']
      · have h2' : so < eo := by omega
        simp [runG, fn_partition_Subscribe, gomini, encReq, encPart, builtin, lookup_enc, hm, hg, binInt, subExt, globals,
          goView, modelView, GroupSub.refusedBy, outcome, rangeOK, memberView, isNil, h1, h2, h2']

set_option maxHeartbeats 2000000 in
/- an equal or newer subscriber while a member is registered: `Subscribe` = the model's step (the previous member's
subscription is closed exactly when the new request got past validation) -/
theorem go_Subscribe_replace (cs : List (String × GroupSub.Member)) (g c : String) (e : Nat) (x : Env) (hg : g ≠ "")
    (m : GroupSub.Member) (hm : GroupSub.lookup g cs = some m) (he : m.epoch ≤ e) :
    goView g (runG prog (subExt x) 40 "Subscribe" (some (encPart cs)) [.struct [], encReq g c e x] globals) =
      some (modelView cs g c e x) := by
  obtain ⟨so, sok, eo, eok, rok, rev⟩ := x
  have he' : ¬ ((e : Int) < (m.epoch : Int)) := by omega
  have he2 : ¬ (e < m.epoch) := by omega
  cases sok
  · simp [runG, fn_partition_Subscribe, gomini, encReq, encPart, builtin, lookup_enc, hm, hg, binInt, subExt, globals,
      goView, modelView, GroupSub.refusedBy, outcome, rangeOK, memberView, encMember, he', he2, GroupSub.Cfg.current, facts, Cmp.evalNat]
  cases eok
  · simp [runG, fn_partition_Subscribe, gomini, encReq, encPart, builtin, lookup_enc, hm, hg, binInt, subExt, globals,
      goView, modelView, GroupSub.refusedBy, outcome, rangeOK, memberView, encMember, he', he2, GroupSub.Cfg.current, facts, Cmp.evalNat]
  by_cases h1 : eo = -1
  · subst h1
    cases rok <;> cases rev <;>
      simp [runG, fn_partition_Subscribe, gomini, encReq, encPart, builtin, lookup_enc, hm, hg, binInt, subExt, globals,
        goView, modelView, GroupSub.refusedBy, outcome, rangeOK, memberView, encMember, he', he2, GroupSub.Cfg.current, facts, Cmp.evalNat, isNil]
  · cases rev
    · by_cases h2 : so ≤ eo
      · have h2' : ¬ eo < so := by omega
        cases rok <;>
          simp [runG, fn_partition_Subscribe, gomini, encReq, encPart, builtin, lookup_enc, hm, hg, binInt, subExt, globals,
            goView, modelView, GroupSub.refusedBy, outcome, rangeOK, memberView, encMember, he', he2, GroupSub.Cfg.current, facts, Cmp.evalNat, isNil, h1, h2, h2']
      · have h2' : eo < so := by omega
        simp [runG, fn_partition_Subscribe, gomini, encReq, encPart, builtin, lookup_enc, hm, hg, binInt, subExt, globals,
          goView, modelView, GroupSub.refusedBy, outcome, rangeOK, memberView, encMember, he', he2, GroupSub.Cfg.current, facts, Cmp.evalNat, isNil, h1, h2, h2']
    · by_cases h2 : eo ≤ so
      · have h2' : ¬ so < eo := by omega
        cases rok <;>
          simp [runG, fn_partition_Subscribe, gomini, encReq, encPart, builtin, lookup_enc, hm, hg, binInt, subExt, globals,
            goView, modelView, GroupSub.refusedBy, outcome, rangeOK, memberView, encMember, he', he2, GroupSub.Cfg.current, facts, Cmp.evalNat, isNil, h1, h2, h2']
      · have h2' : so < eo := by omega
        simp [runG, fn_partition_Subscribe, gomini, encReq, encPart, builtin, lookup_enc, hm, hg, binInt, subExt, globals,
          goView, modelView, GroupSub.refusedBy, outcome, rangeOK, memberView, encMember, he', he2, GroupSub.Cfg.current, facts, Cmp.evalNat, isNil, h1, h2, h2']

/-- **`partition.Subscribe` = the model's subscribe step** for a group subscriber, whatever is registered and whatever
the parameters: answer, whether the previous member's subscription is closed, who is registered afterwards. -/
theorem go_Subscribe (cs : List (String × GroupSub.Member)) (g c : String) (e : Nat) (x : Env) (hg : g ≠ "") :
    goView g (runG prog (subExt x) 40 "Subscribe" (some (encPart cs)) [.struct [], encReq g c e x] globals) =
      some (modelView cs g c e x) := by
  cases hm : GroupSub.lookup g cs with
  | none => exact go_Subscribe_first cs g c e x hg hm
  | some m =>
    by_cases he : e < m.epoch
    · exact go_Subscribe_refused cs g c e x hg m hm he
    · exact go_Subscribe_replace cs g c e x hg m hm (by omega)

def kindOf : GroupSub.Reply → Kind
  | .sub _ => .accepted
  | .refused => .refused
  | .invalid => .invalid
  | .readerFailed => .readerFailed
  | _ => .other

/-- `modelView` is the model: the reply and the registry entry of `GroupSub.subscribe`, and the previous member is
closed exactly when the step goes through `closePrev` with a registered member -/
theorem model_agrees (s : GroupSub.State) (g c : String) (e : Nat) (x : Env) (hg : g ≠ "") :
    let r := GroupSub.subscribe GroupSub.Cfg.current s g c e (outcome x)
    (modelView s.consumers g c e x).1 = kindOf r.2 ∧
    (modelView s.consumers g c e x).2.2 = (GroupSub.lookup g r.1.consumers).map memberView ∧
    ((modelView s.consumers g c e x).2.1 = false → outcome x ≠ .ok → r.1.loops = s.loops) := by
  simp only [modelView, GroupSub.subscribe, GroupSub.existing, hg, if_false]
  cases hp : GroupSub.lookup g s.consumers with
  | none =>
    cases ho : outcome x <;>
      simp [GroupSub.refusedBy, kindOf, GroupSub.closePrev, GroupSub.register, hg, Proofs.GroupSub.lookup_put, memberView, hp]
  | some m =>
    by_cases hr : GroupSub.refusedBy GroupSub.Cfg.current (some m) e = true
    · simp [hr, kindOf, hp]
    · cases ho : outcome x <;>
        simp [hr, kindOf, GroupSub.closePrev, GroupSub.register, hg, Proofs.GroupSub.lookup_put, memberView, hp]

/-! ### non-vacuity -/
def mA : GroupSub.Member := { consumer := "A", epoch := 2, subId := 0 }
def envOK : Env := { start := 0, startOK := true, stop := -1, stopOK := true, readerOK := true, reverse := false }
example : modelView [("g", mA)] "g" "B" 1 envOK = (.refused, false, some (.str "A", .int 2)) := by
  simp [modelView, GroupSub.lookup, GroupSub.refusedBy, GroupSub.Cfg.current, facts, Cmp.evalNat, mA, memberView]
example : modelView [("g", mA)] "g" "B" 2 envOK = (.accepted, true, some (.str "B", .int 2)) := by
  simp [modelView, GroupSub.lookup, GroupSub.refusedBy, GroupSub.Cfg.current, facts, Cmp.evalNat, mA, outcome, envOK, rangeOK]
example : modelView [("g", mA)] "g" "B" 3 { envOK with readerOK := false } = (.readerFailed, true, some (.str "A", .int 2)) := by
  simp [modelView, GroupSub.lookup, GroupSub.refusedBy, GroupSub.Cfg.current, facts, Cmp.evalNat, mA, outcome, envOK, rangeOK, memberView]

end Liftbridge.Props.GoGroupSub
