/-
C17 — Encrypted streams never store plaintext and always return it: the PIPELINE part.

Props/C17.lean is about the codec (`Seal` / `Read` of server/encryption). This file is about
what server/partition.go does with it: every place where a received publish becomes a stored
message, and every place where a stored message becomes a delivered one. Both are REGENERATED
tables (`Gen.SealPipe.ingestSites`, `Gen.SealPipe.deliverSites`, extract/gen_sealpipe.go); the
theorems below are stated over these tables and proved from `sites_all_seal` /
`loops_all_read`, which are decided on the generated data. A site that no longer seals, a seal
error that no longer keeps the message out of the log, a read loop that no longer decrypts, or
one that goes on after an undecryptable value, flips a fact and these theorems stop checking.

What is proved, for EVERY sequence of publishes, taken at ANY of the sites in any mixture (that
is every batching / timing of the message-processing loop), every codec and every log:
  * `no_plaintext_path` / `stored_is_frame` / `stored_differs_from_published`: what an encrypted
    partition stores is an output of `Seal` on the published value — there is no path on which
    the value reaches the log as received. (That a `Seal` output does not CONTAIN the value is
    cryptography: not proved, checked empirically.)
  * `delivered_eq_published` / `nothing_lost_on_the_way_in`: every subscriber receives exactly
    the published values, in order.
  * `undecryptable_ends_with_error` / `never_silently_missing` / `tampered_value_ends_with_error`
    / `wrong_key_value_ends_with_error`: a stored value that does not decrypt (tampered, sealed
    under another master key, never sealed) ends the subscription with an error status; the
    values before it are delivered, NOTHING after it, and there is no other way for a stored
    value to be missing from what the subscriber sees.
The sensitivity lemmas `unsealed_site_stores_plaintext` and `skipping_loop_hides_value` show
that each fact is needed.

Assumptions: one partition leader, the log keeps what `Append` is given (C01), replication
copies stored bytes verbatim (`replicaCopies` / `replicaReads` of the table); the codec is a
parameter (hypotheses `CodecSound`, `Props.C17.Sound`, `Props.C17.Authentic` are explicit).
-/
import Liftbridge.Proofs.SealPipe
import Liftbridge.Props.C17

namespace Liftbridge.Props.C17Pipe
open Liftbridge Liftbridge.SealPipe

/-! ### The regenerated tables -/

/-- Every ingest site of the code seals under the handler test and drops the message when
`Seal` fails. DECIDED on the regenerated table: breaks when any site loses its `Seal`. -/
theorem sites_all_seal : allSeal Gen.SealPipe.ingestSites = true := by decide

/-- Every read loop of the code decrypts under the handler test, delivers the decrypted value
and ends with an error status when `Read` fails. DECIDED on the regenerated table. -/
theorem loops_all_read : allRead Gen.SealPipe.deliverSites = true := by decide

/-- The tables are not empty and nothing in package server escaped classification. -/
theorem tables_cover :
    Gen.SealPipe.ingestSites ≠ [] ∧ Gen.SealPipe.deliverSites ≠ [] ∧
      Gen.SealPipe.appendCalls ≠ [] ∧ Gen.SealPipe.unclassified = [] := by decide

/-- The three ways the message-processing loop takes a message are all in the table: the first
message of a batch, messages already queued, messages arriving while the batch fills. -/
theorem batch_sites_present :
    (Gen.SealPipe.ingestSites.map (·.ctx)).contains "first" = true ∧
    (Gen.SealPipe.ingestSites.map (·.ctx)).contains "queued" = true ∧
    (Gen.SealPipe.ingestSites.map (·.ctx)).contains "waiting" = true := by decide

/-! ### Stored bytes -/

/-- No plaintext path: on an encrypted partition, whatever mixture of sites the publishes are
taken at, every stored value is an output of `Seal` applied to a published value. -/
theorem no_plaintext_path (c : Codec) (ps : List Pub) (v x : Bytes)
    (h : (v, x) ∈ storePairs Gen.SealPipe.ingestSites true c 0 ps) :
    (∃ r, c.doSeal r v = some x) ∧ ∃ p ∈ ps, p.value = v :=
  storePairs_sealed _ sites_all_seal c ps 0 (v, x) h

/-- With the codec of Model/Seal.lean: every stored value is key-size byte, wrapped key, nonce,
AES-GCM output of the published value. -/
theorem stored_is_frame (k : Seal.Crypto) (dek : Bytes) (nonce : Nat → Bytes) (ps : List Pub)
    (v x : Bytes) (h : (v, x) ∈ storePairs Gen.SealPipe.ingestSites true (ofCrypto k dek nonce) 0 ps) :
    ∃ r w, k.wrap dek = some w ∧ x = Seal.frame w (nonce r ++ k.aeadSeal dek (nonce r) v) := by
  obtain ⟨⟨r, hr⟩, _⟩ := no_plaintext_path _ ps v x h
  simp only [ofCrypto] at hr
  cases hs : Seal.sealData k dek (nonce r) v with
  | ok y =>
    simp only [hs, resToOption, Option.some.injEq] at hr
    subst hr
    obtain ⟨w, hw, hx⟩ := Props.C17.seal_shape k dek (nonce r) v y hs
    exact ⟨r, w, hw, hx⟩
  | err e => simp [hs, resToOption] at hr
  | panic => simp [hs, resToOption] at hr

/-- The stored value is never the published value: it is strictly longer (framing, wrapped key
and nonce around an AEAD output that is at least as long as the value — 16 bytes longer for
AES-GCM). Holds for every value, the empty one included. -/
theorem stored_differs_from_published (k : Seal.Crypto) (dek : Bytes) (nonce : Nat → Bytes)
    (hlen : ∀ key n p, p.length ≤ (k.aeadSeal key n p).length) (ps : List Pub) (v x : Bytes)
    (h : (v, x) ∈ storePairs Gen.SealPipe.ingestSites true (ofCrypto k dek nonce) 0 ps) :
    v.length < x.length ∧ x ≠ v := by
  obtain ⟨r, w, _, hx⟩ := stored_is_frame k dek nonce ps v x h
  have hl : v.length < x.length := by
    subst hx
    have := hlen dek (nonce r) v
    simp only [Seal.frame, List.length_cons, List.length_append]
    omega
  refine ⟨hl, ?_⟩
  intro he
  rw [he] at hl
  exact Nat.lt_irrefl _ hl

/-! ### Delivery -/

/-- Functional correctness of a codec: reading an honest sealing returns the value. -/
def CodecSound (c : Codec) : Prop := ∀ r v x, c.doSeal r v = some x → c.doRead x = some v

/-- The codec of Model/Seal.lean is sound under the hypotheses of `Props.C17.read_seal`. -/
theorem ofCrypto_sound (k : Seal.Crypto) (hs : Props.C17.Sound k) (dek : Bytes) (nonce : Nat → Bytes)
    (hn : ∀ r, (nonce r).length = k.nonceSize) : CodecSound (ofCrypto k dek nonce) := by
  intro r v x h
  simp only [ofCrypto] at h ⊢
  cases hsd : Seal.sealData k dek (nonce r) v with
  | ok y =>
    simp only [hsd, resToOption, Option.some.injEq] at h
    subst h
    rw [Props.C17.read_seal k hs dek (nonce r) v y (hn r) hsd]
    rfl
  | err e => simp [hsd, resToOption] at h
  | panic => simp [hsd, resToOption] at h

/-- Every subscriber receives exactly the values that were stored for the publishes, decrypted,
in order, and the subscription stays open — for every read loop of the code, every sequence of
publishes and every mixture of sites. -/
theorem delivered_eq_published (c : Codec) (hc : CodecSound c) (ps : List Pub)
    (d : DeliverSite) (hd : d ∈ Gen.SealPipe.deliverSites) :
    subscribe d true c (store Gen.SealPipe.ingestSites true c ps) =
      ⟨(storePairs Gen.SealPipe.ingestSites true c 0 ps).map Prod.fst, .waiting⟩ := by
  unfold store
  refine subscribe_readable d (allRead_mem loops_all_read hd) c _ ?_
  intro vx hvx
  obtain ⟨⟨r, hr⟩, _⟩ := storePairs_sealed _ sites_all_seal c ps 0 vx hvx
  exact hc r _ _ hr

/-- … and when `Seal` does not fail, these are ALL published values: nothing is lost on the way
into the log, whichever site takes the message. -/
theorem nothing_lost_on_the_way_in (c : Codec) (hc : CodecSound c)
    (htotal : ∀ r v, (c.doSeal r v).isSome = true) (ps : List Pub)
    (hsite : ∀ p ∈ ps, p.site < Gen.SealPipe.ingestSites.length)
    (d : DeliverSite) (hd : d ∈ Gen.SealPipe.deliverSites) :
    subscribe d true c (store Gen.SealPipe.ingestSites true c ps) = ⟨ps.map Pub.value, .waiting⟩ := by
  rw [delivered_eq_published c hc ps d hd,
    storePairs_complete _ sites_all_seal c htotal ps 0 hsite]

/-- End to end with the codec of Model/Seal.lean and the hypotheses of Props/C17.lean. -/
theorem pipeline_round_trip (k : Seal.Crypto) (hs : Props.C17.Sound k) (dek : Bytes)
    (nonce : Nat → Bytes) (hn : ∀ r, (nonce r).length = k.nonceSize) (ps : List Pub)
    (d : DeliverSite) (hd : d ∈ Gen.SealPipe.deliverSites) :
    (subscribe d true (ofCrypto k dek nonce)
      (store Gen.SealPipe.ingestSites true (ofCrypto k dek nonce) ps)).ending = .waiting ∧
    ∀ v ∈ (subscribe d true (ofCrypto k dek nonce)
      (store Gen.SealPipe.ingestSites true (ofCrypto k dek nonce) ps)).delivered,
      ∃ p ∈ ps, p.value = v := by
  rw [delivered_eq_published _ (ofCrypto_sound k hs dek nonce hn) ps d hd]
  refine ⟨rfl, ?_⟩
  intro v hv
  obtain ⟨⟨v', x⟩, hvx, rfl⟩ := List.mem_map.1 hv
  exact (no_plaintext_path _ ps v' x hvx).2

/-! ### Undecryptable values -/

/-- A stored value that does not decrypt ends the subscription with an ERROR status: the
readable values before it are delivered, nothing after it — whatever follows it in the log. -/
theorem undecryptable_ends_with_error (c : Codec) (pre : List (Bytes × Bytes)) (bad : Bytes)
    (post : List Bytes) (hpre : ∀ vx ∈ pre, c.doRead vx.2 = some vx.1) (hbad : c.doRead bad = none)
    (d : DeliverSite) (hd : d ∈ Gen.SealPipe.deliverSites) :
    subscribe d true c (pre.map Prod.snd ++ bad :: post) = ⟨pre.map Prod.fst, .error⟩ :=
  subscribe_bad d (allRead_mem loops_all_read hd) c bad post hbad pre hpre

/-- For ANY log (honest, tampered, mixed): the subscriber sees the decryptions of a prefix of
the log, one delivered value per stored value, in order; either the prefix is the whole log, or
the next stored value does not decrypt and the subscription has ended with an error. A stored
value is never missing silently, never replaced, and the loop never ends silently. -/
theorem never_silently_missing (c : Codec) (log : List Bytes)
    (d : DeliverSite) (hd : d ∈ Gen.SealPipe.deliverSites) :
    ∃ k, k ≤ log.length ∧
      (subscribe d true c log).delivered.map some = (log.take k).map c.doRead ∧
      (((subscribe d true c log).ending = .waiting ∧ k = log.length) ∨
       ((subscribe d true c log).ending = .error ∧ ∃ hk : k < log.length, c.doRead log[k] = none)) :=
  subscribe_prefix d (allRead_mem loops_all_read hd) c log

/-- Tampering, relative to the idealised authenticity of the primitives (`Props.C17.Authentic`):
a stored value that is not the frame of something produced under the keys ends the
subscription with an error, after the values before it and before anything behind it. -/
theorem tampered_value_ends_with_error (k : Seal.Crypto) (w dek : Bytes)
    (Produced : Bytes → Bytes → Prop) (ha : Props.C17.Authentic k w dek Produced)
    (nonce : Nat → Bytes) (pre : List (Bytes × Bytes)) (bad : Bytes) (post : List Bytes)
    (hpre : ∀ vx ∈ pre, (ofCrypto k dek nonce).doRead vx.2 = some vx.1)
    (hbad : ∀ n x, Produced n x → bad ≠ Seal.frame w (n ++ x))
    (d : DeliverSite) (hd : d ∈ Gen.SealPipe.deliverSites) :
    subscribe d true (ofCrypto k dek nonce) (pre.map Prod.snd ++ bad :: post) =
      ⟨pre.map Prod.fst, .error⟩ := by
  refine undecryptable_ends_with_error _ pre bad post hpre ?_ d hd
  obtain ⟨e, he⟩ := Props.C17.tamper_err k w dek Produced ha bad hbad
  simp [ofCrypto, he, resToOption]

/-- A value sealed under another master key (`k₁`) in the log of a partition that reads with
`k₂` ends the subscription with an error (hypotheses of `Props.C17.wrong_key_err`). -/
theorem wrong_key_value_ends_with_error (k₁ k₂ : Seal.Crypto) (hs : Props.C17.Sound k₁)
    (dek n p stored : Bytes) (h : Seal.sealData k₁ dek n p = .ok stored)
    (w₂ dek₂ : Bytes) (P₂ : Bytes → Bytes → Prop) (ha : Props.C17.Authentic k₂ w₂ dek₂ P₂)
    (hne : k₁.wrap dek ≠ some w₂)
    (nonce : Nat → Bytes) (pre : List (Bytes × Bytes)) (post : List Bytes)
    (hpre : ∀ vx ∈ pre, (ofCrypto k₂ dek₂ nonce).doRead vx.2 = some vx.1)
    (d : DeliverSite) (hd : d ∈ Gen.SealPipe.deliverSites) :
    subscribe d true (ofCrypto k₂ dek₂ nonce) (pre.map Prod.snd ++ stored :: post) =
      ⟨pre.map Prod.fst, .error⟩ := by
  refine undecryptable_ends_with_error _ pre stored post hpre ?_ d hd
  obtain ⟨e, he⟩ := Props.C17.wrong_key_err k₁ k₂ hs dek n p stored h w₂ dek₂ P₂ ha hne
  simp [ofCrypto, he, resToOption]

/-! ### Sensitivity: each fact is needed -/

/-- A site without the handler test or without the replacement of `m.Value` stores the value AS
RECEIVED, on an encrypted partition too. -/
theorem unsealed_site_stores_plaintext (s : IngestSite) (h : (s.guarded && s.seals) = false)
    (c : Codec) (r : Nat) (v : Bytes) : ingest s true c r v = some v :=
  ingest_unsealed s h true c r v

/-- A read loop that goes on after a `Read` error hides the value: the subscriber sees the log
as if the value had never been stored, and no error. -/
theorem skipping_loop_hides_value (d : DeliverSite) (hg : d.guarded = true) (he : d.errEnds = false)
    (c : Codec) (bad : Bytes) (post : List Bytes) (hbad : c.doRead bad = none) :
    subscribe d true c (bad :: post) = subscribe d true c post :=
  subscribe_skips d hg he c bad post hbad

/-! ### Non-vacuity and witnesses -/

/-- A toy codec: `Seal` prepends a marker (and fails on the value `[0xFF]`), `Read` strips it. -/
def toyCodec : Codec where
  doSeal := fun _ v => if v = [0xFF] then none else some (0xA6 :: v)
  doRead := fun b => match b with
    | 0xA6 :: v => some v
    | _ => none

example : CodecSound toyCodec := by
  intro r v x h
  simp only [toyCodec] at h ⊢
  split at h
  · simp at h
  · injection h with h
    subst h
    rfl

/-- The code's tables: three publishes at the three sites are stored sealed and delivered. -/
example : store Gen.SealPipe.ingestSites true toyCodec [⟨0, [1]⟩, ⟨1, [2]⟩, ⟨2, [3]⟩] =
    [[0xA6, 1], [0xA6, 2], [0xA6, 3]] := by decide

example : ∀ d ∈ Gen.SealPipe.deliverSites,
    subscribe d true toyCodec [[0xA6, 1], [0xA6, 2], [0xA6, 3]] = ⟨[[1], [2], [3]], .waiting⟩ := by decide

/-- A value that does not decrypt in the middle: error after the first value, the third is not
delivered. -/
example : ∀ d ∈ Gen.SealPipe.deliverSites,
    subscribe d true toyCodec [[0xA6, 1], [2], [0xA6, 3]] = ⟨[[1]], .error⟩ := by decide

/-- A `Seal` failure keeps the message out of the log. -/
example : store Gen.SealPipe.ingestSites true toyCodec [⟨0, [1]⟩, ⟨2, [0xFF]⟩, ⟨1, [3]⟩] =
    [[0xA6, 1], [0xA6, 3]] := by decide

def goodSite : IngestSite := ⟨"f", "first", true, true, true⟩
/-- A site as it looks when its `Seal` block is removed. -/
def bareSite : IngestSite := ⟨"f", "waiting", false, false, false⟩

/-- One site of three without `Seal`: the value taken there is in the log in clear. -/
example : store [goodSite, goodSite, bareSite] true toyCodec [⟨0, [1]⟩, ⟨2, [2]⟩] = [[0xA6, 1], [2]] := by
  decide
example : allSeal [goodSite, goodSite, bareSite] = false := by decide

def goodLoop : DeliverSite := ⟨"l", true, true, true, true, true⟩
/-- A read loop that logs the error and goes on. -/
def skippingLoop : DeliverSite := ⟨"l", true, true, false, false, true⟩

/-- The skipping loop hands over the third value as if the second did not exist. -/
example : subscribe skippingLoop true toyCodec [[0xA6, 1], [2], [0xA6, 3]] = ⟨[[1], [3]], .waiting⟩ := by
  decide
example : subscribe goodLoop true toyCodec [[0xA6, 1], [2], [0xA6, 3]] = ⟨[[1]], .error⟩ := by decide
example : allRead [skippingLoop] = false := by decide

end Liftbridge.Props.C17Pipe
