/-
C11 — A cursor fetch returns the last cursor that was stored.

The cursor manager model (`Liftbridge.Cursors`: compacted commit log + LRU cache, `SetCursor`
atomic, `GetCursor` in five small steps) refines the abstract store `Key → Option Int`
(`lastSet`): by induction over histories with the invariant `Inv` of Proofs/Cursors.lean
(the newest record of every key carries its stored offset — preserved by compaction through
C08's `latest_kept` because HW = newest offset after every set —, every cache entry equals
the stored offset, and what a fetch in flight has read is still good as long as it may cache).

Hypotheses, all spelled out:
* `0 < m` — a positive segment size;
* `ValidOp` — a `set` carries a non-empty key (a cursor key is `id,stream,partition`:
  `keyOf_ne_nil`) and value bytes that unmarshal to its offset (the protobuf codec is a parameter);
* `HdrsOK` — the headers stored with a cursor message are encodable (no header key longer than
  32767 bytes; the real ones are `subject` and `reply`);
* `NoRetention` — the cursors partition is not subject to retention limits. On the unrepaired
  code it inherits the server-wide `streams.retention.*` limits, and with them the statement
  is FALSE (`C11_with_retention_asStated_false`);
* for histories in which fetches overlap other calls: `P.guarded = true` — the miss path caches
  what it scanned only if no `SetCursor` ran since its cache lookup. On the unrepaired code
  (`guarded = false`) the statement is FALSE (`C11_concurrent_asStated_false`); what holds
  there is `C11_concurrent_partial`.
Which variant the code has is regenerated (`Gen.Cursors.missAddGuarded`, `retentionOff`):
`C11_code`.
-/
import Liftbridge.Model.Cursors
import Liftbridge.Proofs.Cursors

namespace Liftbridge.Props.C11
open Liftbridge Liftbridge.Log Liftbridge.Cursors Liftbridge.Proofs.Cursors

/-- What a `FetchCursor` issued after the history (with nothing else running) must answer. -/
def Correct (P : Params) (m : Int) (on : Bool) (hist : List Op) (k : Key) : Prop :=
  (getCursor P (run P (State.init m on) hist) k).2 = .ok ((lastSet hist k).getD (-1))

/-- **C11** (every history of complete calls). After any sequence of SetCursor / FetchCursor
calls over any keys, interleaved with segment rolls, cleans (compaction) of the cursors
partition, cache purges and evictions, leader changes of the cursors partition, auto-pause
(with the implicit resume) and server restarts, with the cache enabled or disabled, a fetch
returns the offset of the last SetCursor of that key, or -1 if there was none. Holds for the
unrepaired and the repaired miss path alike (`P.guarded` is arbitrary). -/
theorem C11 (P : Params) (m : Int) (hm : 0 < m) (on : Bool) (hnr : NoRetention P) (hh : HdrsOK P)
    (hist : List Op) (hseq : Sequential hist) (hvalid : ∀ op ∈ hist, ValidOp P.dec op) (k : Key) :
    Correct P m on hist k := by
  have hinv := inv_run hnr hh hist (inv_init P m hm on) hvalid
    (exclusiveRun_sequential hist _ rfl hseq)
  exact (inv_getCursor hinv k).2

/-- Every `SetCursor` of such a history succeeds (so "the last set" is "the last successful set"). -/
theorem set_succeeds (P : Params) (m : Int) (hm : 0 < m) (on : Bool) (hnr : NoRetention P) (hh : HdrsOK P)
    (hist : List Op) (hvalid : ∀ op ∈ hist, ValidOp P.dec op)
    (hx : ExclusiveRun P (State.init m on) hist) (k : Key) (o : Int) (v : Bytes) (hk : k ≠ []) (hv : P.dec v = some o) :
    (setCursor P (run P (State.init m on) hist) k o v).2 = .ok () := by
  have hinv := inv_run hnr hh hist (inv_init P m hm on) hvalid hx
  by_cases hg : P.guarded = true
  · exact (inv_set hinv hh k o v hk hv (Or.inl hg)).2
  · -- success does not depend on the cache: use the invariant of the log only
    obtain ⟨hr, -⟩ := inv_resume hinv
    obtain ⟨l', happ, -, -⟩ := logOK_publish hr.log (cursorMsg P k v) (cursorMsg_encodable hh k v)
    unfold setCursor
    simp only
    rw [show ({ resume (run P (State.init m on) hist) with seq := (resume (run P (State.init m on) hist)).seq + 1 } : State).log
      = (resume (run P (State.init m on) hist)).log from rfl, happ]

/-- **C11 for concurrent histories** (repaired miss path). Histories may split every fetch into
its five steps and interleave them, per caller, with anything else — SetCursor of the same or
other keys, other fetches, cleans, purges, pauses, restarts. A fetch issued afterwards still
returns the last stored offset: no stale value is ever left in the cache. -/
theorem C11_concurrent (P : Params) (hg : P.guarded = true) (m : Int) (hm : 0 < m) (on : Bool)
    (hnr : NoRetention P) (hh : HdrsOK P) (hist : List Op) (hvalid : ∀ op ∈ hist, ValidOp P.dec op) (k : Key) :
    Correct P m on hist k := by
  have hinv := inv_run hnr hh hist (inv_init P m hm on) hvalid (exclusiveRun_guarded hg hist _)
  exact (inv_getCursor hinv k).2

/-- The full-strength statement over concurrent histories, for given parameters. -/
def C11_concurrent_asStated (P : Params) : Prop :=
  ∀ (m : Int), 0 < m → ∀ (on : Bool) (hist : List Op), (∀ op ∈ hist, ValidOp P.dec op) → ∀ k, Correct P m on hist k

/-- Parameters of the witnesses: the unrepaired miss path, no retention limits; the "codec"
decodes a value to its length. -/
def unrepaired : Params :=
  { dec := fun v => some (v.length : Int), cap := 4, hdrs := [], lim := ⟨0, 0, 0⟩, guarded := false, retentionOff := false }

def k1 : Key := [1]

/-- A fetch that found the cursors partition empty, overtaken by the first SetCursor before it
reaches its `cache.Add`. -/
def witnessEmpty : List Op :=
  [.lookup 0 k1, .readHW 0, .readOldest 0, .subscribe 0, .set k1 5 [0, 0, 0, 0, 0], .finish 0]

/-- **The full-strength statement is FALSE on the unrepaired code**: after `witnessEmpty` the
cache holds -1 for a cursor that was set to 5, and every later fetch returns -1. -/
theorem C11_concurrent_asStated_false : ¬ C11_concurrent_asStated unrepaired := by
  intro h
  have h1 := h 100 (by decide) true witnessEmpty (by decide) k1
  have h2 : (getCursor unrepaired (run unrepaired (State.init 100 true) witnessEmpty) k1).2 = .ok (-1) := by decide
  have h3 : lastSet witnessEmpty k1 = some 5 := by decide
  unfold Correct at h1
  rw [h2, h3] at h1
  exact absurd h1 (by decide)

/-- The same defect on a cursor that already has a value (the history replayed on the real
server, tag `cursor-cache-stale-after-concurrent-set`): set 1; cache purged (leader change or
eviction); a fetch scans the log and finds 1; SetCursor 2 completes; the fetch caches 1. -/
def witnessStale : List Op :=
  [.set k1 1 [0], .becomeLeader, .lookup 0 k1, .readHW 0, .readOldest 0, .subscribe 0, .set k1 2 [0, 0], .finish 0]

set_option linter.unusedSimpArgs false in
/-- After `witnessStale` a fetch returns 1 although the last SetCursor stored 2. -/
theorem stale_after_concurrent_set :
    (getCursor unrepaired (run unrepaired (State.init 100 true) witnessStale) k1).2 = .ok 1 ∧
      lastSet witnessStale k1 = some 2 := by
  refine ⟨?_, by decide⟩
  simp [witnessStale, k1, unrepaired, run, step, getCursor, finishGet, dropPend, setCursor, resume, State.init, CLog.init, CLog.append,
    CLog.checkSplit, CLog.needSplit, CLog.active, CLog.write, CLog.stamp, CLog.setActive, CLog.setHW, CLog.newest,
    CLog.nextOffset, Seg.nextOffset, Seg.lastOffset, cursorMsg, Cache.add, becomeLeader, lookup, Cache.get, findPend, setPend,
    subscribeScan, scanLog, Subscribe.create, cursorReq, Subscribe.startOffset, Subscribe.stopOffset, Subscribe.reverseRecs,
    CLog.findSegmentIdx, goSearch_one, Subscribe.deliverRev, scanMsgs, Gen.Log.splitCmp, Gen.Log.setHWCmp, Gen.Log.occBatchCmp,
    Gen.Log.findSegmentCmp, Cmp.evalInt, Cmp.evalNat, Seg.position, Rec.size, Payload.encLen, bytesLen, msgSetHeaderLen,
    Gen.Log.msgSetHeaderLen, Gen.Cursors.purgeOnLeader, Gen.Cursors.hwEmptyCmp, Gen.Cursors.oldestEmptyCmp,
    Gen.Cursors.oldestExitCmp, Gen.Cursors.endCodeCmp, Gen.Subscribe.readonlyStopForwardOnly, Gen.Subscribe.reverseStopRule,
    Gen.Subscribe.stopBeyondCheck, Gen.Subscribe.reverseEndStatus, Subscribe.waitForNew, CLog.assignEpochs,
    Gen.Log.appendEpochCmp, CLog.oldest, Seg.firstOffset, statusCode, mayCache, Payload.encodable, Gen.Log.putStringLenCmp, Gen.Log.headerCountCmp]

/-- **What holds on the unrepaired code for concurrent histories**: the statement, provided no
SetCursor runs while a fetch OF THE SAME KEY is between its cache lookup and its `cache.Add`
(`ExclusiveRun`; fetches may overlap each other, sets of other keys and everything else). -/
theorem C11_concurrent_partial (P : Params) (m : Int) (hm : 0 < m) (on : Bool) (hnr : NoRetention P) (hh : HdrsOK P)
    (hist : List Op) (hvalid : ∀ op ∈ hist, ValidOp P.dec op)
    (hx : ExclusiveRun P (State.init m on) hist) (k : Key) : Correct P m on hist k := by
  have hinv := inv_run hnr hh hist (inv_init P m hm on) hvalid hx
  exact (inv_getCursor hinv k).2

/-- The parameters of the code as it is now: the two regenerated facts, anything else free. -/
def codeParams (dec : Bytes → Option Int) (cap : Nat) (hdrs : List (String × Option Bytes)) (lim : Retention.Limits) : Params :=
  { dec := dec, cap := cap, hdrs := hdrs, lim := lim,
    guarded := Gen.Cursors.missAddGuarded, retentionOff := Gen.Cursors.retentionOff }

/-- **C11 for the code as regenerated**: if the extractor finds the guarded miss path and the
retention exemption in /repo, the full-strength statement holds for every concurrent history,
every cache capacity and every server-wide retention setting. -/
theorem C11_code (hg : Gen.Cursors.missAddGuarded = true) (hr : Gen.Cursors.retentionOff = true)
    (dec : Bytes → Option Int) (cap : Nat) (hdrs : List (String × Option Bytes)) (lim : Retention.Limits)
    (hh : HdrsOK (codeParams dec cap hdrs lim)) :
    C11_concurrent_asStated (codeParams dec cap hdrs lim) :=
  fun m hm on hist hvalid k =>
    C11_concurrent (codeParams dec cap hdrs lim) hg m hm on (Or.inl hr) hh hist hvalid k

/-! ### The end of the reverse scan: cancelled is not absent -/

/-- how a scan that stopped without having seen the key ends -/
inductive ScanEnd where
  | absent    -- "no cursor stored": -1 is returned, and GetCursor caches it
  | failed    -- an error: nothing is answered, nothing is cached
  deriving DecidableEq, Repr

/-- The error branch of `getLatestCursorOffset`. The reverse reader reports a cancelled request context exactly like the
beginning of the log (`codeIsEnd`: the status is ResourceExhausted in both cases), so only a test of the REQUEST CONTEXT can
tell the two apart; `byCtx` is regenerated from the source (`Gen.Cursors.cancelGuardByCtx`). -/
def scanEnd (byCtx ctxCancelled codeIsEnd : Bool) : ScanEnd :=
  if byCtx && ctxCancelled then .failed
  else if Gen.Cursors.endCodeCmp.evalInt (if codeIsEnd then 8 else 1) 8 then .absent else .failed

/-- a scan cut short by a cancelled or expired request is never taken for "cursor absent" (so -1 is not cached for a cursor
that WAS stored: the fixed defect `cursor-absent-after-cancelled-fetch`) - for the code as regenerated -/
theorem cancelled_scan_is_not_absent (codeIsEnd : Bool) :
    scanEnd Gen.Cursors.cancelGuardByCtx true codeIsEnd = .failed := by
  have h : Gen.Cursors.cancelGuardByCtx = true := by decide
  simp [scanEnd, h]

/-- ... and it would be, with a guard that looks at the status code only (the reader reports the end-of-log code) -/
theorem cancelled_scan_absent_without_ctx_guard : scanEnd false true true = .absent := by decide

/-- a scan that really reached the beginning of the log is "absent" -/
theorem complete_scan_is_absent : scanEnd Gen.Cursors.cancelGuardByCtx false true = .absent := by decide

/-! ### Overlapping fetches -/

/-- **What a fetch that overlaps other calls returns.** `seen tid` (`Proofs.Cursors.seenStep`) is
the history variable "values the key of caller `tid`'s fetch in flight has held since its cache
lookup": the stored offset (or -1) at the lookup, plus the offset of every SetCursor of that key
since. Whatever is interleaved with the fetch — sets of any key, other fetches, cleans that
change `OldestOffset()` after it was read, purges, restarts of other callers' windows — the
offset it finally returns is one of these values: fetches are linearizable reads. (Together with
`C11`, which by prefix-closure speaks about EVERY complete fetch of a history, not only the
last.) Hypothesis `ExclusiveRun` is needed for the unrepaired code only
(`exclusiveRun_guarded`): there a stale cache entry left by an earlier lost update can be hit. -/
theorem overlapping_fetch_returns_value_held_during_call (P : Params) (m : Int) (hm : 0 < m) (on : Bool)
    (hnr : NoRetention P) (hh : HdrsOK P) (hist : List Op) (hvalid : ∀ op ∈ hist, ValidOp P.dec op)
    (hx : ExclusiveRun P (State.init m on) hist) (tid : Nat) (v : Int)
    (hout : (step P (run P (State.init m on) hist) (.finish tid)).2 = .val (.ok v)) :
    v ∈ (runG P (G.init m on) hist).seen tid := by
  have hG := invG_run hnr hh hist (invG_init P m hm on) hvalid hx
  have hs : (runG P (G.init m on) hist).s = run P (State.init m on) hist := runG_s P hist _
  rw [← hs] at hout
  obtain ⟨p, hfp, hst⟩ := finish_output hout
  obtain ⟨hp, htid⟩ := findPend_mem hfp
  have := (hG.seen p hp).2
  rw [hst] at this
  rw [← htid]
  exact this v rfl

/-- The same for the repaired miss path, without any restriction on the history. -/
theorem overlapping_fetch_repaired (P : Params) (hg : P.guarded = true) (m : Int) (hm : 0 < m) (on : Bool)
    (hnr : NoRetention P) (hh : HdrsOK P) (hist : List Op) (hvalid : ∀ op ∈ hist, ValidOp P.dec op) (tid : Nat) (v : Int)
    (hout : (step P (run P (State.init m on) hist) (.finish tid)).2 = .val (.ok v)) :
    v ∈ (runG P (G.init m on) hist).seen tid :=
  overlapping_fetch_returns_value_held_during_call P m hm on hnr hh hist hvalid (exclusiveRun_guarded hg hist _) tid v hout

/-- The history variable on the stale-cache history: the fetch of caller 0 may return 1 (the value
at its lookup) or 2 (set while it was in flight) — it returns 1, which is fine; the defect is
only that the unrepaired code then CACHES it. -/
example : (runG unrepaired (G.init 100 true) (witnessStale.take 7)).seen 0 = [2, 1] := by decide

/-! ### Retention -/

/-- The statement of `C11` without the `NoRetention` hypothesis. -/
def C11_with_retention_asStated (P : Params) : Prop :=
  ∀ (m : Int), 0 < m → ∀ (on : Bool) (hist : List Op), Sequential hist → (∀ op ∈ hist, ValidOp P.dec op) →
    ∀ k, Correct P m on hist k

/-- The cursors stream inherits `streams.retention.max.messages = 1`. -/
def retained : Params :=
  { dec := fun v => some (v.length : Int), cap := 4, hdrs := [], lim := ⟨0, 1, 0⟩, guarded := true, retentionOff := false }

def k2 : Key := [2]

/-- Two cursors, a clean, and the cache entry gone (eviction, leader change or restart). -/
def witnessRetention : List Op := [.set k1 1 [0], .set k2 2 [0, 0], .clean, .evictAll]

set_option linter.unusedSimpArgs false in
/-- **With retention limits inherited by the cursors stream the statement is FALSE** (even for
sequential histories and the repaired miss path): retention deletes the segment holding the
only record of an idle cursor; it reads -1 afterwards. (The default configuration has
`streams.retention.max.age` = 7 days: same code path, not modelled.) -/
theorem C11_with_retention_asStated_false : ¬ C11_with_retention_asStated retained := by
  intro h
  have h1 := h 1 (by decide) true witnessRetention (by decide) (by decide) k1
  have h2 : (getCursor retained (run retained (State.init 1 true) witnessRetention) k1).2 = .ok (-1) := by
    simp [witnessRetention, k1, k2, retained, run, step, getCursor, finishGet, setCursor, resume, State.init, CLog.init, CLog.append,
      CLog.checkSplit, CLog.needSplit, CLog.roll, CLog.active, CLog.write, CLog.stamp, CLog.setActive, CLog.setHW, CLog.newest,
      CLog.nextOffset, Seg.nextOffset, Seg.lastOffset, cursorMsg, Cache.add, lookup, Cache.get, subscribeScan, scanLog,
      Subscribe.create, cursorReq, Cursors.clean, Compact.cleanLog, Compact.compact, Retention.clean, Retention.applyLimit,
      Retention.keepBack, Retention.msgSize, Seg.count, Gen.Retention.ageOnCmp, Gen.Retention.msgsOnCmp, Gen.Retention.bytesOnCmp,
      Gen.Retention.msgsCmp, Gen.Retention.ageSecondPass, Gen.Compact.skipCmp, Epochs.clearEarliest, Epochs.earliestOffset,
      Gen.Log.clearEarliestSkipCmp, Subscribe.startOffset, Subscribe.stopOffset, Subscribe.reverseRecs, CLog.findSegmentIdx,
      goSearch_one, Subscribe.deliverRev, scanMsgs, Gen.Log.splitCmp, Gen.Log.setHWCmp, Gen.Log.occBatchCmp, Gen.Log.findSegmentCmp,
      Cmp.evalInt, Cmp.evalNat, Seg.position, Rec.size, Payload.encLen, bytesLen, msgSetHeaderLen, Gen.Log.msgSetHeaderLen,
      Gen.Cursors.hwEmptyCmp, Gen.Cursors.oldestEmptyCmp, Gen.Cursors.oldestExitCmp, Gen.Cursors.endCodeCmp,
      Gen.Subscribe.readonlyStopForwardOnly, Gen.Subscribe.reverseStopRule, Gen.Subscribe.stopBeyondCheck,
      Gen.Subscribe.reverseEndStatus, Subscribe.waitForNew, CLog.assignEpochs, Gen.Log.appendEpochCmp, CLog.oldest,
      Seg.firstOffset, statusCode, mayCache, Payload.encodable, Gen.Log.putStringLenCmp, Gen.Log.headerCountCmp]
  have h3 : lastSet witnessRetention k1 = some 1 := by decide
  unfold Correct at h1
  rw [h2, h3] at h1
  exact absurd h1 (by decide)

/-! ### Cursor keys -/

/-- A cursor key is never empty (the side condition `k ≠ []` of `ValidOp` holds for real keys). -/
theorem key_nonempty (id stream digits : Bytes) : keyOf id stream digits ≠ [] := keyOf_ne_nil id stream digits

/-- Distinct (cursor id, stream, partition) triples have distinct keys as long as neither the
cursor id nor the stream name contains a comma. -/
theorem key_injective {id id' stream stream' d d' : Bytes} (h1 : comma ∉ id) (h1' : comma ∉ id')
    (h2 : comma ∉ stream) (h2' : comma ∉ stream') (h : keyOf id stream d = keyOf id' stream' d') :
    id = id' ∧ stream = stream' ∧ d = d' := keyOf_injective h1 h1' h2 h2' h

/-- Without that restriction they collide: cursor `a,b` on stream `c` and cursor `a` on stream
`b,c` (partition 0) share the key `a,b,c,0` — the API accepts both (known finding
`cursor-key-collision`). -/
theorem key_collision :
    keyOf [97, 44, 98] [99] [48] = keyOf [97] [98, 44, 99] [48] ∧ ([97, 44, 98] : Bytes) ≠ [97] := by decide

/-! ### Non-vacuity -/

/-- The hypotheses of `C11` are satisfiable by a history that exercises set, fetch, roll, clean,
purge, pause and restart. -/
example : ∃ (P : Params) (hist : List Op), NoRetention P ∧ Sequential hist ∧ (∀ op ∈ hist, ValidOp P.dec op) ∧
    hist.length = 9 ∧ lastSet hist k1 = some 2 :=
  ⟨unrepaired, [.set k1 1 [0], .get k1, .roll, .set k2 3 [0, 0, 0], .clean, .pause, .set k1 2 [0, 0], .restart, .becomeLeader],
    Or.inr rfl, by decide, by decide, rfl, by decide⟩

/-- `C11_concurrent` applies to the history that breaks the unrepaired code. -/
example : Correct { unrepaired with guarded := true } 100 true witnessStale k1 :=
  C11_concurrent _ rfl 100 (by decide) true (Or.inr rfl) (by decide) witnessStale (by decide) k1

/-- `ExclusiveRun` is satisfiable by a history with overlapping calls (a fetch of `k1`
interleaved with a set of `k2`) and excludes `witnessStale`. -/
example : ExclusiveRun unrepaired (State.init 100 true)
    [.set k1 1 [0], .evictAll, .lookup 0 k1, .readHW 0, .set k2 7 [0, 0, 0, 0, 0, 0, 0], .readOldest 0] := by
  decide

end Liftbridge.Props.C11
