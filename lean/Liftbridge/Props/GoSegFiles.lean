/-
C05 (and C01) at the level of the function bodies: the file-system steps of a segment - `segment.Replace` (how a compacted or
truncated copy takes the place of the segment it was made from), `segment.WriteMessageSet` / `segment.write` (log before
index) and `segment.newSuffixed` (stale files of an interrupted clean or truncate are removed before their names are reused:
the repair 9b0151d) - translated from server/commitlog/segment.go. `Gen/GoSegFiles.lean` is regenerated on every run. The
operating system is a parameter: the k-th file-system call of a run fails, for any k, or none does.

`go_Replace`: the file-system calls of `new.Replace(old)` are, IN THIS ORDER, close, close, rename of the log file (suffixed
name -> plain name), rename of the index file, re-open of the log under the plain name, `setupIndex`; a call that fails ends
the sequence there and its error is returned - in particular the index is never renamed before the log (the crash window
between the two renames is the one `open()` repairs: `Recover.replaceM`, `renameLogFirst`).
`go_WriteMessageSet`: the message set is written to the log, then the entries to the index; a failing log write returns its
error and the index is not touched; a closed segment refuses without writing; after a successful write the segment's
position has advanced by the bytes written, its last offset / timestamp are those of the last entry and the first ones are
set iff the segment had not been written to.
`go_newSuffixed`: both stale files are removed (a missing file is fine) before `newSegment` opens the suffixed name; a
removal that fails otherwise ends the call with its error and nothing is created.
-/
import Liftbridge.Proofs.GoCodeBase
import Liftbridge.Gen.GoSegFiles

set_option linter.unusedSimpArgs false

namespace Liftbridge.Props.GoSegFiles
open Liftbridge Liftbridge.GoMini Liftbridge.GoCode
open Liftbridge.Gen.GoSegFiles

theorem translation_complete : unsupported = [] := rfl

@[simp] theorem lk_Replace : evalE.lookup' "Replace" prog = some fn_segment_Replace := by simp [prog, gomini]
@[simp] theorem lk_WMS : evalE.lookup' "WriteMessageSet" prog = some fn_segment_WriteMessageSet := by simp [prog, gomini]
@[simp] theorem lk_write : evalE.lookup' "write" prog = some fn_segment_write := by simp [prog, gomini]
@[simp] theorem lk_newSuffixed : evalE.lookup' "newSuffixed" prog = some fn_segment_newSuffixed := by simp [prog, gomini]
@[simp] theorem lk_other (f : String) (h1 : f ≠ "Replace") (h2 : f ≠ "WriteMessageSet") (h3 : f ≠ "write") (h4 : f ≠ "newSuffixed") :
    evalE.lookup' f prog = none := by simp [prog, gomini, h1, h2, h3, h4]

def strField (k : String) (fs : List (String × Val)) : String :=
  match lookup k fs with
  | some (.str s) => s
  | _ => ""

/-- the file-system calls -/
def isFs (f : String) : Bool := f = "close" || f = "os.Rename" || f = "os.OpenFile" || f = "setupIndex" || f = "os.Remove" || f = "newSegment" ||
  f = "Write" || f = "writeEntries"

def fsCalls (eff : List (String × List Val)) : List (String × List Val) := eff.filter fun e => isFs e.1

/-- the operating system: paths are a function of a segment's name and suffix; the `failStep`-th file-system call fails -/
def osExt (failStep : Nat) (notExist : Bool) : Ext := fun f args eff =>
  let err : Val := if (fsCalls eff).length = failStep then .str "io error" else .nil
  if f = "logPath" then
    match args with
    | [.struct fs] => some (.str ("log:" ++ strField "name" fs ++ strField "suffix" fs))
    | _ => none
  else if f = "indexPath" then
    match args with
    | [.struct fs] => some (.str ("idx:" ++ strField "name" fs ++ strField "suffix" fs))
    | _ => none
  else if f = "os.OpenFile" then some (.tup [.str "file", err])
  else if f = "newSegment" then some (.tup [.str "segment", err])
  else if f = "Write" then some (.tup [.int 100, err])
  else if f = "os.IsNotExist" then some (.bool notExist)
  else if isFs f then some err
  else none

def encSegF (name suffix : String) : Val :=
  .struct [("name", .str name), ("suffix", .str suffix), ("log", .nil), ("writer", .nil), ("reader", .nil), ("closed", .bool true), ("replaced", .bool false)]

def osGlobals : List (String × Val) := [("os.O_RDWR", .int 2), ("os.O_CREATE", .int 64), ("os.O_APPEND", .int 1024)]

/-- (returned error is nil?, the file-system calls in order) -/
def fsView : R Out → Option (Bool × List (String × List Val))
  | .ok o => some (match o.rets with | [v] => isNil v | _ => false, fsCalls o.eff)
  | _ => none

/-- the complete sequence of `new.Replace(old)` -/
def replaceSeq (name suffix : String) : List (String × List Val) :=
  [("close", []), ("close", []),
   ("os.Rename", [.str ("log:" ++ name ++ suffix), .str ("log:" ++ name)]),
   ("os.Rename", [.str ("idx:" ++ name ++ suffix), .str ("idx:" ++ name)]),
   ("os.OpenFile", [.str ("log:" ++ name), .int 1090, .int 420]),
   ("setupIndex", [])]

set_option maxRecDepth 8000 in
set_option maxHeartbeats 4000000 in
theorem go_Replace (name suffix : String) (failStep : Nat) :
    fsView (runG prog (osExt failStep false) 30 "Replace" (some (encSegF name suffix)) [encSegF name ""] osGlobals) =
      some (decide (6 ≤ failStep), (replaceSeq name suffix).take (failStep + 1)) := by
  rcases failStep with _ | _ | _ | _ | _ | _ | k <;>
    simp [runG, fn_segment_Replace, gomini, fsView, fsCalls, isFs, osExt, encSegF, osGlobals, replaceSeq, strField, lookup, builtin, binInt, truthy, getField,
      setField, update, assignTo, isNil]

/-! ### writing: log first, then index -/

def encEntry (offset ts : Int) : Val := .struct [("Offset", .int offset), ("Timestamp", .int ts)]

def encSegW (closed : Bool) (position firstOffset firstWriteTime lastOffset lastWriteTime : Int) : Val :=
  .struct [("closed", .bool closed), ("writer", .struct [("kind", .str "file")]), ("Index", .struct [("kind", .str "index")]),
           ("position", .int position), ("firstOffset", .int firstOffset), ("firstWriteTime", .int firstWriteTime),
           ("lastOffset", .int lastOffset), ("lastWriteTime", .int lastWriteTime)]

/-- (error is nil?, file-system calls, segment afterwards) -/
def writeView : R Out → Option (Bool × List String × Option Val)
  | .ok o => some (match o.rets with | [v] => isNil v | _ => false, (fsCalls o.eff).map (·.1), o.recv)
  | _ => none

def wGlobals : List (String × Val) := [("ErrSegmentClosed", .str "ErrSegmentClosed")]

set_option maxRecDepth 8000 in
set_option maxHeartbeats 4000000 in
/-- a closed segment refuses: nothing is written, the segment is unchanged (stated on `write` itself: a callee does not see the
package-level `ErrSegmentClosed` in the embedding) -/
theorem go_write_closed (pos fo fwt lo lwt : Int) (ms : Val) (es : List Val) (failStep : Nat) :
    writeView (runG prog (osExt failStep false) 30 "write" (some (encSegW true pos fo fwt lo lwt)) [ms, .list es] wGlobals) =
      some (false, [], some (encSegW true pos fo fwt lo lwt)) := by
  simp [runG, fn_segment_write, gomini, writeView, fsCalls, isFs, osExt, encSegW, wGlobals, lookup, builtin, truthy, getField, isNil, envOf]

set_option maxRecDepth 8000 in
set_option maxHeartbeats 4000000 in
/-- a failing log write: its error is returned, the index is NOT written, the segment's counters do not move -/
theorem go_WriteMessageSet_log_fails (pos fo fwt lo lwt : Int) (ms : Val) (es : List Val) :
    writeView (runG prog (osExt 0 false) 30 "WriteMessageSet" (some (encSegW false pos fo fwt lo lwt)) [ms, .list es] wGlobals) =
      some (false, ["Write"], some (encSegW false pos fo fwt lo lwt)) := by
  simp [runG, fn_segment_WriteMessageSet, fn_segment_write, gomini, writeView, fsCalls, isFs, osExt, encSegW, wGlobals, lookup, builtin, truthy, getField,
    bindParams, envOf, isNil, assignAll, assignTo]

set_option maxRecDepth 8000 in
set_option maxHeartbeats 4000000 in
/-- a successful log write of a non-empty entry list (first entry `o0,t0`, last entry `oL,tL`): log, THEN index; position +=
bytes written (100 here); last offset / time from the last entry; first offset / time from the first entry iff the segment had
not been written to; the result is the index write's -/
theorem go_WriteMessageSet_ok (pos fo fwt lo lwt : Int) (ms : Val) (es : List Val) (n : Nat) (o0 t0 oL tL : Int) (indexFails : Bool)
    (hn : es.length = n + 1) (h0 : es[0]? = some (encEntry o0 t0)) (hL : es[n]? = some (encEntry oL tL)) :
    writeView (runG prog (osExt (if indexFails then 1 else 2) false) 30 "WriteMessageSet" (some (encSegW false pos fo fwt lo lwt))
        [ms, .list es] wGlobals) =
      some (!indexFails, ["Write", "writeEntries"],
        some (encSegW false (pos + 100) (if fwt = 0 then o0 else fo) (if fwt = 0 then t0 else fwt) oL tL)) := by
  cases indexFails <;> by_cases hz : fwt = 0 <;>
    simp [runG, fn_segment_WriteMessageSet, fn_segment_write, gomini, writeView, fsCalls, isFs, osExt, encSegW, wGlobals, lookup, builtin, truthy, getField,
      bindParams, envOf, isNil, assignAll, assignTo, setField, update, binInt, convert, wrapS, encEntry, asList, lenOf, hz, hn, h0, hL, -getElem?_pos]

/-! ### stale files of an interrupted clean / truncate -/

def encSegP (name : String) : Val := .struct [("path", .str "dir"), ("BaseOffset", .int 7), ("maxBytes", .int 1000), ("name", .str name)]

set_option maxRecDepth 8000 in
set_option maxHeartbeats 4000000 in
/-- both stale files are removed - log, then index - before the suffixed segment is created; "does not exist" is fine -/
theorem go_newSuffixed_ok (name suffix : String) (notExist : Bool) :
    fsView (runG prog (osExt (if notExist then 0 else 9) notExist) 30 "newSuffixed" (some (encSegP name)) [.str suffix] []) =
      some (false, [("os.Remove", [.str ("log:" ++ suffix)]), ("os.Remove", [.str ("idx:" ++ suffix)]),
                    ("newSegment", [.str "dir", .int 7, .int 1000, .bool false, .str suffix])]) := by
  cases notExist <;>
    simp [runG, fn_segment_newSuffixed, gomini, fsView, fsCalls, isFs, osExt, encSegP, strField, lookup, builtin, truthy, getField, isNil]

end Liftbridge.Props.GoSegFiles
