/-
C08 / C10 / C11 at the level of the function bodies: the reverse index scanner (server/commitlog/index.go) that reverse
subscriptions and the cursor look-up walk a segment's index with - `newReverseIndexScanner`, `newReverseIndexScannerFromEnd`,
`reverseIndexScanner.Scan` - translated from the code. `Gen/GoRevScan.lean` is regenerated on every run. Reading an index
slot fills a record through a pointer, which the embedding does not model: the read is an EFFECT naming the slot, and the
theorems are about WHICH slots are read, in which order, and when the scan ends.

`go_newReverseIndexScanner`: the scanner starts at exactly the slot it is given - also at -1, "no entry at or before the
start offset in this segment", which must end the scan at once (the seeded change C08-reverse-scanner-clamps-start-slot turns -1
into 0). `go_fromEnd`: the last slot, or -1 for an index without entries. `go_Scan`: a slot below 0 ends the scan (EOF) without
any read; otherwise exactly that slot is read and the scanner moves one slot down; a failing read is returned and the scanner
stays. `scan_reads`: iterating that step (`scanAll`, the step function `go_Scan` establishes) from slot k visits k, k-1, ..., 0, each once.
-/
import Liftbridge.Proofs.GoCodeBase
import Liftbridge.Gen.GoRevScan

set_option linter.unusedSimpArgs false

namespace Liftbridge.Props.GoRevScan
open Liftbridge Liftbridge.GoMini Liftbridge.GoCode
open Liftbridge.Gen.GoRevScan

theorem translation_complete : unsupported = [] := rfl

@[simp] theorem lk_new : evalE.lookup' "newReverseIndexScanner" prog = some fn_newReverseIndexScanner := by simp [prog, gomini]
@[simp] theorem lk_end : evalE.lookup' "newReverseIndexScannerFromEnd" prog = some fn_newReverseIndexScannerFromEnd := by simp [prog, gomini]
@[simp] theorem lk_Scan : evalE.lookup' "Scan" prog = some fn_reverseIndexScanner_Scan := by simp [prog, gomini]
@[simp] theorem lk_other (f : String) (h1 : f ≠ "newReverseIndexScanner") (h2 : f ≠ "newReverseIndexScannerFromEnd") (h3 : f ≠ "Scan") :
    evalE.lookup' f prog = none := by simp [prog, gomini, h1, h2, h3]

def idxV (entries : Int) : Val := .struct [("CountEntries", .int entries)]
def scannerV (entries slot : Int) : Val := .struct [("idx", idxV entries), ("entry", .struct []), ("offset", .int slot)]

def rets : R Out → Option (List Val)
  | .ok o => some o.rets
  | _ => none

theorem go_newReverseIndexScanner (entries start : Int) :
    rets (runG prog noExt 30 "newReverseIndexScanner" none [idxV entries, .int start] []) = some [scannerV entries start] := by
  simp [runG, fn_newReverseIndexScanner, gomini, rets, scannerV]

theorem go_fromEnd (entries : Int) :
    rets (runG prog noExt 30 "newReverseIndexScannerFromEnd" none [idxV entries] []) =
      some [scannerV entries (if entries - 1 < 0 then -1 else entries - 1)] := by
  by_cases h : entries - 1 < 0 <;>
    simp [runG, fn_newReverseIndexScannerFromEnd, gomini, rets, scannerV, idxV, binInt, truthy, getField, lookup, h]

/-- reading a slot succeeds or fails -/
def readExt (ok : Bool) : Ext := fun f _ _ =>
  if f = "ReadEntryAtLogOffset" then (if ok then some .nil else some (.str "read error")) else none

/-- (is the result EOF / an error / an entry, the slots read, the scanner's slot afterwards) -/
def scanView : R Out → Option (Val × List Val × Option Val)
  | .ok o => some ((o.rets.getD 1 .nil), (o.eff.filter fun e => e.1 = "ReadEntryAtLogOffset").map (fun e => (e.2.getD 1 .nil)),
      match o.recv with | some (.struct fs) => lookup "offset" fs | _ => none)
  | _ => none

set_option maxRecDepth 8000 in
theorem go_Scan (entries slot : Int) (ok : Bool) :
    scanView (runG prog (readExt ok) 30 "Scan" (some (scannerV entries slot)) [] [("io.EOF", .str "io.EOF")]) =
      some (if slot < 0 then (.str "io.EOF", [], some (.int slot))
            else if ok then (.nil, [.int slot], some (.int (slot - 1)))
            else (.str "read error", [.int slot], some (.int slot))) := by
  by_cases h : slot < 0
  · simp [runG, fn_reverseIndexScanner_Scan, gomini, scanView, scannerV, idxV, binInt, truthy, getField, lookup, h, envOf]
  · cases ok <;>
      simp [runG, fn_reverseIndexScanner_Scan, gomini, scanView, scannerV, idxV, binInt, truthy, getField, setField, update, lookup, h, envOf, readExt, assignTo]

/-- the slots a scanner started at slot `k` reads before it reports EOF: k, k-1, ..., 0 -/
def slotsFrom : Nat → List Int
  | 0 => [0]
  | k + 1 => ((k : Int) + 1) :: slotsFrom k

/-- iterate `Scan` (every read succeeding) until EOF, as the specification of the scanner's steps given by `go_Scan` -/
def scanAll : Nat → Int → List Int
  | 0, _ => []
  | fuel + 1, slot => if slot < 0 then [] else slot :: scanAll fuel (slot - 1)

theorem scan_reads (k : Nat) : scanAll (k + 2) (k : Int) = slotsFrom k := by
  induction k with
  | zero => simp [scanAll, slotsFrom]
  | succ k ih =>
    have h : ¬ (((k + 1 : Nat) : Int) < 0) := by omega
    rw [scanAll]
    simp only [h, ↓reduceIte, slotsFrom]
    have : (((k + 1 : Nat) : Int) - 1) = (k : Int) := by omega
    rw [this, ih]
    simp

end Liftbridge.Props.GoRevScan
