/-
C04 and C16 at the level of the function bodies: when an acknowledgement is sent and what a publish is refused for -
`partition.processPendingMessage`, `partition.sendAck` (server/partition.go) and `apiServer.ensurePublishPreconditions`
(server/api.go) - translated from the code. `Gen/GoAck.lean` is regenerated on every run; the ack-policy and error-code
constants are read from the pinned liftbridge-api module (LEADER = 0, ALL = 1, NONE = 2).

`go_processPendingMessage`: for every message and partition: the LEADER policy is acknowledged at once (the message is in
the leader's log) and never queued on an unreplicated partition; the ALL policy is NEVER acknowledged here - its ack waits
in the commit queue for the in-sync replicas, also with replication factor 1 -; the NONE policy is never acknowledged and
is queued only when there are followers to wait for. The ack carries the offset the message was stored at, its correlation
id and its ack inbox.
`go_sendAck`: no inbox, no ack; an ack that cannot be marshalled is dropped (the repair a241e5d: no panic); otherwise
exactly one publish to the ack inbox.
`go_ensurePublishPreconditions`: unknown stream / unknown partition -> NOT_FOUND; read-only partition -> READONLY; a
concurrency-control stream with ack policy NONE -> BAD_REQUEST (a conditional publish whose outcome nobody would hear of);
otherwise accepted - in that order.
-/
import Liftbridge.Proofs.GoCodeBase
import Liftbridge.Gen.GoAck

set_option linter.unusedSimpArgs false

namespace Liftbridge.Props.GoAck
open Liftbridge Liftbridge.GoMini Liftbridge.GoCode
open Liftbridge.Gen.GoAck

theorem translation_complete : unsupported = [] := rfl

@[simp] theorem lk_ppm : evalE.lookup' "processPendingMessage" prog = some fn_partition_processPendingMessage := by simp [prog, gomini]
@[simp] theorem lk_sendAck : evalE.lookup' "sendAck" prog = some fn_partition_sendAck := by simp [prog, gomini]
@[simp] theorem lk_epp : evalE.lookup' "ensurePublishPreconditions" prog = some fn_apiServer_ensurePublishPreconditions := by simp [prog, gomini]
@[simp] theorem lk_nack : evalE.lookup' "sendTooLargeNack" prog = some fn_partition_sendTooLargeNack := by simp [prog, gomini]
@[simp] theorem lk_SetLeader : evalE.lookup' "SetLeader" prog = some fn_partition_SetLeader := by simp [prog, gomini]
@[simp] theorem lk_other (f : String) (h1 : f ≠ "processPendingMessage") (h2 : f ≠ "sendAck") (h3 : f ≠ "ensurePublishPreconditions")
    (h4 : f ≠ "sendTooLargeNack") (h5 : f ≠ "SetLeader") :
    evalE.lookup' f prog = none := by simp [prog, gomini, h1, h2, h3, h4, h5]

inductive Policy where | leader | all | none
  deriving DecidableEq, Repr

def Policy.code : Policy → Int
  | .leader => 0
  | .all => 1
  | .none => 2

def encPartA (rf : Int) : Val :=
  .struct [("Stream", .str "s"), ("Subject", .str "subj"), ("ReplicationFactor", .int rf), ("commitQueue", .struct [("kind", .str "queue")]),
           ("srv", .struct [("ncAcks", .struct [("kind", .str "nats")])])]

def encMsg (policy : Policy) (inbox cid : String) : Val :=
  .struct [("Headers", .struct [("subject", .str "msg.subject")]), ("AckInbox", .str inbox), ("CorrelationID", .str cid),
           ("AckPolicy", .int policy.code), ("Timestamp", .int 77)]

/-- the world of an ack: the clock, the UTF-8 repair of the subject (identity here), marshalling (ok or not), the NATS publish -/
def ackExt (marshalOk : Bool) : Ext := fun f args _ =>
  if f = "timestamp" then some (.int 99)
  else if f = "protoString" then args.head?
  else if f = "proto.MarshalAck" then (if marshalOk then some (.tup [.str "ack-bytes", .nil]) else some (.tup [.nil, .str "marshal error"]))
  else if f = "Publish" then some .nil
  else if f = "Put" then some .nil
  else none

/-- (acks published: the inbox each went to; commit-queue entries: the offset and inbox queued) -/
def ackView : R Out → Option (List Val × List (Option Val × Option Val))
  | .ok o => some ((o.eff.filter fun e => e.1 = "Publish").map (fun e => e.2.headD .nil),
      (o.eff.filter fun e => e.1 = "Put").map (fun e => match e.2 with
        | [.struct fs] => (lookup "Offset" fs, lookup "AckInbox" fs)
        | _ => (none, none)))
  | _ => none

set_option maxRecDepth 8000 in
set_option maxHeartbeats 2000000 in
theorem go_processPendingMessage (rf offset : Int) (policy : Policy) (inbox cid : String) (hin : inbox ≠ "") :
    ackView (runG prog (ackExt true) 30 "processPendingMessage" (some (encPartA rf)) [.int offset, encMsg policy inbox cid] []) =
      some (if policy = .leader then [.str inbox] else [],
            if rf = 1 ∧ policy ≠ .all then [] else [(some (.int offset), some (.str inbox))]) := by
  cases policy <;> by_cases h1 : rf = 1 <;>
    simp [runG, fn_partition_processPendingMessage, fn_partition_sendAck, gomini, ackView, ackExt, encPartA, encMsg, Policy.code, binInt, truthy, getField, lookup,
      builtin, bindParams, envOf, setField, update, assignTo, h1, hin]

set_option maxRecDepth 8000 in
set_option maxHeartbeats 2000000 in
theorem go_sendAck (inbox : String) (marshalOk : Bool) :
    ackView (runG prog (ackExt marshalOk) 30 "sendAck" (some (encPartA 3)) [.struct [("AckInbox", .str inbox), ("MsgSubject", .str "m")]] []) =
      some (if inbox = "" ∨ marshalOk = false then [] else [.str inbox], []) := by
  by_cases h : inbox = "" <;> cases marshalOk <;>
    simp [runG, fn_partition_sendAck, gomini, ackView, ackExt, encPartA, truthy, getField, lookup, builtin, setField, update, assignTo, h]

/-! ### what a publish is refused for -/

def encReqP (policy : Policy) : Val := .struct [("Stream", .str "s"), ("Partition", .int 0), ("AckPolicy", .int policy.code)]

/-- the metadata: is the stream there, is the partition there, is it read-only, has it concurrency control -/
def preExt (stream partition readonly occ : Bool) : Ext := fun f _ _ =>
  if f = "GetStream" then (if stream then some (.struct [("kind", .str "stream")]) else some .nil)
  else if f = "GetPartition" then
    (if partition then some (.struct [("IsReadonly", .bool readonly), ("log", .struct [("IsConcurrencyControlEnabled", .bool occ)])]) else some .nil)
  else none

def codeOf : R Out → Option (Option Val)
  | .ok o => match o.rets with
    | [.nil] => some none
    | [.struct fs] => some (lookup "Code" fs)
    | _ => none
  | _ => none

set_option maxRecDepth 8000 in
set_option maxHeartbeats 4000000 in
theorem go_ensurePublishPreconditions (stream partition readonly occ : Bool) (policy : Policy) :
    codeOf (runG prog (preExt stream partition readonly occ) 30 "ensurePublishPreconditions" (some (.struct [("metadata", .struct [])])) [encReqP policy] []) =
      some (if !stream then some (.int 2) else if !partition then some (.int 2) else if readonly then some (.int 4)
            else if occ ∧ policy = .none then some (.int 1) else none) := by
  cases stream <;> cases partition <;> cases readonly <;> cases occ <;> cases policy <;>
    simp [runG, fn_apiServer_ensurePublishPreconditions, gomini, codeOf, preExt, encReqP, Policy.code, binInt, truthy, getField, lookup, builtin]

/-! ### the TOO_LARGE nack, and the leader-epoch fence of `SetLeader` -/

/-- (inbox and error code of every ack published) -/
def nackView : R Out → Option (List (Val × Option Val × Option Val))
  | .ok o => some ((o.eff.filter fun e => e.1 = "proto.MarshalAck").map fun e => match e.2 with
      | [.struct fs] => ((lookup "AckInbox" fs).getD .nil, lookup "AckError" fs, lookup "CorrelationId" fs)
      | _ => (.nil, none, none))
  | _ => none

set_option maxRecDepth 8000 in
set_option maxHeartbeats 2000000 in
/-- a message beyond the replication limit is answered - when it asked for an answer - by exactly one ack that carries the error
TOO_LARGE (3), the message's correlation id and goes to its ack inbox; without an inbox nothing is sent -/
theorem go_sendTooLargeNack (policy : Policy) (inbox cid : String) :
    nackView (runG prog (ackExt true) 30 "sendTooLargeNack" (some (encPartA 3)) [encMsg policy inbox cid] []) =
      some (if inbox = "" then [] else [(.str inbox, some (.int 3), some (.str cid))]) := by
  by_cases h : inbox = "" <;>
    simp [runG, fn_partition_sendTooLargeNack, gomini, nackView, ackExt, encPartA, encMsg, truthy, getField, lookup, builtin, h]

def encPartL (leader : String) (epoch : Int) (recovered paused : Bool) : Val :=
  .struct [("Leader", .str leader), ("LeaderEpoch", .int epoch), ("recovered", .bool recovered), ("paused", .bool paused)]

/-- (refused?, leader and epoch afterwards, was the leader / follower loop started) -/
def leaderView : R Out → Option (Bool × Option Val × Option Val × Bool)
  | .ok o => some (match o.rets with | [.str _] => true | _ => false,
      match o.recv with | some (.struct fs) => lookup "Leader" fs | _ => none,
      match o.recv with | some (.struct fs) => lookup "LeaderEpoch" fs | _ => none,
      o.eff.any fun e => e.1 = "startLeadingOrFollowing")
  | _ => none

set_option maxRecDepth 8000 in
set_option maxHeartbeats 2000000 in
/-- `SetLeader`: a leader epoch below the partition's is refused and changes nothing (leader epochs never decrease); otherwise
leader and epoch are taken over, and the leader / follower loops are started unless the partition is being recovered or is paused -/
theorem go_SetLeader (cur : String) (curEpoch : Int) (recovered paused : Bool) (leader : String) (epoch : Int) :
    leaderView (runG prog noExt 30 "SetLeader" (some (encPartL cur curEpoch recovered paused)) [.str leader, .int epoch] []) =
      some (if epoch < curEpoch then (true, some (.str cur), some (.int curEpoch), false)
            else (false, some (.str leader), some (.int epoch), !(recovered || paused))) := by
  by_cases h : epoch < curEpoch
  · simp [runG, fn_partition_SetLeader, gomini, leaderView, encPartL, binInt, truthy, getField, lookup, builtin, h]
  · cases recovered <;> cases paused <;>
      simp [runG, fn_partition_SetLeader, gomini, leaderView, encPartL, binInt, truthy, getField, setField, update, lookup, builtin, assignTo, h, noExt]

end Liftbridge.Props.GoAck
