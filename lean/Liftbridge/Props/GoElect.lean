/-
C07 at the level of the function body: `metadataAPI.electNewPartitionLeader` (server/metadata.go) - who can become leader
and what is re-validated when the change is proposed - translated from the code, including its closure
`checkPreconditions`, which the translator lifts to a function of its own (parameters: the closure's, then the captured
variables `leader`, `m`, `oldEpoch`, `oldLeader`, `partition`). `Gen/GoElect.lean` is regenerated on every run.

`go_elect`: for EVERY in-sync list (loop lemma `cand_loop`, induction over the list) and every current leader: with at most
one in-sync replica, or no in-sync replica other than the leader, the call is refused and NOTHING is proposed; otherwise the
candidates are exactly the in-sync replicas other than the current leader, in order - the reported leader itself is never
among them -, the new leader is what `selectPartitionLeader` picks FROM THE CANDIDATES, and exactly one operation is
proposed: CHANGE_LEADER for this stream and partition with that leader, together with the closure.
`go_checkPreconditions`: the proposal-time check passes iff the generic leader-change preconditions hold, the partition still
has the leader and leader epoch the selection was made under, the partition still exists and the candidate is STILL IN THE
IN-SYNC SET (`inISR`, not merely a replica) - each failing check returns its error in that order.
-/
import Liftbridge.Proofs.GoCodeBase
import Liftbridge.Gen.GoElect

set_option linter.unusedSimpArgs false

namespace Liftbridge.Props.GoElect
open Liftbridge Liftbridge.GoMini Liftbridge.GoCode
open Liftbridge.Gen.GoElect

theorem translation_complete : unsupported = [] := rfl

@[simp] theorem lk_elect : evalE.lookup' "electNewPartitionLeader" prog = some fn_metadataAPI_electNewPartitionLeader := by simp [prog, gomini]
@[simp] theorem lk_check : evalE.lookup' "electNewPartitionLeader·checkPreconditions" prog = some fn_metadataAPI_electNewPartitionLeader_checkPreconditions := by
  simp [prog, gomini]
@[simp] theorem lk_other (f : String) (h1 : f ≠ "electNewPartitionLeader") (h2 : f ≠ "electNewPartitionLeader·checkPreconditions") :
    evalE.lookup' f prog = none := by simp [prog, gomini, h1, h2]

def encPartition (isr : List String) (leader : String) (epoch : Int) (stream : String) (id : Int) : Val :=
  .struct [("GetISR", .list (isr.map .str)), ("GetLeader", .tup [.str leader, .int epoch]), ("Stream", .str stream), ("Id", .int id)]

def mV : Val := .struct [("kind", .str "metadataAPI")]

def globals : List (String × Val) :=
  [("codes.FailedPrecondition", .str "FailedPrecondition"), ("codes.Internal", .str "Internal"), ("proto.Op_CHANGE_LEADER", .str "CHANGE_LEADER")]

/-- the candidate loop: `for _, candidate := range isr { if candidate == oldLeader { continue }; candidates = append(candidates, candidate) }` -/
def candBody : List Stmt :=
  [(.ite [] (.bin "==" (.var "candidate") (.var "oldLeader")) [.cont] []),
   (.assign [(.var "candidates")] [(.call "append" [(.var "candidates"), (.var "candidate")])])]

def others (leader : String) (isr : List String) : List String := isr.filter (· ≠ leader)

set_option maxRecDepth 8000 in
theorem cand_loop (n : Nat) (x : Ext) (leader : String) (rest : List String) :
    ∀ (i : Nat) (acc : List String) (st : St), st.env "oldLeader" = some (.str leader) → st.env "candidates" = some (.list (acc.map .str)) →
    ∃ st', runRange (runBlock (exec prog x (n + 6)) candBody) none (some "candidate") i (rest.map .str) st = .ok (.next, st') ∧
      st'.env "candidates" = some (.list ((acc ++ others leader rest).map .str)) ∧ st'.eff = st.eff ∧
      (∀ y, y ≠ "candidates" → y ≠ "candidate" → st'.env y = st.env y) := by
  induction rest with
  | nil => intro i acc st _ hc; exact ⟨st, by simp [gomini], by simpa [others] using hc, rfl, fun _ _ _ => rfl⟩
  | cons c tl ih =>
    intro i acc st hl hc
    by_cases h : c = leader
    · subst h
      obtain ⟨st', h1, h2, h3, h4⟩ := ih (i + 1) acc (st.set "candidate" (.str c)) (by simp [gomini, hl]) (by simp [gomini, hc])
      refine ⟨st', ?_, by simpa [others] using h2, by rw [h3]; simp [gomini], ?_⟩
      · simp [gomini, candBody, hl, truthy]
        simpa [candBody] using h1
      · intro y hy1 hy2; rw [h4 y hy1 hy2]; simp [gomini, hy2]
    · obtain ⟨st', h1, h2, h3, h4⟩ := ih (i + 1) (acc ++ [c]) ((st.set "candidate" (.str c)).set "candidates" (.list ((acc ++ [c]).map .str)))
        (by simp [gomini, hl]) (by simp [gomini])
      refine ⟨st', ?_, ?_, by rw [h3]; simp [gomini], ?_⟩
      · simp [gomini, candBody, hl, hc, truthy, h, builtin, asList]
        simpa [candBody] using h1
      · simpa [others, h] using h2
      · intro y hy1 hy2; rw [h4 y hy1 hy2]; simp [gomini, hy1, hy2]

/-- the callees: `status.New(f)` build a status record, `selectPartitionLeader` picks from the list it is GIVEN, the Raft
layer answers `(future, err)` for the proposal, errors print as themselves -/
def electExt (pick : List Val → Val) (applyAns : Val) : Ext := fun f args _ =>
  if f = "status.New" ∨ f = "status.Newf" then
    match args with
    | c :: m :: _ => some (.struct [("code", c), ("msg", m)])
    | _ => none
  else if f = "selectPartitionLeader" then
    match args with
    | [_, .list cs] => some (pick cs)
    | _ => none
  else if f = "getRaft" then some (.struct [("kind", .str "raft")])
  else if f = "applyOperation" then some applyAns
  else if f = "Error" then
    match args with
    | [v] => some v
    | _ => none
  else none

/-- (the status returned, the arguments of every `applyOperation` call) -/
def electView : R Out → Option (List Val × List (List Val))
  | .ok o => some (o.rets, (o.eff.filter fun e => e.1 = "applyOperation").map (·.2))
  | _ => none

def refusedV : Val := .struct [("code", .str "FailedPrecondition"), ("msg", .str "No ISR candidates")]

def opV (stream : String) (id : Int) (leader : Val) : Val :=
  .struct [("Op", .str "CHANGE_LEADER"), ("ChangeLeaderOp", .struct [("Stream", .str stream), ("Partition", .int id), ("Leader", leader)])]

def closureV : Val := .struct [("closure", .str "electNewPartitionLeader·checkPreconditions")]

/-- what the caller gets for the three answers of the Raft layer -/
def electResult : Val → Val
  | .tup [_, .str e] => .struct [("code", .str "FailedPrecondition"), ("msg", .str "%s")]
  | .tup [.struct [("Error", .str e)], .nil] => .struct [("code", .str "Internal"), ("msg", .str "Failed to replicate leader change: %v")]
  | _ => .nil

set_option maxRecDepth 8000 in
set_option maxHeartbeats 2000000 in
theorem go_elect_refused (isr : List String) (leader : String) (epoch : Int) (stream : String) (id : Int) (pick : List Val → Val) (applyAns : Val)
    (h : isr.length ≤ 1 ∨ others leader isr = []) :
    electView (runG prog (electExt pick applyAns) 30 "electNewPartitionLeader" (some mV) [.str "ctx", encPartition isr leader epoch stream id] globals) =
      some ([refusedV], []) := by
  by_cases h1 : isr.length ≤ 1
  · have h1' : (isr.length : Int) ≤ 1 := by omega
    simp [runG, fn_metadataAPI_electNewPartitionLeader, gomini, electView, electExt, encPartition, globals, refusedV, binInt, lenOf, truthy, getField, lookup, h1', builtin]
  · have h2 : others leader isr = [] := by rcases h with h | h; exact absurd h h1; exact h
    have h1' : ¬ (isr.length : Int) ≤ 1 := by omega
    obtain ⟨st', l1, l2, l3, l4⟩ := cand_loop 23 (electExt pick applyAns) leader isr 0 []
      ((((({ env := envOf ([("m", mV), ("ctx", .str "ctx"), ("partition", encPartition isr leader epoch stream id)] ++ globals), eff := [] } : St).set "isr" (.list (isr.map .str))).set
        "candidates" (.list [])).set "oldLeader" (.str leader)).set "oldEpoch" (.int epoch))
      (by simp [gomini]) (by simp [gomini])
    have e1 := l4 "codes.FailedPrecondition" (by decide) (by decide)
    simp [candBody, h2, encPartition, globals, mV, gomini, envOf, lookup] at l1 l2 l3 e1
    simp [runG, fn_metadataAPI_electNewPartitionLeader, gomini, electView, electExt, encPartition, globals, refusedV, binInt, lenOf, truthy, getField, lookup, h1',
      builtin, assignAll, assignTo, mV, l1, l2, l3, e1]

set_option maxRecDepth 8000 in
set_option maxHeartbeats 4000000 in
/-- more than one in-sync replica, one of them not the leader: exactly one proposal - CHANGE_LEADER for this partition with
the replica `selectPartitionLeader` picks from the CANDIDATES (the in-sync replicas other than the current leader) - handed
over with the re-validation closure; the answer of the Raft layer decides the status returned -/
theorem go_elect_proposes (isr : List String) (leader : String) (epoch : Int) (stream : String) (id : Int) (pick : List Val → Val)
    (future : Val) (applyErr : Option String) (futErr : Option String)
    (h1 : ¬ isr.length ≤ 1) (h2 : others leader isr ≠ []) :
    electView (runG prog (electExt pick (.tup [.struct [("Error", match futErr with | some e => .str e | none => .nil)],
        match applyErr with | some e => .str e | none => .nil])) 30 "electNewPartitionLeader" (some mV)
        [.str "ctx", encPartition isr leader epoch stream id] globals) =
      some ([match applyErr, futErr with
              | some _, _ => .struct [("code", .str "FailedPrecondition"), ("msg", .str "%s")]
              | none, some _ => .struct [("code", .str "Internal"), ("msg", .str "Failed to replicate leader change: %v")]
              | none, none => .nil],
            [[.str "ctx", opV stream id (pick ((others leader isr).map .str)), closureV]]) := by
  have h1' : ¬ (isr.length : Int) ≤ 1 := by omega
  have hne : ¬ ((others leader isr).length : Int) = 0 := by
    intro hh; apply h2; exact List.eq_nil_of_length_eq_zero (by omega)
  have hne2 : ¬ List.map Val.str (others leader isr) = [] := by simpa using h2
  generalize hx : electExt pick (.tup [.struct [("Error", match futErr with | some e => Val.str e | none => Val.nil)],
        match applyErr with | some e => Val.str e | none => Val.nil]) = x
  obtain ⟨st', l1, l2, l3, l4⟩ := cand_loop 23 x leader isr 0 []
    ((((({ env := envOf ([("m", mV), ("ctx", .str "ctx"), ("partition", encPartition isr leader epoch stream id)] ++ globals), eff := [] } : St).set "isr" (.list (isr.map .str))).set
      "candidates" (.list [])).set "oldLeader" (.str leader)).set "oldEpoch" (.int epoch))
    (by simp [gomini]) (by simp [gomini])
  have e1 := l4 "codes.FailedPrecondition" (by decide) (by decide)
  have e2 := l4 "codes.Internal" (by decide) (by decide)
  have e3 := l4 "proto.Op_CHANGE_LEADER" (by decide) (by decide)
  have e4 := l4 "m" (by decide) (by decide)
  have e5 := l4 "partition" (by decide) (by decide)
  have e6 := l4 "ctx" (by decide) (by decide)
  simp [candBody, encPartition, globals, mV, gomini, envOf, lookup] at l1 l2 l3 e1 e2 e3 e4 e5 e6
  subst hx
  cases applyErr <;> cases futErr <;>
    simp [runG, fn_metadataAPI_electNewPartitionLeader, gomini, electView, electExt, encPartition, globals, binInt, lenOf, truthy, getField, lookup, h1',
      builtin, assignAll, assignTo, mV, l1, l2, l3, e1, e2, e3, e4, e5, e6, hne, hne2, h2, opV, closureV]

/-! ### the closure: what is re-validated when the change is proposed -/

/-- the metadata API as the closure sees it: the two generic checks answer an error or nil, `GetPartition` answers the
partition as it is NOW (or nil), whose `inISR(candidate)` is what it is now -/
def checkExt (generic generation : Val) (current : Option Bool) : Ext := fun f _ _ =>
  if f = "checkChangeLeaderPreconditions" then some generic
  else if f = "checkLeaderGeneration" then some generation
  else if f = "GetPartition" then
    match current with
    | some b => some (.struct [("now", .bool b)])
    | none => some .nil
  else if f = "inISR" then
    match current with
    | some b => some (.bool b)
    | none => none
  else none

def checkRets : R Out → Option (List Val)
  | .ok o => some o.rets
  | _ => none

set_option maxRecDepth 8000 in
theorem go_checkPreconditions (generic generation : Option String) (current : Option Bool) (leader : String) (oldLeader : String) (oldEpoch : Int)
    (stream : String) (id : Int) (op : Val) :
    checkRets (runG prog (checkExt (match generic with | some e => .str e | none => .nil) (match generation with | some e => .str e | none => .nil) current) 30
        "electNewPartitionLeader·checkPreconditions" none
        [op, .str leader, mV, .int oldEpoch, .str oldLeader, encPartition [] oldLeader oldEpoch stream id] []) =
      some [match generic, generation, current with
            | some e, _, _ => .str e
            | none, some e, _ => .str e
            | none, none, some true => .nil
            | none, none, _ => .str "error: Leader candidate %s is no longer in the ISR"] := by
  cases generic <;> cases generation <;> cases current with
  | none => simp [runG, fn_metadataAPI_electNewPartitionLeader_checkPreconditions, gomini, checkRets, checkExt, encPartition, truthy, getField, lookup, builtin, mV]
  | some b =>
    cases b <;>
      simp [runG, fn_metadataAPI_electNewPartitionLeader_checkPreconditions, gomini, checkRets, checkExt, encPartition, truthy, getField, lookup, builtin, mV]

/-- the reported leader is never a candidate, whatever the in-sync list -/
theorem leader_not_candidate (leader : String) (isr : List String) : leader ∉ others leader isr := by
  simp [others]

/-- and every candidate is in the in-sync set -/
theorem candidates_in_isr (leader : String) (isr : List String) (c : String) (h : c ∈ others leader isr) : c ∈ isr := by
  simp [others] at h; exact h.1

end Liftbridge.Props.GoElect
