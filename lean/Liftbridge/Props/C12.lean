/-
C12 — Each partition is assigned to exactly one consumer of a group.

Theorems about `Liftbridge.Groups` (model of server/groups.go) for EVERY history of
join / leave (= expire) / stream-deleted operations, every epoch sequence (refused operations
included), every number of members and streams, every partition-count function, overlapping and
disjoint subscriptions — by induction over the op list with the invariant `Proofs.Groups.Inv`.
Only property statements here; the lemmas are in `Liftbridge/Proofs/Groups.lean` and
`Liftbridge/Proofs/GroupsLoad.lean` (the load counter `assignedCount`: exact after every history,
and what follows from it for the balance clause).
-/
import Liftbridge.Model.Groups
import Liftbridge.Proofs.Groups
import Liftbridge.Proofs.GroupsLoad

namespace Liftbridge.Props.C12
open Liftbridge Liftbridge.Groups Liftbridge.Proofs.Groups

/-! Decision points of the Go source that the model does not evaluate through `Gen` but relies on
(a change breaks the build of this file and thereby the check). -/
example : Gen.Groups.balanceEmptyCmp = .eq := rfl          -- `len(*subscribers) == 0` ⇒ early return
example : Gen.Groups.removeRebalanceIfAssigned = true := rfl
/-- The load counter and what it counts are written ONLY by the two `consumer` methods that keep them
in step (and by the constructor): a write elsewhere in groups.go changes this regenerated table. -/
example : Gen.Groups.loadWrites =
    [("consumer.assignPartition", "c.assignments[stream]=append(streamAssignments,partition)"),
     ("consumer.assignPartition", "c.assignedCount++"),
     ("consumer.removeStreamAssignments", "c.assignedCount-=len(c.assignments[stream])"),
     ("consumer.removeStreamAssignments", "delete(c.assignments,stream)"),
     ("consumerGroup.addMember", "assignments:make(partitionAssignments)")] := rfl
example : Gen.Groups.deletedLowersCount = true := rfl     -- StreamDeleted goes through removeStreamAssignments

/-- **Exactly one holder.** After any history, for every stream that at least one member is
subscribed to and every partition `p` of that stream, there is a member that holds `p`, that
member is subscribed to the stream, and it is the only member holding `p`. -/
theorem exactly_one (parts : String → Nat) (e : Nat) (ops : List Op) (s : String) (p : Nat)
    (hsub : ∃ m ∈ (run parts (Group.new e) ops).members, s ∈ m.streams) (hp : p < parts s) :
    ∃ m ∈ (run parts (Group.new e) ops).members,
      s ∈ m.streams ∧ p ∈ asgOf m.asg s ∧
      ∀ m' ∈ (run parts (Group.new e) ops).members, p ∈ asgOf m'.asg s → m' = m := by
  have hinv := inv_run parts _ ops (inv_new parts e)
  have hperm := inv_subscribed_exact hinv hsub
  have hmem : p ∈ H (run parts (Group.new e) ops).members s :=
    hperm.mem_iff.2 (List.mem_range.2 hp)
  obtain ⟨m, hm, hpm⟩ := List.mem_flatMap.1 hmem
  refine ⟨m, hm, ?_, hpm, ?_⟩
  · apply Classical.byContradiction
    intro hns
    rw [hinv.only m hm s hns] at hpm
    simp at hpm
  · intro m' hm' hpm'
    have hnd : (H (run parts (Group.new e) ops).members s).Nodup :=
      hperm.nodup_iff.2 List.nodup_range
    exact holder_unique _ s hnd hm' hm hpm' hpm

/-- **Only subscribed streams.** No member holds a partition of a stream it is not subscribed to. -/
theorem only_subscribed (parts : String → Nat) (e : Nat) (ops : List Op) (m : Cons)
    (hm : m ∈ (run parts (Group.new e) ops).members) (s : String) (p : Nat)
    (hp : p ∈ asgOf m.asg s) : s ∈ m.streams := by
  have hinv := inv_run parts _ ops (inv_new parts e)
  apply Classical.byContradiction
  intro hns
  rw [hinv.only m hm s hns] at hp
  simp at hp

/-- **Only existing partitions, each listed once.** Whatever a member holds of a stream is a
partition of that stream (`< parts s`), and no partition occurs twice in a member's list. -/
theorem only_existing_partitions (parts : String → Nat) (e : Nat) (ops : List Op) (m : Cons)
    (hm : m ∈ (run parts (Group.new e) ops).members) (s : String) :
    (∀ p ∈ asgOf m.asg s, p < parts s) ∧ (asgOf m.asg s).Nodup := by
  have hinv := inv_run parts _ ops (inv_new parts e)
  by_cases hs : s ∈ m.streams
  · have hperm := inv_subscribed_exact hinv ⟨m, hm, hs⟩
    have hsub : (asgOf m.asg s).Sublist (H (run parts (Group.new e) ops).members s) := by
      have : ∀ ms : List Cons, m ∈ ms → (asgOf m.asg s).Sublist (H ms s) := by
        intro ms
        induction ms with
        | nil => intro h; simp at h
        | cons c r ih =>
          intro h
          rw [H_cons]
          rcases List.mem_cons.1 h with h | h
          · subst h; exact List.sublist_append_left _ _
          · exact (ih h).trans (List.sublist_append_right _ _)
      exact this _ hm
    constructor
    · intro p hp
      exact List.mem_range.1 (hperm.mem_iff.1 (hsub.subset hp))
    · exact List.Nodup.sublist hsub (hperm.nodup_iff.2 List.nodup_range)
  · rw [hinv.only m hm s hs]; simp

/-- The group's bookkeeping is consistent after any history: member ids are distinct, and a
consumer is in the heap of a stream exactly when it is a member subscribed to that stream. -/
theorem subscribers_consistent (parts : String → Nat) (e : Nat) (ops : List Op) :
    ((run parts (Group.new e) ops).members.map (·.id)).Nodup ∧
    ∀ s id, id ∈ subsOf (run parts (Group.new e) ops) s ↔
      ∃ m ∈ (run parts (Group.new e) ops).members, m.id = id ∧ s ∈ m.streams := by
  have hinv := inv_run parts _ ops (inv_new parts e)
  refine ⟨hinv.nodup, fun s id => ⟨fun h => ?_, fun h => ?_⟩⟩
  · obtain ⟨x, hx, hx1, hx2⟩ := b1_local hinv.b1 s id h
    obtain ⟨m, hm, hm1, hm2⟩ := mem_shape.1 hx
    exact ⟨m, hm, hm1.trans hx1, hm2 ▸ hx2⟩
  · obtain ⟨m, hm, hid, hs⟩ := h
    have := b2_local hinv.b2 s (m.id, m.streams) (mem_shape.2 ⟨m, hm, rfl, rfl⟩) hs
    exact hid ▸ this

/-- **Balance of a single-stream group.** If every join of the history names exactly the stream
`s`, then after the history the numbers of partitions of `s` held by any two members subscribed to
`s` differ by at most one. -/
theorem balanced_single_stream (parts : String → Nat) (e : Nat) (ops : List Op) (s : String)
    (hss : SingleStream s ops) (m₁ m₂ : Cons)
    (h₁ : m₁ ∈ (run parts (Group.new e) ops).members) (h₂ : m₂ ∈ (run parts (Group.new e) ops).members)
    (hs₁ : s ∈ m₁.streams) (hs₂ : s ∈ m₂.streams) :
    (asgOf m₁.asg s).length ≤ (asgOf m₂.asg s).length + 1 := by
  have hS := sinv_run parts s _ ops hss (inv_new parts e) (sinv_new s e)
  have hw := hS.within m₁ h₁ m₂ h₂ hs₁ hs₂
  have c1 := hS.count m₁ h₁
  have c2 := hS.count m₂ h₂
  omega

/-- **The load counter is exact.** After any history every member's `assignedCount` — the key of the
least-loaded heaps, maintained separately by `assignPartition` / `removeStreamAssignments` — equals
the number of partitions the member holds, summed over all streams (`asgTotal` = Σ_stream
|assignments[stream]|), and the assignment map lists each stream once. Joins, leaves, stream
deletions (which must LOWER the counter by what was held of the deleted stream) and refused
operations all preserve it; no phantom load survives. -/
theorem load_count_exact (parts : String → Nat) (e : Nat) (ops : List Op) (m : Cons)
    (hm : m ∈ (run parts (Group.new e) ops).members) :
    m.count = (asgTotal m.asg : Int) ∧ (m.asg.map (·.1)).Nodup := by
  have h := cinv_run parts (Group.new e) ops (cinv_new e) m hm
  exact ⟨h.count, h.keys⟩

/-- **Balance among the members consuming one and the same single stream.** After ANY history
(joins naming several streams, leaves, stream deletions, refused operations), two members that
are subscribed to `s` and to nothing else hold numbers of partitions of `s` that differ by at
most one — whatever the other members are subscribed to. -/
theorem balanced_sole_subscribers (parts : String → Nat) (e : Nat) (ops : List Op) (s : String)
    (m₁ m₂ : Cons)
    (h₁ : m₁ ∈ (run parts (Group.new e) ops).members) (h₂ : m₂ ∈ (run parts (Group.new e) ops).members)
    (hs₁ : s ∈ m₁.streams) (ho₁ : ∀ t ∈ m₁.streams, t = s)
    (hs₂ : s ∈ m₂.streams) (ho₂ : ∀ t ∈ m₂.streams, t = s) :
    (asgOf m₁.asg s).length ≤ (asgOf m₂.asg s).length + 1 :=
  (binv_run parts _ ops (binv_new parts e)).bal s m₁ h₁ m₂ h₂ ⟨hs₁, ho₁⟩ ⟨hs₂, ho₂⟩

/-- **Balance of a group consuming a single stream — the clause as the property states it.**
Whenever, after any history, the group consumes a single stream `s` (no member is subscribed to
anything but `s`; the group may have consumed other streams before that have been deleted since,
and members left without subscription by a deletion may still be around), the partition counts of
the members subscribed to `s` differ by at most one. `balanced_single_stream` above is the special
case of histories that never named another stream. -/
theorem balanced_when_single_stream (parts : String → Nat) (e : Nat) (ops : List Op) (s : String)
    (hsingle : ∀ m ∈ (run parts (Group.new e) ops).members, ∀ t ∈ m.streams, t = s)
    (m₁ m₂ : Cons)
    (h₁ : m₁ ∈ (run parts (Group.new e) ops).members) (h₂ : m₂ ∈ (run parts (Group.new e) ops).members)
    (hs₁ : s ∈ m₁.streams) (hs₂ : s ∈ m₂.streams) :
    (asgOf m₁.asg s).length ≤ (asgOf m₂.asg s).length + 1 :=
  balanced_sole_subscribers parts e ops s m₁ m₂ h₁ h₂ hs₁ (hsingle m₁ h₁) hs₂ (hsingle m₂ h₂)

/-- **The heap is faithfully abstracted.** `Less` = (assignedCount, id) has a unique least element
among consumers with distinct ids, so what `Peek` returns after `heap.Init` does not depend on the
order of the heap array nor on the order of the member list: `peek` is a function of the two sets. -/
theorem heap_order_irrelevant (ms₁ ms₂ : List Cons) (idl₁ idl₂ : List String) (hp : ms₁.Perm ms₂)
    (hi : ∀ id, id ∈ idl₁ ↔ id ∈ idl₂) (hnd : (ms₁.map (·.id)).Nodup) :
    peek ms₁ idl₁ = peek ms₂ idl₂ := peek_perm ms₁ ms₂ idl₁ idl₂ hp hi hnd

/-- **The request's stream list is a set.** Order and repetitions in the list of streams a
consumer asks for do not influence the outcome (the code builds a map and ranges over its sorted
keys; Go's randomised map iteration order never reaches the assignment). -/
theorem join_streams_order_irrelevant (parts : String → Nat) (g : Group) (id : String)
    (l₁ l₂ : List String) (epoch : Nat) (h : ∀ x, x ∈ l₁ ↔ x ∈ l₂) :
    join parts g id l₁ epoch = join parts g id l₂ epoch := by
  simp only [join, addMember, sortDedup_ext l₁ l₂ h]

/-- **Determinism of the state machine.** The group — and therefore what `GetAssignments` hands
out for a given epoch — is a function of the initial epoch, the op sequence and the partition
counts: two servers that applied the same sequence agree. (Trivial for a Lean function; the
substance is the correspondence harness, which checks that the real `consumerGroup`, with Go's
randomised map iteration and `container/heap`, computes this function.) -/
theorem deterministic (parts : String → Nat) (e : Nat) (ops₁ ops₂ : List Op) (h : ops₁ = ops₂)
    (id : String) (epoch : Nat) :
    getAssignments (run parts (Group.new e) ops₁) id epoch =
      getAssignments (run parts (Group.new e) ops₂) id epoch := by rw [h]

/-! ### The asynchronous `StreamDeleted`

`metadataAPI.removeStream` (metadata.go) notifies the groups from a goroutine
(`Gen.Groups.streamDeletedInGoroutine`), so the FSM may apply later operations to a group before
`StreamDeleted(stream, epoch = index of the delete)` reaches it. -/

/-- `sched` is the op sequence `ops` in which `StreamDeleted` notifications may be delivered
later than their place in the log (all other operations keep their order). -/
inductive Delayed : List Op → List Op → Prop
  | nil : Delayed [] []
  | keep (o : Op) {ops sched : List Op} : Delayed ops sched → Delayed (o :: ops) (o :: sched)
  | late (s : String) (e : Nat) {ops pre post : List Op} :
      Delayed ops (pre ++ post) → Delayed (.deleted s e :: ops) (pre ++ .deleted s e :: post)

/-- Every notification is delivered before the next operation on the group. -/
inductive InOrder : List Op → List Op → Prop
  | nil : InOrder [] []
  | keep (o : Op) {ops sched : List Op} : InOrder ops sched → InOrder (o :: ops) (o :: sched)

/-- The delivery schedules the code as it is allows (regenerated fact: does metadata.go call
`group.StreamDeleted` from a goroutine?). -/
def Schedule (ops sched : List Op) : Prop :=
  if Gen.Groups.streamDeletedInGoroutine then Delayed ops sched else InOrder ops sched

/-- Full-strength statement ("servers that applied the same sequence of group operations hand out
identical assignments"): whatever schedule a server executes for a log, the group is the one of
the log. FALSE as long as the notification is sent from a goroutine (`streamDeleted_async_false`). -/
def streamDeleted_async_asStated : Prop :=
  ∀ (parts : String → Nat) (e : Nat) (ops sched : List Op), Schedule ops sched →
    run parts (Group.new e) sched = run parts (Group.new e) ops

def wParts : String → Nat := fun s => if s = "a" then 2 else if s = "b" then 3 else 0
def wOps : List Op := [.join "x" ["a", "b"] 1, .deleted "a" 2, .join "y" ["b"] 3]
def wSched : List Op := [.join "x" ["a", "b"] 1, .join "y" ["b"] 3, .deleted "a" 2]

theorem wDelayed : Delayed wOps wSched :=
  .keep _ (.late "a" 2 (pre := [.join "y" ["b"] 3]) (post := []) (.keep _ .nil))

/-- The mechanism: a notification that arrives after the group's epoch has moved on is refused. -/
theorem late_streamDeleted_refused (parts : String → Nat) (g : Group) (s : String) (e : Nat)
    (h : e < g.epoch) : streamDeleted parts g s e = .err "epoch" := by
  simp [streamDeleted, Gen.Groups.epochDeletedCmp, Cmp.evalNat, h]

/-- Witness (replayed on the real `consumerGroup` by the harness, corpus/C12/streamdeleted-dropped.ops):
log `join x {a,b} @1; delete a @2; join y {b} @3`. Delivered in order: x holds b:[0,2], y holds b:[1].
If `join y` reaches the group before the notification, the notification (epoch 2 < 3) is refused:
x keeps stream a and a:[0,1] for good, and b is split x:[2], y:[0,1] — a different assignment of
an existing stream for the same group epoch 3. -/
theorem streamDeleted_async_false (hasync : Gen.Groups.streamDeletedInGoroutine = true) :
    ¬ streamDeleted_async_asStated := by
  intro h
  have hs : Schedule wOps wSched := by
    unfold Schedule; rw [hasync]; exact wDelayed
  have := h wParts 0 wOps wSched hs
  revert this
  decide

/-- In the racing schedule the deleted stream's assignment survives, in the in-order one it is gone. -/
theorem streamDeleted_dropped_keeps_assignment :
    (∃ m ∈ (run wParts (Group.new 0) wSched).members, asgOf m.asg "a" = [0, 1] ∧ "a" ∈ m.streams) ∧
    (∀ m ∈ (run wParts (Group.new 0) wOps).members, asgOf m.asg "a" = [] ∧ "a" ∉ m.streams) := by
  decide

/-- …and when a stream of that name is created again (here with 3 partitions) the stale group has
a subscribed member for it but nobody holds the new partition 2: the first clause of C12 fails. -/
theorem streamDeleted_dropped_then_recreated_unassigned :
    let g := run wParts (Group.new 0) wSched
    let parts' : String → Nat := fun s => if s = "a" then 3 else wParts s
    (∃ m ∈ g.members, "a" ∈ m.streams) ∧ 2 < parts' "a" ∧ ∀ m ∈ g.members, 2 ∉ asgOf m.asg "a" := by
  decide

/-- Strongest true variant: with every notification delivered before the next operation on the
group, the schedule IS the log, so the group is the one all other theorems of this file speak
about (`exactly_one`, `only_subscribed`, … hold for it). -/
theorem streamDeleted_async_partial (parts : String → Nat) (e : Nat) (ops sched : List Op)
    (h : InOrder ops sched) : run parts (Group.new e) sched = run parts (Group.new e) ops := by
  have : sched = ops := by
    induction h with
    | nil => rfl
    | keep o _ ih => rw [ih]
  rw [this]

/-- Where the code stands (holds whatever the regenerated fact says, and says which case applies):
the full-strength statement is true exactly when the notification is NOT sent from a goroutine. -/
theorem streamDeleted_async_status :
    streamDeleted_async_asStated ↔ Gen.Groups.streamDeletedInGoroutine = false := by
  constructor
  · intro h
    cases hg : Gen.Groups.streamDeletedInGoroutine with
    | false => rfl
    | true => exact absurd h (streamDeleted_async_false hg)
  · intro hg parts e ops sched hs
    unfold Schedule at hs
    rw [hg] at hs
    exact streamDeleted_async_partial parts e ops sched hs

/-! ### Replay at start-up

During the replay of the Raft log at start-up a deleted stream is only tombstoned
(`RemoveStream(…, recovered = true)`), and the groups are notified when the replay ends
(`finishedRecovery → RemoveTombstonedStream(stream, last index)`), i.e. after the joins and leaves
that FOLLOW the deletion in the log. -/

def rParts : String → Nat := fun s => if s = "a" then 3 else if s = "b" then 2 else if s = "c" then 2 else 0
/-- the log, in log order (what a live server applies to the group) -/
def rLive : List Op := [.join "x" ["a", "c"] 0, .deleted "c" 5, .join "y" ["a", "b"] 6]
/-- what a server replaying that log at start-up applies to the group -/
def rReplay : List Op := [.join "x" ["a", "c"] 0, .join "y" ["a", "b"] 6, .deleted "c" 6]

/-- Rebalancing is order-dependent: applying the deletion after the later operations (as the
start-up replay does) gives another assignment of the existing stream `a` — x:[0,2], y:[1] live,
x:[0,1,2], y:[] replayed — for the same group epoch 6. Both satisfy `exactly_one`; what fails is
"servers that applied the same sequence of group operations hand out identical assignments".
Replayed on the real code by the harness (corpus/C12/streamdeleted-recovery-order.ops and through
`Server.apply` in recovery mode). -/
theorem replay_order_differs :
    (run rParts (Group.new 0) rLive).epoch = (run rParts (Group.new 0) rReplay).epoch ∧
    ((run rParts (Group.new 0) rLive).members.map fun m => (m.id, asgOf m.asg "a")) = [("x", [0, 2]), ("y", [1])] ∧
    ((run rParts (Group.new 0) rReplay).members.map fun m => (m.id, asgOf m.asg "a")) = [("x", [0, 1, 2]), ("y", [])] := by
  decide

/-! ### Rebuilding a group from a snapshot

A metadata snapshot carries a group's members and their subscriptions, not the assignments;
`Restore → newConsumerGroup` re-adds the members one by one in the order of the snapshot
(`Server.Snapshot` ranges over the map `GetMembers` returns: any order). -/

def oParts : String → Nat := fun s => if s = "a" then 1 else if s = "s" then 1 else 0
/-- the group as the log builds it -/
def oLive : List Op := [.join "m1" ["a", "s"] 0, .join "m2" ["a"] 0]
/-- the group as `newConsumerGroup` rebuilds it from a snapshot that lists m2 first -/
def oRestored : List Op := [.join "m2" ["a"] 0, .join "m1" ["a", "s"] 0]

/-- Observation (DESIGN.md §6 — not claimed as a violation of C12 as stated, which speaks of servers
that APPLIED the same op sequence): the assignments depend on the order in which the members were
added. Streams a and s with one partition each; the log creates the group with m1{a,s}, m2{a}
(live: m1 s:[0], m2 a:[0]); a snapshot listing m2 before m1 restores m1 a:[0] s:[0], m2 nothing —
same members, same subscriptions, same epoch. Both groups satisfy every other theorem of this file.
Measured on the real server by C06's stand-by scenarios (corpus/C06/group-assignments-after-restore.ops). -/
theorem restore_order_differs :
    (run oParts (Group.new 0) oLive).epoch = (run oParts (Group.new 0) oRestored).epoch ∧
    ((run oParts (Group.new 0) oLive).members.map fun m => (m.id, m.streams, m.asg)) =
      [("m1", ["a", "s"], [("s", [0])]), ("m2", ["a"], [("a", [0])])] ∧
    ((run oParts (Group.new 0) oRestored).members.map fun m => (m.id, m.streams, m.asg)) =
      [("m2", ["a"], []), ("m1", ["a", "s"], [("a", [0]), ("s", [0])])] := by
  refine ⟨by decide, by decide, by decide⟩

/-! ### non-vacuity -/

/-- The hypotheses of `exactly_one` are satisfiable and the history is not degenerate: three
members, overlapping subscriptions, a leave, a deletion, a refused (stale) operation. -/
example :
    let ops : List Op := [.join "x" ["a", "b"] 1, .join "y" ["b", "c"] 2, .join "z" ["c", "a", "a"] 3,
      .leave "y" 2, .leave "y" 4, .deleted "b" 5, .join "y" ["a"] 6]
    let parts : String → Nat := fun s => if s = "a" then 5 else if s = "b" then 2 else 3
    let g := run parts (Group.new 0) ops
    (∃ m ∈ g.members, "a" ∈ m.streams) ∧ g.members.length = 3 ∧ g.epoch = 6 ∧
    (g.members.map fun m => (m.id, asgOf m.asg "a")) = [("x", [0, 2, 4]), ("z", []), ("y", [1, 3])] := by
  decide

/-- `balanced_single_stream` is not vacuous: 5 partitions, three members come and one goes. -/
example :
    let ops : List Op := [.join "x" ["a"] 1, .join "y" ["a", "a"] 2, .join "z" ["a"] 3, .leave "x" 4]
    let g := run (fun _ => 5) (Group.new 0) ops
    SingleStream "a" ops ∧ (g.members.map fun m => (m.id, asgOf m.asg "a")) = [("y", [0, 2, 4]), ("z", [1, 3])] := by
  refine ⟨?_, by decide⟩
  intro op hop
  simp only [List.mem_cons, List.mem_nil_iff, or_false] at hop
  rcases hop with h | h | h | h <;> subst h <;> first | trivial | decide

/-- `balanced_when_single_stream` and `load_count_exact` are not vacuous: x subscribes {bar, foo},
y only {bar}; foo (3 partitions, all held by x) is deleted while the loads are unequal (x 4, y 3);
the group then consumes the single stream bar (4 partitions), which is shared 2/2, also after z
joins and leaves again; the counters are 2 and 2 (a counter not lowered by the deletion would
leave x with a phantom load of 3 and bar split 1/3). -/
example :
    let parts : String → Nat := fun s => if s = "foo" then 3 else if s = "bar" then 4 else 0
    let ops : List Op := [.join "x" ["foo", "bar"] 1, .join "y" ["bar"] 2, .deleted "foo" 3,
      .join "z" ["bar"] 4, .leave "z" 5]
    let g₂ := run parts (Group.new 0) (ops.take 2)
    let g := run parts (Group.new 0) ops
    (g₂.members.map fun m => (m.id, m.count)) = [("x", 4), ("y", 3)] ∧
    (∀ m ∈ g.members, ∀ t ∈ m.streams, t = "bar") ∧
    (g.members.map fun m => (m.id, asgOf m.asg "bar", m.count)) = [("x", [0, 2], 2), ("y", [1, 3], 2)] := by
  decide

end Liftbridge.Props.C12
