/-
C09 — Retention removes only whole oldest segments, no more than the limits require.
Theorems about `Liftbridge.Retention.clean` for EVERY segment layout and EVERY combination of
the three limits (induction over the segment list).
-/
import Liftbridge.Model.Retention
import Liftbridge.Proofs.Retention

namespace Liftbridge.Props.C09
open Liftbridge Liftbridge.Log Liftbridge.Retention Liftbridge.Proofs.Retention

def total (size : Seg → Int) (segs : List Seg) : Int := (segs.map size).sum

/-- Only whole segments from the oldest end are removed: the result is a suffix. -/
theorem clean_suffix (lim : Limits) (ttl : Int) (segs : List Seg) :
    ∃ k, clean lim ttl segs = segs.drop k := clean_suffix' lim ttl segs

/-- The newest segment always survives. -/
theorem clean_keeps_last (lim : Limits) (ttl : Int) (segs : List Seg) (h : segs ≠ []) :
    (clean lim ttl segs).getLast? = segs.getLast? := clean_keeps_last' lim ttl segs h

/-- Afterwards the message-count limit holds unless only the newest segment remains. -/
theorem msgs_limit_holds (lim : Limits) (ttl : Int) (segs : List Seg) (hm : 0 < lim.msgs)
    (hl : 1 < (clean lim ttl segs).length) : total msgSize (clean lim ttl segs) ≤ lim.msgs :=
  msgs_limit_holds' lim ttl segs hm hl

/-- Afterwards the byte limit holds unless only the newest segment remains. -/
theorem bytes_limit_holds (lim : Limits) (ttl : Int) (segs : List Seg) (hb : 0 < lim.bytes)
    (hl : 1 < (clean lim ttl segs).length) : total byteSize (clean lim ttl segs) ≤ lim.bytes :=
  bytes_limit_holds' lim ttl segs hb hl

/-- Afterwards the age limit holds for the oldest surviving segment unless only the newest remains
(and hence, when last-write times are non-decreasing along the log, for every surviving one). -/
theorem age_limit_holds (lim : Limits) (ttl : Int) (segs : List Seg) (ha : 0 < lim.age)
    (hl : 1 < (clean lim ttl segs).length) :
    ∀ s, (clean lim ttl segs).head? = some s → ttl ≤ s.lastTs :=
  age_limit_holds' lim ttl segs ha hl

/-- With non-decreasing last-write times the age limit holds for every surviving segment. -/
theorem age_limit_holds_sorted (lim : Limits) (ttl : Int) (segs : List Seg) (ha : 0 < lim.age)
    (hl : 1 < (clean lim ttl segs).length)
    (hsorted : segs.Pairwise (fun a b => a.lastTs ≤ b.lastTs)) :
    ∀ s ∈ clean lim ttl segs, ttl ≤ s.lastTs :=
  age_limit_sorted lim ttl segs ha hl hsorted

/-- The pre-fix pipeline (`cleanOld`: age, messages, bytes, no second age pass) could leave more
than one segment with the oldest survivor older than the TTL: last-write times 10, 0, 0 (one message
each), ttl 5, age limit on, at most 2 messages — the age pass keeps everything (the first segment
is young), the count pass removes that first segment and uncovers two old ones. This is why `clean`
applies the age limit a second time. -/
theorem old_pipeline_violates_age :
    ∃ lim ttl segs, 0 < lim.age ∧ 1 < (cleanOld lim ttl segs).length ∧
      ∃ s, (cleanOld lim ttl segs).head? = some s ∧ s.lastTs < ttl :=
  ⟨cexLim, cexTtl, cexSegs, by decide, by decide, cexSeg 0, by decide, by decide⟩

/-- A configured limit that the segments `s :: rest` (oldest first) would violate. -/
def Violates (lim : Limits) (ttl : Int) (s : Seg) (rest : List Seg) : Prop :=
  (0 < lim.age ∧ s.lastTs < ttl) ∨
  (0 < lim.msgs ∧ lim.msgs < total msgSize (s :: rest)) ∨
  (0 < lim.bytes ∧ lim.bytes < total byteSize (s :: rest))

/-- Minimality: no segment is removed unless keeping it (together with everything newer that
was kept) would violate a configured limit. -/
theorem clean_minimal (lim : Limits) (ttl : Int) (segs : List Seg) (k : Nat) (s : Seg)
    (hk : clean lim ttl segs = segs.drop (k + 1)) (hs : segs[k]? = some s) :
    Violates lim ttl s (segs.drop (k + 1)) := clean_minimal' lim ttl segs k s hk hs

/-- With no limit configured nothing is removed. -/
theorem clean_no_limits (ttl : Int) (segs : List Seg) : clean ⟨0, 0, 0⟩ ttl segs = segs := by
  simp [clean]

/-- Repeating a clean (same clock) removes nothing more. -/
theorem clean_idempotent (lim : Limits) (ttl : Int) (segs : List Seg) :
    clean lim ttl (clean lim ttl segs) = clean lim ttl segs :=
  clean_idempotent' lim ttl segs

end Liftbridge.Props.C09
