import Liftbridge.Model.Retention
namespace Liftbridge.Props.C09
end Liftbridge.Props.C09
