/-
C06 / C07 at the level of the function body: the APPLY side of the metadata operations that change a partition's in-sync set
and leader (server/metadata.go: `metadataAPI.RemoveFromISR`, `AddToISR`, `ChangeLeader`, `ChangeGroupCoordinator`,
`SetReadonly`, `PausePartitions`), translated from the code. `Gen/GoMetaApply.lean` is regenerated on every run. These are what
`Server.apply` (Props.GoFSM) calls with the Raft index as the epoch - on every server, live and on replay.

The partition / stream / group objects are external: their accessors are answered by fields, their mutators are recorded
(a local variable that holds a value of another type has its method names qualified, `partition.RemoveFromISR`, so that
it can never be taken for the `metadataAPI` method of the same name).

* `go_RemoveFromISR` / `go_AddToISR`: an unknown partition is an error and nothing is called; an entry whose epoch is NOT
  ABOVE the partition's epoch changes NOTHING (replay idempotency, and: the partition epoch never decreases); otherwise exactly
  `partition.RemoveFromISR(replica)` and then `SetEpoch(epoch)`; when the change itself fails the epoch is NOT advanced.
* `go_ChangeLeader`: same fence; otherwise `SetLeader(leader, epoch)`, `SetEpoch(epoch)`, and THEN the reports collected about
  the previous leader are dropped (`dropPartitionFailover(partition)`: seeded C07 changes that let a report about the old
  leader count against the new one remove exactly this call), and the leader-load table moves one unit from the old leader
  (never below zero) to the new one. A refused `SetLeader` (Props.GoAck: an epoch below the leader epoch) changes nothing else.
* `go_ChangeGroupCoordinator`: the same for a group's coordinator with the coordinator-load table.
* `go_SetReadonly`: unknown stream -> ErrStreamNotFound, else exactly one `stream.SetReadonly(partitions, readonly)`.
-/
import Liftbridge.Proofs.GoCodeBase
import Liftbridge.Gen.GoMetaApply

set_option linter.unusedSimpArgs false

namespace Liftbridge.Props.GoMetaApply
open Liftbridge Liftbridge.GoMini Liftbridge.GoCode
open Liftbridge.Gen.GoMetaApply

theorem translation_complete : unsupported = [] := rfl

theorem lk_none (f : String)
    (h : f ≠ "RemoveFromISR" ∧ f ≠ "AddToISR" ∧ f ≠ "ChangeLeader" ∧ f ≠ "ChangeGroupCoordinator" ∧ f ≠ "SetReadonly" ∧ f ≠ "PausePartitions") :
    evalE.lookup' f prog = none := by
  obtain ⟨h1, h2, h3, h4, h5, h6⟩ := h
  simp [prog, evalE.lookup', h1, h2, h3, h4, h5, h6]

@[simp] theorem lk_1 : evalE.lookup' "RemoveFromISR" prog = some fn_metadataAPI_RemoveFromISR := by simp [prog, gomini]
@[simp] theorem lk_2 : evalE.lookup' "AddToISR" prog = some fn_metadataAPI_AddToISR := by simp [prog, gomini]
@[simp] theorem lk_3 : evalE.lookup' "ChangeLeader" prog = some fn_metadataAPI_ChangeLeader := by simp [prog, gomini]
@[simp] theorem lk_4 : evalE.lookup' "ChangeGroupCoordinator" prog = some fn_metadataAPI_ChangeGroupCoordinator := by simp [prog, gomini]
@[simp] theorem lk_5 : evalE.lookup' "SetReadonly" prog = some fn_metadataAPI_SetReadonly := by simp [prog, gomini]
@[simp] theorem lk_a : evalE.lookup' "GetPartition" prog = none := lk_none _ (by decide)
@[simp] theorem lk_b : evalE.lookup' "partition.GetEpoch" prog = none := lk_none _ (by decide)
@[simp] theorem lk_c : evalE.lookup' "partition.RemoveFromISR" prog = none := lk_none _ (by decide)
@[simp] theorem lk_d : evalE.lookup' "partition.AddToISR" prog = none := lk_none _ (by decide)
@[simp] theorem lk_e : evalE.lookup' "partition.SetEpoch" prog = none := lk_none _ (by decide)
@[simp] theorem lk_f : evalE.lookup' "partition.GetLeader" prog = none := lk_none _ (by decide)
@[simp] theorem lk_g : evalE.lookup' "partition.SetLeader" prog = none := lk_none _ (by decide)
@[simp] theorem lk_h : evalE.lookup' "dropPartitionFailover" prog = none := lk_none _ (by decide)
@[simp] theorem lk_i : evalE.lookup' "Lock" prog = none := lk_none _ (by decide)
@[simp] theorem lk_j : evalE.lookup' "Unlock" prog = none := lk_none _ (by decide)
@[simp] theorem lk_k : evalE.lookup' "fmt.Errorf" prog = none := lk_none _ (by decide)
@[simp] theorem lk_l : evalE.lookup' "fmt.Sprintf" prog = none := lk_none _ (by decide)
@[simp] theorem lk_m : evalE.lookup' "errors.Wrap" prog = none := lk_none _ (by decide)
@[simp] theorem lk_n : evalE.lookup' "GetConsumerGroup" prog = none := lk_none _ (by decide)
@[simp] theorem lk_o : evalE.lookup' "group.GetCoordinator" prog = none := lk_none _ (by decide)
@[simp] theorem lk_p : evalE.lookup' "group.SetCoordinator" prog = none := lk_none _ (by decide)
@[simp] theorem lk_q : evalE.lookup' "GetStream" prog = none := lk_none _ (by decide)
@[simp] theorem lk_r : evalE.lookup' "stream.SetReadonly" prog = none := lk_none _ (by decide)

/-- `*partition` as the apply functions see it: its epoch and its leader (accessors), an identity -/
def encPart (pEpoch : Int) (leader : String) : Val :=
  .struct [("id", .str "the-partition"), ("partition.GetEpoch", .int pEpoch), ("partition.GetLeader", .tup [.str leader, .int 0])]

/-- the metadata store: the broker load tables (maps keyed by server id) -/
def encMeta (leaderLoad : List (String × Val)) : Val :=
  .struct [("stats", .struct [("brokerLeaderLoad", .struct leaderLoad), ("brokerCoordinatorLoad", .struct leaderLoad)])]

/-- `found`: the partition the look-up answers (none: unknown); `changeFails`: the partition-level change is refused -/
def maExt (found : Option Val) (changeFails : Bool) : Ext := fun f _ _ =>
  if f = "GetPartition" ∨ f = "GetConsumerGroup" ∨ f = "GetStream" then some (found.getD .nil)
  else if f = "partition.RemoveFromISR" ∨ f = "partition.AddToISR" ∨ f = "partition.SetLeader" ∨ f = "group.SetCoordinator"
      ∨ f = "stream.SetReadonly" then
    some (if changeFails then .str "refused" else .nil)
  else if f = "fmt.Errorf" then some (.str "no-such")
  else if f = "errors.Wrap" then some (.str "wrapped")
  else if f = "fmt.Sprintf" then some (.str "msg")
  else none

/-- the mutating calls among the effects (look-ups, locks and message formatting dropped) -/
def mutators (eff : List (String × List Val)) : List (String × List Val) :=
  eff.filter fun e => e.1 = "partition.RemoveFromISR" ∨ e.1 = "partition.AddToISR" ∨ e.1 = "partition.SetEpoch"
    ∨ e.1 = "partition.SetLeader" ∨ e.1 = "dropPartitionFailover" ∨ e.1 = "group.SetCoordinator" ∨ e.1 = "stream.SetReadonly"

/-- (returned an error?, the mutating calls in order) -/
def view : R Out → Option (Bool × List (String × List Val))
  | .ok o => match o.rets with
    | [e] => some (!isNil e, mutators o.eff)
    | _ => none
  | _ => none

/-- what an in-sync-set change does when applied -/
def isrApplySpec (call : String) (found : Bool) (pEpoch epoch : Int) (replica : String) (changeFails : Bool) :
    Bool × List (String × List Val) :=
  if !found then (true, [])
  else if pEpoch ≥ epoch then (false, [])
  else if changeFails then (true, [(call, [.str replica])])
  else (false, [(call, [.str replica]), ("partition.SetEpoch", [.int epoch])])

set_option maxRecDepth 8000 in
set_option maxHeartbeats 1600000 in
theorem go_RemoveFromISR (stream replica leader : String) (pid pEpoch epoch : Int) (found changeFails : Bool)
    (load : List (String × Val)) :
    view (runG prog (maExt (if found then some (encPart pEpoch leader) else none) changeFails) 30 "RemoveFromISR"
        (some (encMeta load)) [.str stream, .str replica, .int pid, .int epoch] []) =
      some (isrApplySpec "partition.RemoveFromISR" found pEpoch epoch replica changeFails) := by
  cases found
  · simp [runG, fn_metadataAPI_RemoveFromISR, gomini, view, isrApplySpec, maExt, encMeta, binVal, binInt, isNil, builtin, mutators, St.log]
  · by_cases h : pEpoch ≥ epoch
    · simp [runG, fn_metadataAPI_RemoveFromISR, gomini, view, isrApplySpec, maExt, encMeta, encPart, binVal, binInt, isNil, builtin, mutators,
        St.log, lookup, h]
    · cases changeFails <;>
      simp [runG, fn_metadataAPI_RemoveFromISR, gomini, view, isrApplySpec, maExt, encMeta, encPart, binVal, binInt, isNil, builtin, mutators,
        St.log, lookup, h]

set_option maxRecDepth 8000 in
set_option maxHeartbeats 1600000 in
theorem go_AddToISR (stream replica leader : String) (pid pEpoch epoch : Int) (found changeFails : Bool)
    (load : List (String × Val)) :
    view (runG prog (maExt (if found then some (encPart pEpoch leader) else none) changeFails) 30 "AddToISR"
        (some (encMeta load)) [.str stream, .str replica, .int pid, .int epoch] []) =
      some (isrApplySpec "partition.AddToISR" found pEpoch epoch replica changeFails) := by
  cases found
  · simp [runG, fn_metadataAPI_AddToISR, gomini, view, isrApplySpec, maExt, encMeta, binVal, binInt, isNil, builtin, mutators, St.log]
  · by_cases h : pEpoch ≥ epoch
    · simp [runG, fn_metadataAPI_AddToISR, gomini, view, isrApplySpec, maExt, encMeta, encPart, binVal, binInt, isNil, builtin, mutators,
        St.log, lookup, h]
    · cases changeFails <;>
      simp [runG, fn_metadataAPI_AddToISR, gomini, view, isrApplySpec, maExt, encMeta, encPart, binVal, binInt, isNil, builtin, mutators,
        St.log, lookup, h]

/-- consequence, in words of the property: an applied in-sync-set change never lowers the partition epoch - the epoch is only
ever set to a value strictly above the current one -/
theorem isrApply_epoch_increases (call : String) (found : Bool) (pEpoch epoch : Int) (replica : String) (changeFails : Bool) :
    ("partition.SetEpoch", [Val.int epoch]) ∈ (isrApplySpec call found pEpoch epoch replica changeFails).2 → pEpoch < epoch := by
  unfold isrApplySpec
  cases found <;> simp
  by_cases h : epoch ≤ pEpoch
  · simp [h]
  · intro _; omega

/-! ### `ChangeLeader` -/

/-- what a leader change does when applied -/
def leaderApplySpec (found : Bool) (pEpoch epoch : Int) (leader : String) (part : Val) (changeFails : Bool) :
    Bool × List (String × List Val) :=
  if !found then (true, [])
  else if pEpoch ≥ epoch then (false, [])
  else if changeFails then (true, [("partition.SetLeader", [.str leader, .int epoch])])
  else (false, [("partition.SetLeader", [.str leader, .int epoch]), ("partition.SetEpoch", [.int epoch]),
                ("dropPartitionFailover", [part])])

/-- (error?, mutating calls, the leader-load table afterwards) -/
def viewL : R Out → Option (Bool × List (String × List Val) × Option Val)
  | .ok o => match o.rets with
    | [e] => some (!isNil e, mutators o.eff,
        match o.recv with
        | some (.struct [("stats", .struct [("brokerLeaderLoad", t), _])]) => some t
        | _ => none)
    | _ => none
  | _ => none

/-- the load table restricted to the two servers involved (Go's zero value for a missing key is not modelled by the
embedding: both servers have an entry) -/
def load2 (oldLeader leader : String) (a b : Int) : List (String × Val) := [(oldLeader, .int a), (leader, .int b)]

set_option maxRecDepth 8000 in
set_option maxHeartbeats 3200000 in
/-- the fence and the refusals: nothing but (at most) the refused `SetLeader` is called, the load table is untouched -/
theorem go_ChangeLeader_refused (stream leader oldLeader : String) (pid pEpoch epoch a b : Int) (found changeFails : Bool)
    (h : found = false ∨ pEpoch ≥ epoch ∨ changeFails = true) :
    viewL (runG prog (maExt (if found then some (encPart pEpoch oldLeader) else none) changeFails) 30 "ChangeLeader"
        (some (encMeta (load2 oldLeader leader a b))) [.str stream, .str leader, .int pid, .int epoch] []) =
      some ((leaderApplySpec found pEpoch epoch leader (encPart pEpoch oldLeader) changeFails).1,
            (leaderApplySpec found pEpoch epoch leader (encPart pEpoch oldLeader) changeFails).2,
            some (.struct (load2 oldLeader leader a b))) := by
  cases found
  · simp [runG, fn_metadataAPI_ChangeLeader, gomini, viewL, leaderApplySpec, maExt, encMeta, binVal, binInt, isNil, builtin, mutators, St.log]
  · by_cases hge : pEpoch ≥ epoch
    · simp [runG, fn_metadataAPI_ChangeLeader, gomini, viewL, leaderApplySpec, maExt, encMeta, encPart, binVal, binInt, isNil, builtin, mutators,
        St.log, lookup, hge]
    · have hc : changeFails = true := by
        rcases h with h | h | h
        · cases h
        · exact absurd h hge
        · exact h
      subst hc
      simp [runG, fn_metadataAPI_ChangeLeader, gomini, viewL, leaderApplySpec, maExt, encMeta, encPart, binVal, binInt, isNil, builtin, mutators,
        St.log, lookup, hge]

set_option maxRecDepth 8000 in
set_option maxHeartbeats 6400000 in
/-- an applied leader change: SetLeader, SetEpoch, the reports about the previous leader dropped - in that order -, one unit
of leader load moved from the old leader (never below zero) to the new one -/
theorem go_ChangeLeader_applied (stream leader oldLeader : String) (pid pEpoch epoch a b : Int)
    (hlt : pEpoch < epoch) (hne : oldLeader ≠ leader) :
    viewL (runG prog (maExt (some (encPart pEpoch oldLeader)) false) 30 "ChangeLeader"
        (some (encMeta (load2 oldLeader leader a b))) [.str stream, .str leader, .int pid, .int epoch] []) =
      some (false,
            [("partition.SetLeader", [.str leader, .int epoch]), ("partition.SetEpoch", [.int epoch]),
             ("dropPartitionFailover", [encPart pEpoch oldLeader])],
            some (.struct (load2 oldLeader leader (if a > 0 then a - 1 else a) (b + 1)))) := by
  have hge : ¬ pEpoch ≥ epoch := by omega
  have hne' : ¬ leader = oldLeader := fun h => hne h.symm
  by_cases ha : a > 0 <;>
  simp [runG, fn_metadataAPI_ChangeLeader, gomini, viewL, maExt, encMeta, encPart, binVal, binInt, isNil, builtin, mutators,
    St.log, lookup, update, load2, hge, hne, hne', ha, getField, setField, setPath]

/-- `leaderApplySpec` on the applied branch is that list (the two theorems cover every case of the code) -/
theorem leaderApplySpec_applied (pEpoch epoch : Int) (leader : String) (part : Val) (hlt : pEpoch < epoch) :
    leaderApplySpec true pEpoch epoch leader part false =
      (false, [("partition.SetLeader", [.str leader, .int epoch]), ("partition.SetEpoch", [.int epoch]),
               ("dropPartitionFailover", [part])]) := by
  have hge : ¬ pEpoch ≥ epoch := by omega
  simp [leaderApplySpec, hge]

/-- the reports about the previous leader are dropped by EVERY applied leader change, and only after the new leader and epoch
were recorded -/
theorem drop_after_setLeader (found : Bool) (pEpoch epoch : Int) (leader : String) (part : Val) (changeFails : Bool) :
    ("partition.SetEpoch", [Val.int epoch]) ∈ (leaderApplySpec found pEpoch epoch leader part changeFails).2 →
    ("dropPartitionFailover", [part]) ∈ (leaderApplySpec found pEpoch epoch leader part changeFails).2 := by
  unfold leaderApplySpec
  cases found <;> cases changeFails <;> simp <;> (by_cases h : epoch ≤ pEpoch <;> simp [h])

/-! ### `SetReadonly` -/

set_option maxRecDepth 8000 in
set_option maxHeartbeats 1600000 in
theorem go_SetReadonly (stream : String) (parts : List Val) (ro found fails : Bool) (load : List (String × Val)) :
    view (runG prog (maExt (if found then some (.struct [("id", .str "the-stream")]) else none) fails) 30 "SetReadonly"
        (some (encMeta load)) [.str stream, .list parts, .bool ro] [("ErrStreamNotFound", .str "ErrStreamNotFound")]) =
      some (if !found then (true, []) else (fails, [("stream.SetReadonly", [.list parts, .bool ro])])) := by
  cases found
  · simp [runG, fn_metadataAPI_SetReadonly, gomini, view, maExt, encMeta, binVal, binInt, isNil, builtin, mutators, St.log]
  · cases fails <;>
    simp [runG, fn_metadataAPI_SetReadonly, gomini, view, maExt, encMeta, binVal, binInt, isNil, builtin, mutators, St.log]

/-- non-vacuity: epoch 7 applied to a partition at epoch 5 led by "a": the three calls; at epoch 7 already: nothing -/
example : (leaderApplySpec true 5 7 "b" .nil false).2.length = 3 ∧ (leaderApplySpec true 7 7 "b" .nil false).2 = [] := by
  decide

end Liftbridge.Props.GoMetaApply
