/-
C14 at the level of the function body: `natsToProtoMessage` (with `getMessage`) in server/partition.go - what the leader
makes of ANY payload that arrives on a stream's NATS subject - translated from the code. `Gen/GoNatsMsg.lean` is regenerated
on every run; un-marshalling (`proto.UnmarshalPublish`, whose own totality is `Props.GoEnvelope` + `Props.C14`) is a parameter.

`go_natsToProtoMessage_plain`: a payload that is not a publish envelope is stored AS IT IS - the whole payload is the value,
no key, no ack inbox - with the headers `subject` and `reply` of the NATS message. `go_natsToProtoMessage_envelope`: for an
envelope with EVERY header list (loop lemma `hdr_loop`, induction over the list) key, value, ack inbox, correlation id, ack
policy and expected offset are the envelope's, the headers are the envelope's headers - and `subject` / `reply` are written
LAST, from the NATS message: a publisher cannot forge them through its own headers. Never a panic.
`go_computeTick`: the replication loop's sleep is `maxSleep - elapsed`, or `maxSleep` when that is negative.
-/
import Liftbridge.Proofs.GoCodeBase
import Liftbridge.Gen.GoNatsMsg

set_option linter.unusedSimpArgs false

namespace Liftbridge.Props.GoNatsMsg
open Liftbridge Liftbridge.GoMini Liftbridge.GoCode
open Liftbridge.Gen.GoNatsMsg

theorem translation_complete : unsupported = [] := rfl

@[simp] theorem lk_n2p : evalE.lookup' "natsToProtoMessage" prog = some fn_natsToProtoMessage := by simp [prog, gomini]
@[simp] theorem lk_getMessage : evalE.lookup' "getMessage" prog = some fn_getMessage := by simp [prog, gomini]
@[simp] theorem lk_computeTick : evalE.lookup' "computeTick" prog = some fn_computeTick := by simp [prog, gomini]
@[simp] theorem lk_other (f : String) (h1 : f ≠ "natsToProtoMessage") (h2 : f ≠ "getMessage") (h3 : f ≠ "computeTick") :
    evalE.lookup' f prog = none := by simp [prog, gomini, h1, h2, h3]

theorem update_update (k : String) (v1 v2 : Val) : ∀ fs : List (String × Val), update k v2 (update k v1 fs) = update k v2 fs := by
  intro fs
  induction fs with
  | nil => simp [update]
  | cons a rest ih =>
    obtain ⟨a1, a2⟩ := a
    by_cases h : k = a1 <;> simp [update, h, ih]

theorem lookup_update_same (k : String) (v : Val) : ∀ fs : List (String × Val), lookup k (update k v fs) = some v := by
  intro fs
  induction fs with
  | nil => simp [update, lookup]
  | cons a rest ih =>
    obtain ⟨a1, a2⟩ := a
    by_cases h : k = a1 <;> simp [update, lookup, h, ih]

/-- copying a header list into a map, one entry after the other -/
def copyAll (hs : List (String × Val)) (cur : List (String × Val)) : List (String × Val) :=
  hs.foldl (fun acc kv => update kv.1 kv.2 acc) cur

def hdrBody : List Stmt := [(.assign [(.idx (.sel (.var "m") "Headers") (.var "key"))] [(.var "value")])]

/-- `for key, value := range message.Headers { m.Headers[key] = value }` for every header list and whatever `m` holds besides -/
theorem hdr_loop (n : Nat) (x : Ext) (mf : List (String × Val)) (hs : List (String × Val)) :
    ∀ (cur : List (String × Val)) (st : St), st.env "m" = some (.struct (update "Headers" (.struct cur) mf)) →
    ∃ st', runRangeMap (runBlock (exec prog x (n + 6)) hdrBody) (some "key") (some "value") hs st = .ok (.next, st') ∧
      st'.env "m" = some (.struct (update "Headers" (.struct (copyAll hs cur)) mf)) ∧ st'.eff = st.eff ∧
      (∀ y, y ≠ "m" → y ≠ "key" → y ≠ "value" → st'.env y = st.env y) := by
  induction hs with
  | nil => intro cur st h; exact ⟨st, by simp [gomini], by simpa [copyAll] using h, rfl, fun _ _ _ _ => rfl⟩
  | cons e rest ih =>
    intro cur st hm
    obtain ⟨k, v⟩ := e
    obtain ⟨st', h1, h2, h3, h4⟩ := ih (update k v cur)
      (((st.set "key" (.str k)).set "value" v).set "m" (.struct (update "Headers" (.struct (update k v cur)) mf))) (by simp [gomini])
    refine ⟨st', ?_, by simpa [copyAll] using h2, by rw [h3]; simp [gomini], ?_⟩
    · simp [gomini, hdrBody, hm, assignTo, getField, setField, lookup_update_same, update_update]
      simpa [hdrBody] using h1
    · intro y hy1 hy2 hy3; rw [h4 y hy1 hy2 hy3]; simp [gomini, hy1, hy2, hy3]

/-- un-marshalling answers an envelope or an error; the clock -/
def natsExt (envelope : Option Val) : Ext := fun f _ _ =>
  if f = "proto.UnmarshalPublish" then
    match envelope with
    | some m => some (.tup [m, .nil])
    | none => some (.tup [.nil, .str "not an envelope"])
  else if f = "timestamp" then some (.int 1234)
  else none

def encNats (data subject reply : String) : Val := .struct [("Data", .str data), ("Subject", .str subject), ("Reply", .str reply)]

def encEnvelope (key value : Val) (hs : List (String × Val)) (inbox cid : String) (policy offset : Int) : Val :=
  .struct [("Key", key), ("Value", value), ("Headers", .struct hs), ("AckInbox", .str inbox), ("CorrelationId", .str cid),
           ("AckPolicy", .int policy), ("Offset", .int offset)]

def msgOf : R Out → Option Val
  | .ok o => match o.rets with
    | [m] => some m
    | _ => none
  | _ => none

set_option maxRecDepth 8000 in
set_option maxHeartbeats 2000000 in
theorem go_natsToProtoMessage_plain (data subject reply : String) (epoch : Int) :
    msgOf (runG prog (natsExt none) 30 "natsToProtoMessage" none [encNats data subject reply, .int epoch] []) =
      some (.struct [("MagicByte", .int 1), ("Timestamp", .int 1234), ("LeaderEpoch", .int epoch),
                     ("Headers", .struct [("subject", .str subject), ("reply", .str reply)]), ("Value", .str data)]) := by
  simp [runG, fn_natsToProtoMessage, fn_getMessage, gomini, msgOf, natsExt, encNats, builtin, truthy, getField, setField, lookup, update, assignTo,
    bindParams, envOf]

set_option maxRecDepth 8000 in
set_option maxHeartbeats 4000000 in
theorem go_natsToProtoMessage_envelope (data subject reply : String) (epoch : Int) (key value : Val) (hs : List (String × Val))
    (inbox cid : String) (policy offset : Int) :
    msgOf (runG prog (natsExt (some (encEnvelope key value hs inbox cid policy offset))) 30 "natsToProtoMessage" none
        [encNats data subject reply, .int epoch] []) =
      some (.struct [("MagicByte", .int 1), ("Timestamp", .int 1234), ("LeaderEpoch", .int epoch),
                     ("Headers", .struct (update "reply" (.str reply) (update "subject" (.str subject) (copyAll hs [])))),
                     ("Key", key), ("Value", value), ("AckInbox", .str inbox), ("CorrelationID", .str cid), ("AckPolicy", .int policy),
                     ("Offset", .int offset)]) := by
  let mf : List (String × Val) := [("MagicByte", .int 1), ("Timestamp", .int 1234), ("LeaderEpoch", .int epoch), ("Headers", .struct []), ("Key", key), ("Value", value)]
  obtain ⟨st', l1, l2, l3, l4⟩ := hdr_loop 22 (natsExt (some (encEnvelope key value hs inbox cid policy offset))) mf hs []
    (((((({ env := envOf [("msg", encNats data subject reply), ("leaderEpoch", .int epoch)], eff := [("proto.UnmarshalPublish", [.str data])] } : St).set "message"
        (encEnvelope key value hs inbox cid policy offset)).log "timestamp" []).set "m"
          (.struct [("MagicByte", .int 1), ("Timestamp", .int 1234), ("LeaderEpoch", .int epoch), ("Headers", .struct [])])).set "m"
          (.struct [("MagicByte", .int 1), ("Timestamp", .int 1234), ("LeaderEpoch", .int epoch), ("Headers", .struct []), ("Key", key)])).set "m" (.struct mf))
    (by simp [gomini, mf, update])
  have e1 := l4 "message" (by decide) (by decide) (by decide)
  have e2 := l4 "msg" (by decide) (by decide) (by decide)
  simp [hdrBody, mf, gomini, envOf, lookup, update, St.log, encEnvelope, encNats] at l1 l2 l3 e1 e2
  simp [runG, fn_natsToProtoMessage, fn_getMessage, gomini, msgOf, natsExt, encNats, encEnvelope, builtin, truthy, getField, setField, lookup, update, assignTo,
    bindParams, envOf, St.log, l1, l2, l3, e1, e2]

/-- whatever headers the envelope carries, `subject` and `reply` of the stored message are the NATS message's -/
theorem subject_not_forgeable (subject reply : String) (hs : List (String × Val)) :
    lookup "subject" (update "reply" (.str reply) (update "subject" (.str subject) (copyAll hs []))) = some (.str subject) ∧
    lookup "reply" (update "reply" (.str reply) (update "subject" (.str subject) (copyAll hs []))) = some (.str reply) := by
  constructor
  · generalize copyAll hs [] = m
    have : ∀ fs : List (String × Val), lookup "subject" fs = some (.str subject) → lookup "subject" (update "reply" (.str reply) fs) = some (.str subject) := by
      intro fs
      induction fs with
      | nil => simp [lookup]
      | cons a tl ih =>
        obtain ⟨a1, a2⟩ := a
        by_cases h1 : "reply" = a1
        · subst h1; simp [update, lookup]
        · by_cases h2 : "subject" = a1
          · subst h2; simp [update, lookup]
          · simp [update, lookup, h1, h2]; exact ih
    exact this _ (lookup_update_same _ _ _)
  · exact lookup_update_same _ _ _

theorem go_computeTick (elapsed maxSleep : Int) :
    msgOf (runG prog noExt 30 "computeTick" none [.int elapsed, .int maxSleep] []) =
      some (.int (if maxSleep - elapsed < 0 then maxSleep else maxSleep - elapsed)) := by
  by_cases h : maxSleep - elapsed < 0 <;>
    simp [runG, fn_computeTick, gomini, msgOf, binInt, truthy, h]

end Liftbridge.Props.GoNatsMsg
