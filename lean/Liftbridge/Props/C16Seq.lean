/-
C16, server level — "for every interleaving of any number of concurrent publishers … and server
batching settings". The partition leader's sequencer (`Model/Sequencer.lean`) cuts the arrival
sequence of the publishes into batches; which cut depends on timing, `BatchMaxTime` and
`BatchMaxMessages`. On a log with concurrency control the batch size is forced to 1 (regenerated
fact `Gen.Partition.occBatchOne`), so for EVERY arrival order, EVERY cut the settings allow and
EVERY `BatchMaxMessages` the publishers hear exactly the outcomes of `Props.C16.runPubs` on the
arrival order — and the statements of C16 follow for what the publishers hear and for the log.
-/
import Liftbridge.Model.Sequencer
import Liftbridge.Proofs.Sequencer
import Liftbridge.Props.C16

namespace Liftbridge.Props.C16Seq
open Liftbridge Liftbridge.Log Liftbridge.Log.CLog Liftbridge.Proofs.Log Liftbridge.Proofs
open Liftbridge.Sequencer Liftbridge.Proofs.Seq

/-- With concurrency control the loop's batch size is 1 whatever `BatchMaxMessages` is. -/
theorem occ_batch_limit (batchMax : Nat) : batchLimit true batchMax = 1 := batchLimit_occ batchMax

/-- For every arrival order (`bs.flatten`), every cut `bs` of it into batches the settings allow
and every `BatchMaxMessages`: the sequencer answers every publish like the single conditional
publish of `Props.C16` in arrival order, and leaves the same log. -/
theorem sequencer_is_per_message (l : CLog) (bs : List (List Msg)) (batchMax : Nat) (h : Inv l)
    (hocc : l.occ = true) (hleg : Legal l.occ batchMax bs) :
    run l bs = (C16.runPubs l bs.flatten).map (fun pr => (pr.1, answerOf pr.2)) ∧
    final l bs = C16.finalLog l bs.flatten := by
  rw [C16.runPubs_eq, C16.finalLog_eq]
  rw [hocc] at hleg
  exact run_eq batchMax bs l h hocc hleg

/-- Nobody is left without an answer: every publisher gets an acknowledgement or the
incorrect-offset error (writable log, encodable messages). -/
theorem every_publisher_answered (l : CLog) (bs : List (List Msg)) (batchMax : Nat) (h : Inv l)
    (hocc : l.occ = true) (hro : l.readonly = false) (hleg : Legal l.occ batchMax bs)
    (henc : ∀ m ∈ bs.flatten, m.body.encodable = true) :
    ∀ pr ∈ run l bs, (∃ o, pr.2 = .ack o) ∨ pr.2 = .nack "incorrect-offset" := by
  intro pr hpr
  rw [hocc] at hleg
  rw [(run_eq batchMax bs l h hocc hleg).1, List.mem_map] at hpr
  obtain ⟨p, hp, rfl⟩ := hpr
  rcases runP_answered _ l h hocc hro henc p hp with ⟨o, ho⟩ | he
  · exact Or.inl ⟨o, by simp [ho, answerOf]⟩
  · exact Or.inr (by simp [he, answerOf])

/-- Publishes that waive the check are always acknowledged. -/
theorem waived_always_acked (l : CLog) (bs : List (List Msg)) (batchMax : Nat) (h : Inv l)
    (hocc : l.occ = true) (hro : l.readonly = false) (hleg : Legal l.occ batchMax bs)
    (henc : ∀ m ∈ bs.flatten, m.body.encodable = true) :
    ∀ pr ∈ run l bs, pr.1.expected = -1 → ∃ o, pr.2 = .ack o := by
  intro pr hpr hw
  rw [hocc] at hleg
  rw [(run_eq batchMax bs l h hocc hleg).1, List.mem_map] at hpr
  obtain ⟨p, hp, rfl⟩ := hpr
  obtain ⟨o, ho⟩ := runP_waived _ l h hro henc p hp hw
  exact ⟨o, by simp [ho, answerOf]⟩

/-- An acknowledged conditional publish was assigned exactly its expected offset. -/
theorem acked_at_expected (l : CLog) (bs : List (List Msg)) (batchMax : Nat) (h : Inv l)
    (hocc : l.occ = true) (hleg : Legal l.occ batchMax bs) :
    ∀ pr ∈ run l bs, ∀ o, pr.2 = .ack o → pr.1.expected ≠ -1 → o = pr.1.expected := by
  intro pr hpr o ho hne
  rw [hocc] at hleg
  rw [(run_eq batchMax bs l h hocc hleg).1, List.mem_map] at hpr
  obtain ⟨p, hp, rfl⟩ := hpr
  cases hr : p.2 with
  | ok o' =>
    have : o' = o := by simpa [hr, answerOf] using ho
    subst this
    exact runP_at_expected _ l h hocc p hp o' hr hne
  | err e =>
    simp only [hr, answerOf] at ho
    split at ho <;> cases ho
  | panic => simp [hr, answerOf] at ho

/-- The log grows by exactly the acknowledged publishes, in arrival order, each at the offset of
its acknowledgement; a publish answered with the error (or not at all) changes nothing. -/
theorem acked_are_the_log (l : CLog) (bs : List (List Msg)) (batchMax : Nat) (h : Inv l)
    (hocc : l.occ = true) (hleg : Legal l.occ batchMax bs) :
    (final l bs).abs = l.abs ++ (run l bs).filterMap (fun pr =>
      match pr.2 with
      | .ack o => some { offset := o, ts := pr.1.ts, epoch := pr.1.epoch, body := pr.1.body }
      | _ => none) := by
  rw [hocc] at hleg
  obtain ⟨h1, h2⟩ := run_eq batchMax bs l h hocc hleg
  rw [h1, h2, Occ.stored_appended _ l h, List.filterMap_map]
  congr 2
  funext p
  cases hr : p.2 with
  | ok o => simp [Occ.storedRec, hr, answerOf]
  | err e =>
    by_cases he : e = "incorrect-offset" <;> simp [Function.comp, Occ.storedRec, hr, answerOf, he]
  | panic => simp [Occ.storedRec, hr, answerOf]

/-- Of any set of publishers racing with the same expected offset `e ≠ -1` at most one is
acknowledged — for every arrival order, every cut into batches and every batch size setting. -/
theorem at_most_one_acked (l : CLog) (bs : List (List Msg)) (batchMax : Nat) (e : Int) (h : Inv l)
    (hocc : l.occ = true) (hleg : Legal l.occ batchMax bs) (he : e ≠ -1) :
    ((run l bs).filter (fun pr => isAck pr.2 && decide (pr.1.expected = e))).length ≤ 1 := by
  rw [hocc] at hleg
  rw [(run_eq batchMax bs l h hocc hleg).1, List.filter_map, List.length_map]
  have := Occ.at_most_one bs.flatten e he l h hocc
  have hf : ((fun pr : Msg × Answer => isAck pr.2 && decide (pr.1.expected = e)) ∘
      (fun pr : Msg × Res Int => (pr.1, answerOf pr.2))) = Occ.winner e := by
    funext pr
    simp [Function.comp, Occ.winner, isAck_answerOf]
  rw [hf]
  exact this

/-- Non-vacuity and the reason for the forced batch size: three racers for offset 0 plus an
unconditional publish, processed one at a time — one racer and the unconditional publish are
acknowledged, the other racers get the error. -/
example : (run (CLog.init 100 true)
    [[{ ts := 1, epoch := 1, body := ⟨none, some [1], []⟩, expected := 0 }],
     [{ ts := 2, epoch := 1, body := ⟨none, some [2], []⟩, expected := 0 }],
     [{ ts := 3, epoch := 1, body := ⟨none, some [3], []⟩, expected := -1 }],
     [{ ts := 4, epoch := 1, body := ⟨none, some [4], []⟩, expected := 0 }]]).map (·.2)
    = [.ack 0, .nack "incorrect-offset", .ack 1, .nack "incorrect-offset"] := by decide

/-- The same arrival order cut into ONE batch is not a legal cut on a log with concurrency
control … -/
example : legalBatch true 1024
    [{ ts := 3, epoch := 1, body := ⟨none, some [3], []⟩, expected := -1 },
     { ts := 4, epoch := 1, body := ⟨none, some [4], []⟩, expected := 7 }] = false := by decide

/-- … and if the loop formed it, `Append` would refuse it outright and nobody would be answered:
not even the publish that waives the check. -/
example : (run (CLog.init 100 true)
    [[{ ts := 3, epoch := 1, body := ⟨none, some [3], []⟩, expected := -1 },
      { ts := 4, epoch := 1, body := ⟨none, some [4], []⟩, expected := 7 }]]).map (·.2)
    = [.silent, .silent] := by decide

end Liftbridge.Props.C16Seq
