/-
The retention model IS the translated Go code.

`Gen/GoRetention.lean` is regenerated on every run from server/commitlog/delete_cleaner.go
(`deleteCleaner.Clean`, `applyAgeLimit`, `applyMessagesLimit`, `applyBytesLimit`, `noRetentionLimits`).
`go_Clean`: for EVERY list of segments, limits and clock value, running the translated `Clean` returns
exactly `Retention.clean` of the model — the function C09's theorems are about — and its effects are
exactly: one clock read per age pass over more than one segment, and per pass at most ONE
`deleteSegments` call whose argument is precisely the prefix the model drops in that pass.
The loops of the Go code (a `range` loop with break, two backwards three-clause loops) are handled by
loop lemmas (Proofs/GoRetention); fuel grows with the number of segments because a three-clause loop
consumes fuel per iteration (GoMini), so the statement is for fuel `segs.length + 40`.
`deleteSegments` is assumed to succeed (its failure returns the error unchanged: not modelled here).
-/
import Liftbridge.Proofs.GoRetention
import Liftbridge.Proofs.Retention

namespace Liftbridge.Props.GoRetention
open Liftbridge Liftbridge.GoMini Liftbridge.GoCode Liftbridge.Log Liftbridge.Retention
open Liftbridge.Gen.GoRetention

/-- every construct of the translated functions is inside the subset -/
theorem translation_complete : unsupported = [] := rfl

/-- `noRetentionLimits`: all three limits are zero -/
theorem go_noRetentionLimits (lim : Limits) :
    run prog noExt 10 "noRetentionLimits" (some (encC lim)) [] =
      .ok { rets := [.bool (decide (lim.bytes = 0 ∧ lim.msgs = 0 ∧ lim.age = 0))], recv := some (encC lim), eff := [] } := by
  by_cases h1 : lim.bytes = 0 <;> by_cases h2 : lim.msgs = 0 <;> by_cases h3 : lim.age = 0 <;>
    simp [run, runG, fn_deleteCleaner_noRetentionLimits, gomini, encC, binInt, h1, h2, h3]

/-- the segment lists between the passes of `Clean` -/
def pass1 (lim : Limits) (ttl : Int) (segs : List Seg) : List Seg := if lim.age > 0 then applyAge ttl segs else segs
def pass2 (lim : Limits) (ttl : Int) (segs : List Seg) : List Seg :=
  if lim.msgs > 0 then applyLimit .gt lim.msgs msgSize (pass1 lim ttl segs) else pass1 lim ttl segs
def pass3 (lim : Limits) (ttl : Int) (segs : List Seg) : List Seg :=
  if lim.bytes > 0 then applyLimit .gt lim.bytes byteSize (pass2 lim ttl segs) else pass2 lim ttl segs
def pass4 (lim : Limits) (ttl : Int) (segs : List Seg) : List Seg :=
  if lim.age > 0 then applyAge ttl (pass3 lim ttl segs) else pass3 lim ttl segs

theorem clean_eq_pass4 (lim : Limits) (ttl : Int) (segs : List Seg) (h : ¬ (lim.bytes = 0 ∧ lim.msgs = 0 ∧ lim.age = 0)) :
    clean lim ttl segs = pass4 lim ttl segs := by
  simp only [clean, pass4, pass3, pass2, pass1, facts, Cmp.evalInt, h, if_false, Bool.true_and, decide_eq_true_eq, gt_iff_lt]

/-- the effect trace of `Clean` -/
def cleanEff (lim : Limits) (ttl : Int) (segs : List Seg) : List (String × List Val) :=
  if segs = [] ∨ (lim.bytes = 0 ∧ lim.msgs = 0 ∧ lim.age = 0) then [] else
    (if lim.age > 0 then ageEff lim.age ttl segs else []) ++
    (if lim.msgs > 0 then limitEff (pass2 lim ttl segs) (pass1 lim ttl segs) else []) ++
    (if lim.bytes > 0 then limitEff (pass3 lim ttl segs) (pass2 lim ttl segs) else []) ++
    (if lim.age > 0 then ageEff lim.age ttl (pass3 lim ttl segs) else [])

theorem clean_body_eq : fn_deleteCleaner_Clean.body =
    [(.assign [.var "err"] [.nil]),
     (.ite [] (.or (.bin "==" (.len (.var "segments")) (.int 0)) (.mcall (.var "c") "noRetentionLimits" []))
        [(.ret [(.var "segments"), .nil])] []),
     (.skip "c.Logger.Debugf(\"Cleaning log %s based on retention policy %+v\", c...."),
     (.skip "defer c.Logger.Debugf(\"Finished cleaning log %s\", c.Name)"),
     ageStmt, msgsStmt, bytesStmt, ageStmt,
     (.ret [(.var "segments"), .nil])] := rfl

theorem pass_lengths (lim : Limits) (ttl : Int) (segs : List Seg) :
    (pass1 lim ttl segs).length ≤ segs.length ∧ (pass2 lim ttl segs).length ≤ segs.length ∧
    (pass3 lim ttl segs).length ≤ segs.length := by
  have a : (pass1 lim ttl segs).length ≤ segs.length := by
    unfold pass1; split
    · rw [applyAge_eq_drop]; simp
    · exact Nat.le_refl _
  have b : (pass2 lim ttl segs).length ≤ segs.length := by
    unfold pass2; split
    · exact Nat.le_trans (applyLimit_length_le _ _ _ _) a
    · exact a
  have c : (pass3 lim ttl segs).length ≤ segs.length := by
    unfold pass3; split
    · exact Nat.le_trans (applyLimit_length_le _ _ _ _) b
    · exact b
  exact ⟨a, b, c⟩

/-- **`deleteCleaner.Clean` = the model's `Retention.clean`**, for every segment list, every combination of
limits and every clock value; the receiver is unchanged; the effects are exactly `cleanEff`. -/
theorem go_Clean (lim : Limits) (ttl : Int) (segs : List Seg) :
    run prog (retExt ttl) (segs.length + 40) "Clean" (some (encC lim)) [encSegs segs] =
      .ok { rets := [encSegs (clean lim ttl segs), .nil], recv := some (encC lim), eff := cleanEff lim ttl segs } := by
  by_cases hnone : lim.bytes = 0 ∧ lim.msgs = 0 ∧ lim.age = 0
  · obtain ⟨h1, h2, h3⟩ := hnone
    by_cases he : segs = []
    · subst he
      simp [run, runG, fn_deleteCleaner_Clean, fn_deleteCleaner_noRetentionLimits, gomini, encC, encSegs, binInt, h1, h2, h3, clean, cleanEff]
    · have hl : ((segs.length : Int) = 0) = False := by
        apply eq_false; intro h; apply he; apply List.eq_nil_of_length_eq_zero; omega
      simp [run, runG, fn_deleteCleaner_Clean, fn_deleteCleaner_noRetentionLimits, gomini, encC, encSegs, binInt, h1, h2, h3, clean, cleanEff, hl, he]
  · by_cases he : segs = []
    · subst he
      simp [run, runG, fn_deleteCleaner_Clean, gomini, encSegs, binInt, cleanEff, clean_eq_pass4 lim ttl [] hnone, pass4, pass3, pass2, pass1, applyAge, applyLimit]
    · obtain ⟨l1, l2, l3⟩ := pass_lengths lim ttl segs
      let ex := exec prog (retExt ttl) (segs.length + 40)
      let s0 : St := { env := envOf ([("c", encC lim), ("segments", encSegs segs)] ++ []), eff := [] }
      have step1 : ex (.assign [.var "err"] [.nil]) s0 = .ok (.next, s0.set "err" .nil) := by
        simp [ex, gomini]
      have hnone' : ¬ (lim.bytes = 0 ∧ lim.msgs = 0 ∧ lim.age = 0) := hnone
      have step2 : ex (.ite [] (.or (.bin "==" (.len (.var "segments")) (.int 0)) (.mcall (.var "c") "noRetentionLimits" []))
          [(.ret [(.var "segments"), .nil])] []) (s0.set "err" .nil) = .ok (.next, (s0.set "err" .nil).set "c" (encC lim)) := by
        by_cases h1 : lim.bytes = 0 <;> by_cases h2 : lim.msgs = 0 <;> by_cases h3 : lim.age = 0
        · exact absurd ⟨h1, h2, h3⟩ hnone'
        all_goals (simp [ex, s0, fn_deleteCleaner_noRetentionLimits, gomini, encC, encSegs, binInt, he, h1, h2, h3] <;> rfl)
      obtain ⟨st1, a1, c1, g1, e1⟩ := age_stmt (segs.length + 40) (by omega) lim ttl segs ((s0.set "err" .nil).set "c" (encC lim))
        (by simp [gomini]) (by simp [s0, gomini])
      obtain ⟨st2, a2, c2, g2, e2⟩ := msgs_stmt (segs.length + 40) lim ttl (pass1 lim ttl segs) (by omega) st1 c1 g1
      obtain ⟨st3, a3, c3, g3, e3⟩ := bytes_stmt (segs.length + 40) lim ttl (pass2 lim ttl segs) (by omega) st2 c2 g2
      obtain ⟨st4, a4, c4, g4, e4⟩ := age_stmt (segs.length + 40) (by omega) lim ttl (pass3 lim ttl segs) st3 c3 g3
      have hrun : runBlock ex fn_deleteCleaner_Clean.body s0 = .ok (.ret [encSegs (pass4 lim ttl segs), .nil], st4) := by
        rw [clean_body_eq, runBlock_cons_ok _ step1, runBlock_cons_ok _ step2,
          runBlock_cons_ok _ (show ex (.skip _) _ = _ from by simp [ex, gomini]; rfl),
          runBlock_cons_ok _ (show ex (.skip _) _ = _ from by simp [ex, gomini]; rfl),
          runBlock_cons_ok _ a1, runBlock_cons_ok _ a2, runBlock_cons_ok _ a3, runBlock_cons_ok _ a4]
        simp [ex, gomini, g4, pass4]
      simp [ex, s0] at hrun
      simp [run, runG, gomini, hrun, c4, e4, e3, e2, e1, clean_eq_pass4 lim ttl segs hnone, cleanEff, he, hnone]
      have hs0 : s0.eff = [] := rfl
      rw [hs0]
      by_cases hm : 0 < lim.msgs <;> by_cases hb : 0 < lim.bytes <;> simp [pass2, pass3, hm, hb]

/-- what an age pass hands to `deleteSegments` is exactly what the pass drops: `dropped ++ kept = input` -/
theorem age_deletes_what_it_drops (ttl : Int) (segs : List Seg) :
    segs.take (ageCnt ttl segs) ++ applyAge ttl segs = segs := by
  rw [applyAge_eq_drop]; exact List.take_append_drop _ _

/-- the same for a count / size pass (the argument of `deleteSegments` is this prefix, newest first) -/
theorem limit_deletes_what_it_drops (limit : Int) (size : Seg → Int) (segs : List Seg) :
    segs.take (segs.length - (applyLimit .gt limit size segs).length) ++ applyLimit .gt limit size segs = segs := by
  obtain ⟨pre, h, _⟩ := Liftbridge.Proofs.Retention.applyLimit_spec limit size segs
  have hl : segs.length - (applyLimit .gt limit size segs).length = pre.length := by
    have := congrArg List.length h
    simp at this; omega
  rw [hl]
  have ht : segs.take pre.length = pre := by
    rw [h]; simp
  rw [ht]; exact h.symm

/-! ### non-vacuity: three segments, the oldest older than the TTL, a count limit that keeps two -/
def p0 : Payload := { key := none, val := some [1], hdrs := [] }
def sA : Seg := { base := 0, recs := [{ offset := 0, ts := 10, epoch := 1, body := p0 }, { offset := 1, ts := 11, epoch := 1, body := p0 }] }
def sB : Seg := { base := 2, recs := [{ offset := 2, ts := 50, epoch := 1, body := p0 }] }
def sC : Seg := { base := 3, recs := [{ offset := 3, ts := 60, epoch := 1, body := p0 }] }
example : clean { bytes := 0, msgs := 2, age := 5 } 20 [sA, sB, sC] = [sB, sC] := by decide
example : cleanEff { bytes := 0, msgs := 2, age := 5 } 20 [sA, sB, sC] =
    [("computeTTL", [.int 5]), ("deleteSegments", [encSegs [sA]]), ("computeTTL", [.int 5])] := by
  simp [cleanEff, ageEff, ageCnt, limitEff, pass1, pass2, pass3, applyAge, applyLimit, keepBack, facts, Cmp.evalInt, sA, sB, sC,
    Seg.lastTs, msgSize, Seg.count, encSegs]
example : clean { bytes := 0, msgs := 1, age := 0 } 0 [sA, sB, sC] = [sC] := by decide

end Liftbridge.Props.GoRetention
