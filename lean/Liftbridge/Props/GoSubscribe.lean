/-
The stop position of a subscription in the hand-written Subscribe model IS the translated Go code.

`Gen/GoSubscribe.lean` is regenerated on every run from the body of `partition.getStopOffset`
(server/partition.go); the `client.StopPosition_*` enum values are read from the liftbridge-api module
the repository's go.mod pins (module cache). For every partition state (read-only flag, newest offset),
direction and request: which stop offset the body returns and whether it refuses, per stop position.
`model_agrees` states the same table for `Subscribe.stopOffset`, the function C10's theorems are about.
-/
import Liftbridge.Proofs.GoCodeBase
import Liftbridge.Gen.GoSubscribe
import Liftbridge.Model.Subscribe

namespace Liftbridge.Props.GoSubscribe
open Liftbridge Liftbridge.GoMini Liftbridge.GoCode
open Liftbridge.Gen.GoSubscribe

/-- every construct of the translated function is inside the subset -/
theorem translation_complete : unsupported = [] := rfl

/-- what `LatestOffsetBeforeTimestamp` answers (the commit log's lookup is C10's model; here a parameter) -/
def tsExt (ans : Int × Option String) : Ext := fun f _ _ =>
  if f = "LatestOffsetBeforeTimestamp" then
    some (.tup [.int ans.1, match ans.2 with | none => .nil | some e => .str e])
  else if f = "status.New" then some (.str "status")
  else if f = "fmt.Sprintf" then some (.str "message")
  else none

def encLogView (readonly : Bool) (newest : Int) : Val :=
  .struct [("log", .struct [("IsReadonly", .bool readonly), ("NewestOffset", .int newest)])]

/-- `*client.SubscribeRequest`: the fields getStopOffset reads -/
def encReq (pos : Int) (stopOffset stopTs : Int) (reverse : Bool) : Val :=
  .struct [("StopPosition", .int pos), ("StopOffset", .int stopOffset), ("StopTimestamp", .int stopTs), ("Reverse", .bool reverse)]

def globals : List (String × Val) :=
  [("codes.Internal", .int 13), ("codes.ResourceExhausted", .int 8), ("codes.InvalidArgument", .int 3)]

/-- (stop offset, refused?) -/
def stopView : R Out → Option (Val × Bool)
  | .ok o => match o.rets with
    | [v, s] => some (v, !isNil s)
    | _ => none
  | _ => none

@[simp] theorem lk_a : evalE.lookup' "getStopOffset" prog = some fn_partition_getStopOffset := by simp [prog, gomini]
@[simp] theorem lk_b : evalE.lookup' "IsReadonly" prog = none := by simp [prog, gomini]
@[simp] theorem lk_c : evalE.lookup' "NewestOffset" prog = none := by simp [prog, gomini]
@[simp] theorem lk_d : evalE.lookup' "LatestOffsetBeforeTimestamp" prog = none := by simp [prog, gomini]
@[simp] theorem lk_e : evalE.lookup' "status.New" prog = none := by simp [prog, gomini]
@[simp] theorem lk_f : evalE.lookup' "fmt.Sprintf" prog = none := by simp [prog, gomini]

/-- STOP_ON_CANCEL: wait for new messages (-1), except on a read-only partition read FORWARD, where the
subscription stops at the newest offset -/
theorem go_stop_onCancel (ro : Bool) (newest so ts : Int) (rev : Bool) (ans : Int × Option String) :
    stopView (runG prog (tsExt ans) 30 "getStopOffset" (some (encLogView ro newest)) [encReq 0 so ts rev] globals) =
      some (.int (if ro && !rev then newest else -1), false) := by
  cases ro <;> cases rev <;>
    simp [runG, fn_partition_getStopOffset, gomini, encLogView, encReq, globals, binInt, stopView, isNil]

/-- STOP_OFFSET: the requested offset -/
theorem go_stop_offset (ro : Bool) (newest so ts : Int) (rev : Bool) (ans : Int × Option String) :
    stopView (runG prog (tsExt ans) 30 "getStopOffset" (some (encLogView ro newest)) [encReq 1 so ts rev] globals) =
      some (.int so, false) := by
  simp [runG, fn_partition_getStopOffset, gomini, encLogView, encReq, globals, binInt, stopView, isNil]

/-- STOP_LATEST: the newest offset; refused on an empty log -/
theorem go_stop_latest (ro : Bool) (newest so ts : Int) (rev : Bool) (ans : Int × Option String) :
    stopView (runG prog (tsExt ans) 30 "getStopOffset" (some (encLogView ro newest)) [encReq 2 so ts rev] globals) =
      some (.int newest, decide (newest = -1)) := by
  by_cases h : newest = -1 <;>
    simp [runG, fn_partition_getStopOffset, gomini, encLogView, encReq, globals, binInt, stopView, isNil, tsExt, builtin, convert, h]

/-- STOP_TIMESTAMP: what the log's lookup answers; refused when the lookup fails -/
theorem go_stop_timestamp (ro : Bool) (newest so ts : Int) (rev : Bool) (ans : Int × Option String) :
    stopView (runG prog (tsExt ans) 30 "getStopOffset" (some (encLogView ro newest)) [encReq 3 so ts rev] globals) =
      some (.int ans.1, ans.2.isSome) := by
  obtain ⟨o, e⟩ := ans
  cases e <;>
    simp [runG, fn_partition_getStopOffset, gomini, encLogView, encReq, globals, binInt, stopView, isNil, tsExt, builtin, convert]

/-- any other stop position is refused -/
theorem go_stop_unknown (ro : Bool) (newest so ts : Int) (rev : Bool) (ans : Int × Option String) (pos : Int)
    (h : pos ≠ 0 ∧ pos ≠ 1 ∧ pos ≠ 2 ∧ pos ≠ 3) :
    (stopView (runG prog (tsExt ans) 30 "getStopOffset" (some (encLogView ro newest)) [encReq pos so ts rev] globals)).map (·.2) =
      some true := by
  obtain ⟨h0, h1, h2, h3⟩ := h
  simp [runG, fn_partition_getStopOffset, gomini, encLogView, encReq, globals, binInt, stopView, isNil, tsExt, builtin, convert, h0, h1, h2, h3]

/-- the Subscribe model resolves stop positions by the same table -/
theorem model_agrees (l : Log.CLog) (reverse : Bool) (o : Int) :
    Subscribe.stopOffset l reverse .onCancel = .ok (some (if l.readonly && !reverse then l.newest else -1)) ∧
    Subscribe.stopOffset l reverse (.offset o) = .ok (some o) ∧
    Subscribe.stopOffset l reverse .latest = (if l.newest = -1 then .ok none else .ok (some l.newest)) := by
  have hf : Gen.Subscribe.readonlyStopForwardOnly = true := by decide
  refine ⟨?_, rfl, rfl⟩
  cases hr : l.readonly <;> cases reverse <;> simp [Subscribe.stopOffset, hf, hr, Subscribe.waitForNew]

/-! ### `partition.getStartOffset` -/

/-- what `EarliestOffsetAfterTimestamp` answers is a parameter here too (the lookup itself is `Props.GoTimestamps`) -/
def tsExtS (ans : Int × Option String) : Ext := fun f _ _ =>
  if f = "EarliestOffsetAfterTimestamp" then
    some (.tup [.int ans.1, match ans.2 with | none => .nil | some e => .str e])
  else if f = "status.New" then some (.str "status")
  else if f = "fmt.Sprintf" then some (.str "message")
  else none

def encLogViewS (oldest newest : Int) : Val :=
  .struct [("log", .struct [("OldestOffset", .int oldest), ("NewestOffset", .int newest)])]

/-- `*client.SubscribeRequest`: the fields getStartOffset reads -/
def encReqS (pos : Int) (startOffset startTs : Int) : Val :=
  .struct [("StartPosition", .int pos), ("StartOffset", .int startOffset), ("StartTimestamp", .int startTs)]

@[simp] theorem lk_g : evalE.lookup' "getStartOffset" prog = some fn_partition_getStartOffset := by simp [prog, gomini]
@[simp] theorem lk_h : evalE.lookup' "OldestOffset" prog = none := by simp [prog, gomini]
@[simp] theorem lk_i : evalE.lookup' "EarliestOffsetAfterTimestamp" prog = none := by simp [prog, gomini]

/-- a negative start is clamped to 0 ("if the log is empty the next offset will be 0") -/
def clamp0 (o : Int) : Int := if o < 0 then 0 else o

/-- OFFSET: the requested offset, clamped -/
theorem go_start_offset (oldest newest so ts : Int) (ans : Int × Option String) :
    stopView (runG prog (tsExtS ans) 30 "getStartOffset" (some (encLogViewS oldest newest)) [encReqS 1 so ts] globals) =
      some (.int (clamp0 so), false) := by
  by_cases h : so < 0 <;>
    simp [runG, fn_partition_getStartOffset, gomini, encLogViewS, encReqS, globals, binInt, stopView, isNil, clamp0, h]

/-- EARLIEST: the oldest offset of the log, clamped (an empty log has oldest = -1) -/
theorem go_start_earliest (oldest newest so ts : Int) (ans : Int × Option String) :
    stopView (runG prog (tsExtS ans) 30 "getStartOffset" (some (encLogViewS oldest newest)) [encReqS 2 so ts] globals) =
      some (.int (clamp0 oldest), false) := by
  by_cases h : oldest < 0 <;>
    simp [runG, fn_partition_getStartOffset, gomini, encLogViewS, encReqS, globals, binInt, stopView, isNil, clamp0, h]

/-- LATEST: the newest offset, clamped -/
theorem go_start_latest (oldest newest so ts : Int) (ans : Int × Option String) :
    stopView (runG prog (tsExtS ans) 30 "getStartOffset" (some (encLogViewS oldest newest)) [encReqS 3 so ts] globals) =
      some (.int (clamp0 newest), false) := by
  by_cases h : newest < 0 <;>
    simp [runG, fn_partition_getStartOffset, gomini, encLogViewS, encReqS, globals, binInt, stopView, isNil, clamp0, h]

/-- NEW_ONLY: the offset after the newest one -/
theorem go_start_newOnly (oldest newest so ts : Int) (ans : Int × Option String) :
    stopView (runG prog (tsExtS ans) 30 "getStartOffset" (some (encLogViewS oldest newest)) [encReqS 0 so ts] globals) =
      some (.int (clamp0 (newest + 1)), false) := by
  by_cases h : newest + 1 < 0 <;>
    simp [runG, fn_partition_getStartOffset, gomini, encLogViewS, encReqS, globals, binInt, stopView, isNil, clamp0, h]

/-- TIMESTAMP: what the log's lookup answers, clamped; refused (before any clamping) when the lookup fails -/
theorem go_start_timestamp_ok (oldest newest so ts o : Int) :
    stopView (runG prog (tsExtS (o, none)) 30 "getStartOffset" (some (encLogViewS oldest newest)) [encReqS 4 so ts] globals) =
      some (.int (clamp0 o), false) := by
  by_cases h : o < 0 <;>
    simp [runG, fn_partition_getStartOffset, gomini, encLogViewS, encReqS, globals, binInt, stopView, isNil, tsExtS, builtin, convert, clamp0, h]

theorem go_start_timestamp_err (oldest newest so ts o : Int) (e : String) :
    (stopView (runG prog (tsExtS (o, some e)) 30 "getStartOffset" (some (encLogViewS oldest newest)) [encReqS 4 so ts] globals)).map (·.2) =
      some true := by
  simp [runG, fn_partition_getStartOffset, gomini, encLogViewS, encReqS, globals, binInt, stopView, isNil, tsExtS, builtin, convert]

/-- any other start position is refused -/
theorem go_start_unknown (oldest newest so ts : Int) (ans : Int × Option String) (pos : Int)
    (h : pos ≠ 0 ∧ pos ≠ 1 ∧ pos ≠ 2 ∧ pos ≠ 3 ∧ pos ≠ 4) :
    (stopView (runG prog (tsExtS ans) 30 "getStartOffset" (some (encLogViewS oldest newest)) [encReqS pos so ts] globals)).map (·.2) =
      some true := by
  obtain ⟨h0, h1, h2, h3, h4⟩ := h
  simp [runG, fn_partition_getStartOffset, gomini, encLogViewS, encReqS, globals, binInt, stopView, isNil, tsExtS, builtin, convert, h0, h1, h2, h3, h4]

/-- the Subscribe model resolves start positions by the same table (`Subscribe.startOffset` is what C10's
theorems are about; its timestamp case goes through `earliestAfterTs`, tied by `Props.GoTimestamps`) -/
theorem model_agrees_start (l : Log.CLog) (o : Int) :
    Subscribe.startOffset l (.offset o) = .ok (clamp0 o) ∧
    Subscribe.startOffset l .earliest = .ok (clamp0 l.oldest) ∧
    Subscribe.startOffset l .latest = .ok (clamp0 l.newest) ∧
    Subscribe.startOffset l .newOnly = .ok (clamp0 (l.newest + 1)) ∧
    (∀ t r, Subscribe.earliestAfterTs l t = .ok r → Subscribe.startOffset l (.timestamp t) = .ok (clamp0 r)) := by
  refine ⟨rfl, rfl, rfl, rfl, ?_⟩
  intro t r h
  simp [Subscribe.startOffset, h, clamp0, bind, Res.bind]

/-- non-vacuity: the clamp matters on an empty log (oldest = newest = -1) and not on a non-empty one -/
example : clamp0 (-1) = 0 ∧ clamp0 ((-1) + 1) = 0 ∧ clamp0 7 = 7 := by decide

end Liftbridge.Props.GoSubscribe
