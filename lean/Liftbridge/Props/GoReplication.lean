/-
C02 / C04 / C14 at the level of the function bodies: the two NATS handlers of the replication protocol in
server/partition.go - `handleReplicationRequest` (the leader's fence in front of its replicators) and
`handleReplicationResponse` (what a follower does with a response) - translated from the code. `Gen/GoReplication.lean` is
regenerated on every run. Un-marshalling, the commit log and the replicator are parameters.

`go_handleReplicationRequest`: for every partition state and every payload (whatever un-marshalling makes of it) the
request reaches a replicator - exactly one `request` call - iff it un-marshals, the partition is not paused, its leader
epoch is 0 or the partition's CURRENT leader epoch, and the replica it names is a replica AND has a replicator (the leader
itself has none); otherwise nothing happens at all. Never a panic.
`go_handleReplicationResponse_*`: a response is ignored without any effect unless it un-marshals, the partition is
following and the response carries the partition's current leader epoch. Otherwise the high watermark is set to
`min(leader's HW, own newest offset)` - never beyond the follower's own log end -, data of at most 28 bytes or starting
below `newest + 1` is ignored, anything else is appended once and the high watermark is set again, to
`min(leader's HW, NEW newest offset)`; the handler reports the number of offsets appended. A failing append panics (the
code's choice: a follower that cannot write its log stops).
-/
import Liftbridge.Proofs.GoCodeBase
import Liftbridge.Gen.GoReplication

set_option linter.unusedSimpArgs false

namespace Liftbridge.Props.GoReplication
open Liftbridge Liftbridge.GoMini Liftbridge.GoCode
open Liftbridge.Gen.GoReplication

theorem translation_complete : unsupported = [] := rfl

theorem binVal_int (op : String) (a b : Int) : binVal op (Val.int a) (Val.int b) = binInt op a b := rfl
@[simp] theorem lk_hreq : evalE.lookup' "handleReplicationRequest" prog = some fn_partition_handleReplicationRequest := by simp [prog, gomini]
@[simp] theorem lk_hresp : evalE.lookup' "handleReplicationResponse" prog = some fn_partition_handleReplicationResponse := by simp [prog, gomini]
@[simp] theorem lk_minInt64 : evalE.lookup' "minInt64" prog = some fn_minInt64 := by simp [prog, gomini]
@[simp] theorem lk_now : evalE.lookup' "time.Now" prog = none := by simp [prog, gomini]
@[simp] theorem lk_unreq : evalE.lookup' "proto.UnmarshalReplicationRequest" prog = none := by simp [prog, gomini]
@[simp] theorem lk_unresp : evalE.lookup' "proto.UnmarshalReplicationResponse" prog = none := by simp [prog, gomini]
@[simp] theorem lk_request : evalE.lookup' "request" prog = none := by simp [prog, gomini]
@[simp] theorem lk_shw : evalE.lookup' "SetHighWatermark" prog = none := by simp [prog, gomini]
@[simp] theorem lk_newest : evalE.lookup' "NewestOffset" prog = none := by simp [prog, gomini]
@[simp] theorem lk_append : evalE.lookup' "AppendMessageSet" prog = none := by simp [prog, gomini]
@[simp] theorem lk_uint64 : evalE.lookup' "Uint64" prog = none := by simp [prog, gomini]
@[simp] theorem lk_int64 : evalE.lookup' "int64" prog = none := by simp [prog, gomini]
@[simp] theorem lk_errorf : evalE.lookup' "fmt.Errorf" prog = none := by simp [prog, gomini]
@[simp] theorem lk_mapLookup2 : evalE.lookup' "mapLookup2" prog = none := by simp [prog, gomini]

/-! ### the leader's fence -/

def encPartL (pause : Bool) (leaderEpoch : Int) (replicas replicators : List (String × Val)) : Val :=
  .struct [("pause", .bool pause), ("LeaderEpoch", .int leaderEpoch), ("replicas", .struct replicas), ("replicators", .struct replicators)]

def encReq (epoch : Int) (replica : String) : Val := .struct [("LeaderEpoch", .int epoch), ("ReplicaID", .str replica)]

/-- un-marshalling answers a request or an error -/
def reqExt (req : Option (Int × String)) : Ext := fun f _ _ =>
  if f = "proto.UnmarshalReplicationRequest" then
    match req with
    | some (e, r) => some (.tup [encReq e r, .nil])
    | none => some (.tup [.nil, .str "unmarshal error"])
  else if f = "time.Now" then some (.int 0)
  else none

/-- the names of the replicator calls made (`none`: a panic or a construct outside the subset) -/
def requests : R Out → Option (List String)
  | .ok o => some ((o.eff.filter fun e => e.1 = "request").map (·.1))
  | _ => none

/-- the replicator map: one non-nil replicator per follower id -/
def mkReplicators (ids : List String) : List (String × Val) := ids.map fun k => (k, .struct [("replica", .str k)])

theorem lookup_mkReplicators (ids : List String) (r : String) :
    lookup r (mkReplicators ids) = if r ∈ ids then some (.struct [("replica", .str r)]) else none := by
  induction ids with
  | nil => simp [mkReplicators, lookup]
  | cons a tl ih =>
    simp only [mkReplicators, List.map_cons, lookup] at ih ⊢
    by_cases h : r = a
    · subst h; simp
    · simp [h, ih]

def admitted (pause : Bool) (leaderEpoch : Int) (replicas replicators : List (String × Val)) : Option (Int × String) → Bool
  | none => false
  | some (e, r) => !pause && (decide (e = 0) || decide (e = leaderEpoch)) && (lookup r replicas).isSome && (lookup r replicators).isSome

set_option maxRecDepth 8000 in
set_option maxHeartbeats 2000000 in
theorem go_handleReplicationRequest (pause : Bool) (leaderEpoch : Int) (replicas : List (String × Val)) (followers : List String)
    (req : Option (Int × String)) (msg : Val) (hmsg : msg = .struct [("Data", .list [])]) :
    requests (runG prog (reqExt req) 30 "handleReplicationRequest" (some (encPartL pause leaderEpoch replicas (mkReplicators followers))) [msg] []) =
      some (if admitted pause leaderEpoch replicas (mkReplicators followers) req then ["request"] else []) := by
  subst hmsg
  generalize hrep : mkReplicators followers = replicators
  cases req with
  | none => simp [runG, fn_partition_handleReplicationRequest, gomini, requests, admitted, reqExt, encPartL, builtin, lookup, getField, binVal, isNil, truthy]
  | some er =>
    obtain ⟨e, r⟩ := er
    cases pause
    · by_cases h0 : e = 0
      · cases h1 : lookup r replicas <;> by_cases h2 : r ∈ followers <;>
          simp [← hrep, lookup_mkReplicators, runG, fn_partition_handleReplicationRequest, gomini, requests, admitted, reqExt, encPartL, encReq, builtin, lookup, getField, binVal, isNil, truthy,
            binVal_int, binInt, h0, h1, h2]
      · by_cases h3 : e = leaderEpoch
        · subst h3
          cases h1 : lookup r replicas <;> by_cases h2 : r ∈ followers <;>
            simp [← hrep, lookup_mkReplicators, runG, fn_partition_handleReplicationRequest, gomini, requests, admitted, reqExt, encPartL, encReq, builtin, lookup, getField, binVal, isNil, truthy,
              binVal_int, binInt, h0, h1, h2]
        · simp [runG, fn_partition_handleReplicationRequest, gomini, requests, admitted, reqExt, encPartL, encReq, builtin, lookup, getField, binVal, isNil, truthy,
            binVal_int, binInt, h0, h3]
    · simp [runG, fn_partition_handleReplicationRequest, gomini, requests, admitted, reqExt, encPartL, encReq, builtin, lookup, getField, binVal, isNil, truthy]

/-! ### the follower's side -/

structure Resp where
  epoch : Int
  hw : Int
  data : List Val

def encPartF (following : Bool) (leaderEpoch : Int) : Val :=
  .struct [("isFollowing", .bool following), ("LeaderEpoch", .int leaderEpoch), ("log", .struct [("kind", .str "commit log")])]

/-- un-marshalling answers a response or an error; the log answers its newest offset (`newest` before the append of this
call, `newest2` after it), the first 8 bytes of the data decode to `first`, the append answers offsets or an error -/
def respExt (resp : Option Resp) (first newest newest2 : Int) (appendRes : Option (List Val)) : Ext := fun f _ eff =>
  if f = "proto.UnmarshalReplicationResponse" then
    match resp with
    | some r => some (.tup [.int r.epoch, .int r.hw, .list r.data, .nil])
    | none => some (.tup [.int 0, .int 0, .nil, .str "unmarshal error"])
  else if f = "NewestOffset" then some (.int (if eff.any (fun e => e.1 = "AppendMessageSet") then newest2 else newest))
  else if f = "Uint64" then some (.int first)
  else if f = "AppendMessageSet" then
    match appendRes with
    | some offs => some (.tup [.list offs, .nil])
    | none => some (.tup [.nil, .str "append error"])
  else none

inductive RespOut where
  | done (n : Int) (calls : List (String × List Val))
  | panic
  deriving Repr

def respView : R Out → Option RespOut
  | .ok o => match o.rets with
    | [.int n] => some (.done n (o.eff.filter fun e => e.1 = "SetHighWatermark" ∨ e.1 = "AppendMessageSet"))
    | _ => none
  | .panic => some .panic
  | .stuck _ => none

def imin (a b : Int) : Int := if a < b then a else b

def logV : Val := .struct [("kind", .str "commit log")]

/-- the decision of `handleReplicationResponse` -/
def respSpec (following : Bool) (leaderEpoch : Int) (resp : Option Resp) (first newest newest2 : Int) (appendRes : Option (List Val)) : RespOut :=
  match resp with
  | none => .done 0 []
  | some r =>
    if !following || decide (leaderEpoch ≠ r.epoch) then .done 0 [] else
    if r.data.length ≤ 28 ∨ first < newest + 1 then .done 0 [("SetHighWatermark", [.int (imin r.hw newest)])] else
    match appendRes with
    | none => .panic
    | some offs => .done offs.length [("SetHighWatermark", [.int (imin r.hw newest)]), ("AppendMessageSet", [.list r.data]),
                                       ("SetHighWatermark", [.int (imin r.hw newest2)])]

def globalsF : List (String × Val) := [("proto.Encoding", .struct [])]

set_option maxRecDepth 8000 in
set_option maxHeartbeats 4000000 in
theorem go_handleReplicationResponse (following : Bool) (leaderEpoch : Int) (resp : Option Resp) (first newest newest2 : Int)
    (appendRes : Option (List Val)) (hfirst : wrapS 64 first = first) :
    respView (runG prog (respExt resp first newest newest2 appendRes) 30 "handleReplicationResponse" (some (encPartF following leaderEpoch))
        [.struct [("Data", .list [])]] globalsF) =
      some (respSpec following leaderEpoch resp first newest newest2 appendRes) := by
  cases resp with
  | none => simp [runG, fn_partition_handleReplicationResponse, gomini, respView, respSpec, respExt, encPartF, builtin, lookup, getField, binVal, isNil, truthy, globalsF]
  | some r =>
    obtain ⟨e, hw, data⟩ := r
    cases following
    · simp [runG, fn_partition_handleReplicationResponse, gomini, respView, respSpec, respExt, encPartF, builtin, lookup, getField, binVal, isNil, truthy, globalsF]
    · by_cases he : leaderEpoch = e
      · subst he
        by_cases hlen : data.length ≤ 28
        · have hl1 : (data.length : Int) ≤ 28 := by omega
          by_cases hz : data.length = 0
          · by_cases hm : hw < newest <;>
              simp [runG, fn_partition_handleReplicationResponse, fn_minInt64, gomini, respView, respSpec, respExt, encPartF, builtin, lookup, getField, binVal, isNil, truthy, globalsF,
            binVal_int, binInt, lenOf, asList, imin, bindParams, envOf, convert, hfirst, logV, hlen, hl1, hz, hm]
          · have hz' : ¬ (data.length : Int) = 0 := by omega
            by_cases hm : hw < newest <;>
              simp [runG, fn_partition_handleReplicationResponse, fn_minInt64, gomini, respView, respSpec, respExt, encPartF, builtin, lookup, getField, binVal, isNil, truthy, globalsF,
            binVal_int, binInt, lenOf, asList, imin, bindParams, envOf, convert, hfirst, logV, hlen, hl1, hz, hz', hm]
        · have hl1 : ¬ (data.length : Int) ≤ 28 := by omega
          have hz' : ¬ (data.length : Int) = 0 := by omega
          have h8 : (8 : Int) ≤ data.length := by omega
          have hne : ¬ data = [] := by intro h; simp [h] at hlen
          by_cases hold : first < newest + 1
          · by_cases hm : hw < newest <;>
              simp [runG, fn_partition_handleReplicationResponse, fn_minInt64, gomini, respView, respSpec, respExt, encPartF, builtin, lookup, getField, binVal, isNil, truthy, globalsF,
            binVal_int, binInt, lenOf, asList, imin, bindParams, envOf, convert, hfirst, logV, hlen, hl1, hz', h8, hne, hold, hm]
          · cases appendRes with
            | none =>
              by_cases hm : hw < newest <;>
                simp [runG, fn_partition_handleReplicationResponse, fn_minInt64, gomini, respView, respSpec, respExt, encPartF, builtin, lookup, getField, binVal, isNil, truthy, globalsF,
            binVal_int, binInt, lenOf, asList, imin, bindParams, envOf, convert, hfirst, logV, hlen, hl1, hz', h8, hne, hold, hm]
            | some offs =>
              by_cases hm : hw < newest <;> by_cases hm2 : hw < newest2 <;>
                simp [runG, fn_partition_handleReplicationResponse, fn_minInt64, gomini, respView, respSpec, respExt, encPartF, builtin, lookup, getField, binVal, isNil, truthy, globalsF,
            binVal_int, binInt, lenOf, asList, imin, bindParams, envOf, convert, hfirst, logV, hlen, hl1, hz', h8, hne, hold, hm, hm2]
      · simp [runG, fn_partition_handleReplicationResponse, gomini, respView, respSpec, respExt, encPartF, builtin, lookup, getField, binVal, isNil, truthy, globalsF,
          binVal_int, binInt, he]

/-- the follower's high watermark never points past the end of its own log: both values the handler sets are at most the
newest offset the log has at that moment (the repair ba85aea), and at most the leader's -/
theorem imin_le (a b : Int) : imin a b ≤ b ∧ imin a b ≤ a := by unfold imin; split <;> omega

/-- a response from another leader epoch, or to a partition that is not following, has no effect at all -/
theorem stale_response_ignored (leaderEpoch : Int) (r : Resp) (first newest newest2 : Int) (appendRes : Option (List Val))
    (h : leaderEpoch ≠ r.epoch) :
    respSpec true leaderEpoch (some r) first newest newest2 appendRes = .done 0 [] := by
  simp [respSpec, h]

/-- non-vacuity: 40 bytes starting at the follower's log end (newest 4, first offset 5) under a leader HW of 9: appended,
HW first 4 then 6 (the new log end), one offset reported -/
example : respSpec true 3 (some ⟨3, 9, List.replicate 40 (.int 0)⟩) 5 4 6 (some [.int 5, .int 6]) =
    .done 2 [("SetHighWatermark", [.int 4]), ("AppendMessageSet", [.list (List.replicate 40 (.int 0))]), ("SetHighWatermark", [.int 6])] := by
  simp [respSpec, imin]

/-! ### the leader answering "where does epoch e end in your log" (the follower truncates to the answer) -/

@[simp] theorem lk_hlo : evalE.lookup' "handleLeaderOffsetRequest" prog = some fn_partition_handleLeaderOffsetRequest := by simp [prog, gomini]
@[simp] theorem lk_unlo : evalE.lookup' "proto.UnmarshalLeaderEpochOffsetRequest" prog = none := by simp [prog, gomini]
@[simp] theorem lk_mlo : evalE.lookup' "proto.MarshalLeaderEpochOffsetResponse" prog = none := by simp [prog, gomini]
@[simp] theorem lk_lofle : evalE.lookup' "LastOffsetForLeaderEpoch" prog = none := by simp [prog, gomini]
@[simp] theorem lk_respond : evalE.lookup' "Respond" prog = none := by simp [prog, gomini]

/-- un-marshalling answers the epoch asked for or an error; the log answers `endOf epoch`; marshalling answers the record it
was given (so that the response can be read off the `Respond` call) or an error -/
def offExt (req : Option Int) (endOf : Int → Int) (marshalOk : Bool) : Ext := fun f args _ =>
  if f = "proto.UnmarshalLeaderEpochOffsetRequest" then
    match req with
    | some e => some (.tup [.struct [("LeaderEpoch", .int e)], .nil])
    | none => some (.tup [.nil, .str "unmarshal error"])
  else if f = "LastOffsetForLeaderEpoch" then
    match args with
    | [_, .int e] => some (.int (endOf e))
    | _ => none
  else if f = "proto.MarshalLeaderEpochOffsetResponse" then
    match args with
    | [r] => if marshalOk then some (.tup [r, .nil]) else some (.tup [.nil, .str "marshal error"])
    | _ => none
  else none

/-- the responses sent (`none` for a panic) -/
def responses : R Out → Option (List (List Val))
  | .ok o => some ((o.eff.filter fun e => e.1 = "Respond").map (·.2))
  | _ => none

theorem go_handleLeaderOffsetRequest (req : Option Int) (endOf : Int → Int) :
    responses (runG prog (offExt req endOf true) 30 "handleLeaderOffsetRequest"
        (some (.struct [("log", logV)])) [.struct [("Data", .list []), ("kind", .str "msg")]] []) =
      some (match req with
        | none => []
        | some e => [[.struct [("EndOffset", .int (endOf e))]]]) := by
  cases req <;>
    simp [runG, fn_partition_handleLeaderOffsetRequest, gomini, responses, offExt, builtin, lookup, getField, binVal, isNil, truthy, logV]

/-! ### the follower's requests: what it asks the leader for, and when it reports the leader -/

@[simp] theorem lk_clh : evalE.lookup' "checkLeaderHealth" prog = some fn_partition_checkLeaderHealth := by simp [prog, gomini]
@[simp] theorem lk_srr : evalE.lookup' "sendReplicationRequest" prog = some fn_partition_sendReplicationRequest := by simp [prog, gomini]
@[simp] theorem lk_since : evalE.lookup' "time.Since" prog = none := by simp [prog, gomini]
@[simp] theorem lk_bg : evalE.lookup' "context.Background" prog = none := by simp [prog, gomini]
@[simp] theorem lk_report : evalE.lookup' "ReportLeader" prog = none := by simp [prog, gomini]
@[simp] theorem lk_mrr : evalE.lookup' "proto.MarshalReplicationRequest" prog = none := by simp [prog, gomini]
@[simp] theorem lk_req : evalE.lookup' "Request" prog = none := by simp [prog, gomini]
@[simp] theorem lk_inbox : evalE.lookup' "getReplicationRequestInbox" prog = none := by simp [prog, gomini]

def encPartR (me stream : String) (id timeout : Int) : Val :=
  .struct [("Stream", .str stream), ("Id", .int id), ("log", logV),
           ("srv", .struct [("config", .struct [("Clustering", .struct [("ServerID", .str me), ("ReplicaMaxLeaderTimeout", .int timeout), ("ReplicaFetchTimeout", .int 5)])]),
                            ("metadata", .struct [("kind", .str "metadata")]), ("ncRepl", .struct [("kind", .str "nats")])])]

/-- the clock says how long the leader has been silent; the log its newest offset; marshalling and the NATS request succeed or not -/
def follExt (elapsed newest : Int) (requestErr : Option String) : Ext := fun f args _ =>
  if f = "time.Since" then some (.int elapsed)
  else if f = "context.Background" then some (.str "ctx")
  else if f = "ReportLeader" then some .nil
  else if f = "NewestOffset" then some (.int newest)
  else if f = "proto.MarshalReplicationRequest" then
    match args with
    | [r] => some (.tup [r, .nil])
    | _ => none
  else if f = "getReplicationRequestInbox" then some (.str "inbox")
  else if f = "Request" then
    match requestErr with
    | some e => some (.tup [.nil, .str e])
    | none => some (.tup [.struct [("Data", .list [])], .nil])
  else if f = "proto.UnmarshalReplicationResponse" then some (.tup [.int 0, .int 0, .nil, .str "empty"])
  else none

def reports : R Out → Option (List (List Val))
  | .ok o => some ((o.eff.filter fun e => e.1 = "ReportLeader").map (·.2))
  | _ => none

set_option maxRecDepth 8000 in
/-- the leader is reported iff it has been silent for MORE than the configured time, once, and the report names this replica, the leader
it was following and the leader epoch it was following it under (so that a report about an earlier term is refused by the controller) -/
theorem go_checkLeaderHealth (me stream : String) (id timeout elapsed newest : Int) (leader : String) (epoch : Int) :
    reports (runG prog (follExt elapsed newest none) 30 "checkLeaderHealth" (some (encPartR me stream id timeout)) [.str leader, .int epoch, .str "last seen"] []) =
      some (if elapsed > timeout then
              [[.str "ctx", .struct [("Stream", .str stream), ("Partition", .int id), ("Replica", .str me), ("Leader", .str leader), ("LeaderEpoch", .int epoch)]]]
            else []) := by
  by_cases h : elapsed > timeout <;>
    simp [runG, fn_partition_checkLeaderHealth, gomini, reports, follExt, encPartR, binVal_int, binInt, truthy, getField, lookup, builtin, h, logV]

/-- (what was marshalled as the replication request, the values returned) -/
def reqView : R Out → Option (List (List Val) × List Val)
  | .ok o => some ((o.eff.filter fun e => e.1 = "proto.MarshalReplicationRequest").map (·.2), o.rets)
  | _ => none

set_option maxRecDepth 8000 in
set_option maxHeartbeats 2000000 in
/-- a fetch names this server as the replica, the follower's NEWEST offset and the leader epoch the follower is following; a
failed request is an error and nothing is handled -/
theorem go_sendReplicationRequest_failed (me stream : String) (id timeout elapsed newest epoch : Int) (e : String) :
    reqView (runG prog (follExt elapsed newest (some e)) 30 "sendReplicationRequest" (some (encPartR me stream id timeout)) [.int epoch] []) =
      some ([[.struct [("ReplicaID", .str me), ("Offset", .int newest), ("LeaderEpoch", .int epoch)]]], [.int 0, .str e]) := by
  simp [runG, fn_partition_sendReplicationRequest, gomini, reqView, follExt, encPartR, binVal_int, binInt, truthy, getField, lookup, builtin, logV, assignAll,
    assignTo]

set_option maxRecDepth 8000 in
set_option maxHeartbeats 2000000 in
theorem go_sendReplicationRequest_request (me stream : String) (id timeout elapsed newest epoch : Int) :
    (reqView (runG prog (follExt elapsed newest none) 30 "sendReplicationRequest" (some (encPartR me stream id timeout)) [.int epoch] [])).map (·.1) =
      some [[.struct [("ReplicaID", .str me), ("Offset", .int newest), ("LeaderEpoch", .int epoch)]]] := by
  simp [runG, fn_partition_sendReplicationRequest, fn_partition_handleReplicationResponse, gomini, reqView, follExt, encPartR, binVal_int, binInt, truthy, getField,
    lookup, builtin, logV, assignAll, assignTo, bindParams, envOf]

end Liftbridge.Props.GoReplication
