/-
Byte-level round trip of the stored message format (part of C01: "exactly the key, value,
headers … that were stored"; and of C14: stored values are returned verbatim).
-/
import Liftbridge.Model.Codec
import Liftbridge.Proofs.Codec

namespace Liftbridge.Props.Codec
open Liftbridge Liftbridge.Codec Liftbridge.Proofs.Codec

/-- Reading back an encoded message returns exactly the key that was stored (nil ≠ empty). -/
theorem key_encode (crc : Bytes → Nat) (m : WireMsg) (h : WF m) : key (encode crc m) = .ok m.key :=
  key_encode' crc m h.1

/-- … exactly the value … -/
theorem value_encode (crc : Bytes → Nat) (m : WireMsg) (h : WF m) : value (encode crc m) = .ok m.val :=
  value_encode' crc m h.1 h.2.1

/-- … and exactly the headers, keys and values (nil ≠ empty), in stored order. -/
theorem headers_encode (crc : Bytes → Nat) (m : WireMsg) (h : WF m) :
    headers (encode crc m) = .ok m.hdrs :=
  headers_encode' crc m h.1 h.2.1 h.2.2.1 (WF.hdrOk h)

/-- The stored CRC matches, so `readMessage` accepts what `Append` wrote. -/
theorem crc_encode (crc : Bytes → Nat) (m : WireMsg) : crcOk crc (encode crc m) = true :=
  crc_encode' crc m

/-- The encoded length is the one the commit-log model uses for positions and segment rolls. -/
theorem encode_length (crc : Bytes → Nat) (p : Log.Payload) :
    (encode crc (toWire p)).length = p.encLen :=
  encode_length' crc p

/-- Outside `WF` the format does NOT round-trip: 65536 headers wrap the 16-bit count to 0. -/
theorem header_count_wraps (crc : Bytes → Nat) :
    ∃ m : WireMsg, m.hdrs.length = 65536 ∧ headers (encode crc m) = .ok [] :=
  ⟨wrapMsg 65536, header_count_wraps' crc⟩

/-- A nil header value is stored with size -1 and read back as nil (the defect fixed by edc6f8a:
the old accessor sliced `m[n:n-1]`). -/
theorem nil_header_value_roundtrip (crc : Bytes → Nat) :
    headers (encode crc { magic := 1, attrs := 0, key := none, val := some [1], hdrs := [([110], none)] })
      = .ok [([110], none)] :=
  headers_encode crc _ (by simp [WF, Log.bytesLen])

end Liftbridge.Props.Codec
