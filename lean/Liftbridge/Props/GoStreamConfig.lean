/-
C16 / C04 at the level of the function body: `getStreamConfig` (server/api.go) - how the per-stream settings of a CreateStream
request reach the stream's configuration - translated from the code (`Gen/GoStreamConfig.lean`, regenerated on every run).
Concurrency control (C16) and the minimum in-sync set size (C04) are such settings: a setting that is dropped here silently
turns every conditional publish of the stream into an unconditional one.

`go_getStreamConfig_partial`: for EVERY combination of set / unset and every value of RetentionMaxAge (the first setting the
body copies) and of AutoPauseDisableIfSubscribers, MinIsr, OptimisticConcurrencyControl and Encryption (the last four, copied
one after the other), each of them arrives in the configuration exactly when it was set, with its value, whatever the others
are. PARTIAL: the other eight settings are unset in the statement (the full statement quantifies over all thirteen; its proof by
cases would have 8192 cases - the harness creates streams with concurrency control next to other settings instead).
-/
import Liftbridge.Proofs.GoCodeBase
import Liftbridge.Gen.GoStreamConfig

set_option linter.unusedSimpArgs false

namespace Liftbridge.Props.GoStreamConfig
open Liftbridge Liftbridge.GoMini Liftbridge.GoCode
open Liftbridge.Gen.GoStreamConfig

theorem translation_complete : unsupported = [] := rfl

@[simp] theorem lk_0 : evalE.lookup' "getStreamConfig" prog = some fn_getStreamConfig := by simp [prog, gomini]

/-- a nullable setting of the request: nil, or a record with its value -/
def encOpt : Option Val → Val
  | none => .nil
  | some v => .struct [("Value", v)]

def encReq (rma apd mi occ enc : Option Val) : Val :=
  .struct [("RetentionMaxAge", encOpt rma), ("CleanerInterval", .nil), ("SegmentMaxBytes", .nil), ("SegmentMaxAge", .nil),
    ("CompactMaxGoroutines", .nil), ("RetentionMaxBytes", .nil), ("RetentionMaxMessages", .nil), ("CompactEnabled", .nil),
    ("AutoPauseTime", .nil), ("AutoPauseDisableIfSubscribers", encOpt apd), ("MinIsr", encOpt mi),
    ("OptimisticConcurrencyControl", encOpt occ), ("Encryption", encOpt enc)]

/-- the five settings as they arrive in the configuration (none: the field was never assigned) -/
def view : R Out → Option (List (Option Val))
  | .ok o => match o.rets with
    | [.struct cfg] => some (["RetentionMaxAge", "AutoPauseDisableIfSubscribers", "MinIsr", "OptimisticConcurrencyControl", "Encryption"].map
        fun f => lookup f cfg)
    | _ => none
  | _ => none

set_option maxRecDepth 16000 in
set_option maxHeartbeats 6400000 in
theorem go_getStreamConfig_partial (rma apd mi occ enc : Option Val) :
    view (runG prog noExt 30 "getStreamConfig" none [encReq rma apd mi occ enc] []) =
      some [rma.map (fun v => encOpt (some v)), apd.map (fun v => encOpt (some v)), mi.map (fun v => encOpt (some v)),
            occ.map (fun v => encOpt (some v)), enc.map (fun v => encOpt (some v))] := by
  cases rma <;> cases apd <;> cases mi <;> cases occ <;> cases enc <;>
    simp [runG, fn_getStreamConfig, gomini, view, encReq, encOpt, binVal, isNil, lookup, update, getField, setField]

/-- concurrency control requested together with a minimum in-sync set size: both arrive -/
example : ∀ n : Int,
    view (runG prog noExt 30 "getStreamConfig" none [encReq none none (some (.int n)) (some (.bool true)) none] []) =
      some [none, none, some (encOpt (some (.int n))), some (encOpt (some (.bool true))), none] :=
  fun n => go_getStreamConfig_partial none none (some (.int n)) (some (.bool true)) none

end Liftbridge.Props.GoStreamConfig
