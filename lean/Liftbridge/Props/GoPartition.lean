/-
Follower log reconciliation of the hand-written protocol model IS the translated Go code.

`Gen/GoPartition.lean` is regenerated on every run from the bodies of `partition.truncateUncommitted`
and `partition.truncateToHW` (server/partition.go). `go_truncateUncommitted` states, for every way the
(at most three) leader-offset requests can come back and every log, which truncation the body
performs: `Truncate(answer + 1)` for the first answer that is not a timeout, and the
high-watermark fallback (`truncateToHW`: nothing when the log ends at the HW, else `Truncate(hw + 1)`)
when a request fails or all three time out - never a truncation computed from a value no leader
sent. These are the two branches the protocol model takes in its `reconcile` / `reconcileFail`
steps (`Protocol.reconcileTruncate`, `Protocol.truncateToHW`); `model_agrees` ties the constants.
-/
import Liftbridge.Proofs.GoPartition
import Liftbridge.Gen.Protocol

namespace Liftbridge.Props.GoPartition
open Liftbridge Liftbridge.GoMini Liftbridge.GoCode
open Liftbridge.Gen.GoPartition Liftbridge.GoPartitionEnv

attribute [local gomini] runFor_succ

/-- every construct of the translated functions is inside the subset -/
theorem translation_complete : unsupported = [] := rfl


set_option maxRecDepth 8000 in
set_option maxHeartbeats 2000000 in
theorem go_truncateUncommitted (reply : Nat → Reply) (le newest hw : Int) :
    truncationsOf (runG prog (reqExt reply) 30 "truncateUncommitted" (some (encP le newest hw)) [] globals) =
      some (match decision reply with
        | some o => [[.int (o + 1)]]
        | none => if newest = hw then [] else [[.int (hw + 1)]]) := by
  have hne : ¬ ("nats: no responders available for request" = "nats: timeout") := by decide
  cases h0 : reply 0 with
  | ok o =>
    simp [runG, fn_partition_truncateUncommitted, gomini, encP, globals, reqExt, h0, encReply, binInt, builtin, errTimeout, decision, truncationsOf, truncations, convert]
  | fail =>
    by_cases hh : newest = hw <;>
    simp [runG, fn_partition_truncateUncommitted, fn_partition_truncateToHW, gomini, encP, globals, reqExt, h0, encReply, binInt, builtin, errTimeout, decision, truncationsOf, truncations, convert, hh]
  | timeout =>
    cases h1 : reply 1 with
    | ok o =>
      simp [runG, fn_partition_truncateUncommitted, gomini, encP, globals, reqExt, h0, h1, encReply, binInt, builtin, errTimeout, decision, truncationsOf, truncations, convert]
    | fail =>
      by_cases hh : newest = hw <;>
      simp [runG, fn_partition_truncateUncommitted, fn_partition_truncateToHW, gomini, encP, globals, reqExt, h0, h1, encReply, binInt, builtin, errTimeout, decision, truncationsOf, truncations, convert, hh]
    | timeout =>
      cases h2 : reply 2 with
      | ok o =>
        simp [runG, fn_partition_truncateUncommitted, gomini, encP, globals, reqExt, h0, h1, h2, encReply, binInt, builtin, errTimeout, decision, truncationsOf, truncations, convert]
      | fail =>
        by_cases hh : newest = hw <;>
        simp [runG, fn_partition_truncateUncommitted, fn_partition_truncateToHW, gomini, encP, globals, reqExt, h0, h1, h2, encReply, binInt, builtin, errTimeout, decision, truncationsOf, truncations, convert, hh]
      | timeout =>
        by_cases hh : newest = hw <;>
        simp [runG, fn_partition_truncateUncommitted, fn_partition_truncateToHW, gomini, encP, globals, reqExt, h0, h1, h2, encReply, binInt, builtin, errTimeout, decision, truncationsOf, truncations, convert, hh]

/-! ### the in-sync set and its persisted form

`RemoveFromISR` / `AddToISR` keep two representations of the in-sync set: the map `p.isr` the leader
commits by, and the protobuf list `p.Isr`, which is what a partition rebuilt from the protobuf (pause /
resume, snapshot restore) - and therefore a later election - sees. For every partition state: after
the call the persisted list is EXACTLY the key set of the map after the change. -/

set_option maxRecDepth 8000 in
set_option maxHeartbeats 2000000 in
theorem go_RemoveFromISR (rs m : List (String × Val)) (persisted : List Val) (below : Bool) (minISR : Int) (leading : Bool)
    (r : String) (v0 : Val) (hr : lookup r rs = some v0) :
    isrView (run prog noExt 30 "RemoveFromISR" (some (encPart rs m persisted below minISR leading)) [.str r]) =
      some (some (.struct (eraseKey r m)), some (.list ((eraseKey r m).map fun e => .str e.1)), [.nil]) := by
  have hl := isr_loop 23 "replica·1" (by decide)
    [("replicas", .struct rs), ("isr", .struct (eraseKey r m)), ("Isr", .list persisted), ("belowMinISR", .bool below),
     ("minISR", .int minISR), ("isLeading", .bool leading)] (eraseKey r m) []
  simp [run, runG, fn_partition_RemoveFromISR, fn_partition_inReplicas, gomini, encPart, builtin, hr]
  rw [hl _ (by simp [gomini])]
  have hp := isrSt_p "replica·1"
    [("replicas", .struct rs), ("isr", .struct (eraseKey r m)), ("Isr", .list persisted), ("belowMinISR", .bool below),
     ("minISR", .int minISR), ("isLeading", .bool leading)] (eraseKey r m) []
  simp [gomini] at hp
  cases below <;> cases leading <;> by_cases h : ((eraseKey r m).length : Int) < minISR <;>
    simp [gomini, hp, isrSt_frame, isrSt_eff, binInt, h, isrView, fieldOf]

set_option maxRecDepth 8000 in
set_option maxHeartbeats 2000000 in
theorem go_AddToISR (rs m : List (String × Val)) (persisted : List Val) (below : Bool) (minISR : Int) (leading : Bool)
    (r : String) (v0 : Val) (hr : lookup r rs = some v0) :
    isrView (run prog noExt 30 "AddToISR" (some (encPart rs m persisted below minISR leading)) [.str r]) =
      some (some (.struct (update r (.struct [("offset", .int (-1))]) m)),
            some (.list ((update r (.struct [("offset", .int (-1))]) m).map fun e => .str e.1)), [.nil]) := by
  have hl := isr_loop 23 "replica" (by decide)
    [("replicas", .struct rs), ("isr", .struct (update r (.struct [("offset", .int (-1))]) m)), ("Isr", .list persisted), ("belowMinISR", .bool below),
     ("minISR", .int minISR), ("isLeading", .bool leading)] (update r (.struct [("offset", .int (-1))]) m) []
  simp [run, runG, fn_partition_AddToISR, fn_partition_inReplicas, gomini, encPart, builtin, hr, assignTo]
  rw [hl _ (by simp [gomini])]
  have hp := isrSt_p "replica"
    [("replicas", .struct rs), ("isr", .struct (update r (.struct [("offset", .int (-1))]) m)), ("Isr", .list persisted), ("belowMinISR", .bool below),
     ("minISR", .int minISR), ("isLeading", .bool leading)] (update r (.struct [("offset", .int (-1))]) m) []
  simp [gomini] at hp
  cases below <;> by_cases h : ((update r (.struct [("offset", .int (-1))]) m).length : Int) ≥ minISR <;>
    simp [gomini, hp, isrSt_frame, isrSt_eff, binInt, h, isrView, fieldOf]

/-- a replica the partition does not have is refused and nothing changes -/
theorem go_RemoveFromISR_not_replica (rs m : List (String × Val)) (persisted : List Val) (below : Bool) (minISR : Int) (leading : Bool)
    (r : String) (hr : lookup r rs = none) :
    isrView (run prog noExt 30 "RemoveFromISR" (some (encPart rs m persisted below minISR leading)) [.str r]) =
      some (some (.struct m), some (.list persisted), [.str "error: %s not a replica"]) := by
  simp [run, runG, fn_partition_RemoveFromISR, fn_partition_inReplicas, gomini, encPart, builtin, hr, isrView, fieldOf]

/-- the constants of the protocol model's two reconciliation branches are the ones of the code:
`Truncate(lastOffset + 1)`, `newestOffset == hw ⇒ nothing`, `Truncate(hw + 1)`, and the fallback exists -/
theorem model_agrees : Gen.Protocol.truncAddend = 1 ∧ Gen.Protocol.truncHWAddend = 1 ∧
    Gen.Protocol.truncHWEqCmp = .eq ∧ Gen.Protocol.hwFallback = true := by decide

/-- non-vacuity: two timeouts, then the leader answers 7 → `Truncate(8)`; a failed request on a log
that ends above its HW → `Truncate(hw + 1)` -/
example : decision (fun k => if k < 2 then .timeout else .ok 7) = some 7 ∧ decision (fun _ => .fail) = none := by decide

end Liftbridge.Props.GoPartition
