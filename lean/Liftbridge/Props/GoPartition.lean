/-
Follower log reconciliation of the hand-written protocol model IS the translated Go code.

`Gen/GoPartition.lean` is regenerated on every run from the bodies of `partition.truncateUncommitted`
and `partition.truncateToHW` (server/partition.go). `go_truncateUncommitted` states, for every way the
(at most three) leader-offset requests can come back and every log, which truncation the body
performs: `Truncate(answer + 1)` for the first answer that is not a timeout, and the
high-watermark fallback (`truncateToHW`: nothing when the log ends at the HW, else `Truncate(hw + 1)`)
when a request fails or all three time out - never a truncation computed from a value no leader
sent. These are the two branches the protocol model takes in its `reconcile` / `reconcileFail`
steps (`Protocol.reconcileTruncate`, `Protocol.truncateToHW`); `model_agrees` ties the constants.
-/
import Liftbridge.Proofs.GoCodeBase
import Liftbridge.Model.GoPartitionEnv
import Liftbridge.Gen.Protocol

namespace Liftbridge.Props.GoPartition
open Liftbridge Liftbridge.GoMini Liftbridge.GoCode
open Liftbridge.Gen.GoPartition Liftbridge.GoPartitionEnv

/-- every construct of the translated functions is inside the subset -/
theorem translation_complete : unsupported = [] := rfl

@[simp] theorem lk_truncateToHW : evalE.lookup' "truncateToHW" prog = some fn_partition_truncateToHW := by simp [prog, gomini]
@[simp] theorem lk_truncateUncommitted : evalE.lookup' "truncateUncommitted" prog = some fn_partition_truncateUncommitted := by simp [prog, gomini]
@[simp] theorem lk_sendLeaderOffsetRequest : evalE.lookup' "sendLeaderOffsetRequest" prog = none := by simp [prog, gomini]
@[simp] theorem lk_LastLeaderEpoch : evalE.lookup' "LastLeaderEpoch" prog = none := by simp [prog, gomini]
@[simp] theorem lk_NewestOffset : evalE.lookup' "NewestOffset" prog = none := by simp [prog, gomini]
@[simp] theorem lk_HighWatermark : evalE.lookup' "HighWatermark" prog = none := by simp [prog, gomini]
@[simp] theorem lk_Sleep : evalE.lookup' "time.Sleep" prog = none := by simp [prog, gomini]
@[simp] theorem lk_Truncate : evalE.lookup' "Truncate" prog = none := by simp [prog, gomini]

set_option maxRecDepth 8000 in
set_option maxHeartbeats 2000000 in
theorem go_truncateUncommitted (reply : Nat → Reply) (le newest hw : Int) :
    truncationsOf (runG prog (reqExt reply) 30 "truncateUncommitted" (some (encP le newest hw)) [] globals) =
      some (match decision reply with
        | some o => [[.int (o + 1)]]
        | none => if newest = hw then [] else [[.int (hw + 1)]]) := by
  have hne : ¬ ("nats: no responders available for request" = "nats: timeout") := by decide
  cases h0 : reply 0 with
  | ok o =>
    simp [runG, fn_partition_truncateUncommitted, gomini, encP, globals, reqExt, h0, encReply, binInt, builtin, errTimeout, decision, truncationsOf, truncations, convert]
  | fail =>
    by_cases hh : newest = hw <;>
    simp [runG, fn_partition_truncateUncommitted, fn_partition_truncateToHW, gomini, encP, globals, reqExt, h0, encReply, binInt, builtin, errTimeout, decision, truncationsOf, truncations, convert, hh]
  | timeout =>
    cases h1 : reply 1 with
    | ok o =>
      simp [runG, fn_partition_truncateUncommitted, gomini, encP, globals, reqExt, h0, h1, encReply, binInt, builtin, errTimeout, decision, truncationsOf, truncations, convert]
    | fail =>
      by_cases hh : newest = hw <;>
      simp [runG, fn_partition_truncateUncommitted, fn_partition_truncateToHW, gomini, encP, globals, reqExt, h0, h1, encReply, binInt, builtin, errTimeout, decision, truncationsOf, truncations, convert, hh]
    | timeout =>
      cases h2 : reply 2 with
      | ok o =>
        simp [runG, fn_partition_truncateUncommitted, gomini, encP, globals, reqExt, h0, h1, h2, encReply, binInt, builtin, errTimeout, decision, truncationsOf, truncations, convert]
      | fail =>
        by_cases hh : newest = hw <;>
        simp [runG, fn_partition_truncateUncommitted, fn_partition_truncateToHW, gomini, encP, globals, reqExt, h0, h1, h2, encReply, binInt, builtin, errTimeout, decision, truncationsOf, truncations, convert, hh]
      | timeout =>
        by_cases hh : newest = hw <;>
        simp [runG, fn_partition_truncateUncommitted, fn_partition_truncateToHW, gomini, encP, globals, reqExt, h0, h1, h2, encReply, binInt, builtin, errTimeout, decision, truncationsOf, truncations, convert, hh]

/-- the constants of the protocol model's two reconciliation branches are the ones of the code:
`Truncate(lastOffset + 1)`, `newestOffset == hw ⇒ nothing`, `Truncate(hw + 1)`, and the fallback exists -/
theorem model_agrees : Gen.Protocol.truncAddend = 1 ∧ Gen.Protocol.truncHWAddend = 1 ∧
    Gen.Protocol.truncHWEqCmp = .eq ∧ Gen.Protocol.hwFallback = true := by decide

/-- non-vacuity: two timeouts, then the leader answers 7 → `Truncate(8)`; a failed request on a log
that ends above its HW → `Truncate(hw + 1)` -/
example : decision (fun k => if k < 2 then .timeout else .ok 7) = some 7 ∧ decision (fun _ => .fail) = none := by decide

end Liftbridge.Props.GoPartition
