/-
C13 at the level of the function body: WHERE a consumer-group subscription may be set up at all - `apiServer.SubscribeInternal`
(server/api.go), translated from the code (`Gen/GoSubEntry.lean`, regenerated on every run).

The registry that keeps "at most one active subscription per group" (`partition.consumers`, Props.GoGroupSub / Props.C13) lives
in ONE partition object. A partition has one object per replica; the property is about the partition, so it holds only as long
as every group subscription goes through the SAME object - the leader's. `go_SubscribeInternal`: for every request, partition
look-up and leader,
  * a group id without a consumer id is refused (InvalidArgument), an unknown partition is refused (NotFound);
  * on a server that is NOT the partition leader: refused (FailedPrecondition) unless the request asks to read from an
    in-sync replica, and a GROUP subscription is refused (InvalidArgument) even then - `a.subscribe` is never reached;
  * otherwise exactly one `a.subscribe(ctx, partition, req)`.
`group_only_on_leader`: whenever the body reaches `a.subscribe` with a group id, this server is the partition leader.
-/
import Liftbridge.Proofs.GoCodeBase
import Liftbridge.Gen.GoSubEntry

set_option linter.unusedSimpArgs false

namespace Liftbridge.Props.GoSubEntry
open Liftbridge Liftbridge.GoMini Liftbridge.GoCode
open Liftbridge.Gen.GoSubEntry

theorem translation_complete : unsupported = [] := rfl

theorem lk_none (f : String) (h : f ≠ "SubscribeInternal") : evalE.lookup' f prog = none := by
  simp [prog, evalE.lookup', h]
@[simp] theorem lk_0 : evalE.lookup' "SubscribeInternal" prog = some fn_apiServer_SubscribeInternal := by simp [prog, gomini]
@[simp] theorem lk_1 : evalE.lookup' "metadata.GetPartition" prog = none := lk_none _ (by decide)
@[simp] theorem lk_2 : evalE.lookup' "partition.GetLeader" prog = none := lk_none _ (by decide)
@[simp] theorem lk_3 : evalE.lookup' "subscribe" prog = none := lk_none _ (by decide)
@[simp] theorem lk_4 : evalE.lookup' "status.Error" prog = none := lk_none _ (by decide)
@[simp] theorem lk_5 : evalE.lookup' "Err" prog = none := lk_none _ (by decide)

/-- `req.Consumer`: nil, or the group and consumer ids -/
def encConsumer : Option (String × String) → Val
  | none => .nil
  | some (g, c) => .struct [("GroupId", .str g), ("ConsumerId", .str c)]

def encReq (cons : Option (String × String)) (readISR : Bool) : Val :=
  .struct [("Consumer", encConsumer cons), ("Stream", .str "s"), ("Partition", .int 0), ("ReadISRReplica", .bool readISR)]

def encApi (self : String) : Val :=
  .struct [("metadata", .struct [("id", .str "metadata")]), ("config", .struct [("Clustering", .struct [("ServerID", .str self)])])]

def partV (leader : String) : Val := .struct [("partition.GetLeader", .tup [.str leader, .int 0])]

def seExt (found : Option String) (subFails : Bool) : Ext := fun f args _ =>
  if f = "metadata.GetPartition" then some (match found with | some l => partV l | none => .nil)
  else if f = "status.Error" then (match args with | [c, _] => some (.struct [("code", c)]) | _ => none)
  else if f = "subscribe" then some (if subFails then .tup [.nil, .struct [("Err", .struct [("code", .int 13)])]] else .tup [.str "sub", .nil])
  else none

def globals : List (String × Val) :=
  [("codes.InvalidArgument", .int 3), ("codes.NotFound", .int 5), ("codes.FailedPrecondition", .int 9)]

inductive Entry where
  | refused (code : Int)
  | forwarded (ok : Bool)
  deriving DecidableEq, Repr

/-- the outcome, and whether `a.subscribe` was reached (the number of such calls) -/
def view : R Out → Option (Entry × Nat)
  | .ok o =>
    let n := o.eff.countP (fun e => e.1 == "subscribe")
    match o.rets with
    | [.nil, .struct [("code", .int c)]] => some (if n = 0 then .refused c else .forwarded false, n)
    | [.str _, .nil] => some (.forwarded true, n)
    | _ => none
  | _ => none

def groupOf : Option (String × String) → String
  | none => ""
  | some (g, _) => g
def consumerOf : Option (String × String) → String
  | none => ""
  | some (_, c) => c

/-- the decision of `SubscribeInternal` -/
def entrySpec (cons : Option (String × String)) (found : Option String) (self : String) (readISR subFails : Bool) : Entry × Nat :=
  if groupOf cons ≠ "" ∧ consumerOf cons = "" then (.refused 3, 0)
  else match found with
    | none => (.refused 5, 0)
    | some leader =>
      if leader ≠ self then
        if readISR then
          if groupOf cons ≠ "" then (.refused 3, 0) else (.forwarded (!subFails), 1)
        else (.refused 9, 0)
      else (.forwarded (!subFails), 1)

set_option maxRecDepth 8000 in
set_option maxHeartbeats 3200000 in
theorem go_SubscribeInternal (cons : Option (String × String)) (found : Option String) (self : String) (readISR subFails : Bool) :
    view (runG prog (seExt found subFails) 30 "SubscribeInternal" (some (encApi self)) [.str "ctx", encReq cons readISR] globals) =
      some (entrySpec cons found self readISR subFails) := by
  cases cons with
  | none =>
    cases found with
    | none =>
      simp [runG, fn_apiServer_SubscribeInternal, gomini, view, entrySpec, seExt, encReq, encConsumer, encApi, globals, groupOf,
        consumerOf, binVal, isNil, builtin, St.log, lookup, getField]
    | some leader =>
      by_cases hl : leader = self <;> cases readISR <;> cases subFails <;>
      simp [runG, fn_apiServer_SubscribeInternal, gomini, view, entrySpec, seExt, encReq, encConsumer, encApi, globals, groupOf,
        consumerOf, binVal, isNil, builtin, St.log, lookup, getField, partV, hl]
  | some gc =>
    obtain ⟨g, c⟩ := gc
    by_cases hg : g = "" <;> by_cases hc : c = ""
    all_goals
      cases found with
      | none =>
        simp [runG, fn_apiServer_SubscribeInternal, gomini, view, entrySpec, seExt, encReq, encConsumer, encApi, globals, groupOf,
          consumerOf, binVal, isNil, builtin, St.log, lookup, getField, hg, hc]
      | some leader =>
        by_cases hl : leader = self <;> cases readISR <;> cases subFails <;>
        simp [runG, fn_apiServer_SubscribeInternal, gomini, view, entrySpec, seExt, encReq, encConsumer, encApi, globals, groupOf,
          consumerOf, binVal, isNil, builtin, St.log, lookup, getField, partV, hl, hg, hc]

/-- a group subscription reaches `a.subscribe` - and with it a partition's registry of group members - only on the partition
leader: all members of a group meet in ONE registry -/
theorem group_only_on_leader (cons : Option (String × String)) (found : Option String) (self : String) (readISR subFails : Bool)
    (hreach : (entrySpec cons found self readISR subFails).2 = 1) (hgroup : groupOf cons ≠ "") : found = some self := by
  unfold entrySpec at hreach
  split at hreach
  · simp at hreach
  · cases found with
    | none => simp at hreach
    | some leader =>
      by_cases hl : leader = self
      · rw [hl]
      · cases readISR <;> simp [hl, hgroup] at hreach

/-- non-vacuity: a group member asking a follower (leader "b", this server "a") with ReadISRReplica is refused; a plain
subscriber is served there; the same group member is served on the leader -/
example : entrySpec (some ("g", "c1")) (some "b") "a" true false = (.refused 3, 0) ∧
    entrySpec none (some "b") "a" true false = (.forwarded true, 1) ∧
    entrySpec (some ("g", "c1")) (some "a") "a" true false = (.forwarded true, 1) := by decide

end Liftbridge.Props.GoSubEntry
