/-
The leader-epoch cache of the hand-written model IS the translated Go code.

`Gen/GoEpochCache.lean` is regenerated on every run from the BODIES of the functions of
server/commitlog/leader_epoch_cache.go (GoMini embedding). Each theorem below states, for every
cache and every argument, that running the translated body returns exactly what the model
function (`Liftbridge.Log.Epochs.*`, the functions C02/C05/C08/C09's theorems are about) returns,
leaves the cache the model predicts, and performs the effects listed (the checkpoint `flush`).
A change to one of these functions changes the regenerated body and the theorem no longer checks.
-/
import Liftbridge.Proofs.GoEpochCache

namespace Liftbridge.Props.GoEpochCache
open Liftbridge Liftbridge.GoMini Liftbridge.Log Liftbridge.GoCode
open Liftbridge.Gen.GoEpochCache

/-- every construct of the translated functions is inside the subset -/
theorem translation_complete : unsupported = [] := rfl

theorem go_latestEpoch (c : Epochs) :
    run prog noExt 20 "latestEpoch" (some (encCache c)) [] =
      .ok { rets := [.int c.latestEpoch], recv := some (encCache c), eff := [] } := by
  rcases List.eq_nil_or_concat c with rfl | ⟨c', e, rfl⟩
  · simp [run, runG, fn_leaderEpochCache_latestEpoch, gomini, encCache, binInt, Epochs.latestEpoch]
  · rw [List.concat_eq_append]
    simp [run, runG, fn_leaderEpochCache_latestEpoch, gomini, encCache, binInt, Epochs.latestEpoch, encEpoch]

theorem go_latestOffset (c : Epochs) :
    run prog noExt 20 "latestOffset" (some (encCache c)) [] =
      .ok { rets := [.int c.latestOffset], recv := some (encCache c), eff := [] } := by
  rcases List.eq_nil_or_concat c with rfl | ⟨c', e, rfl⟩
  · simp [run, runG, fn_leaderEpochCache_latestOffset, gomini, encCache, binInt, Epochs.latestOffset]
  · rw [List.concat_eq_append]
    simp [run, runG, fn_leaderEpochCache_latestOffset, gomini, encCache, binInt, Epochs.latestOffset, encEpoch]

theorem go_earliestOffset (c : Epochs) :
    run prog noExt 20 "earliestOffset" (some (encCache c)) [] =
      .ok { rets := [.int c.earliestOffset], recv := some (encCache c), eff := [] } := by
  cases c with
  | nil => simp [run, runG, fn_leaderEpochCache_earliestOffset, gomini, encCache, binInt, Epochs.earliestOffset]
  | cons e c' => simp [run, runG, fn_leaderEpochCache_earliestOffset, gomini, encCache, binInt, Epochs.earliestOffset, encEpoch]

theorem go_LastLeaderEpoch (c : Epochs) :
    run prog noExt 20 "LastLeaderEpoch" (some (encCache c)) [] =
      .ok { rets := [.int c.latestEpoch], recv := some (encCache c), eff := [] } := by
  rcases List.eq_nil_or_concat c with rfl | ⟨c', e, rfl⟩
  · simp [run, runG, fn_leaderEpochCache_LastLeaderEpoch, fn_leaderEpochCache_latestEpoch, gomini, encCache, binInt, Epochs.latestEpoch]
  · rw [List.concat_eq_append]
    simp [run, runG, fn_leaderEpochCache_LastLeaderEpoch, fn_leaderEpochCache_latestEpoch, gomini, encCache, binInt, Epochs.latestEpoch, encEpoch]

theorem assign_facts : Gen.Log.assignEpochCmp = .gt ∧ Gen.Log.assignOffsetCmp = .ge := by decide

/-- `assign`: appends `(epoch, offset)` and flushes exactly when the model does; otherwise only warns. -/
theorem go_assign (c : Epochs) (epoch : Nat) (offset : Int) :
    run prog noExt 20 "assign" (some (encCache c)) [.int epoch, .int offset] =
      .ok { rets := [.nil], recv := some (encCache (c.assign epoch offset)),
            eff := if epoch > c.latestEpoch ∧ offset ≥ c.latestOffset then [("flush", [])]
                   else [("warn", [.int epoch, .int c.latestEpoch, .int offset, .int c.latestOffset])] } := by
  rcases List.eq_nil_or_concat c with rfl | ⟨c', e, rfl⟩
  · by_cases h1 : 0 < epoch <;> by_cases h2 : -1 ≤ offset <;>
    simp [run, runG, fn_leaderEpochCache_assign, fn_leaderEpochCache_latestEpoch, fn_leaderEpochCache_latestOffset, gomini, encCache, binInt,
      Epochs.latestEpoch, Epochs.latestOffset, Epochs.assign, encEpoch, assign_facts, Cmp.evalNat, Cmp.evalInt, builtin, h1, h2]
  · by_cases h1 : e.1 < epoch <;> by_cases h2 : e.2 ≤ offset <;>
    simp [run, runG, fn_leaderEpochCache_assign, fn_leaderEpochCache_latestEpoch, fn_leaderEpochCache_latestOffset, gomini, encCache, binInt,
      Epochs.latestEpoch, Epochs.latestOffset, Epochs.assign, encEpoch, assign_facts, Cmp.evalNat, Cmp.evalInt, builtin, List.concat_eq_append, h1, h2]

/-- `ClearLatest`: nothing when the offset lies beyond the newest entry, else the model's filter and one flush. -/
theorem go_ClearLatest (c : Epochs) (offset : Int) :
    run prog noExt 20 "ClearLatest" (some (encCache c)) [.int offset] =
      .ok { rets := [.nil], recv := some (encCache (c.clearLatest offset)),
            eff := if offset > c.latestOffset then [] else [("flush", [])] } := by
  by_cases h : offset > c.latestOffset
  · have h' : c.latestOffset < offset := h
    simp [run, runG, fn_leaderEpochCache_ClearLatest, gomini, builtin, latestOffset_body, binInt, h, h', Epochs.clearLatest, clearLatest_facts, Cmp.evalInt]
  · have hl := clearLatest_loop 13 offset c [] 0
    simp [run, runG, fn_leaderEpochCache_ClearLatest, gomini, builtin, latestOffset_body, binInt, h]
    simp [encCache, gomini]
    rw [hl _ (by simp [gomini]) (by simp [gomini])]
    simp [gomini, clSt_filtered, clSt_frame, clSt_eff, binInt]
    have h' : ¬ (c.latestOffset < offset) := h
    simp [Epochs.clearLatest, clearLatest_facts, Cmp.evalInt, h']

end Liftbridge.Props.GoEpochCache
