/-
The leader-epoch cache of the hand-written model IS the translated Go code.

`Gen/GoEpochCache.lean` is regenerated on every run from the BODIES of the functions of
server/commitlog/leader_epoch_cache.go (GoMini embedding). Each theorem below states, for every
cache and every argument, that running the translated body returns exactly what the model
function (`Liftbridge.Log.Epochs.*`, the functions C02/C05/C08/C09's theorems are about) returns,
leaves the cache the model predicts, and performs the effects listed (the checkpoint `flush`).
A change to one of these functions changes the regenerated body and the theorem no longer checks.
-/
import Liftbridge.Proofs.GoEpochCache

namespace Liftbridge.Props.GoEpochCache
open Liftbridge Liftbridge.GoMini Liftbridge.Log Liftbridge.GoCode
open Liftbridge.Gen.GoEpochCache

/-- every construct of the translated functions is inside the subset -/
theorem translation_complete : unsupported = [] := rfl

theorem go_latestEpoch (c : Epochs) :
    run prog noExt 20 "latestEpoch" (some (encCache c)) [] =
      .ok { rets := [.int c.latestEpoch], recv := some (encCache c), eff := [] } := by
  rcases List.eq_nil_or_concat c with rfl | ⟨c', e, rfl⟩
  · simp [run, runG, fn_leaderEpochCache_latestEpoch, gomini, encCache, binInt, Epochs.latestEpoch]
  · rw [List.concat_eq_append]
    simp [run, runG, fn_leaderEpochCache_latestEpoch, gomini, encCache, binInt, Epochs.latestEpoch, encEpoch]

theorem go_latestOffset (c : Epochs) :
    run prog noExt 20 "latestOffset" (some (encCache c)) [] =
      .ok { rets := [.int c.latestOffset], recv := some (encCache c), eff := [] } := by
  rcases List.eq_nil_or_concat c with rfl | ⟨c', e, rfl⟩
  · simp [run, runG, fn_leaderEpochCache_latestOffset, gomini, encCache, binInt, Epochs.latestOffset]
  · rw [List.concat_eq_append]
    simp [run, runG, fn_leaderEpochCache_latestOffset, gomini, encCache, binInt, Epochs.latestOffset, encEpoch]

theorem go_earliestOffset (c : Epochs) :
    run prog noExt 20 "earliestOffset" (some (encCache c)) [] =
      .ok { rets := [.int c.earliestOffset], recv := some (encCache c), eff := [] } := by
  cases c with
  | nil => simp [run, runG, fn_leaderEpochCache_earliestOffset, gomini, encCache, binInt, Epochs.earliestOffset]
  | cons e c' => simp [run, runG, fn_leaderEpochCache_earliestOffset, gomini, encCache, binInt, Epochs.earliestOffset, encEpoch]

theorem go_LastLeaderEpoch (c : Epochs) :
    run prog noExt 20 "LastLeaderEpoch" (some (encCache c)) [] =
      .ok { rets := [.int c.latestEpoch], recv := some (encCache c), eff := [] } := by
  rcases List.eq_nil_or_concat c with rfl | ⟨c', e, rfl⟩
  · simp [run, runG, fn_leaderEpochCache_LastLeaderEpoch, fn_leaderEpochCache_latestEpoch, gomini, encCache, binInt, Epochs.latestEpoch]
  · rw [List.concat_eq_append]
    simp [run, runG, fn_leaderEpochCache_LastLeaderEpoch, fn_leaderEpochCache_latestEpoch, gomini, encCache, binInt, Epochs.latestEpoch, encEpoch]

theorem assign_facts : Gen.Log.assignEpochCmp = .gt ∧ Gen.Log.assignOffsetCmp = .ge := by decide

/-- `assign`: appends `(epoch, offset)` and flushes exactly when the model does; otherwise only warns. -/
theorem go_assign (c : Epochs) (epoch : Nat) (offset : Int) :
    run prog noExt 20 "assign" (some (encCache c)) [.int epoch, .int offset] =
      .ok { rets := [.nil], recv := some (encCache (c.assign epoch offset)),
            eff := if epoch > c.latestEpoch ∧ offset ≥ c.latestOffset then [("flush", [])]
                   else [("warn", [.int epoch, .int c.latestEpoch, .int offset, .int c.latestOffset])] } := by
  rcases List.eq_nil_or_concat c with rfl | ⟨c', e, rfl⟩
  · by_cases h1 : 0 < epoch <;> by_cases h2 : -1 ≤ offset <;>
    simp [run, runG, fn_leaderEpochCache_assign, fn_leaderEpochCache_latestEpoch, fn_leaderEpochCache_latestOffset, gomini, encCache, binInt,
      Epochs.latestEpoch, Epochs.latestOffset, Epochs.assign, encEpoch, assign_facts, Cmp.evalNat, Cmp.evalInt, builtin, h1, h2]
  · by_cases h1 : e.1 < epoch <;> by_cases h2 : e.2 ≤ offset <;>
    simp [run, runG, fn_leaderEpochCache_assign, fn_leaderEpochCache_latestEpoch, fn_leaderEpochCache_latestOffset, gomini, encCache, binInt,
      Epochs.latestEpoch, Epochs.latestOffset, Epochs.assign, encEpoch, assign_facts, Cmp.evalNat, Cmp.evalInt, builtin, List.concat_eq_append, h1, h2]

/-- `ClearLatest`: nothing when the offset lies beyond the newest entry, else the model's filter and one flush. -/
theorem go_ClearLatest (c : Epochs) (offset : Int) :
    run prog noExt 20 "ClearLatest" (some (encCache c)) [.int offset] =
      .ok { rets := [.nil], recv := some (encCache (c.clearLatest offset)),
            eff := if offset > c.latestOffset then [] else [("flush", [])] } := by
  by_cases h : offset > c.latestOffset
  · have h' : c.latestOffset < offset := h
    simp [run, runG, fn_leaderEpochCache_ClearLatest, gomini, builtin, latestOffset_body, binInt, h, h', Epochs.clearLatest, clearLatest_facts, Cmp.evalInt]
  · have hl := clearLatest_loop 13 offset c [] 0
    simp [run, runG, fn_leaderEpochCache_ClearLatest, gomini, builtin, latestOffset_body, binInt, h]
    simp [encCache, gomini]
    rw [hl _ (by simp [gomini]) (by simp [gomini])]
    simp [gomini, clSt_filtered, clSt_frame, clSt_eff, binInt]
    have h' : ¬ (c.latestOffset < offset) := h
    simp [Epochs.clearLatest, clearLatest_facts, Cmp.evalInt, h']

/-- `findEpoch`: the first entry whose epoch is at least `epoch` (Go's binary search, literally), or nil -/
theorem go_findEpoch (c : Epochs) (epoch : Nat) :
    run prog noExt 20 "findEpoch" (some (encCache c)) [.int epoch] =
      .ok { rets := [match c.findEpoch epoch with | some e => encEpoch e | none => .nil],
            recv := some (encCache c), eff := [] } := by
  simp [run, runG, fn_leaderEpochCache_findEpoch, gomini, encCache]
  rw [search_eq c.length _ (fun i => match c[i]? with | some e => Gen.Log.findEpochCmp.evalNat e.1 epoch | none => true)]
  · simp only [Epochs.findEpoch]
    generalize goSearch c.length (fun i => match c[i]? with | some e => Gen.Log.findEpochCmp.evalNat e.1 epoch | none => true) = j
    by_cases hlt : j < c.length
    · have hj : c[j]? = some c[j] := by simp [hlt]
      simp [hlt, hj, gomini, binInt]
    · have hj : c[j]? = none := by simp; omega
      simp [hlt, hj, gomini, binInt]
  · intro k hk
    have : c[k]? = some c[k] := by simp [hk]
    simp [gomini, this, encEpoch, binInt, findEpoch_facts, Cmp.evalNat]


/-- `LastOffsetForLeaderEpoch`: start offset of the first epoch greater than `epoch`, else -1 -/
theorem go_LastOffsetForLeaderEpoch (c : Epochs) (epoch : Nat) :
    run prog noExt 24 "LastOffsetForLeaderEpoch" (some (encCache c)) [.int epoch] =
      .ok { rets := [.int (c.lastOffsetFor epoch)], recv := some (encCache c), eff := [] } := by
  have hb := findEpoch_body 11 c (epoch + 1) []
  simp only [Int.natCast_add, Int.natCast_one] at hb
  simp [run, runG, fn_leaderEpochCache_LastOffsetForLeaderEpoch, gomini, binInt, hb, Epochs.lastOffsetFor]
  cases c.findEpoch (epoch + 1) with
  | none => simp [gomini]
  | some e => simp [gomini, encEpoch]

/- `ClearEarliest`: nothing when the cache starts at or after the offset or no entry lies below it; else the entries below
are dropped, the last of them is put back at `offset` when the remainder would start later (or be empty), one flush. -/
set_option maxRecDepth 8000 in
set_option maxHeartbeats 1600000 in
theorem go_ClearEarliest (c : Epochs) (offset : Int) :
    run prog noExt 24 "ClearEarliest" (some (encCache c)) [.int offset] =
      .ok { rets := [.nil], recv := some (encCache (c.clearEarliest offset)),
            eff := if c.earliestOffset ≥ offset ∨ (c.filter (fun e => e.2 < offset)) = [] then [] else [("flush", [])] } := by
  by_cases h : c.earliestOffset ≥ offset
  · have h' : offset ≤ c.earliestOffset := h
    simp [run, runG, fn_leaderEpochCache_ClearEarliest, gomini, earliestOffset_body, binInt, h, h', Epochs.clearEarliest, clearEarliest_facts, Cmp.evalInt]
  · have hl := clearEarliest_loop 17 offset c [] 0 0
    simp [run, runG, fn_leaderEpochCache_ClearEarliest, gomini, builtin, earliestOffset_body, binInt, h]
    simp [encCache, gomini]
    rw [hl _ (by simp [gomini]) (by simp [gomini]) (by simp [gomini])]
    have hfl := ceSt_frame offset c "l" (by decide) (by decide) (by decide)
    have hfo := ceSt_frame offset c "offset" (by decide) (by decide) (by decide)
    simp [gomini, ceSt_earliest, ceSt_removed, hfl, hfo, ceSt_eff, binInt]
    rcases List.eq_nil_or_concat (c.filter (fun e => decide (e.2 < offset))) with hE | ⟨E', lastE, hE⟩
    · simp [hE, h, Epochs.clearEarliest, clearEarliest_facts, Cmp.evalInt, hfl, ceSt_eff, gomini]
    · have hlen : (E'.length + 1 : Int) ≤ c.length := by
        have := List.length_filter_le (fun e => decide (e.2 < offset)) c
        rw [hE] at this; simp at this; omega
      have h0 : (0:Int) ≤ ↑E'.length + 1 := by omega
      obtain ⟨rest, hrest⟩ : ∃ r, c.drop (E'.length + 1) = r := ⟨_, rfl⟩
      have hd : List.drop (E'.length + 1) (List.map encEpoch c) = List.map encEpoch rest := by
        rw [← hrest, List.map_drop]
      have hlast : (E' ++ [lastE]).getLast? = some lastE := by simp
      simp [hE, h, Epochs.clearEarliest, clearEarliest_facts, Cmp.evalInt, hfl, hfo, ceSt_eff, gomini, List.concat_eq_append,
          ceSt_removed, ceSt_earliest, binInt, h0, hlen, hd, hrest, builtin, hlast, earliestOffset_body']
      cases rest with
      | nil =>
        by_cases hc : offset < -1 <;>
          simp [hc, hfl, hfo, ceSt_eff, gomini, ceSt_removed, ceSt_earliest, binInt, builtin, spliceLast, hE, List.concat_eq_append, encEpoch, Epochs.earliestOffset]
      | cons r rest' =>
        by_cases hc : offset < r.2 <;>
          simp [hc, hfl, hfo, ceSt_eff, gomini, ceSt_removed, ceSt_earliest, binInt, builtin, spliceLast, hE, List.concat_eq_append, encEpoch, Epochs.earliestOffset]

end Liftbridge.Props.GoEpochCache
