/-
C01 / C03 / C10 at the level of the function body: how a reader is CREATED (server/commitlog/reader.go) - translated from
the code. `Gen/GoReaderNew.lean` is regenerated on every run from `commitLog.newReaderCommitted`,
`commitLog.newReaderUncommitted` and `commitLog.NewReader`.

`go_newReaderCommitted`: for every start offset, high watermark, oldest offset, segment list, answer of `getHWPos` (its own
decision is `Props.GoHWPos`), answer of `findSegmentContains` (`Props.GoSegments`) and answer of the entry search:
  * a start offset beyond the HW, or an empty log -> a PARKED reader (no segment, position -1) that remembers the HW it saw:
    it resumes at that HW + 1, whatever offset was asked for (the known finding `start-in-uncommitted-delivers-below-start`
    and C10's model `Subscribe.create` are exactly this branch);
  * otherwise the read limit is the position `getHWPos` answers IN THE SEGMENT `getHWPos` names (an error is returned, no
    reader), and the start position is the `Position` of the entry found by searching the START offset in the segment that
    CONTAINS the start offset (seeded C01-committed-start-looked-up-in-hw-segment searches the HW segment instead);
    a start offset in no segment's range (a gap left by retention / compaction, `contains = false`) starts at position 0 of
    the segment `findSegmentContains` answers.
`go_newReaderUncommitted`: no segment -> `ErrSegmentNotFound`; else position of the entry of the start offset in its segment,
0 when the offset is not contained. `go_NewReader` dispatches on `uncommitted` and remembers the requested offset.
-/
import Liftbridge.Proofs.GoCodeBase
import Liftbridge.Gen.GoReaderNew

set_option linter.unusedSimpArgs false

namespace Liftbridge.Props.GoReaderNew
open Liftbridge Liftbridge.GoMini Liftbridge.GoCode
open Liftbridge.Gen.GoReaderNew

theorem translation_complete : unsupported = [] := rfl

@[simp] theorem lk_c : evalE.lookup' "newReaderCommitted" prog = some fn_commitLog_newReaderCommitted := by simp [prog, gomini]
@[simp] theorem lk_u : evalE.lookup' "newReaderUncommitted" prog = some fn_commitLog_newReaderUncommitted := by simp [prog, gomini]
@[simp] theorem lk_n : evalE.lookup' "NewReader" prog = some fn_commitLog_NewReader := by simp [prog, gomini]
@[simp] theorem lk_1 : evalE.lookup' "HighWatermark" prog = none := by simp [prog, gomini]
@[simp] theorem lk_2 : evalE.lookup' "Segments" prog = none := by simp [prog, gomini]
@[simp] theorem lk_3 : evalE.lookup' "OldestOffset" prog = none := by simp [prog, gomini]
@[simp] theorem lk_4 : evalE.lookup' "getHWPos" prog = none := by simp [prog, gomini]
@[simp] theorem lk_5 : evalE.lookup' "findSegmentContains" prog = none := by simp [prog, gomini]
@[simp] theorem lk_6 : evalE.lookup' "findEntry" prog = none := by simp [prog, gomini]
@[simp] theorem lk_7 : evalE.lookup' "int64" prog = none := by simp [prog, gomini]

/-- answer of `seg.findEntry(offset)`: the entry's position, or an error -/
inductive EntryAns where
  | entry (position : Int)
  | failed
  deriving DecidableEq, Repr

def encEntryAns : EntryAns → Val
  | .entry p => .tup [.struct [("Position", .int p)], .nil]
  | .failed => .tup [.nil, .str "ErrEntryNotFound"]

/-- answer of `getHWPos(segments, hw)`: (segment index, byte position), or an error -/
def encHWAns : Option (Int × Int) → Val
  | some (i, p) => .tup [.int i, .int p, .nil]
  | none => .tup [.int 0, .int 0, .str "ErrSegmentNotFound"]

/-- the environment of a creation: what the three look-ups answer. `fe seg offset` is the entry search of segment `seg`
(a function of the segment and the offset, so that the theorem says WHICH segment is searched for WHICH offset) -/
def rdExt (hwAns : Option (Int × Int)) (seg : Val) (contains : Bool) (fe : Val → Int → EntryAns) : Ext := fun f args _ =>
  if f = "getHWPos" then some (encHWAns hwAns)
  else if f = "findSegmentContains" then some (.tup [seg, .bool contains])
  else if f = "findEntry" then
    match args with
    | [s, .int o] => some (encEntryAns (fe s o))
    | _ => none
  else none

/-- `*commitLog`: the accessors the creation reads -/
def encLog (hw oldest : Int) (segs : List Val) : Val :=
  .struct [("HighWatermark", .int hw), ("OldestOffset", .int oldest), ("Segments", .list segs)]

/-- a created committed reader -/
structure CReader where
  seg : Val
  pos : Int
  hwSeg : Val
  hwPos : Int
  hw : Int

inductive Made (α : Type) where
  | reader (r : α)
  | error (e : String)

def viewC : R Out → Option (Made CReader)
  | .ok o => match o.rets with
    | [.struct [("cl", _), ("seg", s), ("pos", .int p), ("hwSeg", hs), ("hwPos", .int hp), ("hw", .int hw)], .nil] =>
      some (.reader ⟨s, p, hs, hp, hw⟩)
    | [.nil, .str e] => some (.error e)
    | _ => none
  | _ => none

/-- the decision of `newReaderCommitted` -/
def committedSpec (offset hw oldest : Int) (hwSegOf : Int → Val) (hwAns : Option (Int × Int)) (seg : Val) (contains : Bool)
    (fe : Val → Int → EntryAns) : Made CReader :=
  if offset > hw ∨ oldest = -1 then .reader ⟨.nil, -1, .nil, -1, hw⟩
  else
    match (if hw ≠ -1 then hwAns.map (fun ip => (hwSegOf ip.1, ip.2)) else some (.nil, -1)) with
    | none => .error "ErrSegmentNotFound"
    | some (hwSeg, hwPos) =>
      if contains then
        match fe seg offset with
        | .failed => .error "ErrEntryNotFound"
        | .entry p => .reader ⟨seg, p, hwSeg, hwPos, hw⟩
      else .reader ⟨seg, 0, hwSeg, hwPos, hw⟩

theorem made_reader_inj {α} (a b : α) (h : a = b) : Made.reader a = Made.reader b := by rw [h]

set_option maxRecDepth 8000 in
set_option maxHeartbeats 1600000 in
/-- every case of `newReaderCommitted`. `hidx`: the index `getHWPos` answers names a segment of the list (it is the index
`findSegment` found, `Props.GoHWPos`); `hseg`: a segment that contains the offset is a segment, not nil. -/
theorem go_newReaderCommitted (offset hw oldest : Int) (segs : List Val) (hwAns : Option (Int × Int)) (seg : Val)
    (contains : Bool) (fe : Val → Int → EntryAns) (hwSegOf : Int → Val)
    (hidx : ∀ i p, hwAns = some (i, p) → 0 ≤ i ∧ segs[i.toNat]? = some (hwSegOf i))
    (hseg : contains = true → ∃ fs, seg = .struct fs) :
    viewC (runG prog (rdExt hwAns seg contains fe) 30 "newReaderCommitted" (some (encLog hw oldest segs)) [.int offset]
        [("ErrSegmentNotFound", .str "ErrSegmentNotFound")]) =
      some (committedSpec offset hw oldest hwSegOf hwAns seg contains fe) := by
  by_cases hpark : offset > hw ∨ oldest = -1
  · rcases hpark with h | h
    · simp [runG, fn_commitLog_newReaderCommitted, gomini, viewC, committedSpec, encLog, builtin, convert, lookup, binVal, binInt,
        isNil, h, wrapS]
    · by_cases h' : offset > hw <;>
      simp [runG, fn_commitLog_newReaderCommitted, gomini, viewC, committedSpec, encLog, builtin, convert, lookup, binVal, binInt,
        isNil, h, h', wrapS]
  · have h1 : ¬ offset > hw := fun h => hpark (Or.inl h)
    have h2 : ¬ oldest = -1 := fun h => hpark (Or.inr h)
    by_cases hhw : hw = -1
    · subst hhw
      have h1' : ¬ (-1 < offset) := by omega
      have hhw : (-1 : Int) = -1 := rfl
      cases contains with
      | false =>
        simp [runG, fn_commitLog_newReaderCommitted, gomini, viewC, committedSpec, encLog, builtin, convert, lookup, binVal, binInt,
          isNil, h1, h1', h2, hhw, hpark, wrapS, rdExt]
      | true =>
        obtain ⟨fs, rfl⟩ := hseg rfl
        cases hfe : fe (.struct fs) offset <;>
        simp [runG, fn_commitLog_newReaderCommitted, gomini, viewC, committedSpec, encLog, builtin, convert, lookup, binVal, binInt,
          isNil, h1, h1', h2, hhw, hpark, wrapS, rdExt, hfe, encEntryAns, getField]
    · cases hwAns with
      | none =>
        simp [runG, fn_commitLog_newReaderCommitted, gomini, viewC, committedSpec, encLog, builtin, convert, lookup, binVal, binInt,
          isNil, h1, h2, hhw, hpark, wrapS, rdExt, encHWAns]
      | some ip =>
        obtain ⟨i, p⟩ := ip
        obtain ⟨hi0, hi⟩ := hidx i p rfl
        have hi0' : ¬ i < 0 := by omega
        cases contains with
        | false =>
          simp [runG, fn_commitLog_newReaderCommitted, gomini, viewC, committedSpec, encLog, builtin, convert, lookup, binVal, binInt,
            isNil, h1, h2, hhw, hpark, wrapS, rdExt, encHWAns, asList, hi0', hi]
        | true =>
          obtain ⟨fs, rfl⟩ := hseg rfl
          cases hfe : fe (.struct fs) offset <;>
          simp [runG, fn_commitLog_newReaderCommitted, gomini, viewC, committedSpec, encLog, builtin, convert, lookup, binVal, binInt,
            isNil, h1, h2, hhw, hpark, wrapS, rdExt, encHWAns, asList, hi0', hi, hfe, encEntryAns, getField]

/-- consequence: a reader created at or below the HW on a non-empty log searches the START offset in the segment that
CONTAINS it - never in the HW segment - and a reader created beyond the HW is parked and remembers the HW -/
theorem committed_parked (offset hw oldest : Int) (hwSegOf : Int → Val) (hwAns : Option (Int × Int)) (seg : Val) (contains : Bool)
    (fe : Val → Int → EntryAns) (h : offset > hw) :
    committedSpec offset hw oldest hwSegOf hwAns seg contains fe = .reader ⟨.nil, -1, .nil, -1, hw⟩ := by
  simp [committedSpec, h]

/-! ### `newReaderUncommitted` -/

structure UReader where
  seg : Val
  pos : Int

def viewU : R Out → Option (Made UReader)
  | .ok o => match o.rets with
    | [.struct [("cl", _), ("seg", s), ("pos", .int p)], .nil] => some (.reader ⟨s, p⟩)
    | [.nil, .str e] => some (.error e)
    | _ => none
  | _ => none

/-- the decision of `newReaderUncommitted` (`none`: `findSegmentContains` found no segment) -/
def uncommittedSpec (offset : Int) (seg : Option (List (String × Val))) (contains : Bool) (fe : Val → Int → EntryAns) : Made UReader :=
  match seg with
  | none => .error "ErrSegmentNotFound"
  | some fs =>
    if contains then
      match fe (.struct fs) offset with
      | .failed => .error "ErrEntryNotFound"
      | .entry p => .reader ⟨.struct fs, p⟩
    else .reader ⟨.struct fs, 0⟩

def encSegOpt : Option (List (String × Val)) → Val
  | none => .nil
  | some fs => .struct fs

set_option maxRecDepth 8000 in
set_option maxHeartbeats 1000000 in
theorem go_newReaderUncommitted (offset hw oldest : Int) (segs : List Val) (seg : Option (List (String × Val)))
    (contains : Bool) (fe : Val → Int → EntryAns) :
    viewU (runG prog (rdExt none (encSegOpt seg) contains fe) 30 "newReaderUncommitted" (some (encLog hw oldest segs)) [.int offset]
        [("ErrSegmentNotFound", .str "ErrSegmentNotFound")]) =
      some (uncommittedSpec offset seg contains fe) := by
  cases seg with
  | none =>
    simp [runG, fn_commitLog_newReaderUncommitted, gomini, viewU, uncommittedSpec, encLog, builtin, convert, lookup, binVal, binInt,
      isNil, rdExt, encSegOpt, wrapS]
  | some fs =>
    cases contains with
    | false =>
      simp [runG, fn_commitLog_newReaderUncommitted, gomini, viewU, uncommittedSpec, encLog, builtin, convert, lookup, binVal, binInt,
        isNil, rdExt, encSegOpt, wrapS]
    | true =>
      cases hfe : fe (.struct fs) offset <;>
      simp [runG, fn_commitLog_newReaderUncommitted, gomini, viewU, uncommittedSpec, encLog, builtin, convert, lookup, binVal, binInt,
        isNil, rdExt, encSegOpt, wrapS, hfe, encEntryAns, getField]

/-! ### `NewReader` -/

/-- (requested offset remembered by the Reader, uncommitted flag, is there an error) -/
def viewN : R Out → Option (Int × Bool × Bool)
  | .ok o => match o.rets with
    | [.struct [("ctxReader", _), ("offset", .int off), ("log", _), ("uncommitted", .bool u)], e] => some (off, u, !isNil e)
    | _ => none
  | _ => none

set_option maxRecDepth 8000 in
set_option maxHeartbeats 1000000 in
/-- `NewReader` remembers the requested offset and the kind, and reports the error of the creation it dispatched to
(here: an uncommitted reader on a log without segments fails, a committed reader beyond the HW never fails) -/
theorem go_NewReader_uncommitted_noseg (offset hw oldest : Int) (segs : List Val) (fe : Val → Int → EntryAns) :
    viewN (runG prog (rdExt none .nil false fe) 30 "NewReader" (some (encLog hw oldest segs)) [.int offset, .bool true]
        [("ErrSegmentNotFound", .str "ErrSegmentNotFound")]) = some (offset, true, true) := by
  simp [runG, fn_commitLog_NewReader, fn_commitLog_newReaderUncommitted, gomini, viewN, encLog, builtin, convert, lookup, binVal, binInt,
    isNil, rdExt, wrapS]

set_option maxRecDepth 8000 in
set_option maxHeartbeats 1000000 in
theorem go_NewReader_committed_parked (offset hw oldest : Int) (segs : List Val) (fe : Val → Int → EntryAns) (h : offset > hw) :
    viewN (runG prog (rdExt none .nil false fe) 30 "NewReader" (some (encLog hw oldest segs)) [.int offset, .bool false]
        [("ErrSegmentNotFound", .str "ErrSegmentNotFound")]) = some (offset, false, false) := by
  simp [runG, fn_commitLog_NewReader, fn_commitLog_newReaderCommitted, gomini, viewN, encLog, builtin, convert, lookup, binVal, binInt,
    isNil, rdExt, wrapS, h]

/-- non-vacuity: start 5 at or below HW 9 in a segment that contains it: the position of ITS entry, the limit in the segment
`getHWPos` names -/
example :
    committedSpec 5 9 0 (fun _ => .struct [("id", .int 2)]) (some (1, 400)) (.struct [("id", .int 1)]) true
      (fun _ o => .entry (o * 24)) =
      .reader ⟨.struct [("id", .int 1)], 120, .struct [("id", .int 2)], 400, 9⟩ := by
  simp [committedSpec]

end Liftbridge.Props.GoReaderNew
