/-
C17 at the level of the function bodies: `LocalEncryptionHandler.Read`, `decryptData` and `Seal`
(server/encryption/localkey_handler.go), translated from the code, ARE the framing model `Liftbridge.Seal`
that the C17 theorems are about - for every byte string and every behaviour of the cryptographic
primitives.

`Gen/GoSeal.lean` is regenerated on every run. The primitives (key wrap / unwrap, AES key set-up, GCM
open, `encryptData`) are external calls answered from a `Seal.Crypto` record - the same parameter the
model takes; nothing is assumed about them.

* `go_decryptData`, `go_Read`: same value, same refusals, same panics (none, after the length guards) as
  `Seal.decryptDataWith true` / `Seal.read`, for EVERY stored byte string.
* `go_Seal`: the three `copy` calls into the `make`d buffer produce exactly `Seal.frame wrapped ct`.
-/
import Liftbridge.Proofs.GoCodeBase
import Liftbridge.Gen.GoSeal
import Liftbridge.Model.Seal

namespace Liftbridge.Props.GoSeal
open Liftbridge Liftbridge.GoMini Liftbridge.GoCode
open Liftbridge.Gen.GoSeal

/-- every construct of the translated functions is inside the subset -/
theorem translation_complete : unsupported = [] := rfl

/-- a byte slice -/
def encB (b : Bytes) : Val := .list (b.map fun x => .int (x.toNat : Int))

def decByte : Val → Option UInt8
  | .int n => some (UInt8.ofNat n.toNat)
  | _ => none

def decB : Val → Option Bytes
  | .list vs => vs.mapM decByte
  | _ => none

@[simp] theorem decB_map (b : Bytes) : decB (.list (b.map fun x => .int (x.toNat : Int))) = some b := by
  simp only [decB]
  induction b with
  | nil => rfl
  | cons x xs ih =>
    simp only [List.map_cons, List.mapM_cons, decByte, ih, Int.toNat_natCast]
    simp [UInt8.ofNat_toNat]

@[simp] theorem decB_encB (b : Bytes) : decB (encB b) = some b := decB_map b

/-- the primitives, answered from the model's `Crypto` parameter. A cipher block / GCM object carries its key. -/
def cryptoExt (c : Seal.Crypto) : Ext := fun f args _ =>
  match f, args with
  | "unwrapDEK", [_, w] => (match (decB w).bind c.unwrap with
      | some dek => some (.tup [encB dek, .nil])
      | none => some (.tup [.nil, .str "unwrap"]))
  | "aes.NewCipher", [k] => (match decB k with
      | some dek => if c.keyOk dek then some (.tup [.struct [("key", k)], .nil]) else some (.tup [.nil, .str "cipher"])
      | none => none)
  | "cipher.NewGCM", [.struct [("key", k)]] => some (.tup [.struct [("NonceSize", .int c.nonceSize), ("key", k)], .nil])
  | "Open", [.struct [("NonceSize", _), ("key", k)], _, nonce, ct, _] =>
      (match decB k, decB nonce, decB ct with
       | some dek, some n, some x => (match c.aeadOpen dek n x with
          | some p => some (.tup [encB p, .nil])
          | none => some (.tup [.nil, .str "open"]))
       | _, _, _ => none)
  | _, _ => none

def handler : Val := .struct [("defaultDEK", .nil)]

/-- the outcome as the model states it: a value, a refusal (the error text is not compared), a panic -/
inductive Outcome
  | value (p : Bytes)
  | refused
  | panics
  deriving DecidableEq, Repr

/-- `none`: the run left the subset / returned something that is no byte slice (never, by the theorems) -/
def view : R Out → Option Outcome
  | .ok o => (match o.rets with
      | [v, e] => if isNil e then (decB v).map .value else some .refused
      | _ => none)
  | .panic => some .panics
  | .stuck _ => none

def viewRes : Res Bytes → Outcome
  | .ok p => .value p
  | .err _ => .refused
  | .panic => .panics

/-- slices of an encoded byte slice are encoded slices -/
theorem enc_take_drop (b : Bytes) (h l : Nat) :
    Val.list (((b.map fun x => Val.int (x.toNat : Int)).take h).drop l) = encB ((b.take h).drop l) := by
  simp [encB, List.map_take, List.map_drop]

theorem enc_drop (b : Bytes) (l : Nat) :
    Val.list ((b.map fun x => Val.int (x.toNat : Int)).drop l) = encB (b.drop l) := by
  simp [encB, List.map_drop]

set_option maxRecDepth 8000 in
set_option maxHeartbeats 2000000 in
/-- `decryptData` = the model's `decryptDataWith true` for every key and every byte string -/
theorem go_decryptData (c : Seal.Crypto) (dek ed : Bytes) :
    view (runG prog (cryptoExt c) 40 "decryptData" (some handler) [encB dek, encB ed] []) =
      some (viewRes (Seal.decryptDataWith true c dek ed)) := by
  unfold Seal.decryptDataWith Seal.splitNonce
  cases hk : c.keyOk dek
  · simp [runG, fn_LocalEncryptionHandler_decryptData, prog, gomini, cryptoExt, hk, view, viewRes, handler, isNil, builtin, encB]
  · by_cases hn : ed.length < c.nonceSize
    · simp [runG, fn_LocalEncryptionHandler_decryptData, prog, gomini, cryptoExt, hk, view, viewRes, handler, isNil, builtin,
        hn, Gen.Seal.guardNonceShort, Cmp.evalNat, binInt, encB]
    · have hn' : c.nonceSize ≤ ed.length := by omega
      cases ho : c.aeadOpen dek (ed.take c.nonceSize) (ed.drop c.nonceSize) <;>
      simp [runG, fn_LocalEncryptionHandler_decryptData, prog, gomini, cryptoExt, hk, view, viewRes, handler, isNil, builtin,
        hn, hn', Gen.Seal.guardNonceShort, Cmp.evalNat, binInt, encB, slice, sliceFrom, ← List.map_take, ← List.map_drop, ho]

theorem wrapS64_byte (k : UInt8) : wrapS 64 ((k.toNat : Nat) : Int) = (k.toNat : Int) := by
  have hlt : k.toNat < 256 := UInt8.toNat_lt k
  unfold wrapS
  have h1 : (((k.toNat : Nat) : Int) % (2 ^ 64 : Int)) = (k.toNat : Int) := by
    apply Int.emod_eq_of_lt <;> omega
  simp only [h1]
  split <;> omega

set_option maxRecDepth 8000 in
set_option maxHeartbeats 4000000 in
/-- `Read` = the model's `read` for every stored byte string -/
theorem go_Read (c : Seal.Crypto) (b : Bytes) :
    view (runG prog (cryptoExt c) 60 "Read" (some handler) [encB b] []) = some (viewRes (Seal.read c b)) := by
  unfold Seal.read Seal.readWith Seal.splitKey
  cases b with
  | nil =>
    simp [runG, fn_LocalEncryptionHandler_Read, prog, gomini, cryptoExt, view, viewRes, handler, isNil, builtin, encB,
      Gen.Seal.guardEmpty, Cmp.evalNat, binInt]
  | cons k rest =>
    have hw := wrapS64_byte k
    by_cases hk : rest.length + 1 < k.toNat + 1
    · have hk' : (rest.length : Int) < (k.toNat : Int) := by omega
      have hk2 : rest.length < k.toNat := by omega
      simp [runG, fn_LocalEncryptionHandler_Read, fn_LocalEncryptionHandler_decryptData, prog, gomini, cryptoExt, view, viewRes, handler, isNil, builtin, encB,
        Gen.Seal.guardEmpty, Gen.Seal.guardKeyBeyond, Gen.Seal.guardNonceShort, Gen.Seal.keyEndOffset, Gen.Seal.wrappedLo, Cmp.evalNat, binInt, index, convert,
        slice, sliceFrom, ← List.map_take, ← List.map_drop, hw, hk, hk', hk2]
    · have hk' : ¬ (rest.length : Int) < (k.toNat : Int) := by omega
      have hk2 : (k.toNat : Int) ≤ (rest.length : Int) := by omega
      have hk3 : k.toNat ≤ rest.length := by omega
      have hk4 : ¬ rest.length < k.toNat := by omega
      have h1 : (1 : Int) ≤ (k.toNat : Int) + 1 := by omega
      have h0 : (0 : Int) ≤ (k.toNat : Int) + 1 := by omega
      cases hu : c.unwrap (rest.take k.toNat) with
      | none => simp [runG, fn_LocalEncryptionHandler_Read, fn_LocalEncryptionHandler_decryptData, prog, gomini, cryptoExt, view, viewRes, handler, isNil, builtin, encB,
        Gen.Seal.guardEmpty, Gen.Seal.guardKeyBeyond, Gen.Seal.guardNonceShort, Gen.Seal.keyEndOffset, Gen.Seal.wrappedLo, Cmp.evalNat, binInt, index, convert,
        slice, sliceFrom, ← List.map_take, ← List.map_drop, hw, hk, hk', hk2, hk3, hk4, h1, h0, hu]
      | some dek =>
        unfold Seal.decryptDataWith Seal.splitNonce
        cases hko : c.keyOk dek
        · simp [runG, fn_LocalEncryptionHandler_Read, fn_LocalEncryptionHandler_decryptData, prog, gomini, cryptoExt, view, viewRes, handler, isNil, builtin, encB,
        Gen.Seal.guardEmpty, Gen.Seal.guardKeyBeyond, Gen.Seal.guardNonceShort, Gen.Seal.keyEndOffset, Gen.Seal.wrappedLo, Cmp.evalNat, binInt, index, convert,
        slice, sliceFrom, ← List.map_take, ← List.map_drop, hw, hk, hk', hk2, hk3, hk4, h1, h0, hu, hko]
        · by_cases hn : rest.length - k.toNat < c.nonceSize
          · have hn' : ((rest.length - k.toNat : Nat) : Int) < (c.nonceSize : Int) := by omega
            simp [runG, fn_LocalEncryptionHandler_Read, fn_LocalEncryptionHandler_decryptData, prog, gomini, cryptoExt, view, viewRes, handler, isNil, builtin, encB,
        Gen.Seal.guardEmpty, Gen.Seal.guardKeyBeyond, Gen.Seal.guardNonceShort, Gen.Seal.keyEndOffset, Gen.Seal.wrappedLo, Cmp.evalNat, binInt, index, convert,
        slice, sliceFrom, ← List.map_take, ← List.map_drop, hw, hk, hk', hk2, hk3, hk4, h1, h0, hu, hko, hn, hn']
          · have hn' : ¬ ((rest.length - k.toNat : Nat) : Int) < (c.nonceSize : Int) := by omega
            have hn2 : c.nonceSize ≤ rest.length - k.toNat := by omega
            cases ho : c.aeadOpen dek ((rest.drop k.toNat).take c.nonceSize) (rest.drop (k.toNat + c.nonceSize)) <;>
              simp [runG, fn_LocalEncryptionHandler_Read, fn_LocalEncryptionHandler_decryptData, prog, gomini, cryptoExt, view, viewRes, handler, isNil, builtin, encB,
        Gen.Seal.guardEmpty, Gen.Seal.guardKeyBeyond, Gen.Seal.guardNonceShort, Gen.Seal.keyEndOffset, Gen.Seal.wrappedLo, Cmp.evalNat, binInt, index, convert,
        slice, sliceFrom, ← List.map_take, ← List.map_drop, hw, hk, hk', hk2, hk3, hk4, h1, h0, hu, hko, hn, hn', hn2, ho]

theorem ofNat_mod (n : Nat) : UInt8.ofNat (n % 256) = UInt8.ofNat n := by
  apply UInt8.toNat_inj.mp
  simp [UInt8.toNat_ofNat]

/-- the assembled buffer decodes to the model's frame -/
theorem decB_frame (n : Nat) (w ct : Bytes) :
    decB (.list (.int (wrapU 8 (n : Int)) :: ((w.map fun x => Val.int (x.toNat : Int)) ++ (ct.map fun x => Val.int (x.toNat : Int))))) =
      some (UInt8.ofNat n :: (w ++ ct)) := by
  rw [← List.map_append]
  have h := decB_map (w ++ ct)
  simp only [decB] at h ⊢
  have hb : (wrapU 8 (n : Int)).toNat = n % 256 := by
    unfold wrapU
    omega
  simp only [List.mapM_cons, decByte, h, hb, ofNat_mod]
  rfl

/-! ### Seal -/

/-- `encryptData` (key set-up + GCM seal with a fresh nonce) answers `er`, `wrapDEK` answers `wr`; the arguments
they are called with are in the effect trace -/
def sealExt (er : Res Bytes) (wr : Option Bytes) : Ext := fun f _ _ =>
  if f = "encryptData" then (match er with
      | .ok ct => some (.tup [encB ct, .nil])
      | _ => some (.tup [.nil, .str "cipher"]))
  else if f = "wrapDEK" then (match wr with
      | some w => some (.tup [encB w, .nil])
      | none => some (.tup [.nil, .str "wrap"]))
  else none

def handlerWith (dek : Bytes) : Val := .struct [("defaultDEK", encB dek)]

/-- outcome and the external calls with their arguments -/
def viewE : R Out → Option (Outcome × List (String × List Val))
  | .ok o => (match o.rets with
      | [v, e] => if isNil e then (decB v).map fun p => (.value p, o.eff) else some (.refused, o.eff)
      | _ => none)
  | .panic => some (.panics, [])
  | .stuck _ => none

set_option maxRecDepth 8000 in
set_option maxHeartbeats 4000000 in
/-- `Seal` with a data key in place: encrypt THIS plaintext under THIS key, wrap THIS key, and return exactly
`Seal.frame wrapped ciphertext` (the three `copy` calls into the `make`d buffer) - or the first refusal -/
theorem go_Seal (dek data : Bytes) (er : Res Bytes) (wr : Option Bytes) :
    viewE (runG prog (sealExt er wr) 60 "Seal" (some (handlerWith dek)) [encB data] []) =
      some (match er, wr with
        | .ok ct, some w => (.value (Seal.frame w ct), [("encryptData", [encB dek, encB data]), ("wrapDEK", [encB dek])])
        | .ok _, none => (.refused, [("encryptData", [encB dek, encB data]), ("wrapDEK", [encB dek])])
        | _, _ => (.refused, [("encryptData", [encB dek, encB data])])) := by
  cases er with
  | err e => simp [runG, fn_LocalEncryptionHandler_Seal, prog, gomini, sealExt, viewE, handlerWith, isNil, builtin, encB, binVal]
  | panic => simp [runG, fn_LocalEncryptionHandler_Seal, prog, gomini, sealExt, viewE, handlerWith, isNil, builtin, encB, binVal]
  | ok ct =>
    cases wr with
    | none => simp [runG, fn_LocalEncryptionHandler_Seal, prog, gomini, sealExt, viewE, handlerWith, isNil, builtin, encB, binVal]
    | some w =>
      have hsz : ¬ ((1 : Int) + (w.length : Int) + (ct.length : Int) < 0) := by omega
      have htn : ((1 : Int) + (w.length : Int) + (ct.length : Int)).toNat = 1 + w.length + ct.length := by omega
      have h1 : (1 : Int) ≤ 1 + (w.length : Int) + (ct.length : Int) := by omega
      have h2 : 1 + w.length + ct.length - 1 = w.length + ct.length := by omega
      have h3 : (1 : Int) ≤ (w.length : Int) + 1 := by omega
      have h4 : (w.length : Int) ≤ (w.length : Int) + (ct.length : Int) := by omega
      have hl1 : List.take w.length (List.map (fun x : UInt8 => Val.int (x.toNat : Int)) w) = List.map (fun x : UInt8 => Val.int (x.toNat : Int)) w :=
        List.take_of_length_le (by rw [List.length_map]; exact Nat.le_refl _)
      have hl2 : ∀ x : Val, List.drop (1 + w.length) (x :: List.replicate (w.length + ct.length) Val.nil) = List.replicate ct.length Val.nil := by
        intro x
        rw [Nat.add_comm 1, List.drop_succ_cons, List.drop_replicate]
        congr 1; omega
      have h5 : (0 : Int) ≤ (w.length : Int) + 1 := by omega
      have h6 : ((w.length : Int) + (ct.length : Int) + 1 - ((w.length : Int) + 1)).toNat = ct.length := by omega
      have hl3 : List.take ct.length (List.map (fun x : UInt8 => Val.int (x.toNat : Int)) ct) = List.map (fun x : UInt8 => Val.int (x.toNat : Int)) ct :=
        List.take_of_length_le (by rw [List.length_map]; exact Nat.le_refl _)
      have hl4 : ∀ x : Val, List.drop (w.length + 1 + ct.length)
          (x :: (List.map (fun x : UInt8 => Val.int (x.toNat : Int)) w ++ List.replicate ct.length Val.nil)) = [] := by
        intro x
        apply List.drop_eq_nil_of_le
        simp; omega
      simp [runG, fn_LocalEncryptionHandler_Seal, prog, gomini, sealExt, viewE, handlerWith, isNil, builtin, encB, binVal,
        binInt, convert, Seal.frame, hsz, htn, h1, h2, h3, h4, hl1, hl2, h5, h6, hl3, hl4, decB_frame]

/-- … which is the model's `sealData` when the two primitives answer as the model's `Crypto` does -/
theorem go_Seal_model (c : Seal.Crypto) (dek nonce data : Bytes) :
    (viewE (runG prog (sealExt (Seal.encryptData c dek nonce data) (c.wrap dek)) 60 "Seal" (some (handlerWith dek)) [encB data] [])).map (·.1) =
      some (viewRes (Seal.sealData c dek nonce data)) := by
  rw [go_Seal]
  unfold Seal.sealData Seal.encryptData
  cases c.keyOk dek <;> cases c.wrap dek <;> rfl

/-- non-vacuity: a stored value produced by the translated `Seal` is read back by the translated `Read` with a toy
"crypto" (identity wrap, ciphertext = nonce ++ plaintext) -/
def toy : Seal.Crypto :=
  { wrap := some, unwrap := some, keyOk := fun _ => true, nonceSize := 2,
    aeadSeal := fun _ _ p => p, aeadOpen := fun _ _ x => some x }

example : view (runG prog (cryptoExt toy) 60 "Read" (some handler) [encB (Seal.frame [7, 8] ([1, 2] ++ [9, 9, 9]))] []) =
    some (.value [9, 9, 9]) := by
  rw [go_Read]; rfl

end Liftbridge.Props.GoSeal
