import Liftbridge.Model.Subscribe
namespace Liftbridge.Props.C10
end Liftbridge.Props.C10
