/-
C10 — A subscription delivers exactly the requested range.
Theorems about `Liftbridge.Subscribe` (start/stop resolution incl. timestamp lookups, the
forward committed reader observed by draining, the reverse reader, stop tests, endings) on
EVERY log satisfying `InvC` — dense, compacted-sparse or retention-trimmed, any number of
segments, any HW position — and every start × stop × direction combination.
`TsMono`: message timestamps do not decrease along the log (they are assigned by the leader's
clock at append time); the timestamp lookups are binary searches and mean nothing otherwise.
-/
import Liftbridge.Model.Subscribe
import Liftbridge.Proofs.Compact
import Liftbridge.Proofs.Subscribe

namespace Liftbridge.Props.C10
open Liftbridge Liftbridge.Log Liftbridge.Log.CLog Liftbridge.Subscribe
open Liftbridge.Proofs.Compact Liftbridge.Proofs.Subscribe

-- Some hypotheses of the statements below turn out not to be needed (`hfwd` for the drain
-- theorems: `drain` never looks at the direction; `hcase` for `create_forward`; `hhw` for
-- `create_reverse`); the statements are kept as specified.
set_option linter.unusedVariables false

/-- Timestamps are non-decreasing along the log. -/
def TsMono (l : CLog) : Prop := l.abs.Pairwise (fun a b => a.ts ≤ b.ts)

/-- The high watermark names a retained record (true whenever anything is committed: the HW
message survives compaction, `C08.hw_record_survives`) or nothing is committed. -/
def HwOk (l : CLog) : Prop := l.hw = -1 ∨ ∃ r ∈ l.abs, r.offset = l.hw

/-! ### Position resolution -/

/-- Start timestamp: the resolved offset splits the log exactly at the timestamp — the retained
messages at or after it are those with `ts ≥ t` — and the lookup never fails. -/
theorem start_timestamp_range (l : CLog) (t : Int) (h : InvC l) (hm : TsMono l) :
    ∃ s, earliestAfterTs l t = .ok s ∧ ∀ r ∈ l.abs, (s ≤ r.offset ↔ t ≤ r.ts) :=
  earliestAfterTs_spec l t h hm

/-- FIXED FINDING (`start-timestamp-tie-across-segments`): the lookup as it was before the fix —
segment search for the first base timestamp `> t` instead of `>= t` — skipped a message stamped
exactly `t` at the end of a segment when the next segment starts with the same timestamp
(two segments `[(0, ts 5)]`, `[(1, ts 5)]`, `t = 5`: resolved to offset 1). -/
theorem old_lookup_misses_tie : ∃ l t, InvC l ∧ TsMono l ∧
    ∃ s, earliestAfterTsExclusive l t = .ok s ∧ ∃ r ∈ l.abs, t ≤ r.ts ∧ r.offset < s :=
  Witness.old_lookup_witness

/-- Stop timestamp: when some retained message has `ts ≤ t`, the resolved offset is the offset
of a retained message with `ts ≤ t` and the messages at or before it are exactly those. -/
theorem stop_timestamp_range (l : CLog) (t : Int) (h : InvC l) (hm : TsMono l)
    (hex : ∃ r ∈ l.abs, r.ts ≤ t) :
    ∃ s, latestBeforeTs l t = .ok s ∧ (∃ r ∈ l.abs, r.offset = s) ∧
      ∀ r ∈ l.abs, (r.offset ≤ s ↔ r.ts ≤ t) :=
  latestBeforeTs_spec l t h hm hex

/-- … and when every retained message is later than `t` (or the log is empty) the stop
position is refused. -/
theorem stop_timestamp_before_start (l : CLog) (t : Int) (h : InvC l) (hm : TsMono l)
    (hnone : ∀ r ∈ l.abs, t < r.ts) : ∃ e, latestBeforeTs l t = .err e :=
  latestBeforeTs_refused l t h hm hnone

/-- Earliest / latest / new-only / explicit offsets resolve as documented (negative → 0). -/
theorem start_positions (l : CLog) :
    startOffset l .earliest = .ok (if l.oldest < 0 then 0 else l.oldest) ∧
    startOffset l .latest = .ok (if l.newest < 0 then 0 else l.newest) ∧
    startOffset l .newOnly = .ok (if l.newest + 1 < 0 then 0 else l.newest + 1) ∧
    ∀ o, startOffset l (.offset o) = .ok (if o < 0 then 0 else o) :=
  ⟨rfl, rfl, rfl, fun _ => rfl⟩

/-! ### Forward subscriptions -/

/-- What a forward subscription positioned at `next` with stop offset `stop` must deliver from
log `l`: the retained committed records from `next` up to the stop offset. -/
def fwdRange (l : CLog) (next stop : Int) : List Rec :=
  l.abs.filter (fun r => next ≤ r.offset ∧ r.offset ≤ l.hw ∧ (stop = waitForNew ∨ r.offset ≤ stop))

/-- A drain of a live forward subscription delivers exactly the requested range — every
retained committed message in it, once, in offset order — and nothing else. -/
theorem drain_delivers_range (l : CLog) (s : Sub) (h : InvC l) (hhw : HwOk l)
    (hlive : s.ended = false) (hfwd : s.reverse = false) (hnext : 0 ≤ s.nextOff) :
    (drain l s).1 = fwdRange l s.nextOff s.stop :=
  drain_delivers l s h hhw hlive hnext

/-- The ending of a drain: the stop status exactly when a committed message at or beyond the
stop offset exists; otherwise the end of a read-only partition; otherwise it keeps waiting. -/
theorem drain_ending (l : CLog) (s : Sub) (h : InvC l) (hhw : HwOk l)
    (hlive : s.ended = false) (hfwd : s.reverse = false) (hnext : 0 ≤ s.nextOff) :
    (drain l s).2.1 =
      (if s.stop ≠ waitForNew ∧ ∃ r ∈ l.abs, s.nextOff ≤ r.offset ∧ r.offset ≤ l.hw ∧ s.stop ≤ r.offset
       then Ending.status "ResourceExhausted:stop"
       else if l.readonly = true ∧ l.hw = l.newest then Ending.status "ResourceExhausted:readonly"
       else Ending.waiting) :=
  drain_ending' l s h hhw hlive hnext

/-- After a drain that keeps waiting the subscription stands right behind what it delivered, so
successive drains (after appends / HW advances) deliver each message exactly once, in order. -/
theorem drain_advances (l : CLog) (s : Sub) (h : InvC l) (hhw : HwOk l)
    (hlive : s.ended = false) (hfwd : s.reverse = false) (hnext : 0 ≤ s.nextOff)
    (hw : (drain l s).2.1 = Ending.waiting) :
    (drain l s).2.2.ended = false ∧ (drain l s).2.2.stop = s.stop ∧ s.nextOff ≤ (drain l s).2.2.nextOff ∧
    (∀ r ∈ (drain l s).1, r.offset < (drain l s).2.2.nextOff) ∧
    (∀ r ∈ l.abs, (drain l s).2.2.nextOff ≤ r.offset → r.offset ≤ l.hw →
        (s.stop = waitForNew ∨ r.offset ≤ s.stop) → False) :=
  drain_advances' l s h hhw hlive hnext hw

/-- Creation of a forward subscription whose start is committed (`start ≤ hw`) or beyond the end
of the log (`start > newest`: documented — it waits for the next new message) positions it at
the requested start, resp. behind the HW. -/
theorem create_forward (l : CLog) (req : Req) (start stop : Int) (h : InvC l) (hhw : HwOk l)
    (hfwd : req.reverse = false) (hs : startOffset l req.start = .ok start)
    (hp : stopOffset l false req.stop = .ok (some stop))
    (hvalid : stop = waitForNew ∨ start ≤ stop)
    (hcase : start ≤ l.hw ∨ l.newest < start) :
    ∃ d e sub, create l req = .live d e sub ∧
      d = fwdRange l (if start ≤ l.hw ∧ l.oldest ≠ -1 then start else l.hw + 1) stop :=
  create_forward' l req start stop h hhw hfwd hs hp hvalid

/-- A stop position before the start position is refused (forward); after it (reverse). -/
theorem create_refuses_inverted (l : CLog) (req : Req) (start stop : Int)
    (hs : startOffset l req.start = .ok start)
    (hp : stopOffset l req.reverse req.stop = .ok (some stop)) (hne : stop ≠ waitForNew)
    (hinv : if req.reverse then start < stop else stop < start) :
    create l req = .refused "InvalidArgument:stop-start" :=
  create_refuses_inverted' l req start stop hs hp hne hinv

/-- KNOWN FINDING (`start-in-uncommitted-delivers-below-start`): as stated for every start the
subscription would never deliver below the requested start offset. -/
def never_below_start_asStated : Prop :=
  ∀ (l l' : CLog) (req : Req) (start : Int) d e sub, InvC l → InvC l' → req.reverse = false →
    startOffset l req.start = .ok start → create l req = .live d e sub →
    ∀ r ∈ (drain l' sub).1, start ≤ r.offset

/-- It is false: a start in the uncommitted region (above the HW, at or below the newest offset)
resumes at the old HW + 1 once the HW advances. -/
theorem never_below_start_asStated_false : ¬ never_below_start_asStated := by
  intro hA
  obtain ⟨l, l', req, start, d, e, sub, h, h', hfwd, hs, hc, r, hr, hn⟩ := Witness.never_below_witness
  exact hn (hA l l' req start d e sub h h' hfwd hs hc r hr)

/-- It holds whenever the start is committed or beyond the end of the log… -/
theorem never_below_start_partial (l l' : CLog) (req : Req) (start : Int) (d : List Rec) (e : Ending)
    (sub : Sub) (h : InvC l) (h' : InvC l') (hhw : HwOk l) (hhw' : HwOk l') (hfwd : req.reverse = false)
    (hs : startOffset l req.start = .ok start) (hc : create l req = .live d e sub)
    (hcase : start ≤ l.hw ∧ l.oldest ≠ -1) :
    ∀ r ∈ (drain l' sub).1, start ≤ r.offset :=
  never_below_start' l l' req start d e sub h h' hhw hhw' hfwd hs hc hcase

/-! ### Reverse subscriptions -/

/-- A reverse subscription delivers exactly the retained committed messages from the start
(clamped to the HW) down to the stop offset, newest first, then ends. -/
theorem create_reverse (l : CLog) (req : Req) (start stop : Int) (h : InvC l) (hhw : HwOk l)
    (hne : l.hw ≠ -1) (hle : l.hw ≤ l.newest)
    (hrev : req.reverse = true) (hs : startOffset l req.start = .ok start)
    (hp : stopOffset l true req.stop = .ok (some stop))
    (hvalid : stop = waitForNew ∨ stop ≤ start) :
    ∃ e sub, create l req =
      .live ((l.abs.filter (fun r => r.offset ≤ (if start > l.hw then l.hw else start) ∧
                                      (stop = waitForNew ∨ stop ≤ r.offset))).reverse) (.status e) sub ∧
      (e = "ResourceExhausted:stop" ∨ e = "ResourceExhausted:begin") :=
  create_reverse' l req start stop h hne hle hrev hs hp hvalid

end Liftbridge.Props.C10
