/-
C08 at the level of the function body: `compactCleaner.cleanSegment` (server/commitlog/compact_cleaner.go),
translated from the code, keeps exactly what the model's `Compact.retain` keeps - for every segment content.

`Gen/GoCompact.lean` is regenerated on every run. The segment scanner, the key table (`sync.Map` filled by
`scanKeys`), the new segment and the epoch cache being rebuilt are external objects: the scanner hands out the
messages of an arbitrary list `recs` one after the other (its answer depends on how often it was asked - the
`Ext` table sees the trace), `Load` answers from an arbitrary table `latest`, the cache's last epoch is what was
assigned last. Everything they are asked is recorded.

* `body_pass`: one pass of the loop body writes the message to the new segment exactly when
  `key == nil || offset == latestOffset || offset >= hw` (`keepP`; `latestOffset` is 0 for a key that was never
  scanned) and then assigns its epoch iff it is newer than the cache's last one; otherwise `removed` grows by one
  and nothing is written.
* `scan_loop`, `go_cleanSegment`: for EVERY list of messages (three-clause `for` over the scanner; fuel is a lower
  bound `len + 16`), key table, high watermark and initial epoch: the complete trace is `Cleaned`,
  `newSegmentScanner`, then per message the body's calls and the next `Scan`, then `IsEmpty` and - when nothing
  survived - `cleanupEmptySegment(new, old)`, else `Replace(old)`; the returned count is the number of dropped
  messages; a segment is returned iff something survived.
* `model_retain_formula`: the model's `Compact.retain` (stated through the regenerated comparison operators) is that
  same formula, with `latestFor hw segs` as the table.
(`scanSegments`, which fills the table, ranges over a channel under a label and stays outside the subset; the table is
covered by the model + harness. A single-value type assertion `latest.(*keyOffset)` is translated as the identity.)
-/
import Liftbridge.Proofs.GoCodeBase
import Liftbridge.Gen.GoCompact
import Liftbridge.Model.Compact

set_option linter.unusedSimpArgs false

namespace Liftbridge.Props.GoCompact
open Liftbridge Liftbridge.GoMini Liftbridge.GoCode
open Liftbridge.Gen.GoCompact

theorem translation_complete : unsupported = [] := rfl

theorem binVal_eq_nil_nil : binVal "==" Val.nil Val.nil = .ok (.bool true) := by simp [binVal, isNil]
theorem binVal_ne_nil_nil : binVal "!=" Val.nil Val.nil = .ok (.bool false) := by simp [binVal, isNil]
theorem binVal_eq_str_nil (s : String) : binVal "==" (Val.str s) Val.nil = .ok (.bool false) := by simp [binVal, isNil]
theorem binVal_int (op : String) (a b : Int) : binVal op (Val.int a) (Val.int b) = binInt op a b := rfl

/-- a stored message as the scanner hands it out: offset, key (nil or a byte string), leader epoch -/
structure CRec where
  offset : Int
  key : Option String
  epoch : Int

def keyVal : Option String → Val
  | none => .nil
  | some k => .str k

def encMs (r : CRec) : Val :=
  .struct [("Offset", .int r.offset), ("Message", .struct [("Key", keyVal r.key)]), ("LeaderEpoch", .int r.epoch)]

/-- the retain test, with the key table as a function -/
def keepP (latest : String → Option Int) (hw : Int) (r : CRec) : Bool :=
  match r.key with
  | none => true
  | some k => decide (r.offset = (latest k).getD 0) || decide (r.offset ≥ hw)

/-- the body of the scan loop of `cleanSegment` -/
def loopBody : List Stmt :=
  match fn_compactCleaner_cleanSegment.body with
  | _ :: _ :: _ :: _ :: _ :: (.forC _ _ _ b) :: _ => b
  | _ => []

/-- the callees of the loop body: the key table, the new segment, the epoch cache being rebuilt -/
def bodyExt (latest : String → Option Int) (lastEpoch : Int) : Ext := fun f args _ =>
  if f = "Load" then (match args with
    | [_, .str k] => (match latest k with
        | some o => some (.tup [.struct [("get", .int o)], .bool true])
        | none => some (.tup [.nil, .bool false]))
    | _ => some (.tup [.nil, .bool false]))
  else if f = "Position" then some (.int 0)
  else if f = "entriesForMessageSet" then some (.str "entries")
  else if f = "LastLeaderEpoch" then some (.int lastEpoch)
  else if f = "WriteMessageSet" ∨ f = "Assign" then some .nil
  else none

theorem lk_none (f : String) (h : f ≠ "cleanSegment") : evalE.lookup' f prog = none := by
  simp [prog, evalE.lookup', h]

/-- the last leader epoch the cache being rebuilt holds: the epoch of the last `Assign` so far, `e0` before any -/
def lastEpochIn (e0 : Int) (eff : List (String × List Val)) : Int :=
  eff.foldl (fun acc e => if e.1 = "Assign" then (match e.2 with | [.int ep, _] => ep | _ => acc) else acc) e0

theorem lastEpochIn_append (e0 : Int) (a b : List (String × List Val)) :
    lastEpochIn e0 (a ++ b) = lastEpochIn (lastEpochIn e0 a) b := by
  simp [lastEpochIn, List.foldl_append]

theorem lastEpochIn_nil (e0 : Int) : lastEpochIn e0 [] = e0 := rfl
theorem lastEpochIn_cons (e0 : Int) (x : String × List Val) (xs : List (String × List Val)) :
    lastEpochIn e0 (x :: xs) =
      lastEpochIn (if x.1 = "Assign" then (match x.2 with | [.int ep, _] => ep | _ => e0) else e0) xs := rfl

/-- number of `Scan` calls so far = index of the next message the scanner hands out -/
def scans (eff : List (String × List Val)) : Nat := eff.countP (fun e => e.1 == "Scan")

/-- the callees of `cleanSegment`: the scanner walks `recs`, the key table is `latest`, the epoch cache being rebuilt
starts with last epoch `e0` and remembers what is assigned to it -/
def fullExt (recs : List CRec) (latest : String → Option Int) (e0 : Int) : Ext := fun f args eff =>
  if f = "Scan" then (match recs[scans eff]? with
    | some r => some (.tup [encMs r, .nil, .nil])
    | none => some (.tup [.nil, .nil, .str "EOF"]))
  else if f = "LastLeaderEpoch" then some (.int (lastEpochIn e0 eff))
  else if f = "Cleaned" then some (.tup [.struct [("kind", .str "cleaned")], .nil])
  else if f = "newSegmentScanner" then some (.struct [("kind", .str "scanner")])
  else if f = "IsEmpty" then some (.bool (eff.all fun e => e.1 != "WriteMessageSet"))
  else if f = "Replace" ∨ f = "cleanupEmptySegment" then some .nil
  else bodyExt latest 0 f args eff

/-- what one pass of the loop body does to the effect trace when the message is KEPT -/
def keptEvents (r : CRec) (lastEpoch : Int) : List (String × List Val) :=
  [("Load", [keyVal r.key]), ("Position", []), ("entriesForMessageSet", [.int 0, encMs r]),
   ("WriteMessageSet", [encMs r, .str "entries"]), ("LastLeaderEpoch", [])] ++
  (if lastEpoch < r.epoch then [("Assign", [.int r.epoch, .int r.offset])] else [])

set_option maxRecDepth 8000 in
set_option maxHeartbeats 4000000 in
/-- ONE pass of the loop body, for every message, key table, high watermark and state of the epoch cache: the message is
written to the new segment exactly when `keepP` holds (and then its epoch is assigned iff it is newer than the cache's
last one); otherwise nothing is written and `removed` grows by one -/
theorem body_pass (F : Nat) (hF : 12 ≤ F) (recs : List CRec) (latest : String → Option Int) (e0 lastEpoch hw : Int) (r : CRec) (n : Int) (st : St)
    (hle : lastEpochIn e0 st.eff = lastEpoch)
    (hms : st.env "ms" = some (encMs r)) (hko : st.env "keyOffsets" = some (.struct [("kind", .str "keys")]))
    (hhw : st.env "hw" = some (.int hw)) (hcl : st.env "cleaned" = some (.struct [("kind", .str "cleaned")]))
    (hec : st.env "epochCache" = some (.struct [("kind", .str "epochs")])) (hrm : st.env "removed" = some (.int n)) :
    ∃ st', runBlock (exec prog (fullExt recs latest e0) F) loopBody st = .ok (.next, st') ∧
      (if keepP latest hw r then st'.eff = st.eff ++ keptEvents r lastEpoch ∧ st'.env "removed" = some (.int n)
       else st'.eff = st.eff ++ [("Load", [keyVal r.key])] ∧ st'.env "removed" = some (.int (n + 1))) ∧
      (∀ y, (y = "keyOffsets" ∨ y = "hw" ∨ y = "cleaned" ∨ y = "epochCache" ∨ y = "ss" ∨ y = "seg" ∨ y = "c") → st'.env y = st.env y) := by
  obtain ⟨m, rfl⟩ : ∃ m, F = m + 12 := ⟨F - 12, by omega⟩
  obtain ⟨off, key, ep⟩ := r
  cases key with
  | none =>
    by_cases he : lastEpoch < ep
    · refine ⟨?s1, ?h1, ?_, ?_⟩
      case h1 =>
        simp [loopBody, fn_compactCleaner_cleanSegment, gomini, hms, hko, hhw, hcl, hec, hrm, encMs, keyVal, bodyExt, fullExt, lastEpochIn_append, hle, lastEpochIn_nil, lastEpochIn_cons, binVal_eq_nil_nil, binVal_int, binInt,
          builtin, lk_none, he]
        rfl
      · simp [keepP, keptEvents, gomini, he, encMs, keyVal, hrm]
      · intro y hy; rcases hy with rfl | rfl | rfl | rfl | rfl | rfl | rfl <;> simp [gomini]
    · refine ⟨?s2, ?h2, ?_, ?_⟩
      case h2 =>
        simp [loopBody, fn_compactCleaner_cleanSegment, gomini, hms, hko, hhw, hcl, hec, hrm, encMs, keyVal, bodyExt, fullExt, lastEpochIn_append, hle, lastEpochIn_nil, lastEpochIn_cons, binVal_eq_nil_nil, binVal_int, binInt,
          builtin, lk_none, he]
        rfl
      · simp [keepP, keptEvents, gomini, he, encMs, keyVal, hrm]
      · intro y hy; rcases hy with rfl | rfl | rfl | rfl | rfl | rfl | rfl <;> simp [gomini]
  | some k =>
    cases hl : latest k with
    | none =>
      by_cases h0 : off = 0
      · -- kept: the key was never scanned and the offset is 0
        by_cases he : lastEpoch < ep
        · refine ⟨?s3, ?h3, ?_, ?_⟩
          case h3 =>
            simp [loopBody, fn_compactCleaner_cleanSegment, gomini, hms, hko, hhw, hcl, hec, hrm, encMs, keyVal, bodyExt, fullExt, lastEpochIn_append, hle, lastEpochIn_nil, lastEpochIn_cons, binVal_eq_nil_nil, binVal_eq_str_nil, binVal_int, binInt,
          builtin, lk_none, hl, h0, he]
            rfl
          · simp [keepP, keptEvents, gomini, he, encMs, keyVal, hrm, hl, h0]
          · intro y hy; rcases hy with rfl | rfl | rfl | rfl | rfl | rfl | rfl <;> simp [gomini]
        · refine ⟨?s4, ?h4, ?_, ?_⟩
          case h4 =>
            simp [loopBody, fn_compactCleaner_cleanSegment, gomini, hms, hko, hhw, hcl, hec, hrm, encMs, keyVal, bodyExt, fullExt, lastEpochIn_append, hle, lastEpochIn_nil, lastEpochIn_cons, binVal_eq_nil_nil, binVal_eq_str_nil, binVal_int, binInt,
          builtin, lk_none, hl, h0, he]
            rfl
          · simp [keepP, keptEvents, gomini, he, encMs, keyVal, hrm, hl, h0]
          · intro y hy; rcases hy with rfl | rfl | rfl | rfl | rfl | rfl | rfl <;> simp [gomini]
      · by_cases hh : hw ≤ off
        · by_cases he : lastEpoch < ep
          · refine ⟨?s5, ?h5, ?_, ?_⟩
            case h5 =>
              simp [loopBody, fn_compactCleaner_cleanSegment, gomini, hms, hko, hhw, hcl, hec, hrm, encMs, keyVal, bodyExt, fullExt, lastEpochIn_append, hle, lastEpochIn_nil, lastEpochIn_cons, binVal_eq_nil_nil, binVal_eq_str_nil, binVal_int, binInt,
          builtin, lk_none, hl, h0, hh, he]
              rfl
            · simp [keepP, keptEvents, gomini, he, encMs, keyVal, hrm, hl, h0, hh]
            · intro y hy; rcases hy with rfl | rfl | rfl | rfl | rfl | rfl | rfl <;> simp [gomini]
          · refine ⟨?s6, ?h6, ?_, ?_⟩
            case h6 =>
              simp [loopBody, fn_compactCleaner_cleanSegment, gomini, hms, hko, hhw, hcl, hec, hrm, encMs, keyVal, bodyExt, fullExt, lastEpochIn_append, hle, lastEpochIn_nil, lastEpochIn_cons, binVal_eq_nil_nil, binVal_eq_str_nil, binVal_int, binInt,
          builtin, lk_none, hl, h0, hh, he]
              rfl
            · simp [keepP, keptEvents, gomini, he, encMs, keyVal, hrm, hl, h0, hh]
            · intro y hy; rcases hy with rfl | rfl | rfl | rfl | rfl | rfl | rfl <;> simp [gomini]
        · refine ⟨?s7, ?h7, ?_, ?_⟩
          case h7 =>
            simp [loopBody, fn_compactCleaner_cleanSegment, gomini, hms, hko, hhw, hcl, hec, hrm, encMs, keyVal, bodyExt, fullExt, lastEpochIn_append, hle, lastEpochIn_nil, lastEpochIn_cons, binVal_eq_nil_nil, binVal_eq_str_nil, binVal_int, binInt,
          builtin, lk_none, hl, h0, hh]
            rfl
          · simp [keepP, gomini, encMs, keyVal, hrm, hl, h0, hh]
          · intro y hy; rcases hy with rfl | rfl | rfl | rfl | rfl | rfl | rfl <;> simp [gomini]
    | some o =>
      by_cases h0 : off = o
      · by_cases he : lastEpoch < ep
        · refine ⟨?s8, ?h8, ?_, ?_⟩
          case h8 =>
            simp [loopBody, fn_compactCleaner_cleanSegment, gomini, hms, hko, hhw, hcl, hec, hrm, encMs, keyVal, bodyExt, fullExt, lastEpochIn_append, hle, lastEpochIn_nil, lastEpochIn_cons, binVal_eq_nil_nil, binVal_eq_str_nil, binVal_int, binInt,
          builtin, lk_none, hl, h0, he]
            rfl
          · simp [keepP, keptEvents, gomini, he, encMs, keyVal, hrm, hl, h0]
          · intro y hy; rcases hy with rfl | rfl | rfl | rfl | rfl | rfl | rfl <;> simp [gomini]
        · refine ⟨?s9, ?h9, ?_, ?_⟩
          case h9 =>
            simp [loopBody, fn_compactCleaner_cleanSegment, gomini, hms, hko, hhw, hcl, hec, hrm, encMs, keyVal, bodyExt, fullExt, lastEpochIn_append, hle, lastEpochIn_nil, lastEpochIn_cons, binVal_eq_nil_nil, binVal_eq_str_nil, binVal_int, binInt,
          builtin, lk_none, hl, h0, he]
            rfl
          · simp [keepP, keptEvents, gomini, he, encMs, keyVal, hrm, hl, h0]
          · intro y hy; rcases hy with rfl | rfl | rfl | rfl | rfl | rfl | rfl <;> simp [gomini]
      · by_cases hh : hw ≤ off
        · by_cases he : lastEpoch < ep
          · refine ⟨?s10, ?h10, ?_, ?_⟩
            case h10 =>
              simp [loopBody, fn_compactCleaner_cleanSegment, gomini, hms, hko, hhw, hcl, hec, hrm, encMs, keyVal, bodyExt, fullExt, lastEpochIn_append, hle, lastEpochIn_nil, lastEpochIn_cons, binVal_eq_nil_nil, binVal_eq_str_nil, binVal_int, binInt,
          builtin, lk_none, hl, h0, hh, he]
              rfl
            · simp [keepP, keptEvents, gomini, he, encMs, keyVal, hrm, hl, h0, hh]
            · intro y hy; rcases hy with rfl | rfl | rfl | rfl | rfl | rfl | rfl <;> simp [gomini]
          · refine ⟨?s11, ?h11, ?_, ?_⟩
            case h11 =>
              simp [loopBody, fn_compactCleaner_cleanSegment, gomini, hms, hko, hhw, hcl, hec, hrm, encMs, keyVal, bodyExt, fullExt, lastEpochIn_append, hle, lastEpochIn_nil, lastEpochIn_cons, binVal_eq_nil_nil, binVal_eq_str_nil, binVal_int, binInt,
          builtin, lk_none, hl, h0, hh, he]
              rfl
            · simp [keepP, keptEvents, gomini, he, encMs, keyVal, hrm, hl, h0, hh]
            · intro y hy; rcases hy with rfl | rfl | rfl | rfl | rfl | rfl | rfl <;> simp [gomini]
        · refine ⟨?s12, ?h12, ?_, ?_⟩
          case h12 =>
            simp [loopBody, fn_compactCleaner_cleanSegment, gomini, hms, hko, hhw, hcl, hec, hrm, encMs, keyVal, bodyExt, fullExt, lastEpochIn_append, hle, lastEpochIn_nil, lastEpochIn_cons, binVal_eq_nil_nil, binVal_eq_str_nil, binVal_int, binInt,
          builtin, lk_none, hl, h0, hh]
            rfl
          · simp [keepP, gomini, encMs, keyVal, hrm, hl, h0, hh]
          · intro y hy; rcases hy with rfl | rfl | rfl | rfl | rfl | rfl | rfl <;> simp [gomini]

/-! ### the whole scan loop -/

def initB : List Stmt := match fn_compactCleaner_cleanSegment.body with
  | _ :: _ :: _ :: _ :: _ :: (.forC i _ _ _) :: _ => i
  | _ => []
def postB : List Stmt := match fn_compactCleaner_cleanSegment.body with
  | _ :: _ :: _ :: _ :: _ :: (.forC _ _ p _) :: _ => p
  | _ => []
def condE : Expr := match fn_compactCleaner_cleanSegment.body with
  | _ :: _ :: _ :: _ :: _ :: (.forC _ (some c) _ _) :: _ => c
  | _ => .nil

/-- messages the loop drops -/
def dropped (latest : String → Option Int) (hw : Int) : List CRec → Int
  | [] => 0
  | r :: rest => (if keepP latest hw r then 0 else 1) + dropped latest hw rest

/-- the cache's last epoch after a message went through the body -/
def nextEpoch (latest : String → Option Int) (hw : Int) (r : CRec) (le : Int) : Int :=
  if keepP latest hw r ∧ le < r.epoch then r.epoch else le

/-- the external calls of the loop from its head on: per message the body's calls, then the scanner is asked again -/
def loopEvents (latest : String → Option Int) (hw : Int) : List CRec → Int → List (String × List Val)
  | [], _ => []
  | r :: rest, le =>
    (if keepP latest hw r then keptEvents r le else [("Load", [keyVal r.key])]) ++ [("Scan", [])] ++
      loopEvents latest hw rest (nextEpoch latest hw r le)

theorem scans_append (a b : List (String × List Val)) : scans (a ++ b) = scans a + scans b := by
  simp [scans, List.countP_append]

theorem scans_kept (r : CRec) (le : Int) : scans (keptEvents r le) = 0 := by
  unfold keptEvents scans
  split <;> simp [List.countP_cons]

theorem lastEpoch_kept (r : CRec) (le : Int) :
    lastEpochIn le (keptEvents r le ++ [("Scan", [])]) = (if le < r.epoch then r.epoch else le) := by
  unfold keptEvents
  split <;> simp [lastEpochIn_cons, lastEpochIn_nil, *]

/-- what the state at the head of the loop looks like when `suf` is still to be scanned -/
structure Head (st : St) (suf : List CRec) (n hw : Int) : Prop where
  err : st.env "err·1" = some (match suf with | [] => Val.str "EOF" | _ :: _ => Val.nil)
  ms : st.env "ms" = some (match suf with | r :: _ => encMs r | [] => Val.nil)
  ko : st.env "keyOffsets" = some (.struct [("kind", .str "keys")])
  hw' : st.env "hw" = some (.int hw)
  cl : st.env "cleaned" = some (.struct [("kind", .str "cleaned")])
  ec : st.env "epochCache" = some (.struct [("kind", .str "epochs")])
  ss : st.env "ss" = some (.struct [("kind", .str "scanner")])
  rm : st.env "removed" = some (.int n)

set_option maxRecDepth 8000 in
set_option maxHeartbeats 4000000 in
theorem scan_loop (m : Nat) (hm : 12 ≤ m) (recs : List CRec) (latest : String → Option Int) (e0 hw : Int) :
    ∀ (suf pre : List CRec) (iters : Nat) (st : St) (n : Int), recs = pre ++ suf → suf.length + 1 ≤ iters →
      scans st.eff = pre.length + 1 → Head st suf n hw →
      ∃ st', runFor (forCond prog (fullExt recs latest e0) m condE) (runBlock (exec prog (fullExt recs latest e0) m) loopBody)
            (runBlock (exec prog (fullExt recs latest e0) m) postB) iters st = .ok (.next, st') ∧
        st'.eff = st.eff ++ loopEvents latest hw suf (lastEpochIn e0 st.eff) ∧
        st'.env "removed" = some (.int (n + dropped latest hw suf)) ∧
        (∀ y, (y = "cleaned" ∨ y = "seg" ∨ y = "c") → st'.env y = st.env y) := by
  obtain ⟨m', rfl⟩ : ∃ m', m = m' + 12 := ⟨m - 12, by omega⟩
  intro suf
  induction suf with
  | nil =>
    intro pre iters st n _ hit _ hd
    obtain ⟨k, rfl⟩ : ∃ k, iters = k + 1 := ⟨iters - 1, by omega⟩
    refine ⟨st, ?_, by simp [loopEvents], by simp [dropped, hd.rm], fun _ _ => rfl⟩
    have herr := hd.err
    simp only at herr
    simp [runFor_succ, forCond, condE, fn_compactCleaner_cleanSegment, gomini, herr, binVal_eq_str_nil, bind, R.bind, pure]
  | cons r rest ih =>
    intro pre iters st n hrecs hit hsc hd
    obtain ⟨k, rfl⟩ : ∃ k, iters = k + 1 := ⟨iters - 1, by omega⟩
    have herr := hd.err
    have hms := hd.ms
    simp only at herr hms
    -- the body
    obtain ⟨st2, hb, hprop, hframe⟩ := body_pass (m' + 12) (by omega) recs latest e0 (lastEpochIn e0 st.eff) hw r n st rfl hms hd.ko hd.hw' hd.cl hd.ec hd.rm
    -- the scanner's answer after the body
    have hsc2 : scans st2.eff = pre.length + 1 := by
      by_cases hk : keepP latest hw r
      · simp [hk] at hprop; rw [hprop.1, scans_append, scans_kept, hsc]
      · simp [hk] at hprop; rw [hprop.1, scans_append, hsc]; simp [scans, List.countP_cons]
    have hget : recs[pre.length + 1]? = rest.head? := by
      subst hrecs
      rw [List.getElem?_append_right (by omega)]
      cases rest <;> simp
    have hss2 : st2.env "ss" = some (.struct [("kind", .str "scanner")]) := by rw [hframe "ss" (by simp), hd.ss]
    -- `removed` after the body
    obtain ⟨n2, hn2, hrm2⟩ : ∃ n2 : Int, n2 = n + (if keepP latest hw r then 0 else 1) ∧ st2.env "removed" = some (.int n2) := by
      by_cases hk : keepP latest hw r
      · simp [hk] at hprop; exact ⟨n, by simp [hk], hprop.2⟩
      · simp [hk] at hprop; exact ⟨n + 1, by simp [hk], hprop.2⟩
    -- the post statement: the scanner is asked again
    have hpost : ∃ st3, runBlock (exec prog (fullExt recs latest e0) (m' + 12)) postB st2 = .ok (.next, st3) ∧
        st3.eff = st2.eff ++ [("Scan", [])] ∧ Head st3 rest n2 hw ∧
        (∀ y, (y = "cleaned" ∨ y = "seg" ∨ y = "c") → st3.env y = st2.env y) := by
      cases hrest : rest with
      | nil =>
        have hget' : recs[pre.length + 1]? = none := by rw [hget, hrest]; rfl
        refine ⟨?p1, ?q1, ?_, ?_, ?_⟩
        case q1 =>
          simp [postB, fn_compactCleaner_cleanSegment, gomini, hss2, fullExt, hsc2, hget', lk_none]
          rfl
        · simp [gomini]
        · constructor <;> simp [gomini, hframe, hd.ko, hd.hw', hd.cl, hd.ec, hd.ss, hrm2]
        · intro y hy; rcases hy with rfl | rfl | rfl <;> simp [gomini]
      | cons r2 rest2 =>
        have hget' : recs[pre.length + 1]? = some r2 := by rw [hget, hrest]; rfl
        refine ⟨?p2, ?q2, ?_, ?_, ?_⟩
        case q2 =>
          simp [postB, fn_compactCleaner_cleanSegment, gomini, hss2, fullExt, hsc2, hget', lk_none]
          rfl
        · simp [gomini]
        · constructor <;> simp [gomini, hframe, hd.ko, hd.hw', hd.cl, hd.ec, hd.ss, hrm2]
        · intro y hy; rcases hy with rfl | rfl | rfl <;> simp [gomini]
    obtain ⟨st3, hp, heff3, hd3, hframe3⟩ := hpost
    have hsc3 : scans st3.eff = (pre ++ [r]).length + 1 := by
      rw [heff3, scans_append, hsc2]; simp [scans, List.countP_cons]
    obtain ⟨st', hrun, heff', hrm', hframe'⟩ := ih (pre ++ [r]) k st3 n2 (by simp [hrecs]) (by simp at hit ⊢; omega) hsc3 hd3
    refine ⟨st', ?_, ?_, ?_, ?_⟩
    · have hcond : forCond prog (fullExt recs latest e0) (m' + 12) condE st = .ok (true, st) := by
        simp [forCond, condE, fn_compactCleaner_cleanSegment, gomini, herr, binVal_eq_nil_nil, bind, R.bind, pure]
      rw [runFor_succ]
      simp only [hcond, hb, hp]
      exact hrun
    · by_cases hk : keepP latest hw r
      · simp [hk] at hprop
        have hle : lastEpochIn e0 st3.eff = nextEpoch latest hw r (lastEpochIn e0 st.eff) := by
          rw [heff3, hprop.1, List.append_assoc, lastEpochIn_append, lastEpoch_kept]
          simp [nextEpoch, hk]
        rw [heff', hle, heff3, hprop.1]
        simp [loopEvents, hk, List.append_assoc]
      · simp [hk] at hprop
        have hle : lastEpochIn e0 st3.eff = nextEpoch latest hw r (lastEpochIn e0 st.eff) := by
          rw [heff3, hprop.1, List.append_assoc, lastEpochIn_append]
          simp [nextEpoch, hk, lastEpochIn_cons, lastEpochIn_nil]
        rw [heff', hle, heff3, hprop.1]
        simp [loopEvents, hk, List.append_assoc]
    · rw [hrm', hn2]
      simp only [dropped]
      congr 2
      omega
    · intro y hy
      rw [hframe' y hy, hframe3 y hy]
      exact hframe y (by rcases hy with rfl | rfl | rfl <;> simp)

/-! ### the whole function -/

def preB : List Stmt := fn_compactCleaner_cleanSegment.body.take 5
def tailB : List Stmt := fn_compactCleaner_cleanSegment.body.drop 6

theorem hbody : fn_compactCleaner_cleanSegment.body = preB ++ (.forC initB (some condE) postB loopBody :: tailB) := rfl

theorem runBlock_append_ok {ex : Stmt → St → R (Flow × St)} : ∀ (A B : List Stmt) (st st1 : St),
    runBlock ex A st = .ok (.next, st1) → runBlock ex (A ++ B) st = runBlock ex B st1 := by
  intro A
  induction A with
  | nil => intro B st st1 h; simp [runBlock] at h; subst h; rfl
  | cons a A ih =>
    intro B st st1 h
    simp only [List.cons_append, runBlock_cons] at h ⊢
    cases hx : ex a st with
    | ok r =>
      obtain ⟨fl, s2⟩ := r
      cases fl <;> simp [hx] at h ⊢
      exact ih B s2 st1 h
    | panic => simp [hx] at h
    | stuck w => simp [hx] at h

/-- no message of the segment survives -/
def noneKept (latest : String → Option Int) (hw : Int) (recs : List CRec) : Bool := recs.all fun r => !keepP latest hw r

theorem no_write_iff (latest : String → Option Int) (hw : Int) : ∀ (recs : List CRec) (le : Int),
    (loopEvents latest hw recs le).all (fun e => e.1 != "WriteMessageSet") = noneKept latest hw recs := by
  intro recs
  induction recs with
  | nil => intro le; rfl
  | cons r rest ih =>
    intro le
    by_cases hk : keepP latest hw r
    · simp [loopEvents, noneKept, hk, keptEvents]
    · simp only [loopEvents, hk, Bool.false_eq_true, ↓reduceIte, List.all_append, ih, noneKept, List.all_cons]
      simp

def segV : Val := .struct [("kind", .str "segment")]
def cleanerV : Val := .struct [("kind", .str "cleaner")]
def cleanedV : Val := .struct [("kind", .str "cleaned")]

/-- (segment returned?, removed count, error nil?, the complete trace of external calls) -/
def view : R Out → Option (Bool × Val × Bool × List (String × List Val))
  | .ok o => (match o.rets with
      | [seg, removed, e] => some (!isNil seg, removed, isNil e, o.eff)
      | _ => none)
  | _ => none

theorem lk_clean : evalE.lookup' "cleanSegment" prog = some fn_compactCleaner_cleanSegment := by simp [prog, evalE.lookup']
theorem clean_params : fn_compactCleaner_cleanSegment.params = ["seg", "keyOffsets", "hw", "epochCache"] := rfl
theorem clean_recv : fn_compactCleaner_cleanSegment.recv = some "c" := rfl

def keysV : Val := .struct [("kind", .str "keys")]
def epochsV : Val := .struct [("kind", .str "epochs")]

set_option maxRecDepth 8000 in
set_option maxHeartbeats 4000000 in
/-- `cleanSegment` for EVERY segment content, key table, high watermark and state of the epoch cache being rebuilt: the new
segment receives exactly the messages `keepP` keeps, in order (`loopEvents`: one `WriteMessageSet` per kept message, an
`Assign(epoch, offset)` exactly when the message's epoch is newer than the cache's last one); `removed` is the number of the
others; a segment of which nothing survives is removed together with the empty new one, otherwise it is replaced -/
theorem go_cleanSegment (F : Nat) (recs : List CRec) (hF : recs.length + 16 ≤ F) (latest : String → Option Int) (e0 hw : Int) :
    view (runG prog (fullExt recs latest e0) F "cleanSegment" (some cleanerV) [segV, keysV, .int hw, epochsV] []) =
      some (!noneKept latest hw recs, .int (dropped latest hw recs), true,
        [("Cleaned", []), ("newSegmentScanner", [segV]), ("Scan", [])] ++ loopEvents latest hw recs e0 ++ [("IsEmpty", [])] ++
          (if noneKept latest hw recs then [("cleanupEmptySegment", [cleanedV, segV])] else [("Replace", [segV])])) := by
  obtain ⟨n, rfl⟩ : ∃ n, F = n + 1 := ⟨F - 1, by omega⟩
  -- the statements before the loop
  have hpre : ∃ st1, runBlock (exec prog (fullExt recs latest e0) (n + 1)) preB
      { env := envOf [("c", cleanerV), ("seg", segV), ("keyOffsets", keysV), ("hw", .int hw), ("epochCache", epochsV)], eff := [] } = .ok (.next, st1) ∧
      st1.eff = [("Cleaned", []), ("newSegmentScanner", [segV])] ∧
      st1.env "cleaned" = some cleanedV ∧ st1.env "ss" = some (.struct [("kind", .str "scanner")]) ∧ st1.env "removed" = some (.int 0) ∧
      st1.env "keyOffsets" = some keysV ∧ st1.env "hw" = some (.int hw) ∧ st1.env "epochCache" = some epochsV ∧
      st1.env "seg" = some segV ∧ st1.env "c" = some cleanerV := by
    obtain ⟨k, rfl⟩ : ∃ k, n = k + 8 := ⟨n - 8, by omega⟩
    refine ⟨?s1, ?h1, ?_, ?_, ?_, ?_, ?_, ?_, ?_, ?_, ?_⟩
    case h1 =>
      simp [preB, fn_compactCleaner_cleanSegment, gomini, fullExt, segV, cleanerV, keysV, epochsV, binVal_ne_nil_nil, lk_none, builtin]
      rfl
    all_goals simp [gomini, cleanedV, segV, cleanerV, keysV, epochsV]
  obtain ⟨st1, hp, e1, c1, c2, c3, c4, c5, c6, c7, c8⟩ := hpre
  have hs1 : scans st1.eff = 0 := by rw [e1]; simp [scans, List.countP_cons]
  -- the loop's init statement: the first `Scan`
  have hinit : ∃ st1', runBlock (exec prog (fullExt recs latest e0) n) initB st1 = .ok (.next, st1') ∧
      st1'.eff = st1.eff ++ [("Scan", [])] ∧ Head st1' recs 0 hw ∧
      (∀ y, (y = "cleaned" ∨ y = "seg" ∨ y = "c") → st1'.env y = st1.env y) := by
    obtain ⟨k, rfl⟩ : ∃ k, n = k + 8 := ⟨n - 8, by omega⟩
    cases hrecs : recs with
    | nil =>
      refine ⟨?i1, ?j1, ?_, ?_, ?_⟩
      case j1 =>
        simp [initB, fn_compactCleaner_cleanSegment, gomini, c2, fullExt, hs1, lk_none]
        rfl
      · simp [gomini]
      · constructor <;> simp [gomini, c1, c2, c3, c4, c5, c6, cleanedV, keysV, epochsV]
      · intro y hy; rcases hy with rfl | rfl | rfl <;> simp [gomini]
    | cons r0 rest0 =>
      refine ⟨?i2, ?j2, ?_, ?_, ?_⟩
      case j2 =>
        simp [initB, fn_compactCleaner_cleanSegment, gomini, c2, fullExt, hs1, lk_none]
        rfl
      · simp [gomini]
      · constructor <;> simp [gomini, c1, c2, c3, c4, c5, c6, cleanedV, keysV, epochsV]
      · intro y hy; rcases hy with rfl | rfl | rfl <;> simp [gomini]
  obtain ⟨st1', hi, ei, hd, fi⟩ := hinit
  obtain ⟨st2, hl, e2, r2, f2⟩ := scan_loop n (by omega) recs latest e0 hw recs [] n st1' 0 rfl (by omega)
    (by rw [ei, scans_append, hs1]; simp [scans, List.countP_cons]) hd
  have hfor : exec prog (fullExt recs latest e0) (n + 1) (.forC initB (some condE) postB loopBody) st1 = .ok (.next, st2) := by
    rw [exec_forC_some]
    simp only [hi, bind, R.bind, hl]
  -- the state after the loop
  have hcl2 : st2.env "cleaned" = some cleanedV := by rw [f2 _ (by simp), fi _ (by simp), c1]
  have hsg2 : st2.env "seg" = some segV := by rw [f2 _ (by simp), fi _ (by simp), c7]
  have hle : lastEpochIn e0 st1'.eff = e0 := by rw [ei, e1]; simp [lastEpochIn_cons, lastEpochIn_nil]
  have heff2 : st2.eff = [("Cleaned", []), ("newSegmentScanner", [segV]), ("Scan", [])] ++ loopEvents latest hw recs e0 := by
    rw [e2, hle, ei, e1]; rfl
  have hempty : (st2.eff.all fun e => e.1 != "WriteMessageSet") = noneKept latest hw recs := by
    rw [heff2, List.all_append, no_write_iff]; simp
  have hrm2 : st2.env "removed" = some (.int (dropped latest hw recs)) := by rw [r2]; simp
  have htail : ∃ st3, runBlock (exec prog (fullExt recs latest e0) (n + 1)) tailB st2 =
      .ok (.ret [if noneKept latest hw recs then .nil else cleanedV, .int (dropped latest hw recs), .nil], st3) ∧
      st3.eff = st2.eff ++ [("IsEmpty", [])] ++
        (if noneKept latest hw recs then [("cleanupEmptySegment", [cleanedV, segV])] else [("Replace", [segV])]) := by
    obtain ⟨k, rfl⟩ : ∃ k, n = k + 8 := ⟨n - 8, by omega⟩
    cases hnk : noneKept latest hw recs
    · refine ⟨?t1, ?u1, ?_⟩
      case u1 =>
        simp [tailB, fn_compactCleaner_cleanSegment, gomini, hcl2, hsg2, hrm2, fullExt, hempty, hnk, cleanedV, segV, lk_none, binVal_ne_nil_nil, builtin]
        rfl
      · simp [gomini, segV, cleanedV]
    · refine ⟨?t2, ?u2, ?_⟩
      case u2 =>
        simp [tailB, fn_compactCleaner_cleanSegment, gomini, hcl2, hsg2, hrm2, fullExt, hempty, hnk, cleanedV, segV, lk_none, binVal_ne_nil_nil, builtin]
        rfl
      · simp [gomini, segV, cleanedV]
  obtain ⟨st3, ht, e3⟩ := htail
  have hrun : runBlock (exec prog (fullExt recs latest e0) (n + 1)) fn_compactCleaner_cleanSegment.body
      { env := envOf [("c", cleanerV), ("seg", segV), ("keyOffsets", keysV), ("hw", .int hw), ("epochCache", epochsV)], eff := [] } =
      .ok (.ret [if noneKept latest hw recs then .nil else cleanedV, .int (dropped latest hw recs), .nil], st3) := by
    rw [hbody, runBlock_append_ok _ _ _ _ hp, runBlock_cons_ok _ hfor, ht]
  simp only [runG, lk_clean, clean_params, clean_recv, bindParams, Option.map, List.append_nil, hrun, view, e3, heff2]
  cases noneKept latest hw recs <;> simp [isNil, cleanedV]

/-- the model's retain test is the same formula (its comparison operators are regenerated from the code) -/
theorem model_retain_formula (hw : Int) (segs : List Log.Seg) (r : Log.Rec) :
    Compact.retain hw segs r = (match r.body.key with
      | none => true
      | some k => decide (r.offset = (Compact.latestFor hw segs k).getD 0) || decide (r.offset ≥ hw)) := by
  unfold Compact.retain
  cases r.body.key <;> simp [Gen.Compact.retainLatestCmp, Gen.Compact.retainHWCmp, Cmp.evalInt]

/-- non-vacuity: a three-message segment (a superseded key, a keyless message, the latest of its key) -/
example : (loopEvents (fun k => if k = "a" then some 2 else none) 10
      [⟨0, some "a", 1⟩, ⟨1, none, 1⟩, ⟨2, some "a", 2⟩] 0).filter (fun e => e.1 = "WriteMessageSet" ∨ e.1 = "Assign") =
    [("WriteMessageSet", [encMs ⟨1, none, 1⟩, .str "entries"]), ("Assign", [.int 1, .int 1]),
     ("WriteMessageSet", [encMs ⟨2, some "a", 2⟩, .str "entries"]), ("Assign", [.int 2, .int 2])] := by
  simp [loopEvents, keepP, keptEvents, nextEpoch, encMs, keyVal]

end Liftbridge.Props.GoCompact
