/-
C05 at the level of the function bodies: the two decisions `segment.setupIndex` (server/commitlog/segment.go)
takes about an index it found on disk, translated from the code.

`Gen/GoRecover.lean` is regenerated on every run from `segment.indexMatchesLog` and `segment.trimLog`. The log
file is an external object: `ReadAt` (does a message header start at that position?), the header found there
(`Offset()`, `Size()` of the bytes read) and `Truncate` are external calls whose answers are parameters and
whose occurrences are recorded.

* `go_indexMatchesLog`: true exactly when there is no last entry, or the entry ends inside the log AND a header
  can be read at its position AND that header carries the entry's offset AND its size + 28 (the header) is the
  entry's size - the model's `Recover.lastMatches` (a whole record with the same offset and size at `e.pos`).
* `go_trimLog`: with `stop` = 0 for an empty index and `Position + Size` of the last entry otherwise: a log that
  ends at or before `stop` is left alone (no call at all); a longer one is cut back with exactly one
  `Truncate(stop)` and the segment's write position becomes `stop` - the tail of the model's `Recover.setupFinM`.
  A failing `Truncate` is an error and the position stays.
(`setupIndex` itself fills two records through pointers - `ReadEntryAtFileOffset(&firstEntry, 0)` - which the
embedding cannot express: it stays outside, its structure is covered by the model + crash harness only.)
-/
import Liftbridge.Proofs.GoCodeBase
import Liftbridge.Gen.GoRecover

set_option linter.unusedSimpArgs false

namespace Liftbridge.Props.GoRecover
open Liftbridge Liftbridge.GoMini Liftbridge.GoCode
open Liftbridge.Gen.GoRecover

/-- every construct of the translated functions is inside the subset -/
theorem translation_complete : unsupported = [] := rfl

theorem wrapS64_nat (i : Nat) (h : i < 2 ^ 63) : wrapS 64 (i : Int) = i := by
  unfold wrapS
  have h1 : ((i : Int) % (2 ^ 64 : Int)) = i := by
    apply Int.emod_eq_of_lt <;> omega
  simp only [h1]
  split <;> omega

theorem binVal_eq_nil_nil : binVal "==" Val.nil Val.nil = .ok (.bool true) := by simp [binVal, isNil]
theorem binVal_ne_nil_nil : binVal "!=" Val.nil Val.nil = .ok (.bool false) := by simp [binVal, isNil]
theorem binVal_eq_struct_nil (fs : List (String × Val)) : binVal "==" (Val.struct fs) Val.nil = .ok (.bool false) := by simp [binVal, isNil]
theorem binVal_ne_struct_nil (fs : List (String × Val)) : binVal "!=" (Val.struct fs) Val.nil = .ok (.bool true) := by simp [binVal, isNil]
theorem binVal_ne_str_nil (s : String) : binVal "!=" (Val.str s) Val.nil = .ok (.bool true) := by simp [binVal, isNil]
theorem binVal_int (op : String) (a b : Int) : binVal op (Val.int a) (Val.int b) = binInt op a b := rfl

/-- the segment: its write position (= size of the log file) and its log file object -/
def encSeg (position : Nat) : Val := .struct [("position", .int position), ("log", .struct [("kind", .str "file")])]

/-- an index entry -/
def encEntry (offset : Int) (pos size : Nat) : Val := .struct [("Offset", .int offset), ("Position", .int pos), ("Size", .int size)]

/-- the log file: can 28 bytes be read at the asked position, and which offset / size does the header found there carry -/
def logExt (readable : Bool) (hOffset : Int) (hSize : Nat) (truncErr : Option String) : Ext := fun f _ _ =>
  if f = "ReadAt" then some (.tup [.int 28, if readable then .nil else .str "EOF"])
  else if f = "Offset" then some (.int hOffset)
  else if f = "Size" then some (.int hSize)
  else if f = "Truncate" then some (match truncErr with | some e => .str e | none => .nil)
  else none

def boolOf : R Out → Option Bool
  | .ok o => (match o.rets with | [.bool b] => some b | _ => none)
  | _ => none

set_option maxRecDepth 8000 in
/-- an empty index matches any log -/
theorem go_indexMatchesLog_empty (position : Nat) (ext : Ext) :
    boolOf (runG prog ext 30 "indexMatchesLog" (some (encSeg position)) [.nil] []) = some true := by
  simp [runG, fn_segment_indexMatchesLog, prog, gomini, encSeg, boolOf, binVal_eq_nil_nil]

set_option maxRecDepth 8000 in
set_option maxHeartbeats 1000000 in
/-- a last entry matches iff it ends inside the log, a header is readable at its position, and that header has the
entry's offset and (with its 28 header bytes) the entry's size -/
theorem go_indexMatchesLog (position : Nat) (offset : Int) (pos size : Nat) (hs : size < 2 ^ 31)
    (readable : Bool) (hOffset : Int) (hSize : Nat) :
    boolOf (runG prog (logExt readable hOffset hSize none) 30 "indexMatchesLog" (some (encSeg position)) [encEntry offset pos size] []) =
      some (decide (pos + size ≤ position) && readable && decide (hOffset = offset) && decide (hSize + 28 = size)) := by
  have hw := wrapS64_nat size (by omega)
  by_cases h1 : pos + size ≤ position
  · have h1' : ¬ ((position : Int) < (pos : Int) + (size : Int)) := by omega
    cases readable <;>
      simp [runG, fn_segment_indexMatchesLog, prog, gomini, encSeg, encEntry, boolOf, binVal_eq_nil_nil, binVal_ne_nil_nil, binVal_eq_struct_nil, binVal_ne_struct_nil, binVal_ne_str_nil, binVal_int, binInt, convert, builtin, logExt, hw, h1, h1']
    by_cases h2 : hOffset = offset <;> by_cases h3 : hSize + 28 = size <;> simp [h2, h3] <;> omega
  · have h1' : ((position : Int) < (pos : Int) + (size : Int)) := by omega
    simp [runG, fn_segment_indexMatchesLog, prog, gomini, encSeg, encEntry, boolOf, binVal_eq_nil_nil, binVal_ne_nil_nil, binVal_eq_struct_nil, binVal_ne_struct_nil, binVal_ne_str_nil, binVal_int, binInt, convert, builtin, logExt, hw, h1, h1']

theorem wrapS64_zero : wrapS 64 0 = 0 := by simp [wrapS]

/-! ### trimLog -/

/-- (nil error?, the calls on the log file, the segment's write position afterwards) -/
def trimView : R Out → Option (Bool × List (String × List Val) × Option Val)
  | .ok o => some (match o.rets with | [e] => isNil e | _ => false, o.eff,
      match o.recv with | some (.struct fs) => lookup "position" fs | _ => none)
  | _ => none

/-- where the log has to end: after the last indexed message (0 for an empty index) -/
def stopOf : Option (Int × Nat × Nat) → Nat
  | none => 0
  | some (_, pos, size) => pos + size

def encLast : Option (Int × Nat × Nat) → Val
  | none => .nil
  | some (o, pos, size) => encEntry o pos size

set_option maxRecDepth 8000 in
set_option maxHeartbeats 1000000 in
/-- a log that ends at or before the last indexed message is left alone; a longer one is cut back with ONE `Truncate(stop)`
and the write position follows - unless the truncation fails, which is an error and leaves the position -/
theorem go_trimLog (position : Nat) (last : Option (Int × Nat × Nat)) (hs : ∀ o p sz, last = some (o, p, sz) → sz < 2 ^ 31)
    (truncErr : Option String) :
    trimView (runG prog (logExt true 0 0 truncErr) 30 "trimLog" (some (encSeg position)) [encLast last] []) =
      some (if position ≤ stopOf last then (true, [], some (.int position))
        else match truncErr with
          | none => (true, [("Truncate", [.int (stopOf last)])], some (.int (stopOf last)))
          | some _ => (false, [("Truncate", [.int (stopOf last)])], some (.int position))) := by
  cases last with
  | none =>
    by_cases h : position ≤ 0
    · have h' : position = 0 := by omega
      subst h'
      simp [runG, fn_segment_trimLog, prog, gomini, encSeg, encLast, trimView, stopOf, binVal_eq_nil_nil, binVal_ne_nil_nil, binVal_int, binInt, convert,
        builtin, logExt, isNil, lookup, wrapS]
    · have h2 : ¬ ((position : Int) ≤ 0) := by omega
      have h3 : position ≠ 0 := by omega
      cases truncErr <;>
        simp [runG, fn_segment_trimLog, prog, gomini, encSeg, encLast, trimView, stopOf, binVal_eq_nil_nil, binVal_ne_nil_nil, binVal_ne_str_nil, binVal_int, binInt,
          convert, builtin, logExt, isNil, lookup, update, wrapS, h, h2, h3, setField]
  | some e =>
    obtain ⟨o, pos, size⟩ := e
    have hw := wrapS64_nat size (by have := hs o pos size rfl; omega)
    by_cases h : position ≤ pos + size
    · have h2 : ((position : Int) ≤ (pos : Int) + (size : Int)) := by omega
      simp [runG, fn_segment_trimLog, prog, gomini, encSeg, encLast, encEntry, trimView, stopOf, binVal_eq_nil_nil, binVal_ne_nil_nil, binVal_ne_struct_nil,
        binVal_int, binInt, convert, builtin, logExt, isNil, lookup, hw, h, h2, wrapS64_zero]
    · have h2 : ¬ ((position : Int) ≤ (pos : Int) + (size : Int)) := by omega
      cases truncErr <;>
        simp [runG, fn_segment_trimLog, prog, gomini, encSeg, encLast, encEntry, trimView, stopOf, binVal_eq_nil_nil, binVal_ne_nil_nil, binVal_ne_struct_nil,
          binVal_ne_str_nil, binVal_int, binInt, convert, builtin, logExt, isNil, lookup, update, hw, h, h2, setField, wrapS64_zero]

end Liftbridge.Props.GoRecover
