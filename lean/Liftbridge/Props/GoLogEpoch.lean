/-
C02 at the level of the function bodies: where the commit log and its leader-epoch cache meet - `commitLog.NewLeaderEpoch`,
`commitLog.LastOffsetForLeaderEpoch`, `commitLog.NewestOffset` (server/commitlog/commitlog.go) - translated from the code
(`Gen/GoLogEpoch.lean`, regenerated on every run; the cache's own functions are `Props.GoEpochCache`). The cache is a
parameter here: a method of the cache reached through the field `leaderEpochCache` is never taken for the log's method of
the same name (the translator qualifies it).

`go_NewestOffset`: next offset of the active segment minus one. `go_NewLeaderEpoch`: a new leader epoch is recorded as
starting at the log's NEWEST offset - exactly one `Assign(epoch, newest)`. `go_LastOffsetForLeaderEpoch`: what the leader
answers a follower that asks where an epoch ends: the cache's answer, and the log's newest offset when the cache answers -1
(the epoch is the latest one, or unknown) - `model_lastOffsetForLeaderEpoch`: the model's function of the same name.
-/
import Liftbridge.Proofs.GoCodeBase
import Liftbridge.Gen.GoLogEpoch

set_option linter.unusedSimpArgs false

namespace Liftbridge.Props.GoLogEpoch
open Liftbridge Liftbridge.GoMini Liftbridge.GoCode Liftbridge.Log
open Liftbridge.Gen.GoLogEpoch

theorem translation_complete : unsupported = [] := rfl

@[simp] theorem lk_nle : evalE.lookup' "NewLeaderEpoch" prog = some fn_commitLog_NewLeaderEpoch := by simp [prog, gomini]
@[simp] theorem lk_lofle : evalE.lookup' "LastOffsetForLeaderEpoch" prog = some fn_commitLog_LastOffsetForLeaderEpoch := by simp [prog, gomini]
@[simp] theorem lk_newest : evalE.lookup' "NewestOffset" prog = some fn_commitLog_NewestOffset := by simp [prog, gomini]
@[simp] theorem lk_other (f : String) (h1 : f ≠ "NewLeaderEpoch") (h2 : f ≠ "LastOffsetForLeaderEpoch") (h3 : f ≠ "NewestOffset") :
    evalE.lookup' f prog = none := by simp [prog, gomini, h1, h2, h3]

def encLogE (next : Int) : Val :=
  .struct [("activeSegment", .struct [("NextOffset", .int next)]), ("leaderEpochCache", .struct [("kind", .str "epochs")])]

/-- the cache answers `cacheAns epoch` to `LastOffsetForLeaderEpoch` and nil to `Assign` -/
def cacheExt (cacheAns : Int → Int) : Ext := fun f args _ =>
  if f = "leaderEpochCache.LastOffsetForLeaderEpoch" then
    match args with
    | [_, .int e] => some (.int (cacheAns e))
    | _ => none
  else if f = "leaderEpochCache.Assign" then some .nil
  else none

def view : R Out → Option (List Val × List (String × List Val))
  | .ok o => some (o.rets, o.eff.filter fun e => e.1 = "leaderEpochCache.Assign")
  | _ => none

theorem go_NewestOffset (next : Int) (cacheAns : Int → Int) :
    view (runG prog (cacheExt cacheAns) 30 "NewestOffset" (some (encLogE next)) [] []) = some ([.int (next - 1)], []) := by
  simp [runG, fn_commitLog_NewestOffset, gomini, view, encLogE, binInt, getField, lookup, cacheExt]

set_option maxRecDepth 8000 in
theorem go_NewLeaderEpoch (next epoch : Int) (cacheAns : Int → Int) :
    view (runG prog (cacheExt cacheAns) 30 "NewLeaderEpoch" (some (encLogE next)) [.int epoch] []) =
      some ([.nil], [("leaderEpochCache.Assign", [.int epoch, .int (next - 1)])]) := by
  simp [runG, fn_commitLog_NewLeaderEpoch, fn_commitLog_NewestOffset, gomini, view, encLogE, binInt, getField, lookup, cacheExt, bindParams, envOf]

set_option maxRecDepth 8000 in
theorem go_LastOffsetForLeaderEpoch (next epoch : Int) (cacheAns : Int → Int) :
    view (runG prog (cacheExt cacheAns) 30 "LastOffsetForLeaderEpoch" (some (encLogE next)) [.int epoch] []) =
      some ([.int (if cacheAns epoch = -1 then next - 1 else cacheAns epoch)], []) := by
  by_cases h : cacheAns epoch = -1 <;>
    simp [runG, fn_commitLog_LastOffsetForLeaderEpoch, gomini, view, encLogE, binInt, truthy, getField, lookup, cacheExt, h]

/-- the model's function is that one, with the model's cache as the answer -/
theorem model_lastOffsetForLeaderEpoch (l : CLog) (epoch : Nat) :
    l.lastOffsetForLeaderEpoch epoch = (if l.epochs.lastOffsetFor epoch = -1 then l.nextOffset - 1 else l.epochs.lastOffsetFor epoch) := rfl

/-- and the model records a new epoch at the newest offset -/
theorem model_newLeaderEpoch (l : CLog) (epoch : Nat) : (l.newLeaderEpoch epoch).epochs = l.epochs.assign epoch (l.nextOffset - 1) := rfl

end Liftbridge.Props.GoLogEpoch
