/-
The envelope check of the model IS the translated Go code.

`Gen/GoEnvelope.lean` is regenerated on every run from server/protocol/envelope.go (`checkEnvelope`,
`hasBit`). `go_checkEnvelope`: for EVERY byte string and expected type, running the translated body
gives the outcome of `Envelope.check` — the function C14's theorems are about: the same payload, a
refusal, or a panic (none on the current tree: `check_never_panics` is C14's theorem). CRC-32C,
`binary.BigEndian.Uint32` and `bytes.Equal` are external calls answered by their specifications
(`crc` stays a parameter).
-/
import Liftbridge.Proofs.GoCodeBase
import Liftbridge.Gen.GoEnvelope
import Liftbridge.Model.Envelope

set_option linter.unusedSimpArgs false

namespace Liftbridge.Props.GoEnvelope
open Liftbridge Liftbridge.GoMini Liftbridge.GoCode
open Liftbridge.Gen.GoEnvelope

/-- every construct of the translated functions is inside the subset -/
theorem translation_complete : unsupported = [] := rfl

def encByte (b : UInt8) : Val := .int b.toNat
def encBytes (b : Bytes) : Val := .list (b.map encByte)

def decByte : Val → Option UInt8
  | .int i => if 0 ≤ i ∧ i < 256 then some (UInt8.ofNat i.toNat) else none
  | _ => none
def decList : List Val → Option Bytes
  | [] => some []
  | v :: rest => match decByte v, decList rest with
    | some b, some bs => some (b :: bs)
    | _, _ => none
def decBytes : Val → Option Bytes
  | .list xs => decList xs
  | .nil => some []
  | _ => none

@[simp] theorem decByte_enc (b : UInt8) : decByte (encByte b) = some b := by
  have := b.toNat_lt
  simp [decByte, encByte]; omega
@[simp] theorem decList_enc (b : Bytes) : decList (b.map encByte) = some b := by
  induction b with
  | nil => rfl
  | cons x xs ih => simp [decList, ih]
@[simp] theorem decList_cons_enc (b : UInt8) (vs : List Val) :
    decList (encByte b :: vs) = (decList vs).map (fun bs => b :: bs) := by
  simp only [decList, decByte_enc]; cases decList vs <;> rfl
@[simp] theorem decList_nil : decList [] = some [] := rfl
@[simp] theorem decBytes_list (vs : List Val) : decBytes (.list vs) = decList vs := rfl
@[simp] theorem decBytes_enc (b : Bytes) : decBytes (encBytes b) = some b := by simp [decBytes, encBytes]

/-- external calls of `checkEnvelope`, by their specifications -/
def envExt (crc : Bytes → Nat) : Ext := fun f args _ =>
  if f = "bytes.Equal" then
    match args with
    | [a, b] => match decBytes a, decBytes b with
      | some x, some y => some (.bool (x == y))
      | _, _ => none
    | _ => none
  else if f = "Uint32" then
    match args with
    | [_, a] => (decBytes a).map fun x => .int (beNat x)
    | _ => none
  else if f = "crc32.Checksum" then
    match args with
    | [a, _] => (decBytes a).map fun x => .int (crc x)
    | _ => none
  else none

def globals : List (String × Val) :=
  [("envelopeMagicNumber", encBytes Envelope.magic), ("envelopeMagicNumberLen", .int 4),
   ("Encoding", .struct []), ("crc32cTable", .nil)]

inductive Outcome where
  | payload (p : Bytes)
  | refused
  | panic
  | other
  deriving Repr, DecidableEq

def ofModel : Res Bytes → Outcome
  | .ok p => .payload p
  | .err _ => .refused
  | .panic => .panic

def ofGo : R Out → Outcome
  | .ok o => match o.rets with
    | [v, e] => if isNil e then (match decBytes v with | some p => .payload p | none => .other)
                else (if isNil v then .refused else .other)
    | _ => .other
  | .panic => .panic
  | .stuck _ => .other

@[simp] theorem lk_a : evalE.lookup' "checkEnvelope" prog = some fn_checkEnvelope := by simp [prog, gomini]
@[simp] theorem lk_b : evalE.lookup' "hasBit" prog = some fn_hasBit := by simp [prog, gomini]
@[simp] theorem lk_c : evalE.lookup' "bytes.Equal" prog = none := by simp [prog, gomini]
@[simp] theorem lk_d : evalE.lookup' "Uint32" prog = none := by simp [prog, gomini]
@[simp] theorem lk_e : evalE.lookup' "crc32.Checksum" prog = none := by simp [prog, gomini]
@[simp] theorem sig_a : fn_checkEnvelope.recv = none ∧ fn_checkEnvelope.params = ["data", "expectedType"] := ⟨rfl, rfl⟩
@[simp] theorem sig_b : fn_hasBit.recv = none ∧ fn_hasBit.params = ["n", "pos"] := ⟨rfl, rfl⟩

theorem facts : Gen.Envelope.guardShort = .lt ∧ Gen.Envelope.guardHeaderBeyond = .gt ∧ Gen.Envelope.guardCrcHeader = .ne ∧
    Gen.Envelope.minHeaderLen = 8 ∧ Gen.Envelope.protoV0 = 0 ∧ Gen.Envelope.magic = [185, 14, 67, 180] := by decide

/-- a message shorter than the minimal header is refused -/
theorem go_checkEnvelope_short (crc : Bytes → Nat) (data : Bytes) (expected : UInt8) (h : data.length < 8) :
    ofGo (runG prog (envExt crc) 30 "checkEnvelope" none [encBytes data, encByte expected] globals) =
      ofModel (Envelope.check crc data expected) := by
  have h' : ((data.length : Int) < 8) := by omega
  simp [runG, fn_checkEnvelope, gomini, encBytes, binInt, h', builtin, ofGo, isNil, Envelope.check, facts, Cmp.evalNat,
    Envelope.minHeaderLen, h, ofModel, globals]

@[simp] theorem binVal_encByte_int (op : String) (b : UInt8) (k : Int) : binVal op (encByte b) (.int k) = binInt op b.toNat k := rfl
@[simp] theorem binVal_encByte_encByte (op : String) (a b : UInt8) : binVal op (encByte a) (encByte b) = binInt op a.toNat b.toNat := rfl
@[simp high] theorem builtin_int_encByte (b : UInt8) : builtin "int" [encByte b] = some (.ok (.int b.toNat)) := by
  have := b.toNat_lt
  simp [builtin, convert, wrapS, encByte]
  omega
@[simp high] theorem builtin_byte_encByte (b : UInt8) : builtin "byte" [encByte b] = some (.ok (encByte b)) := by
  have := b.toNat_lt
  simp [builtin, convert, wrapU, encByte]
  omega
@[simp] theorem builtin_errorsNew (t : String) : builtin "errors.New" [.str t] = some (.ok (.str ("error: " ++ t))) := by
  simp [builtin]
@[simp] theorem builtin_Errorf (t : String) (rest : List Val) : builtin "fmt.Errorf" (.str t :: rest) = some (.ok (.str ("error: " ++ t))) := by
  simp [builtin]
@[simp] theorem builtin_bytesEqual (a b : Val) : builtin "bytes.Equal" [a, b] = none := by simp [builtin]
@[simp] theorem builtin_crc (a b : Val) : builtin "crc32.Checksum" [a, b] = none := by simp [builtin]
@[simp] theorem builtin_hasBit (a b : Val) : builtin "hasBit" [a, b] = none := by simp [builtin]

theorem toNat_cast_inj (a b : UInt8) : ((a.toNat : Int) = (b.toNat : Int)) = (a = b) := by
  apply propext; constructor
  · intro h; apply UInt8.toNat_inj.mp; omega
  · intro h; subst h; rfl

theorem toNat_eq_zero_iff (b : UInt8) : ((b.toNat : Int) = 0) = (b = 0) := by
  apply propext; constructor
  · intro h; apply UInt8.toNat_inj.mp; simp; omega
  · intro h; subst h; rfl

theorem toNat_eq_zero_nat (b : UInt8) : (b.toNat = 0) = (b = 0) := by
  apply propext; constructor
  · intro h; apply UInt8.toNat_inj.mp; simp; omega
  · intro h; subst h; rfl

theorem byte_cast_lt (b : UInt8) : ((b.toNat : Int) < 256) := by have := b.toNat_lt; omega

@[simp] theorem decList_take (n : Nat) (b : Bytes) : decList (List.take n (b.map encByte)) = some (b.take n) := by
  rw [← List.map_take]; exact decList_enc _
@[simp] theorem decList_drop (n : Nat) (b : Bytes) : decList (List.drop n (b.map encByte)) = some (b.drop n) := by
  rw [← List.map_drop]; exact decList_enc _
@[simp] theorem decList_drop_take (n m : Nat) (b : Bytes) : decList (List.drop n (List.take m (b.map encByte))) = some ((b.take m).drop n) := by
  rw [← List.map_take, ← List.map_drop]; exact decList_enc _

/-- at least a whole minimal header -/
theorem go_checkEnvelope_long (crc : Bytes → Nat) (data : Bytes) (expected : UInt8) (h8 : 8 ≤ data.length) :
    ofGo (runG prog (envExt crc) 30 "checkEnvelope" none [encBytes data, encByte expected] globals) =
      ofModel (Envelope.check crc data expected) := by
  have hlen : (((data.length : Int) < 8)) = False := by apply eq_false; omega
  have hlenN : (data.length < 8) = False := by apply eq_false; omega
  have h4 : ((4 : Int) ≤ (data.length : Int)) := by omega
  have g4 : data[4]? = some data[4] := by simp
  have g5 : data[5]? = some data[5] := by simp
  have g6 : data[6]? = some data[6] := by simp
  have g7 : data[7]? = some data[7] := by simp
  by_cases hm : data.take 4 = Envelope.magic
  · have hm2 : List.take 4 data = [185, 14, 67, 180] := by simpa [Envelope.magic, facts] using hm
    have hm' : (data.take 4 == [185, 14, 67, 180]) = true := by simp [hm2]
    by_cases hv : data[4] = 0
    · have hb5 := (data[5]).toNat_lt
      by_cases hh : data.length < (data[5]).toNat
      · have hh' : ((data.length : Int) < ((data[5]).toNat : Int)) := by omega
        simp [runG, fn_checkEnvelope, gomini, encBytes, binInt, hlen, ofGo, isNil, Envelope.check, facts, Cmp.evalNat,
          Envelope.minHeaderLen, ofModel, globals, envExt, Envelope.magic, h4,  hlenN, hm', hm2, g4, g5, g6, g7, toNat_eq_zero_iff,
          toNat_eq_zero_nat, hv, index, Envelope.protoV0, hh, hh']
      · have hh' : ¬ ((data.length : Int) < ((data[5]).toNat : Int)) := by omega
        have hh2 : (((data[5]).toNat : Int) ≤ (data.length : Int)) := by omega
        have hh3 : (data[5]).toNat ≤ data.length := by omega
        by_cases ht : data[7] = expected
        · have hb6 := (data[6]).toNat_lt
          have hand : (data[6]).toNat &&& 1 = (data[6]).toNat % 2 := Nat.and_one_is_mod _
          by_cases hf : (data[6]).toNat % 2 = 1
          · by_cases hc : (data[5]).toNat = 12
            · have hc' : (((data[5]).toNat : Int) = 12) := by omega
              have h12 : 12 ≤ data.length := by omega
              have h12' : ((12 : Int) ≤ (data.length : Int)) := by omega
              have h12n : ((data.length : Int) < 12) = False := by apply eq_false; omega
              have h12m : (data.length < 12) = False := by apply eq_false; omega
              by_cases he : crc (data.drop 12) = beNat ((data.take 12).drop 8)
              · simp [runG, fn_checkEnvelope, fn_hasBit, gomini, encBytes, binInt, hlen, ofGo, isNil, Envelope.check, facts, Cmp.evalNat,
                  Envelope.minHeaderLen, ofModel, globals, envExt, Envelope.magic, h4, hlenN, hm', hm2, g4, g5, g6, g7, toNat_eq_zero_iff,
                  toNat_eq_zero_nat, hv, index, Envelope.protoV0, hh, hh', hh2, hh3, sliceFrom, slice, ht, toNat_cast_inj, hand, hf, hc, hc', h12, h12', h12n, h12m, he]
              · have he' : ¬ ((crc (List.drop 12 data) : Int) = (beNat (List.drop 8 (List.take 12 data)) : Int)) := by omega
                simp [runG, fn_checkEnvelope, fn_hasBit, gomini, encBytes, binInt, hlen, ofGo, isNil, Envelope.check, facts, Cmp.evalNat,
                  Envelope.minHeaderLen, ofModel, globals, envExt, Envelope.magic, h4, hlenN, hm', hm2, g4, g5, g6, g7, toNat_eq_zero_iff,
                  toNat_eq_zero_nat, hv, index, Envelope.protoV0, hh, hh', hh2, hh3, sliceFrom, slice, ht, toNat_cast_inj, hand, hf, hc, hc', h12, h12', h12n, h12m, he, he']
            · have hc' : ¬ (((data[5]).toNat : Int) = 12) := by omega
              simp [runG, fn_checkEnvelope, fn_hasBit, gomini, encBytes, binInt, hlen, ofGo, isNil, Envelope.check, facts, Cmp.evalNat,
                Envelope.minHeaderLen, ofModel, globals, envExt, Envelope.magic, h4, hlenN, hm', hm2, g4, g5, g6, g7, toNat_eq_zero_iff,
                toNat_eq_zero_nat, hv, index, Envelope.protoV0, hh, hh', hh2, hh3, sliceFrom, ht, toNat_cast_inj, hand, hf, hc, hc']
          · have hf0 : (data[6]).toNat % 2 = 0 := by omega
            simp [runG, fn_checkEnvelope, fn_hasBit, gomini, encBytes, binInt, hlen, ofGo, isNil, Envelope.check, facts, Cmp.evalNat,
              Envelope.minHeaderLen, ofModel, globals, envExt, Envelope.magic, h4, hlenN, hm', hm2, g4, g5, g6, g7, toNat_eq_zero_iff,
              toNat_eq_zero_nat, hv, index, Envelope.protoV0, hh, hh', hh2, hh3, sliceFrom, ht, toNat_cast_inj, hand, hf, hf0]
        · have ht' : ¬ ((data[7]).toNat = expected.toNat) := fun h => ht (UInt8.toNat_inj.mp h)
          simp [runG, fn_checkEnvelope, gomini, encBytes, binInt, hlen, ofGo, isNil, Envelope.check, facts, Cmp.evalNat,
            Envelope.minHeaderLen, ofModel, globals, envExt, Envelope.magic, h4,  hlenN, hm', hm2, g4, g5, g6, g7, toNat_eq_zero_iff,
            toNat_eq_zero_nat, hv, index, Envelope.protoV0, hh, hh', hh2, hh3, sliceFrom, ht, ht', toNat_cast_inj]
    · simp [runG, fn_checkEnvelope, gomini, encBytes, binInt, hlen, ofGo, isNil, Envelope.check, facts, Cmp.evalNat,
        Envelope.minHeaderLen, ofModel, globals, envExt, Envelope.magic, h4,  hlenN, hm', hm2, g4, toNat_eq_zero_iff,
        toNat_eq_zero_nat, hv, index, Envelope.protoV0]
  · have hm' : (data.take 4 == [185, 14, 67, 180]) = false := by
      simpa [Envelope.magic, facts] using hm
    simp [runG, fn_checkEnvelope, gomini, encBytes, binInt, hlen, ofGo, isNil, Envelope.check, facts, Cmp.evalNat,
      Envelope.minHeaderLen, ofModel, globals, envExt, Envelope.magic, h4,  hlenN, hm']
    have hm2 : ¬ List.take 4 data = [185, 14, 67, 180] := by simpa [Envelope.magic, facts] using hm
    simp [hm2]

/-- **`checkEnvelope` = the model's `Envelope.check`** for every byte string, expected type and checksum function:
the same payload, a refusal, or a panic. -/
theorem go_checkEnvelope (crc : Bytes → Nat) (data : Bytes) (expected : UInt8) :
    ofGo (runG prog (envExt crc) 30 "checkEnvelope" none [encBytes data, encByte expected] globals) =
      ofModel (Envelope.check crc data expected) := by
  by_cases h : data.length < 8
  · exact go_checkEnvelope_short crc data expected h
  · exact go_checkEnvelope_long crc data expected (by omega)

/-- `hasBit(n, pos)` for a byte and a position below 8 -/
theorem go_hasBit (n : UInt8) (pos : Nat) (hp : pos < 8) :
    run prog noExt 10 "hasBit" none [encByte n, .int pos] =
      .ok { rets := [.bool (decide (n.toNat &&& (2 ^ pos) > 0))], recv := none, eff := [] } := by
  have h1 : ((pos : Int) < 0) = False := by apply eq_false; omega
  have h2 : (0 : Int) ≤ 2 ^ pos := Int.pow_nonneg (by decide)
  have h3 : ((2 : Int) ^ pos).toNat = 2 ^ pos := by
    have : (2 : Int) ^ pos = ((2 ^ pos : Nat) : Int) := by simp
    rw [this]; exact Int.toNat_natCast _
  simp [run, runG, fn_hasBit, gomini, binInt, h1, encByte, h2, h3]

/-! ### non-vacuity: an accepted envelope, a refused type, a header length beyond the data -/
example (crc : Bytes → Nat) : ofModel (Envelope.check crc [185, 14, 67, 180, 0, 8, 0, 3, 1, 2] 3) = .payload [1, 2] := by
  simp [Envelope.check, facts, Cmp.evalNat, Envelope.minHeaderLen, Envelope.magic, Envelope.protoV0, index, sliceFrom, ofModel]
example (crc : Bytes → Nat) : ofModel (Envelope.check crc [185, 14, 67, 180, 0, 8, 0, 3, 1, 2] 4) = .refused := by
  simp [Envelope.check, facts, Cmp.evalNat, Envelope.minHeaderLen, Envelope.magic, Envelope.protoV0, index, sliceFrom, ofModel]
example (crc : Bytes → Nat) : ofModel (Envelope.check crc [185, 14, 67, 180, 0, 9, 0, 0] 0) = .refused := by
  simp [Envelope.check, facts, Cmp.evalNat, Envelope.minHeaderLen, Envelope.magic, Envelope.protoV0, index, sliceFrom, ofModel]

end Liftbridge.Props.GoEnvelope
