/-
Symbolic execution of GoMini code: one rewrite rule per constructor of the embedding (each is
the corresponding equation of the interpreter, proved by unfolding it once), collected in the
simp set `gomini`. Proofs about translated functions run `simp only [gomini, …]`; the general
`simp` set is deliberately not used (unfolding the interpreter wholesale does not terminate in
reasonable time).
-/
import Liftbridge.GoMini
import Liftbridge.GoMiniAttr

namespace Liftbridge.GoMini

attribute [gomini] R.bind_ok R.bind_panic R.bind_stuck R.pure_eq

mutual
theorem Val.beq_self : ∀ v : Val, Val.beq v v = true
  | .int a => by simp [Val.beq]
  | .bool a => by simp [Val.beq]
  | .str a => by simp [Val.beq]
  | .nil => by simp [Val.beq]
  | .list xs => by simp [Val.beq, Val.beqList_self xs]
  | .struct fs => by simp [Val.beq, Val.beqFields_self fs]
  | .tup xs => by simp [Val.beq, Val.beqList_self xs]
theorem Val.beqList_self : ∀ xs : List Val, Val.beqList xs xs = true
  | [] => by simp [Val.beqList]
  | x :: xs => by simp [Val.beqList, Val.beq_self x, Val.beqList_self xs]
theorem Val.beqFields_self : ∀ fs : List (String × Val), Val.beqFields fs fs = true
  | [] => by simp [Val.beqFields]
  | (k, x) :: xs => by simp [Val.beqFields, Val.beq_self x, Val.beqFields_self xs]
end
attribute [gomini] Val.beq_self

mutual
theorem Val.eq_of_beq : ∀ a b : Val, Val.beq a b = true → a = b
  | .int a, .int b, h => by simp [Val.beq] at h; rw [h]
  | .bool a, .bool b, h => by simp [Val.beq] at h; rw [h]
  | .str a, .str b, h => by simp [Val.beq] at h; rw [h]
  | .nil, .nil, _ => rfl
  | .list xs, .list ys, h => by simp [Val.beq] at h; rw [Val.eq_of_beqList xs ys h]
  | .struct fs, .struct gs, h => by simp [Val.beq] at h; rw [Val.eq_of_beqFields fs gs h]
  | .tup xs, .tup ys, h => by simp [Val.beq] at h; rw [Val.eq_of_beqList xs ys h]
  | .int _, .bool _, h | .int _, .str _, h | .int _, .nil, h | .int _, .list _, h | .int _, .struct _, h | .int _, .tup _, h => by simp [Val.beq] at h
  | .bool _, .int _, h | .bool _, .str _, h | .bool _, .nil, h | .bool _, .list _, h | .bool _, .struct _, h | .bool _, .tup _, h => by simp [Val.beq] at h
  | .str _, .int _, h | .str _, .bool _, h | .str _, .nil, h | .str _, .list _, h | .str _, .struct _, h | .str _, .tup _, h => by simp [Val.beq] at h
  | .nil, .int _, h | .nil, .bool _, h | .nil, .str _, h | .nil, .list _, h | .nil, .struct _, h | .nil, .tup _, h => by simp [Val.beq] at h
  | .list _, .int _, h | .list _, .bool _, h | .list _, .str _, h | .list _, .nil, h | .list _, .struct _, h | .list _, .tup _, h => by simp [Val.beq] at h
  | .struct _, .int _, h | .struct _, .bool _, h | .struct _, .str _, h | .struct _, .nil, h | .struct _, .list _, h | .struct _, .tup _, h => by simp [Val.beq] at h
  | .tup _, .int _, h | .tup _, .bool _, h | .tup _, .str _, h | .tup _, .nil, h | .tup _, .list _, h | .tup _, .struct _, h => by simp [Val.beq] at h
theorem Val.eq_of_beqList : ∀ xs ys : List Val, Val.beqList xs ys = true → xs = ys
  | [], [], _ => rfl
  | x :: xs, y :: ys, h => by
    simp [Val.beqList] at h
    rw [Val.eq_of_beq x y h.1, Val.eq_of_beqList xs ys h.2]
  | [], _ :: _, h => by simp [Val.beqList] at h
  | _ :: _, [], h => by simp [Val.beqList] at h
theorem Val.eq_of_beqFields : ∀ fs gs : List (String × Val), Val.beqFields fs gs = true → fs = gs
  | [], [], _ => rfl
  | (k, x) :: xs, (l, y) :: ys, h => by
    simp [Val.beqFields] at h
    rw [h.1.1, Val.eq_of_beq x y h.1.2, Val.eq_of_beqFields xs ys h.2]
  | [], _ :: _, h => by simp [Val.beqFields] at h
  | _ :: _, [], h => by simp [Val.beqFields] at h
end

section
variable (p : Prog) (x : Ext) (cb : List Stmt → St → R (Flow × St))

@[gomini] theorem evalE_int (n : Nat) (i : Int) (st : St) : evalE p x cb (n+1) (.int i) st = .ok (.int i, st) := by rw [evalE]
@[gomini] theorem evalE_bool (n : Nat) (b : Bool) (st : St) : evalE p x cb (n+1) (.bool b) st = .ok (.bool b, st) := by rw [evalE]
@[gomini] theorem evalE_str (n : Nat) (s : String) (st : St) : evalE p x cb (n+1) (.str s) st = .ok (.str s, st) := by rw [evalE]
@[gomini] theorem evalE_nil (n : Nat) (st : St) : evalE p x cb (n+1) .nil st = .ok (.nil, st) := by rw [evalE]
@[gomini] theorem evalE_var (n : Nat) (v : String) (st : St) :
    evalE p x cb (n+1) (.var v) st = (match st.env v with | some w => .ok (w, st) | none => .stuck ("unbound " ++ v)) := by
  rw [evalE] <;> rfl
@[gomini] theorem evalE_sel (n : Nat) (e : Expr) (f : String) (st : St) :
    evalE p x cb (n+1) (.sel e f) st = (evalE p x cb n e st >>= fun r => getField f r.1 >>= fun v => pure (v, r.2)) := by
  rw [evalE] <;> rfl
@[gomini] theorem evalE_len (n : Nat) (e : Expr) (st : St) :
    evalE p x cb (n+1) (.len e) st = (evalE p x cb n e st >>= fun r =>
      match lenOf r.1 with
      | some k => pure (.int k, r.2)
      | none => .stuck "len") := by
  rw [evalE] <;> rfl
@[gomini] theorem lenOf_list (xs : List Val) : lenOf (.list xs) = some (Int.ofNat xs.length) := rfl
@[gomini] theorem lenOf_nil : lenOf .nil = some 0 := rfl
@[gomini] theorem lenOf_struct (fs : List (String × Val)) : lenOf (.struct fs) = some (Int.ofNat fs.length) := rfl
@[gomini] theorem evalE_idx (n : Nat) (e i : Expr) (st : St) :
    evalE p x cb (n+1) (.idx e i) st = (evalE p x cb n e st >>= fun r => evalE p x cb n i r.2 >>= fun r2 =>
      match r.1, r2.1 with
      | .struct fs, .str k => .ok ((lookup k fs).getD .nil, r2.2)
      | _, _ =>
      match asList r.1, r2.1 with
      | some xs, .int k =>
        if k < 0 then .panic else match xs[k.toNat]? with
          | some y => .ok (y, r2.2)
          | none => .panic
      | _, _ => .stuck "index") := by
  rw [evalE] <;> rfl
@[gomini] theorem evalE_bin (n : Nat) (op : String) (a b : Expr) (st : St) :
    evalE p x cb (n+1) (.bin op a b) st = (evalE p x cb n a st >>= fun r1 => evalE p x cb n b r1.2 >>= fun r2 =>
      binVal op r1.1 r2.1 >>= fun r => pure (r, r2.2)) := by
  rw [evalE] <;> rfl
@[gomini] theorem evalE_and (n : Nat) (a b : Expr) (st : St) :
    evalE p x cb (n+1) (.and a b) st = (evalE p x cb n a st >>= fun r1 =>
      match r1.1 with
      | .bool false => pure (.bool false, r1.2)
      | .bool true => evalE p x cb n b r1.2 >>= fun r2 =>
        match r2.1 with
        | .bool c => pure (.bool c, r2.2)
        | _ => .stuck "&& on non-bool"
      | _ => .stuck "&& on non-bool") := by
  rw [evalE] <;> rfl
@[gomini] theorem evalE_or (n : Nat) (a b : Expr) (st : St) :
    evalE p x cb (n+1) (.or a b) st = (evalE p x cb n a st >>= fun r1 =>
      match r1.1 with
      | .bool true => pure (.bool true, r1.2)
      | .bool false => evalE p x cb n b r1.2 >>= fun r2 =>
        match r2.1 with
        | .bool c => pure (.bool c, r2.2)
        | _ => .stuck "|| on non-bool"
      | _ => .stuck "|| on non-bool") := by
  rw [evalE] <;> rfl
@[gomini] theorem evalE_un (n : Nat) (op : String) (e : Expr) (st : St) :
    evalE p x cb (n+1) (.un op e) st = (evalE p x cb n e st >>= fun r =>
      match op, r.1 with
      | "!", .bool b => pure (.bool (!b), r.2)
      | "-", .int i => pure (.int (-i), r.2)
      | "&", w => pure (w, r.2)
      | "*", w => pure (w, r.2)
      | _, _ => .stuck ("unary " ++ op)) := by
  rw [evalE] <;> rfl
@[gomini] theorem evalE_slice_from (n : Nat) (e lo : Expr) (st : St) :
    evalE p x cb (n+1) (.slice e (some lo) none) st = (evalE p x cb n e st >>= fun r =>
      match asList r.1 with
      | none => .stuck "slice of non-list"
      | some xs => evalE p x cb n lo r.2 >>= fun r2 =>
        match r2.1 with
        | .int l => if 0 ≤ l ∧ l ≤ (xs.length : Int) ∧ (xs.length : Int) ≤ xs.length then pure (.list ((xs.take (xs.length : Int).toNat).drop l.toNat), r2.2) else .panic
        | _ => .stuck "slice bound") := by
  rw [evalE]
  simp only [R.bind, bind, pure]
  cases evalE p x cb n e st with
  | panic => rfl
  | stuck w => rfl
  | ok r =>
    obtain ⟨v, st1⟩ := r
    simp only
    cases asList v with
    | none => rfl
    | some xs =>
      simp only
      cases evalE p x cb n lo st1 with
      | panic => rfl
      | stuck w => rfl
      | ok r2 =>
        obtain ⟨lv, s2⟩ := r2
        cases lv <;> rfl
@[gomini] theorem evalE_slice_to (n : Nat) (e hi : Expr) (st : St) :
    evalE p x cb (n+1) (.slice e none (some hi)) st = (evalE p x cb n e st >>= fun r =>
      match asList r.1 with
      | none => .stuck "slice of non-list"
      | some xs => evalE p x cb n hi r.2 >>= fun r2 =>
        match r2.1 with
        | .int h => if (0 : Int) ≤ 0 ∧ 0 ≤ h ∧ h ≤ (xs.length : Int) then pure (.list ((xs.take h.toNat).drop (0 : Int).toNat), r2.2) else .panic
        | _ => .stuck "slice bound") := by
  rw [evalE]
  simp only [R.bind, bind, pure]
  cases evalE p x cb n e st with
  | panic => rfl
  | stuck w => rfl
  | ok r =>
    obtain ⟨v, st1⟩ := r
    simp only
    cases asList v with
    | none => rfl
    | some xs =>
      simp only
      cases evalE p x cb n hi st1 with
      | panic => rfl
      | stuck w => rfl
      | ok r2 =>
        obtain ⟨lv, s2⟩ := r2
        cases lv <;> rfl
@[gomini] theorem evalE_slice_both (n : Nat) (e lo hi : Expr) (st : St) :
    evalE p x cb (n+1) (.slice e (some lo) (some hi)) st = (evalE p x cb n e st >>= fun r =>
      match asList r.1 with
      | none => .stuck "slice of non-list"
      | some xs => evalE p x cb n lo r.2 >>= fun r1 =>
        match r1.1 with
        | .int l => evalE p x cb n hi r1.2 >>= fun r2 =>
          match r2.1 with
          | .int h => if 0 ≤ l ∧ l ≤ h ∧ h ≤ (xs.length : Int) then pure (.list ((xs.take h.toNat).drop l.toNat), r2.2) else .panic
          | _ => .stuck "slice bound"
        | _ => .stuck "slice bound") := by
  rw [evalE]
  simp only [R.bind, bind, pure]
  cases evalE p x cb n e st with
  | panic => rfl
  | stuck w => rfl
  | ok r =>
    obtain ⟨v, st1⟩ := r
    simp only
    cases asList v with
    | none => rfl
    | some xs =>
      simp only
      cases evalE p x cb n lo st1 with
      | panic => rfl
      | stuck w => rfl
      | ok r1 =>
        obtain ⟨lv, s1⟩ := r1
        cases lv <;> rfl
@[gomini] theorem evalE_lit (n : Nat) (fs : List (String × Expr)) (st : St) :
    evalE p x cb (n+1) (.lit fs) st = (evalFields (evalE p x cb n) fs st >>= fun r => pure (.struct r.1, r.2)) := by
  rw [evalE] <;> rfl
@[gomini] theorem evalE_listLit (n : Nat) (es : List Expr) (st : St) :
    evalE p x cb (n+1) (.listLit es) st = (evalArgs (evalE p x cb n) es st >>= fun r => pure (.list r.1, r.2)) := by
  rw [evalE] <;> rfl
@[gomini] theorem evalE_call (n : Nat) (f : String) (args : List Expr) (st : St) :
    evalE p x cb (n+1) (.call f args) st = (evalArgs (evalE p x cb n) args st >>= fun r => evalE.callFn p x cb f r.1 r.2) := by
  rw [evalE] <;> rfl
@[gomini] theorem evalE_callSpread (n : Nat) (f : String) (args : List Expr) (st : St) :
    evalE p x cb (n+1) (.callSpread f args) st = (evalArgs (evalE p x cb n) args st >>= fun r =>
      match spliceLast r.1 with
      | some vs => evalE.callFn p x cb f vs r.2
      | none => .stuck "spread of non-list") := by
  rw [evalE] <;> rfl

@[gomini] theorem evalE_mcall (n : Nat) (recv : Expr) (m : String) (args : List Expr) (st : St) :
    evalE p x cb (n+1) (.mcall recv m args) st = (evalE p x cb n recv st >>= fun r0 =>
      evalArgs (evalE p x cb n) args r0.2 >>= fun r1 =>
      match evalE.lookup' m p with
      | some fn =>
        match fn.recv, bindParams fn.params r1.1 with
        | some rn, some env =>
          cb fn.body { env := envOf ((rn, r0.1) :: env), eff := r1.2.eff } >>= fun r2 =>
            pure (flowResult r2.1,
              match recv, r2.2.env rn with
              | .var y, some rv' => ({ r1.2 with eff := r2.2.eff } : St).set y rv'
              | .sel (.var y) f, some rv' =>
                if Val.beq r0.1 rv' then { r1.2 with eff := r2.2.eff } else
                (match ({ r1.2 with eff := r2.2.eff } : St).env y with
                 | some (.struct fs) => ({ r1.2 with eff := r2.2.eff } : St).set y (.struct (update f rv' fs))
                 | _ => { r1.2 with eff := r2.2.eff })
              | _, _ => { r1.2 with eff := r2.2.eff })
        | _, _ => .stuck ("arity " ++ m)
      | none =>
        match r0.1, r1.1 with
        | .struct fs, [] => match lookup m fs with
          | some v => pure (v, r1.2)
          | none => match x m [r0.1] r1.2.eff with
            | some v => pure (v, r1.2.log m [])
            | none => pure (.nil, r1.2.log m [])
        | .nil, _ => .panic
        | _, _ => match x m (r0.1 :: r1.1) r1.2.eff with
          | some v => pure (v, r1.2.log m r1.1)
          | none => pure (.nil, r1.2.log m r1.1)) := by
  rw [evalE] <;> rfl
@[gomini] theorem evalE_search (n : Nat) (ne : Expr) (i : String) (pred : Expr) (st : St) :
    evalE p x cb (n+1) (.search ne i pred) st = (evalE p x cb n ne st >>= fun r =>
      match r.1 with
      | .int k =>
        if k < 0 then .stuck "sort.Search with negative n" else
          search k.toNat (fun h => match evalE p x cb n pred (r.2.set i (.int h)) with
            | .ok (.bool b, _) => .ok b
            | .ok _ => .stuck "search predicate not bool"
            | .panic => .panic
            | .stuck w => .stuck w) >>= fun j => pure (.int j, r.2)
      | _ => .stuck "sort.Search n") := by
  rw [evalE] <;> rfl
theorem callFn_def (f : String) (vs : List Val) (st1 : St) :
    evalE.callFn p x cb f vs st1 = (match builtin f vs with
    | some r => r >>= fun v => pure (v, st1)
    | none =>
      match evalE.lookup' f p with
      | some fn =>
        match fn.recv, bindParams fn.params vs with
        | none, some env => cb fn.body { env := envOf env, eff := st1.eff } >>= fun r =>
            pure (flowResult r.1, { st1 with eff := r.2.eff })
        | _, _ => .stuck ("arity " ++ f)
      | none => match x f vs st1.eff with
        | some v => pure (v, st1.log f vs)
        | none => pure (.nil, st1.log f vs)) := by
  rw [evalE.callFn] <;> rfl
attribute [gomini] callFn_def

@[gomini] theorem evalArgs_nil (ev : Expr → St → R (Val × St)) (st : St) : evalArgs ev [] st = .ok ([], st) := rfl
@[gomini] theorem evalArgs_cons (ev : Expr → St → R (Val × St)) (e : Expr) (rest : List Expr) (st : St) :
    evalArgs ev (e :: rest) st = (ev e st >>= fun r => evalArgs ev rest r.2 >>= fun r2 => pure (r.1 :: r2.1, r2.2)) := rfl
@[gomini] theorem evalFields_nil (ev : Expr → St → R (Val × St)) (st : St) : evalFields ev [] st = .ok ([], st) := rfl
@[gomini] theorem evalFields_cons (ev : Expr → St → R (Val × St)) (f : String) (e : Expr) (rest : List (String × Expr)) (st : St) :
    evalFields ev ((f, e) :: rest) st = (ev e st >>= fun r => evalFields ev rest r.2 >>= fun r2 => pure ((f, r.1) :: r2.1, r2.2)) := rfl

@[gomini] theorem runBlock_nil (ex : Stmt → St → R (Flow × St)) (st : St) : runBlock ex [] st = .ok (.next, st) := rfl
@[gomini] theorem runBlock_cons (ex : Stmt → St → R (Flow × St)) (s : Stmt) (rest : List Stmt) (st : St) :
    runBlock ex (s :: rest) st = (match ex s st with
      | .ok (.next, st') => runBlock ex rest st'
      | other => other) := rfl

@[gomini] theorem runRange_nil (blk : St → R (Flow × St)) (k v : Option String) (i : Nat) (st : St) :
    runRange blk k v i [] st = .ok (.next, st) := rfl
@[gomini] theorem runRange_cons (blk : St → R (Flow × St)) (k v : Option String) (i : Nat) (y : Val) (ys : List Val) (st : St) :
    runRange blk k v i (y :: ys) st =
      (match blk (match v with | some vn => (match k with | some kn => st.set kn (.int i) | none => st).set vn y
                               | none => (match k with | some kn => st.set kn (.int i) | none => st)) with
      | .ok (.next, st') => runRange blk k v (i + 1) ys st'
      | .ok (.cont, st') => runRange blk k v (i + 1) ys st'
      | .ok (.brk, st') => .ok (.next, st')
      | other => other) := rfl
end

/-! ### statements -/
section
variable (p : Prog) (x : Ext)

@[gomini] theorem exec_skip (n : Nat) (w : String) (st : St) : exec p x (n+1) (.skip w) st = .ok (.next, st) := by rw [exec]
@[gomini] theorem exec_brk (n : Nat) (st : St) : exec p x (n+1) .brk st = .ok (.brk, st) := by rw [exec]
@[gomini] theorem exec_cont (n : Nat) (st : St) : exec p x (n+1) .cont st = .ok (.cont, st) := by rw [exec]
@[gomini] theorem exec_expr (n : Nat) (e : Expr) (st : St) :
    exec p x (n+1) (.expr e) st = (evalE p x (runBlock (exec p x n)) n e st >>= fun r => pure (.next, r.2)) := by
  rw [exec] <;> rfl
@[gomini] theorem exec_ret (n : Nat) (es : List Expr) (st : St) :
    exec p x (n+1) (.ret es) st = (evalArgs (evalE p x (runBlock (exec p x n)) n) es st >>= fun r => pure (.ret r.1, r.2)) := by
  rw [exec] <;> rfl
@[gomini] theorem exec_assign (n : Nat) (lhs rhs : List Expr) (st : St) :
    exec p x (n+1) (.assign lhs rhs) st = (evalArgs (evalE p x (runBlock (exec p x n)) n) rhs st >>= fun r =>
      assignAll (evalE p x (runBlock (exec p x n)) n) lhs
        (match lhs, r.1 with
          | _ :: _ :: _, [.tup ws] => ws
          | _, _ => r.1) r.2 >>= fun st2 => pure (.next, st2)) := by
  rw [exec] <;> rfl
@[gomini] theorem exec_opAssign (n : Nat) (op : String) (lhs rhs : Expr) (st : St) :
    exec p x (n+1) (.opAssign op lhs rhs) st = (evalE p x (runBlock (exec p x n)) n lhs st >>= fun r1 =>
      evalE p x (runBlock (exec p x n)) n rhs r1.2 >>= fun r2 => binVal op r1.1 r2.1 >>= fun r =>
      assignTo (evalE p x (runBlock (exec p x n)) n) lhs r r2.2 >>= fun st3 => pure (.next, st3)) := by
  rw [exec] <;> rfl
@[gomini] theorem exec_ite (n : Nat) (init : List Stmt) (c : Expr) (t e : List Stmt) (st : St) :
    exec p x (n+1) (.ite init c t e) st = (runBlock (exec p x n) init st >>= fun r0 =>
      match r0.1 with
      | .next => evalE p x (runBlock (exec p x n)) n c r0.2 >>= fun r1 => truthy r1.1 >>= fun b =>
          if b then runBlock (exec p x n) t r1.2 else runBlock (exec p x n) e r1.2
      | _ => .stuck "control flow in if-init") := by
  rw [exec] <;> rfl
@[gomini] theorem exec_forRange (n : Nat) (k v : Option String) (e : Expr) (body : List Stmt) (st : St) :
    exec p x (n+1) (.forRange k v e body) st = (evalE p x (runBlock (exec p x n)) n e st >>= fun r =>
      match r.1 with
      | .struct fs => runRangeMap (runBlock (exec p x n) body) k v fs r.2
      | _ =>
      match asList r.1 with
      | some xs => runRange (runBlock (exec p x n) body) k v 0 xs r.2
      | none => .stuck "range over non-list") := by
  rw [exec] <;> rfl
@[gomini] theorem exec_forC (n : Nat) (init : List Stmt) (c : Option Expr) (post body : List Stmt) (st : St) :
    exec p x (n+1) (.forC init c post body) st = (runBlock (exec p x n) init st >>= fun r0 =>
      match r0.1 with
      | .next =>
        runFor (fun s => match c with
            | none => .ok (true, s)
            | some ce => evalE p x (runBlock (exec p x n)) n ce s >>= fun r => truthy r.1 >>= fun b => pure (b, r.2))
          (runBlock (exec p x n) body) (runBlock (exec p x n) post) n r0.2
      | _ => .stuck "control flow in for-init") := by
  rw [exec] <;> rfl
end

/-- sequencing: a statement that completes normally hands its state to the rest of the block -/
theorem runBlock_cons_ok {ex : Stmt → St → R (Flow × St)} {s : Stmt} {st st' : St} (rest : List Stmt)
    (h : ex s st = .ok (.next, st')) : runBlock ex (s :: rest) st = runBlock ex rest st' := by
  simp [runBlock, h]

/-- the condition closure of a three-clause `for` with a condition, named so that loop lemmas can be stated
about `runFor (forCond …) …` (use `simp [-exec_forC, exec_forC_some]`) -/
def forCond (p : Prog) (x : Ext) (n : Nat) (ce : Expr) : St → R (Bool × St) :=
  fun s => evalE p x (runBlock (exec p x n)) n ce s >>= fun r => truthy r.1 >>= fun b => pure (b, r.2)

theorem exec_forC_some (p : Prog) (x : Ext) (n : Nat) (init : List Stmt) (ce : Expr) (post body : List Stmt) (st : St) :
    exec p x (n+1) (.forC init (some ce) post body) st = (runBlock (exec p x n) init st >>= fun r0 =>
      match r0.1 with
      | .next => runFor (forCond p x n ce) (runBlock (exec p x n) body) (runBlock (exec p x n) post) n r0.2
      | _ => .stuck "control flow in for-init") := by
  rw [exec_forC]; rfl

/-- not in the `gomini` set: bounded loops unroll it explicitly (`attribute [local gomini] runFor_succ`), unbounded ones are
handled by loop lemmas about `runFor (forCond …) …` -/
theorem runFor_succ (evc : St → R (Bool × St)) (blk post : St → R (Flow × St)) (k : Nat) (st : St) :
    runFor evc blk post (k+1) st = (match evc st with
    | .ok (false, st1) => .ok (.next, st1)
    | .ok (true, st1) =>
      match blk st1 with
      | .ok (.next, st2) | .ok (.cont, st2) =>
        (match post st2 with
        | .ok (_, st3) => runFor evc blk post k st3
        | other => other)
      | .ok (.brk, st2) => .ok (.next, st2)
      | other => other
    | .panic => .panic
    | .stuck w => .stuck w) := rfl

/-! ### state and environment -/
@[gomini] theorem St.set_env (st : St) (a : String) (v : Val) (y : String) :
    (st.set a v).env y = if y = a then some v else st.env y := rfl
@[gomini] theorem St.set_eff (st : St) (a : String) (v : Val) : (st.set a v).eff = st.eff := rfl
@[gomini] theorem St.log_env (st : St) (f : String) (args : List Val) : (st.log f args).env = st.env := rfl
@[gomini] theorem St.log_eff (st : St) (f : String) (args : List Val) : (st.log f args).eff = st.eff ++ [(f, args)] := rfl
@[gomini] theorem envOf_apply (bs : List (String × Val)) (y : String) : envOf bs y = lookup y bs := rfl
@[gomini] theorem lookup_nil (y : String) : lookup y [] = none := rfl
@[gomini] theorem lookup_cons (y a : String) (v : Val) (rest : List (String × Val)) :
    lookup y ((a, v) :: rest) = if y = a then some v else lookup y rest := rfl
@[gomini] theorem update_nil (y : String) (v : Val) : update y v [] = [(y, v)] := rfl
@[gomini] theorem update_cons (y a : String) (v w : Val) (rest : List (String × Val)) :
    update y v ((a, w) :: rest) = if y = a then (a, v) :: rest else (a, w) :: update y v rest := rfl
@[gomini] theorem lookup_update_same (k : String) (v : Val) : ∀ fs : List (String × Val), lookup k (update k v fs) = some v
  | [] => by simp [update, lookup]
  | (a, w) :: rest => by
    by_cases h : k = a
    · subst h; simp [update, lookup]
    · simp [update, lookup, h, lookup_update_same k v rest]
theorem lookup_update_ne (k k' : String) (v : Val) (h : k' ≠ k) : ∀ fs : List (String × Val), lookup k' (update k v fs) = lookup k' fs
  | [] => by simp [update, lookup, h]
  | (a, w) :: rest => by
    by_cases h1 : k = a
    · subst h1; simp [update, lookup, h]
    · by_cases h2 : k' = a
      · subst h2; simp [update, lookup, h1]
      · simp [update, lookup, h1, h2, lookup_update_ne k k' v h rest]
@[gomini] theorem lookup'_nil (f : String) : evalE.lookup' f [] = none := rfl
@[gomini] theorem lookup'_cons (f g : String) (fn : Func) (rest : Prog) :
    evalE.lookup' f ((g, fn) :: rest) = if f = g then some fn else evalE.lookup' f rest := rfl
@[gomini] theorem bindParams_nil : bindParams [] [] = some [] := rfl
@[gomini] theorem bindParams_cons (a : String) (ps : List String) (v : Val) (vs : List Val) :
    bindParams (a :: ps) (v :: vs) = (bindParams ps vs).map fun r => (a, v) :: r := rfl
@[gomini] theorem assignAll_nil (ev : Expr → St → R (Val × St)) (st : St) : assignAll ev [] [] st = .ok st := rfl
@[gomini] theorem assignAll_cons (ev : Expr → St → R (Val × St)) (l : Expr) (ls : List Expr) (v : Val) (vs : List Val) (st : St) :
    assignAll ev (l :: ls) (v :: vs) st = (assignTo ev l v st >>= fun st1 => assignAll ev ls vs st1) := rfl
@[gomini] theorem assignTo_var (ev : Expr → St → R (Val × St)) (a : String) (v : Val) (st : St) :
    assignTo ev (.var a) v st = if a = "_" then .ok st else .ok (st.set a v) := rfl
@[gomini] theorem assignTo_sel_var (ev : Expr → St → R (Val × St)) (a f : String) (v : Val) (st : St) :
    assignTo ev (.sel (.var a) f) v st = (match st.env a with
      | some r => setField f v r >>= fun r' => pure (st.set a r')
      | none => .stuck ("unbound " ++ a)) := rfl
@[gomini] theorem assignTo_sel_sel_var (ev : Expr → St → R (Val × St)) (a g f : String) (v : Val) (st : St) :
    assignTo ev (.sel (.sel (.var a) g) f) v st = (match st.env a with
      | some r => getField g r >>= fun inner => setField f v inner >>= fun inner' => setField g inner' r >>= fun r' => pure (st.set a r')
      | none => .stuck ("unbound " ++ a)) := rfl
@[gomini] theorem assignTo_sel4_var (ev : Expr → St → R (Val × St)) (a g3 g2 g f : String) (v : Val) (st : St) :
    assignTo ev (.sel (.sel (.sel (.sel (.var a) g3) g2) g) f) v st = (match st.env a with
      | some r => setPath [g3, g2, g, f] v r >>= fun r' => pure (st.set a r')
      | none => .stuck ("unbound " ++ a)) := rfl
@[gomini] theorem assignTo_sel3_var (ev : Expr → St → R (Val × St)) (a g2 g f : String) (v : Val) (st : St) :
    assignTo ev (.sel (.sel (.sel (.var a) g2) g) f) v st = (match st.env a with
      | some r => setPath [g2, g, f] v r >>= fun r' => pure (st.set a r')
      | none => .stuck ("unbound " ++ a)) := rfl
@[gomini] theorem assignTo_idx_var (ev : Expr → St → R (Val × St)) (a : String) (i : Expr) (v : Val) (st : St) :
    assignTo ev (.idx (.var a) i) v st = (ev i st >>= fun r =>
      match r.2.env a, r.1 with
      | some (.list xs), .int k =>
        if 0 ≤ k ∧ k.toNat < xs.length then pure (r.2.set a (.list (xs.set k.toNat v))) else .panic
      | _, _ => .stuck "index assignment") := rfl
@[gomini] theorem assignTo_idx_sel_var (ev : Expr → St → R (Val × St)) (a f : String) (i : Expr) (v : Val) (st : St) :
    assignTo ev (.idx (.sel (.var a) f) i) v st = (ev i st >>= fun r =>
      match r.2.env a with
      | some rr => getField f rr >>= fun inner =>
        match inner, r.1 with
        | .struct fs, .str k => setField f (.struct (update k v fs)) rr >>= fun r' => pure (r.2.set a r')
        | .list xs, .int k =>
          if 0 ≤ k ∧ k.toNat < xs.length then setField f (.list (xs.set k.toNat v)) rr >>= fun r' => pure (r.2.set a r')
          else .panic
        | .nil, .str _ => .panic
        | _, _ => .stuck "index assignment"
      | none => .stuck ("unbound " ++ a)) := by
  rw [assignTo]
  simp only [bind, R.bind, pure]
  cases ev i st with
  | panic => rfl
  | stuck w => rfl
  | ok r =>
    obtain ⟨iv, s1⟩ := r
    simp only
    cases s1.env a with
    | none => rfl
    | some rr =>
      simp only
      cases getField f rr with
      | panic => rfl
      | stuck w => rfl
      | ok inner =>
        cases inner <;> cases iv <;> try rfl
        all_goals (simp only; split <;> rfl)
@[gomini] theorem assignTo_idx_sel_sel_var (ev : Expr → St → R (Val × St)) (a g f : String) (i : Expr) (v : Val) (st : St) :
    assignTo ev (.idx (.sel (.sel (.var a) g) f) i) v st = (ev i st >>= fun r =>
      match r.2.env a with
      | some rr => getField g rr >>= fun mid => getField f mid >>= fun inner =>
        match inner, r.1 with
        | .struct fs, .str k => setPath [g, f] (.struct (update k v fs)) rr >>= fun r' => pure (r.2.set a r')
        | .nil, .str _ => .panic
        | _, _ => .stuck "index assignment"
      | none => .stuck ("unbound " ++ a)) := by
  rw [assignTo]
  simp only [bind, R.bind, pure]
  cases ev i st with
  | panic => rfl
  | stuck w => rfl
  | ok r =>
    obtain ⟨iv, s1⟩ := r
    simp only
    cases s1.env a with
    | none => rfl
    | some rr =>
      simp only
      cases getField g rr with
      | panic => rfl
      | stuck w => rfl
      | ok mid =>
        simp only
        cases getField f mid with
        | panic => rfl
        | stuck w => rfl
        | ok inner =>
          cases inner <;> cases iv <;> rfl
@[gomini] theorem getField_struct (f : String) (fs : List (String × Val)) :
    getField f (.struct fs) = (match lookup f fs with | some v => .ok v | none => .stuck ("no field " ++ f)) := rfl
@[gomini] theorem getField_nil (f : String) : getField f .nil = .panic := rfl
@[gomini] theorem setField_struct (f : String) (v : Val) (fs : List (String × Val)) :
    setField f v (.struct fs) = .ok (.struct (update f v fs)) := rfl
@[gomini] theorem asList_list (xs : List Val) : asList (.list xs) = some xs := rfl
@[gomini] theorem asList_nil : asList .nil = some [] := rfl
@[gomini] theorem truthy_bool (b : Bool) : truthy (.bool b) = .ok b := rfl
@[gomini] theorem flowResult_ret1 (v : Val) : flowResult (.ret [v]) = v := rfl
@[gomini] theorem flowResult_ret2 (a b : Val) (rest : List Val) : flowResult (.ret (a :: b :: rest)) = .tup (a :: b :: rest) := rfl
@[gomini] theorem flowResult_ret0 : flowResult (.ret []) = .tup [] := rfl
@[gomini] theorem flowResult_next : flowResult .next = .tup [] := rfl
@[gomini] theorem binVal_int (op : String) (a b : Int) : binVal op (.int a) (.int b) = binInt op a b := rfl

@[gomini] theorem binVal_nil_nil (op : String) : binVal op .nil .nil =
    if op = "==" then .ok (.bool true) else if op = "!=" then .ok (.bool false) else .stuck ("nil op " ++ op) := by
  simp [binVal, isNil]
@[gomini] theorem binVal_struct_nil (op : String) (fs : List (String × Val)) : binVal op (.struct fs) .nil =
    if op = "==" then .ok (.bool false) else if op = "!=" then .ok (.bool true) else .stuck ("nil op " ++ op) := by
  simp [binVal, isNil]
@[gomini] theorem binVal_list_nil (op : String) (xs : List Val) : binVal op (.list xs) .nil =
    if op = "==" then .ok (.bool false) else if op = "!=" then .ok (.bool true) else .stuck ("nil op " ++ op) := by
  simp [binVal, isNil]
@[gomini] theorem binVal_str_nil (op : String) (t : String) : binVal op (.str t) .nil =
    if op = "==" then .ok (.bool false) else if op = "!=" then .ok (.bool true) else .stuck ("nil op " ++ op) := by
  simp [binVal, isNil]
@[gomini] theorem binVal_nil_str (op : String) (t : String) : binVal op .nil (.str t) =
    if op = "==" then .ok (.bool false) else if op = "!=" then .ok (.bool true) else .stuck ("nil op " ++ op) := by
  simp [binVal, isNil]
@[gomini] theorem binVal_str_str (op : String) (a b : String) : binVal op (.str a) (.str b) =
    if op = "==" then .ok (.bool (decide (a = b))) else if op = "!=" then .ok (.bool (decide (a ≠ b)))
    else if op = "+" then .ok (.str (a ++ b)) else if op = "<" then .ok (.bool (decide (a < b)))
    else .stuck ("string op " ++ op) := rfl
@[gomini] theorem noExt_apply (f : String) (vs : List Val) (eff : List (String × List Val)) : noExt f vs eff = none := rfl

@[gomini] theorem runRangeMap_nil (blk : St → R (Flow × St)) (k v : Option String) (st : St) :
    runRangeMap blk k v [] st = .ok (.next, st) := rfl
@[gomini] theorem runRangeMap_cons (blk : St → R (Flow × St)) (k v : Option String) (key : String) (y : Val)
    (ys : List (String × Val)) (st : St) :
    runRangeMap blk k v ((key, y) :: ys) st =
      (match blk (match v with | some vn => (match k with | some kn => st.set kn (.str key) | none => st).set vn y
                               | none => (match k with | some kn => st.set kn (.str key) | none => st)) with
      | .ok (.next, st') => runRangeMap blk k v ys st'
      | .ok (.cont, st') => runRangeMap blk k v ys st'
      | .ok (.brk, st') => .ok (.next, st')
      | other => other) := rfl
@[gomini] theorem eraseKey_nil (k : String) : eraseKey k [] = [] := rfl
@[gomini] theorem eraseKey_cons (k a : String) (v : Val) (rest : List (String × Val)) :
    eraseKey k ((a, v) :: rest) = if a = k then eraseKey k rest else (a, v) :: eraseKey k rest := rfl

end Liftbridge.GoMini
