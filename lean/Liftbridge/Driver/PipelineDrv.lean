/-
Line-protocol front end of the publish-pipeline model (C04), see
harness/server/zz_verif_c04pipe_test.go.

  c04p begin <rf> <minISR> <occ 0|1> <batchMax> <isr: r,r,… | ->   → ok
  c04p recv <site> <cid> <L|A|N> <inbox 0|1> <expected> <T|S|->     → ok joins=<0|1> acks=…   |  disabled
  c04p dispatch                                                     → ok acks=…                |  disabled
  c04p commit                                                       → ok acks=… hw=<hw>
  c04p progress <r> <off> | shrink <r> | expand <r>                 → ok
  c04p state     → log=<seq:cid …> hw=<hw> isr=<r:off …> queue=<cid@off …> batch=<cid …> rejected=<cid:reason …>
  c04p facts     → the regenerated structural facts the model runs on

An ack is shown as `<cid>:<ok|toolarge|incorrect|encryption>:<offset>:<L|A|N>`. The leader is replica 0.
-/
import Liftbridge.Model.Pipeline

namespace Liftbridge.Driver
open Liftbridge Liftbridge.Pipeline
open Liftbridge.Protocol (PubMsg Ack Policy AckErr)

structure PipeSt where
  cfg : Pipeline.Cfg := {}
  st : Pipeline.St := {}

def pipePolicy : Policy → String
  | .leader => "L" | .all => "A" | .none => "N"

def pipeErr : AckErr → String
  | .ok => "ok" | .tooLarge => "toolarge" | .incorrectOffset => "incorrect" | .encryption => "encryption"

def pipeAck (a : Ack) : String := s!"{a.cid}:{pipeErr a.err}:{a.offset}:{pipePolicy a.policy}"

def pipeAcks (as : List Ack) : String := if as.isEmpty then "-" else ",".intercalate (as.map pipeAck)

def pipeList (xs : List String) : String := if xs.isEmpty then "-" else " ".intercalate xs

def pipeB (b : Bool) : String := if b then "1" else "0"

def pipeFacts : String :=
  let site (s : Site) := s!"{s.kind}:{pipeB s.sealChecked}{pipeB s.sealNack}{pipeB s.sealSkip}{pipeB s.sizeChecked}{pipeB (sizeNacks s)}{pipeB s.sizeSkip}"
  s!"sites={";".intercalate (Gen.Pipeline.sites.map site)} sound={pipeB (Gen.Pipeline.sites.all siteSound)} errSkips={pipeB Gen.Pipeline.appendErrSkips} " ++
  s!"incNack={pipeB Gen.Pipeline.incorrectOffsetNack} incFirst={pipeB Gen.Pipeline.incorrectOffsetNackFirst} occOne={pipeB Gen.Partition.occBatchOne} " ++
  s!"ackFields={pipeB ackFieldsOK} gateCurrent={pipeB Gen.Pipeline.commitGateCurrentIsr} gate={Gen.Pipeline.commitGateText.replace " " ""}"

def pipeStep (ps : PipeSt) (toks : List String) : PipeSt × String :=
  let newAcks (st' : Pipeline.St) := st'.acks.drop ps.st.acks.length
  match toks with
  | ["begin", rf, mi, occ, bm, isr] =>
    match rf.toNat?, mi.toNat?, bm.toNat?, (if isr = "-" then some [] else (isr.splitOn ",").mapM String.toNat?) with
    | some rf, some mi, some bm, some isr =>
      if occ ≠ "0" && occ ≠ "1" then (ps, "bad-op") else
      ({ cfg := { rf := rf, minISR := mi, occ := occ = "1", batchMax := bm, me := 0 }, st := Pipeline.init isr }, "ok")
    | _, _, _, _ => (ps, "bad-op")
  | ["recv", site, cid, pol, ib, ex, f] =>
    let pol? : Option Policy := match pol with | "L" => some .leader | "A" => some .all | "N" => some .none | _ => none
    match site.toNat?, cid.toNat?, pol?, ex.toInt? with
    | some site, some cid, some pol, some ex =>
      if (ib ≠ "0" && ib ≠ "1") || (f ≠ "-" && f ≠ "T" && f ≠ "S") then (ps, "bad-op") else
      let m : PubMsg := { mid := 0, cid := cid, policy := pol, ackInbox := ib = "1", expected := ex, tooLarge := f = "T", sealFails := f = "S" }
      match Pipeline.recv ps.cfg ps.st site m with
      | none => (ps, "disabled")
      | some st' => ({ ps with st := st' }, s!"ok joins={pipeB (st'.batch.length > ps.st.batch.length)} acks={pipeAcks (newAcks st')}")
    | _, _, _, _ => (ps, "bad-op")
  | ["dispatch"] =>
    match Pipeline.dispatch ps.cfg ps.st with
    | none => (ps, "disabled")
    | some st' => ({ ps with st := st' }, s!"ok acks={pipeAcks (newAcks st')}")
  | ["commit"] =>
    let st' := Pipeline.commit ps.cfg ps.st
    ({ ps with st := st' }, s!"ok acks={pipeAcks (newAcks st')} hw={st'.hw}")
  | ["progress", r, off] =>
    match r.toNat?, off.toInt? with
    | some r, some off => (match Pipeline.step ps.cfg ps.st (.progress r off) with | some st' => ({ ps with st := st' }, "ok") | none => (ps, "disabled"))
    | _, _ => (ps, "bad-op")
  | ["shrink", r] =>
    match r.toNat? with
    | some r => (match Pipeline.step ps.cfg ps.st (.shrink r) with | some st' => ({ ps with st := st' }, "ok") | none => (ps, "disabled"))
    | none => (ps, "bad-op")
  | ["expand", r] =>
    match r.toNat? with
    | some r => (match Pipeline.step ps.cfg ps.st (.expand r) with | some st' => ({ ps with st := st' }, "ok") | none => (ps, "disabled"))
    | none => (ps, "bad-op")
  | ["state"] =>
    let st := ps.st
    (ps, s!"log={pipeList (st.log.map fun s => s!"{s.seq}:{s.cid}")} hw={st.hw} isr={pipeList (st.isr.map fun p => s!"{p.1}:{p.2}")} " ++
         s!"queue={pipeList (st.queue.map fun a => s!"{a.cid}@{a.offset}")} batch={pipeList (st.batch.map fun m => toString m.cid)} " ++
         s!"rejected={pipeList (st.rejected.map fun p => s!"{p.1.cid}:{pipeErr p.2}")}")
  | ["facts"] => (ps, pipeFacts)
  | _ => (ps, "bad-op")

end Liftbridge.Driver
