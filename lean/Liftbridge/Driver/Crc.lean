/- CRC-32C (Castagnoli), bitwise, for the driver only: the models are parametric in `crc`. -/
import Liftbridge.Base
namespace Liftbridge.Driver

def crc32cByte (crc : UInt32) (b : UInt8) : UInt32 := Id.run do
  let mut c := crc ^^^ b.toUInt32
  for _ in [0:8] do
    c := if c &&& 1 = 1 then (c >>> 1) ^^^ 0x82F63B78 else c >>> 1
  return c

def crc32c (d : Bytes) : Nat :=
  ((d.foldl crc32cByte 0xFFFFFFFF) ^^^ 0xFFFFFFFF).toNat

end Liftbridge.Driver
