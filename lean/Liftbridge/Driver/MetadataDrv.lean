/- Line-protocol front end of the metadata state machine model (C06, see
harness/server/zz_verif_c06_test.go for the protocol).

  c06 begin | c06 pre <op> | c06 apply <index> <L|R> <op> | c06 snapshot | c06 restart | c06 install
  c06 finish <index> | c06 state | c06 obs | c06 cfg

Answers: `ok <state>` / `ok true|false` / `err <enum>` / `dead` (after a failed apply: the real
FSM has panicked) / `bad-op`.  Everything is printed sorted (streams by name, partitions by id,
groups and members by id, string sets lexicographically). -/
import Liftbridge.Model.Metadata

namespace Liftbridge.Driver
open Liftbridge Liftbridge.Metadata

structure MetaSt where
  cur : Option State := none
  snap : Option Snap := none
  dead : Bool := false

namespace Meta

def sortS (l : List String) : List String := l.mergeSort (fun a b => decide (a ≤ b))

def dot (l : List String) : String := if l.isEmpty then "-" else ".".intercalate (sortS l)

def b01 (b : Bool) : String := if b then "1" else "0"

def parseList (tok : String) : List String := if tok = "-" then [] else tok.splitOn "."

def parseIds (tok : String) : Option (List Nat) := (parseList tok).mapM (·.toNat?)

def parsePart (tok : String) : Option PartP :=
  match tok.splitOn "/" with
  | [id, reps, isr, l] => do
    let id ← id.toNat?
    pure { id := id, replicas := parseList reps, isr := parseList isr, leader := l }
  | [id, reps, isr, l, fl] => do
    let id ← id.toNat?
    pure { id := id, replicas := parseList reps, isr := parseList isr, leader := l,
           paused := fl.contains 'p', readonly := fl.contains 'r' }
  | _ => none

def parseMember (tok : String) : Option Member :=
  match tok.splitOn "=" with
  | [k, v] => if k.isEmpty then none else some (k, parseList v)
  | _ => none

def parseBool (tok : String) : Option Bool :=
  if tok = "1" then some true else if tok = "0" then some false else none

def parseOp : List String → Option Op
  | ["create", n, subj, ct, parts] => do
    let ct ← ct.toNat?
    let ps ← if parts = "-" then some [] else (parts.splitOn ";").mapM parsePart
    pure (.create { name := n, subject := subj, ctime := ct, parts := ps })
  | ["delete", n] => some (.delete n)
  | ["pause", n, ids, ra] => do pure (.pause n (← parseIds ids) (← parseBool ra))
  | ["resume", n, ids] => do pure (.resume n (← parseIds ids))
  | ["readonly", n, ids, ro] => do pure (.readonly n (← parseIds ids) (← parseBool ro))
  | ["shrink", n, p, r] => do pure (.shrink n (← p.toNat?) r)
  | ["expand", n, p, r] => do pure (.expand n (← p.toNat?) r)
  | ["leader", n, p, r] => do pure (.leader n (← p.toNat?) r)
  | ["group", gid, co, ep, ms] => do
    let ep ← ep.toNat?
    let ms ← if ms = "-" then some [] else (ms.splitOn ",").mapM parseMember
    pure (.group { id := gid, coordinator := co, epoch := ep, members := ms })
  | ["join", gid, cid, ss] => some (.join gid cid (parseList ss))
  | ["leave", gid, cid] => some (.leave gid cid)
  | ["coord", gid, c] => some (.coord gid c)
  | ["activity", n] => do pure (.activity (← n.toNat?))
  | ["unknown"] => some .unknown
  | _ => none

def showPart (full : Bool) (p : Part) : String :=
  s!"{p.id}:rep={dot p.replicas},isr={dot p.isr},l={p.leader},le={p.leaderEpoch},e={p.epoch},pa={b01 p.paused},ppa={b01 p.protoPaused},ro={b01 p.readonly},pro={b01 p.protoReadonly}" ++
    (if full then ",rec=" ++ b01 p.recovered else "")

def showStream (full : Bool) (st : Stream) : String :=
  let ps := st.parts.mergeSort (fun a b => decide (a.id ≤ b.id))
  s!"{st.name}({st.subject},{st.ctime}" ++ (if full then s!",T{b01 st.tombstone},R{b01 st.resumeAll}" else "") ++
    "){" ++ "|".intercalate (ps.map (showPart full)) ++ "}"

def showGroup (full : Bool) (g : Group) : String :=
  let ms := g.members.mergeSort (fun a b => decide (a.1 ≤ b.1))
  let mstr := ",".intercalate (ms.map fun m => m.1 ++ "=" ++ dot m.2)
  s!"{g.id}({g.coordinator},e={g.epoch}" ++ (if full then s!",rec={b01 g.recovered},k={dot g.subKeys}" else "") ++
    "){" ++ (if mstr.isEmpty then "-" else mstr) ++ "}"

def dump (full : Bool) (s : State) : String :=
  let ss := (s.streams.filter (fun st => full || !st.tombstone)).mergeSort (fun a b => decide (a.name ≤ b.name))
  let gs := s.groups.mergeSort (fun a b => decide (a.id ≤ b.id))
  let d := ",".intercalate (sortS s.disk)
  "S[" ++ ";".intercalate (ss.map (showStream full)) ++ "] G[" ++ ";".intercalate (gs.map (showGroup full)) ++ "]" ++
    (if full then " D[" ++ (if d.isEmpty then "-" else d) ++ "] A" ++ toString s.lastPublished else "")

end Meta

open Meta in
def metaStep (st : MetaSt) (toks : List String) : MetaSt × String :=
  let cfg := Cfg.current
  match toks with
  | ["begin"] => ({ cur := some init }, "ok " ++ dump true init)
  | ["cfg"] => (st, s!"ok clearPaused={cfg.clearPaused} restoreReadonly={cfg.restoreReadonly} notifyOnTombstone={cfg.notifyOnTombstone} emptyHeapNoEpoch={cfg.emptyHeapNoEpoch}")
  | _ =>
  match st.cur with
  | none => (st, "bad-op")
  | some cur =>
  if st.dead then (st, "dead") else
  match toks with
  | "pre" :: rest =>
    match parseOp rest with
    | some op => (st, "ok " ++ toString (pre cur op))
    | none => (st, "bad-op")
  | "apply" :: idx :: mode :: rest =>
    match idx.toNat?, parseOp rest with
    | some idx, some op =>
      if mode ≠ "L" && mode ≠ "R" then (st, "bad-op") else
      match apply cfg cur op idx (mode = "R") with
      | .ok s => ({ st with cur := some s }, "ok " ++ dump true s)
      | .err e => ({ st with dead := true }, "err " ++ e)
      | .panic => ({ st with dead := true }, "panic")
    | _, _ => (st, "bad-op")
  | ["snapshot"] => ({ st with snap := some (snapshot cur) }, "ok")
  | ["restart"] =>
    match st.snap with
    | none => let s : State := { disk := cur.disk }; ({ st with cur := some s }, "ok " ++ dump true s)
    | some sn =>
      match restoreErr sn with
      | some _ => ({ st with dead := true }, "err restore")
      | none => let s := restore cfg { disk := cur.disk } sn; ({ st with cur := some s }, "ok " ++ dump true s)
  | ["install"] =>
    match st.snap with
    | none => (st, "bad-op")
    | some sn =>
      match restoreErr sn, installErr cur sn with
      | none, none => let s := install cfg cur sn; ({ st with cur := some s }, "ok " ++ dump true s)
      | _, _ => ({ st with dead := true }, "err restore")
  | ["finish", idx] =>
    match idx.toNat? with
    | some idx => let s := finish cfg cur idx; ({ st with cur := some s }, "ok " ++ dump true s)
    | none => (st, "bad-op")
  | ["state"] => (st, "ok " ++ dump true cur)
  | ["obs"] => (st, "ok " ++ dump false cur)
  | _ => (st, "bad-op")

end Liftbridge.Driver
