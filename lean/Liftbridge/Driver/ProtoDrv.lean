/-
Line-protocol front end of the replication-protocol model (C02 / C04), see
harness/commitlog/zz_verif_c02_test.go and harness/server/zz_verif_c02srv_test.go.

  proto begin <n> <minISR> <maxSeg> <occ> [fix=isr|epoch|expand|fallback ...]
  proto step <step>        → ok <log ops> ## <glue> ## acks=… ## viol=…      or  disabled
  proto state              → the whole state
  proto enabled <bounds>   → enabled steps under the named bounds, `;`-separated
  proto search <name>      → witnesses found by Search under the named configuration

`<log ops>`: what the step does to the servers' commit logs, as lines of the commit-log line
protocol (`log …`), each with the output the commit-log MODEL gives for it:
`<sid> @@ <line> @@ <expected output>` joined by ` ;; `. The harness executes the lines on REAL
commit logs and compares. The driver checks that these ops reproduce the step's effect on the
model logs (`ops-mismatch` otherwise), so the list cannot drift from `Protocol.step`.
-/
import Liftbridge.Model.Protocol
import Liftbridge.Search.Protocol
import Liftbridge.Driver.LogDrv

namespace Liftbridge.Driver
open Liftbridge Liftbridge.Log Liftbridge.Protocol Liftbridge.Search

/-! ### text form of steps -/

def showPolicy : Policy → String
  | .leader => "L" | .all => "A" | .none => "N"

def parsePolicy : String → Option Policy
  | "L" => some .leader | "A" => some .all | "N" => some .none | _ => none

def showPub (m : PubMsg) : String :=
  s!"{m.mid}:{m.cid}:{showPolicy m.policy}:{if m.ackInbox then 1 else 0}:{m.expected}:{if m.tooLarge then "T" else if m.sealFails then "S" else "-"}"

def parsePub (s : String) : Option PubMsg :=
  match s.splitOn ":" with
  | [mid, cid, p, ib, ex, f] => do
    let mid ← mid.toNat?
    let cid ← cid.toNat?
    let p ← parsePolicy p
    let ex ← ex.toInt?
    if f ≠ "-" && f ≠ "T" && f ≠ "S" then none else
    pure { mid := mid, cid := cid, policy := p, ackInbox := ib = "1", expected := ex, tooLarge := f = "T", sealFails := f = "S" }
  | _ => none

def showOp : MetaOp → String
  | .create l => s!"create:{l}"
  | .shrink r => s!"shrink:{r}"
  | .expand r => s!"expand:{r}"
  | .changeLeader l => s!"leader:{l}"

def parseOp (s : String) : Option MetaOp :=
  match s.splitOn ":" with
  | ["create", l] => l.toNat?.map .create
  | ["shrink", l] => l.toNat?.map .shrink
  | ["expand", l] => l.toNat?.map .expand
  | ["leader", l] => l.toNat?.map .changeLeader
  | _ => none

def showIStep : IStep → String
  | .publish s b => s!"pub {s} " ++ " ".intercalate (b.map showPub)
  | .fetch f => s!"fetch {f}"
  | .serve l i => s!"serve {l} {i}"
  | .applyResp f i => s!"apply {f} {i}"
  | .drop i => s!"drop {i}"
  | .commit l => s!"commit {l}"
  | .shrinkDecision l r => s!"shrink {l} {r}"
  | .expandDecision l r => s!"expand {l} {r}"
  | .clearCaughtUp l r => s!"clear {l} {r}"
  | .clearSeen l r => s!"unseen {l} {r}"
  | .electDecision c => s!"elect {c}"
  | .raftCommit op => s!"raft {showOp op}"
  | .applyNext s => s!"next {s}"
  | .offServe l i => s!"offserve {l} {i}"
  | .reconcile f i => s!"reconcile {f} {i}"
  | .reconcileFail f => s!"fail {f}"
  | .crash s => s!"crash {s}"
  | .restart s k => s!"restart {s} {k}"

def parseIStep (toks : List String) : Option IStep :=
  match toks with
  | "pub" :: s :: msgs => do
    let s ← s.toNat?
    let ms ← msgs.mapM parsePub
    if ms.isEmpty then none else pure (.publish s ms)
  | ["fetch", f] => f.toNat?.map .fetch
  | ["serve", l, i] => do pure (.serve (← l.toNat?) (← i.toNat?))
  | ["apply", f, i] => do pure (.applyResp (← f.toNat?) (← i.toNat?))
  | ["drop", i] => i.toNat?.map .drop
  | ["commit", l] => l.toNat?.map .commit
  | ["shrink", l, r] => do pure (.shrinkDecision (← l.toNat?) (← r.toNat?))
  | ["expand", l, r] => do pure (.expandDecision (← l.toNat?) (← r.toNat?))
  | ["clear", l, r] => do pure (.clearCaughtUp (← l.toNat?) (← r.toNat?))
  | ["unseen", l, r] => do pure (.clearSeen (← l.toNat?) (← r.toNat?))
  | ["elect", c] => c.toNat?.map .electDecision
  | ["raft", op] => (parseOp op).map .raftCommit
  | ["next", s] => s.toNat?.map .applyNext
  | ["offserve", l, i] => do pure (.offServe (← l.toNat?) (← i.toNat?))
  | ["reconcile", f, i] => do pure (.reconcile (← f.toNat?) (← i.toNat?))
  | ["fail", f] => f.toNat?.map .reconcileFail
  | ["crash", s] => s.toNat?.map .crash
  | ["restart", s, k] => do pure (.restart (← s.toNat?) (← k.toNat?))
  | _ => none

/-- Lean source of a step (for the replays in Props). -/
def leanPub (m : PubMsg) : String :=
  let pol := match m.policy with | .leader => ".leader" | .all => ".all" | .none => ".none"
  "{ mid := " ++ toString m.mid ++ ", cid := " ++ toString m.cid ++ ", policy := " ++ pol ++
    (if m.ackInbox then "" else ", ackInbox := false") ++
    (if m.expected = -1 then "" else ", expected := " ++ toString m.expected) ++
    (if m.tooLarge then ", tooLarge := true" else "") ++ (if m.sealFails then ", sealFails := true" else "") ++ " }"

def leanOp : MetaOp → String
  | .create l => s!"(.create {l})"
  | .shrink r => s!"(.shrink {r})"
  | .expand r => s!"(.expand {r})"
  | .changeLeader l => s!"(.changeLeader {l})"

def leanIStep : IStep → String
  | .publish s b => s!".publish {s} [" ++ ", ".intercalate (b.map leanPub) ++ "]"
  | .fetch f => s!".fetch {f}"
  | .serve l i => s!".serve {l} {i}"
  | .applyResp f i => s!".applyResp {f} {i}"
  | .drop i => s!".drop {i}"
  | .commit l => s!".commit {l}"
  | .shrinkDecision l r => s!".shrinkDecision {l} {r}"
  | .expandDecision l r => s!".expandDecision {l} {r}"
  | .clearCaughtUp l r => s!".clearCaughtUp {l} {r}"
  | .clearSeen l r => s!".clearSeen {l} {r}"
  | .electDecision c => s!".electDecision {c}"
  | .raftCommit op => s!".raftCommit {leanOp op}"
  | .applyNext s => s!".applyNext {s}"
  | .offServe l i => s!".offServe {l} {i}"
  | .reconcile f i => s!".reconcile {f} {i}"
  | .reconcileFail f => s!".reconcileFail {f}"
  | .crash s => s!".crash {s}"
  | .restart s k => s!".restart {s} {k}"

/-! ### state output -/

def showRole : Role → String
  | .idle => "-" | .leader => "L" | .follower => "F" | .reconciling => "R"

def showMap (m : List (Sid × Int)) : String := ",".intercalate (m.map fun (k, v) => s!"{k}:{v}")

def showAck (a : Ack) : String :=
  let e := match a.err with | .ok => "ok" | .tooLarge => "too-large" | .incorrectOffset => "incorrect-offset" | .encryption => "encryption"
  s!"{a.mid}:{a.cid}:{showPolicy a.policy}:{a.offset}:{e}:{a.by_}:{a.epoch}"

def showNet : Net → String
  | .replReq s o e r => s!"rq:{s}:{o}:{e}:{r}"
  | .replResp d r e hw recs => s!"rp:{d}:{r}:{e}:{hw}:[" ++ ",".intercalate (recs.map fun x => s!"{x.offset}/{x.epoch}/{Rec.mid x}") ++ "]"
  | .offReq s e r le _ _ => s!"oq:{s}:{e}:{r}:{le}"
  | .offResp d r a => s!"op:{d}:{r}:{a}"

/-- Glue state of one server (everything but the log). -/
def showGlue (sv : Srv) : String :=
  s!"up={if sv.up then 1 else 0} role={showRole sv.role} ldr={sv.leader} ep={sv.leaderEpoch} app={sv.applied} isr={showMap sv.isrOff} cc={sv.commitCheck} cu={showMap sv.caughtUp} sn={",".intercalate (sv.seen.map toString)} q={",".intercalate (sv.queue.map fun a => s!"{a.offset}/{a.mid}")} rec={if sv.recovered then 1 else 0}"

def showSrv (sv : Srv) : String := showGlue sv ++ " log{" ++ showState sv.log ++ "}"

def showMeta (c : Cfg) (st : State) : String :=
  let mv := metaView c.n st.committed
  s!"meta ldr={mv.leader} ep={mv.epoch} isr={",".intercalate (mv.isr.map toString)} committed=[{",".intercalate (st.committed.map showOp)}] proposed=[{",".intercalate (st.proposed.map showOp)}] net=[{" ".intercalate (st.net.map showNet)}]"

def showProtoState (c : Cfg) (st : State) : String :=
  " || ".intercalate (st.srv.map showSrv) ++ " || " ++ showMeta c st

/-! ### log ops of a step -/

def recTok (r : Rec) : String :=
  s!"{r.offset}/{r.ts}/{r.epoch}/{showBytes r.body.key}/{showBytes r.body.val}/{showHdrs r.body.hdrs}"

def msgTok (m : PubMsg) : String := s!"-/{toHex [midByte m.mid]}/_/{m.expected}"

/-- The commit-log calls the step makes, per server, in order. -/
def logOps (c : Cfg) (st : State) (s : Step) : List (Sid × String) :=
  let roleOps (me : Sid) (pre post : Srv) : List (Sid × String) :=
    -- becomeLeader: NewLeaderEpoch unless recovered (detected by the cache growing without an append)
    if post.role = .leader && post.log.epochs ≠ pre.log.epochs then [(me, s!"newepoch {post.leaderEpoch}")] else []
  match s with
  | .publish me batch =>
    match st.get me with
    | none => []
    | some sv =>
      let (okMsgs, _) := screen me sv.leaderEpoch batch
      match okMsgs with
      | [] => []
      | m :: _ =>
        let app := (me, s!"append {sv.leaderEpoch} {tsOf m.mid} " ++ " ".intercalate (okMsgs.map msgTok))
        match sv.log.append (okMsgs.map (toMsg sv.leaderEpoch)) with
        | .ok (_, offs) =>
          let fast := Gen.Protocol.fastPathRFCmp.evalNat c.n 1 && okMsgs.all (fun m => m.policy ≠ .all)
          if fast then [app, (me, s!"sethw {offs.getLast?.getD (-1)}")] else [app]
        | _ => [app]
  | .serve me (.replReq _ offset _ _) =>
    match st.get me with
    | some sv => if Gen.Protocol.caughtUpCmp.evalInt offset sv.log.newest then [] else [(me, s!"read {offset + Gen.Protocol.serveReadAddend} u")]
    | none => []
  | .applyResp me (.replResp _ _ epoch hw recs) =>
    match st.get me with
    | none => []
    | some sv =>
      if sv.role ≠ .follower || Gen.Protocol.replRespEpochCmp.evalNat sv.leaderEpoch epoch then [] else
      -- since fix ba85aea the adopted HW is capped at the follower's newest offset, before the
      -- append and again after it (`Gen.Protocol.followerHwCapped`), exactly as `applyRespStep`
      let cap := fun (l : CLog) => if Gen.Protocol.followerHwCapped then (if hw < l.newest then hw else l.newest) else hw
      let log := sv.log.setHW (cap sv.log)
      match recs with
      | [] => [(me, s!"sethw {cap sv.log}")]
      | r :: _ =>
        if Gen.Protocol.replRespOffsetCmp.evalInt r.offset (log.newest + 1) then [(me, s!"sethw {cap sv.log}")]
        else
          let app := [(me, s!"sethw {cap sv.log}"), (me, "appendset " ++ " ".intercalate (recs.map recTok))]
          match log.appendSet recs with
          | .ok (log', _) => if Gen.Protocol.followerHwCapped then app ++ [(me, s!"sethw {cap log'}")] else app
          | _ => app
  | .commit me =>
    match st.get me with
    | none => []
    | some sv =>
      if commitGate c sv then []
      else [(me, s!"sethw {goMin (sv.isrOff.map (·.2))}")]
  | .applyNext me =>
    match st.get me, step c st s with
    | some pre, some post => (match post.get me with | some p => roleOps me pre p | none => [])
    | _, _ => []
  | .offServe me (.offReq _ epoch _ _ _ _) =>
    if c.fixes.epochBoundary || c.fixes.sentinel || c.fixes.kip101 then [] else [(me, s!"lastoff {epoch}")]
  | .reconcile me (.offResp _ _ answer) =>
    [(me, s!"truncate {if c.fixes.epochBoundary || c.fixes.kip101 then answer else answer + Gen.Protocol.truncAddend}")]
  | .reconcileFail me =>
    match st.get me with
    | some sv => if Gen.Protocol.truncHWEqCmp.evalInt sv.log.newest sv.log.hw then [] else [(me, s!"truncate {sv.log.hw + Gen.Protocol.truncHWAddend}")]
    | none => []
  | .restart me _ =>
    match st.get me, step c st s with
    | some pre, some post =>
      (me, "reopen") :: (match post.get me with | some p => roleOps me { pre with log := pre.log.reopen } p | none => [])
    | _, _ => []
  | _ => []

/-- Run the ops on the model logs through the commit-log driver: expected outputs + final logs. -/
def runLogOps (logs : List CLog) : List (Sid × String) → List CLog × List (Sid × String × String)
  | [] => (logs, [])
  | (s, line) :: rest =>
    match logs[s]? with
    | none => runLogOps logs rest
    | some l =>
      let (l', out) := logStep' {} l ((line.splitOn " ").filter (· ≠ ""))
      let (logs', outs) := runLogOps (logs.set s l') rest
      (logs', (s, line, out) :: outs)

def sameLog (a b : CLog) : Bool :=
  a.segs == b.segs && a.hw == b.hw && a.epochs == b.epochs && a.readonly == b.readonly

/-! ### named configurations -/

def boundsNamed : String → Option Bounds
  | "rand" => some { maxMsgs := 6, maxLeaderChanges := 3, maxNet := 2, maxCrashes := 2, maxIsrOps := 3,
                     policies := [.all, .leader, .none], nacks := true, lossyRPC := true, anyRestartPoint := true,
                     atomicRPC := false, eagerCommit := false }
  | _ => none

def allFixes : Fixes :=
  { isrReset := true, epochBoundary := true, expandNow := true, noFallback := true, sentinel := true, fenceOffset := true,
    atomicPropose := true, kip101 := true }

/-- A search configuration: the model variant that is explored (`fixes`: every OTHER known defect
repaired, so that what is found is attributable), the single repair `target` that should make
the witness disappear, bounds, and the violation kinds wanted. -/
structure SearchCfg where
  fixes : Fixes
  target : Fixes
  bounds : Bounds
  want : List String
  deriving Inhabited

def searchNamed : String → Option SearchCfg
  | "epoch-boundary-off-by-one" => some
    { fixes := { isrReset := true, expandNow := true, noFallback := true, sentinel := true, fenceOffset := true },
      target := { epochBoundary := true },
      bounds := { maxMsgs := 3, maxLeaderChanges := 2, maxCrashes := 1, policies := [.all], staleProposals := false, electOnlyUp := true, crashOnlyLeader := true, restartOnlyDeposed := true },
      want := ["C02b-diverged-below-hw"] }
  | "epoch-start-minus-one-sentinel" => some
    { fixes := { isrReset := true, expandNow := true, noFallback := true, fenceOffset := true },
      target := { sentinel := true },
      bounds := { maxMsgs := 2, maxLeaderChanges := 1, policies := [.all], staleProposals := false },
      want := ["C02b-diverged-below-hw"] }
  | "stale-isr-offsets-across-terms" => some
    { fixes := { epochBoundary := true, expandNow := true, noFallback := true, fenceOffset := true, legacyIsr := true },
      target := { isrReset := true },
      bounds := { maxMsgs := 2, maxLeaderChanges := 2, policies := [.all], staleProposals := false },
      want := ["C04-all-ack-not-stored-by-isr"] }
  | "isr-reentry-stale-caught-up" => some
    { fixes := { isrReset := true, epochBoundary := true, noFallback := true, fenceOffset := true },
      target := { expandNow := true },
      bounds := { maxMsgs := 1, maxLeaderChanges := 1, maxIsrOps := 2, policies := [.all], staleProposals := false },
      want := ["C02a-lost-committed"] }
  | "hw-fallback-truncation" => some
    { fixes := { isrReset := true, epochBoundary := true, expandNow := true, fenceOffset := true },
      target := { noFallback := true },
      bounds := { maxMsgs := 1, maxLeaderChanges := 2, policies := [.all], staleProposals := false },
      want := ["C02a-lost-committed"] }
  | "reconcile-answered-by-stale-leader" => some
    { fixes := { isrReset := true, epochBoundary := true, expandNow := true, noFallback := true },
      target := { fenceOffset := true },
      bounds := { maxMsgs := 2, maxLeaderChanges := 1, policies := [.all], staleProposals := false },
      want := ["C02b-diverged-below-hw"] }
  | "epoch-boundary-recovered-leader" => some
    { fixes := { isrReset := true, expandNow := true, noFallback := true, sentinel := true, fenceOffset := true },
      target := { epochBoundary := true },
      bounds := { maxMsgs := 2, maxLeaderChanges := 1, maxCrashes := 1, policies := [.all], staleProposals := false },
      want := ["C02b-diverged-below-hw"] }
  | "reconcile-epoch-unknown-to-leader" => some
    { fixes := { isrReset := true, epochBoundary := true, expandNow := true, noFallback := true, fenceOffset := true, atomicPropose := true },
      target := { kip101 := true },
      bounds := { maxMsgs := 2, maxLeaderChanges := 2, maxCrashes := 1, maxIsrOps := 1, policies := [.all], staleProposals := false },
      want := ["C02b-diverged-below-hw"] }
  | "check-then-propose-race" => some
    { fixes := { isrReset := true, expandNow := true, noFallback := true, fenceOffset := true, kip101 := true },
      target := { atomicPropose := true },
      bounds := { maxMsgs := 1, maxLeaderChanges := 1, maxIsrOps := 2, policies := [.all], staleProposals := true },
      want := ["C02a-lost-committed"] }
  | "residual" => some
    { fixes := allFixes,
      target := {},
      bounds := { maxMsgs := 3, maxLeaderChanges := 2, maxCrashes := 1, maxIsrOps := 1, policies := [.all], staleProposals := false },
      want := [] }
  | "c04-policies" => some
    { fixes := allFixes,
      target := {},
      bounds := { maxMsgs := 3, maxLeaderChanges := 1, maxIsrOps := 1, policies := [.all, .leader, .none], nacks := true, staleProposals := false },
      want := [] }
  | _ => none

def showViolOpt : Option (List String) → String
  | none => "not-a-path"
  | some [] => "no-violation"
  | some vs => ",".intercalate vs

structure ProtoSt where
  cfg : Cfg := {}
  st : State := init {}
  ghost : Ghost := []
  msgs : Nat := 0      -- publishes so far (the next message id)
  hist : List IStep := []   -- steps taken since `begin` (reversed)
  deriving Inhabited

def parseFixes (f : Fixes) : List String → Option Fixes
  | [] => some f
  | "fix=isr" :: r => parseFixes { f with isrReset := true } r
  | "fix=epoch" :: r => parseFixes { f with epochBoundary := true } r
  | "fix=expand" :: r => parseFixes { f with expandNow := true } r
  | "fix=fallback" :: r => parseFixes { f with noFallback := true } r
  | "fix=sentinel" :: r => parseFixes { f with sentinel := true } r
  | "fix=fence" :: r => parseFixes { f with fenceOffset := true } r
  | "fix=atomic" :: r => parseFixes { f with atomicPropose := true } r
  | "fix=kip101" :: r => parseFixes { f with kip101 := true } r
  | "fix=legacy-isr" :: r => parseFixes { f with legacyIsr := true } r
  | _ => none

def showWitness (w : String × List IStep) : String :=
  s!"kind={w.1} steps=" ++ "; ".intercalate (w.2.map showIStep)

def protoStep (ps : ProtoSt) (toks : List String) : ProtoSt × String :=
  match toks with
  | "begin" :: n :: mi :: ms :: occ :: fixes =>
    match n.toNat?, mi.toNat?, ms.toInt?, parseFixes {} fixes with
    | some n, some mi, some ms, some fx =>
      let c : Cfg := { n := n, minISR := mi, maxSeg := ms, occ := occ = "1", fixes := fx }
      ({ cfg := c, st := init c, ghost := [] }, "ok " ++ showProtoState c (init c))
    | _, _, _, _ => (ps, "bad-op")
  | "step" :: rest =>
    match parseIStep rest with
    | none => (ps, "bad-op")
    | some i =>
      match resolve ps.st i with
      | none => (ps, "disabled")
      | some s =>
        match step ps.cfg ps.st s with
        | none => (ps, "disabled")
        | some post =>
          let ops := logOps ps.cfg ps.st s
          let (logs', outs) := runLogOps (logs ps.st) ops
          let okOps := (logs'.zip (logs post)).all (fun (a, b) => sameLog a b)
          let g := observe ps.cfg post ps.ghost
          let viol := violationsOf ps.cfg ps.st post g
          let opsTxt := " ;; ".intercalate (outs.map fun (s, line, out) => s!"{s} @@ {line} @@ {out}")
          let glue := " ; ".intercalate (post.srv.map showGlue) ++ " ; " ++ showMeta ps.cfg post
          let acks := ",".intercalate ((newAcks ps.st post).map showAck)
          let msgs := match i with | .publish _ b => ps.msgs + b.length | _ => ps.msgs
          ({ ps with st := post, ghost := g, msgs := msgs, hist := i :: ps.hist },
           (if okOps then "ok " else "ops-mismatch ") ++ opsTxt ++ " ## " ++ glue ++ " ## acks=" ++ acks ++ " ## viol=" ++ ",".intercalate viol)
  | ["state"] => (ps, "ok " ++ showProtoState ps.cfg ps.st)
  | ["facts"] => (ps, s!"ok isrReset={if resetsIsrOnLead ps.cfg then 1 else 0} fetchEpoch={if Gen.Protocol.fetchCarriesEpoch then 1 else 0} tick={reprStr Gen.Protocol.tickOutOfSync} reject={reprStr Gen.Protocol.replReqReject}")
  | ["enabled", name] =>
    match boundsNamed name with
    | none => (ps, "bad-op")
    | some b =>
      let m : MState := { st := ps.st, ghost := ps.ghost, msgs := ps.msgs }
      let en := (candidates ps.cfg { b with maxMsgs := 250 } m).filter fun i => (istep ps.cfg ps.st i).isSome
      (ps, "ok " ++ "; ".intercalate (en.map showIStep))
  | "search" :: name :: opt =>
    match searchNamed name with
    | none => (ps, "bad-op")
    | some sc =>
      let maxStates := match opt with | [n] => n.toNat?.getD sc.bounds.maxStates | _ => sc.bounds.maxStates
      let c : Cfg := { ps.cfg with fixes := sc.fixes }
      let r := bfs c { sc.bounds with maxStates := maxStates } sc.want
      let asIs : Cfg := { ps.cfg with fixes := {} }
      let fixed : Cfg := { ps.cfg with fixes := sc.target }
      let ws := r.witnesses.filter (fun w => sc.want.isEmpty || sc.want.contains w.1)
      (ps, s!"ok states={r.states} depth={r.depth} exhausted={r.exhausted} || " ++
        " || ".intercalate (ws.map fun w => showWitness w ++ s!" asis={showViolOpt (replayViol asIs w.2)} withfix={showViolOpt (some (replayLenient fixed (init fixed) [] [] w.2))}"))
  | ["attribute"] =>
    -- which single repair makes the violations of the history so far disappear?
    let steps := ps.hist.reverse
    let single : List (String × Fixes) :=
      [("epoch-start-minus-one-sentinel", { sentinel := true }), ("epoch-boundary-off-by-one", { epochBoundary := true }),
       ("stale-isr-offsets-across-terms", { isrReset := true }), ("isr-reentry-stale-caught-up", { expandNow := true }),
       ("hw-fallback-truncation", { noFallback := true }), ("reconcile-answered-by-stale-leader", { fenceOffset := true }),
       ("check-then-propose-race", { atomicPropose := true }), ("reconcile-epoch-unknown-to-leader", { kip101 := true })]
    let removes := single.filter fun (_, f) =>
      let c : Cfg := { ps.cfg with fixes := f }
      (replayLenient c (init c) [] [] steps).isEmpty
    let allFix : Cfg := { ps.cfg with fixes := allFixes }
    (ps, "ok fixes=" ++ ",".intercalate (removes.map (·.1)) ++ " all=" ++ showViolOpt (some (replayLenient allFix (init allFix) [] [] steps)))
  | "replay" :: rest =>
    -- `proto replay <step> ; <step> ; …` on a fresh state of the current configuration
    let steps := ((" ".intercalate rest).splitOn ";").map (fun t => parseIStep ((t.splitOn " ").filter (· ≠ "")))
    if steps.any Option.isNone then (ps, "bad-op") else
    (ps, "ok " ++ showViolOpt (replayViol ps.cfg (steps.filterMap id)))
  | "lean" :: rest =>
    let steps := ((" ".intercalate rest).splitOn ";").map (fun t => parseIStep ((t.splitOn " ").filter (· ≠ "")))
    if steps.any Option.isNone then (ps, "bad-op") else
    (ps, "ok [" ++ ", ".intercalate ((steps.filterMap id).map leanIStep) ++ "]")
  | _ => (ps, "bad-op")

end Liftbridge.Driver
