/- Line-protocol front end of the cursor model (C11, see harness/server/zz_verif_c11_test.go).

  c11 begin <maxSegBytes> <cap|-> <cacheOn 0|1> <subjectHex> [maxmsgs=N] [maxbytes=N]
                                           new server: empty cursors partition, empty cache
                                           (`-` = the regenerated cursorCacheSize)
  c11 set <idHex> <streamHex> <part> <off> SetCursor                → ok | err <e> | panic
  c11 get <idHex> <streamHex> <part>       FetchCursor (atomic)     → ok <offset> | err <e>
  c11 lookup <tid> <idHex> <streamHex> <part>   small steps of one GetCursor call of caller <tid>:
                                           cache lookup             → hit <offset> | miss
  c11 readhw <tid>                         HighWatermark()          → ok <hw>
  c11 readold <tid>                        OldestOffset()           → ok <oldest>
  c11 sub <tid>                            reverse subscription created (reader snapshot) → ok
  c11 finish <tid>                         scan result cached + returned → ok <offset> | err <e>
  c11 abort <tid>                          the call fails instead (error to the client, nothing cached) → ok
  c11 roll | clean | leader | restart | pause | evict | cache <0|1>
  c11 state | guarded | retentionoff | cachesize

Every state-changing answer is followed by ` | <state>`:
  new=<newest> old=<oldest> hw=<hw> paused=<0|1> segs=<base,…> recs=<off:key:val …> cache=<key=off,…>
(cache: least recently used first, as lru.Cache.Keys()). Small steps of a caller that is not at
that step answer `ignored`. -/
import Liftbridge.Model.Cursors
import Liftbridge.Driver.LogDrv

namespace Liftbridge.Driver
open Liftbridge Liftbridge.Log Liftbridge.Cursors

/-! The protobuf encoding of `proto.Cursor{stream=1, partition=2 (int32), cursorId=3, offset=4 (int64)}`
(proto3: zero values are omitted; negative integers are 10-byte varints). -/

def varintAux : Nat → Nat → Bytes
  | 0, _ => []
  | fuel + 1, n => if n < 128 then [UInt8.ofNat n] else UInt8.ofNat (n % 128 + 128) :: varintAux fuel (n / 128)

def varint (n : Nat) : Bytes := varintAux 10 n

def toU64 (i : Int) : Nat := (i % 18446744073709551616).toNat

def pbBytesField (tag : UInt8) (b : Bytes) : Bytes :=
  if b.isEmpty then [] else tag :: varint b.length ++ b

def pbIntField (tag : UInt8) (i : Int) : Bytes :=
  if i = 0 then [] else tag :: varint (toU64 i)

def pbCursor (stream : Bytes) (part : Int) (id : Bytes) (off : Int) : Bytes :=
  pbBytesField 0x0a stream ++ pbIntField 0x10 part ++ pbBytesField 0x1a id ++ pbIntField 0x20 off

/-- Read one varint: (value, rest). -/
def readVarint : Bytes → Nat → Nat → Option (Nat × Bytes)
  | [], _, _ => none
  | b :: rest, shift, acc =>
    let v := acc + (b.toNat % 128) * 2 ^ shift
    if b.toNat < 128 then some (v, rest) else readVarint rest (shift + 7) v

def ofU64 (n : Nat) : Int :=
  let n := n % 18446744073709551616
  if n ≥ 9223372036854775808 then (n : Int) - 18446744073709551616 else n

/-- `Cursor.Unmarshal` then `.Offset`: the last occurrence of field 4; unknown wire types fail. -/
def pbOffsetAux : Nat → Bytes → Int → Option Int
  | 0, _, _ => none
  | _ + 1, [], acc => some acc
  | fuel + 1, b, acc =>
    match readVarint b 0 0 with
    | none => none
    | some (tag, rest) =>
      if tag % 8 = 0 then
        match readVarint rest 0 0 with
        | none => none
        | some (v, rest') => pbOffsetAux fuel rest' (if tag / 8 = 4 then ofU64 v else acc)
      else if tag % 8 = 2 then
        match readVarint rest 0 0 with
        | none => none
        | some (n, rest') => if n ≤ rest'.length then pbOffsetAux fuel (rest'.drop n) acc else none
      else none

def pbOffset (b : Bytes) : Option Int := pbOffsetAux (b.length + 1) b 0

structure CursorsSt where
  P : Params := { dec := pbOffset, cap := Gen.Cursors.cacheSize, hdrs := [], lim := ⟨0, 0, 0⟩,
                  guarded := Gen.Cursors.missAddGuarded, retentionOff := Gen.Cursors.retentionOff }
  s : State := State.init 1024 true

instance : Inhabited CursorsSt := ⟨{}⟩

def showCState (s : State) : String :=
  let l := s.log
  let segs := ",".intercalate (l.segs.map fun sg => toString sg.base)
  let recs := " ".intercalate (l.abs.map fun r => s!"{r.offset}:{showBytes r.body.key}:{showBytes r.body.val}")
  let cache := ",".intercalate (s.cache.reverse.map fun (k, v) => s!"{toHex k}={v}")
  s!"new={l.newest} old={l.oldest} hw={l.hw} paused={if s.paused then 1 else 0} segs={segs} recs={recs} cache={cache}"

def digits (i : Int) : Bytes := (toString i).toUTF8.toList

def parseRef (id stream part : String) : Option (Bytes × Bytes × Int) := do
  let i ← fromHex id
  let st ← fromHex stream
  let p ← part.toInt?
  pure (i, st, p)

def parseLim (lim : Retention.Limits) : List String → Option Retention.Limits
  | [] => some lim
  | kv :: rest =>
    match kv.splitOn "=" with
    | [k, v] =>
      match v.toInt? with
      | some n =>
        if k = "maxmsgs" then parseLim { lim with msgs := n } rest
        else if k = "maxbytes" then parseLim { lim with bytes := n } rest
        else none
      | none => none
    | _ => none

def showOut : Out → String
  | .none => "ok"
  | .unit (.ok _) => "ok"
  | .unit (.err e) => "err " ++ e
  | .unit .panic => "panic"
  | .val (.ok v) => s!"ok {v}"
  | .val (.err e) => "err " ++ e
  | .val .panic => "panic"
  | .miss => "miss"
  | .int i => s!"ok {i}"
  | .ignored => "ignored"

def cursorsStep (st : CursorsSt) (toks : List String) : CursorsSt × String :=
  let apply (op : Op) (hit : Bool := false) : CursorsSt × String :=
    let (s', out) := Cursors.step st.P st.s op
    match out with
    | .ignored => (st, "ignored")
    | .val (.ok v) => ({ st with s := s' }, (if hit then s!"hit {v}" else s!"ok {v}") ++ " | " ++ showCState s')
    | o => ({ st with s := s' }, showOut o ++ " | " ++ showCState s')
  match toks with
  | "begin" :: m :: cap :: on :: subj :: kvs =>
    let capN : Option Nat := if cap = "-" then some Gen.Cursors.cacheSize else cap.toNat?
    match m.toInt?, capN, fromHex subj, parseLim ⟨0, 0, 0⟩ kvs with
    | some m, some c, some sb, some lim =>
      let P : Params := { dec := pbOffset, cap := c, hdrs := [("reply", some []), ("subject", some sb)], lim := lim,
                          guarded := Gen.Cursors.missAddGuarded, retentionOff := Gen.Cursors.retentionOff }
      let s := State.init m (on = "1")
      ({ P := P, s := s }, "ok | " ++ showCState s)
    | _, _, _, _ => (st, "bad-op")
  | ["set", id, stream, part, off] =>
    match parseRef id stream part, off.toInt? with
    | some (i, sm, p), some o => apply (.set (keyOf i sm (digits p)) o (pbCursor sm p i o))
    | _, _ => (st, "bad-op")
  | ["get", id, stream, part] =>
    match parseRef id stream part with
    | some (i, sm, p) => apply (.get (keyOf i sm (digits p)))
    | none => (st, "bad-op")
  | ["lookup", tid, id, stream, part] =>
    match tid.toNat?, parseRef id stream part with
    | some t, some (i, sm, p) => apply (.lookup t (keyOf i sm (digits p))) true
    | _, _ => (st, "bad-op")
  | ["readhw", tid] => match tid.toNat? with | some t => apply (.readHW t) | none => (st, "bad-op")
  | ["readold", tid] => match tid.toNat? with | some t => apply (.readOldest t) | none => (st, "bad-op")
  | ["sub", tid] => match tid.toNat? with | some t => apply (.subscribe t) | none => (st, "bad-op")
  | ["finish", tid] => match tid.toNat? with | some t => apply (.finish t) | none => (st, "bad-op")
  | ["abort", tid] => match tid.toNat? with | some t => apply (.abort t) | none => (st, "bad-op")
  | ["roll"] => apply .roll
  | ["clean"] => apply .clean
  | ["leader"] => apply .becomeLeader
  | ["restart"] => apply .restart
  | ["pause"] => apply .pause
  | ["evict"] => apply .evictAll
  | ["cache", b] => if b = "0" ∨ b = "1" then apply (.cacheOn (b = "1")) else (st, "bad-op")
  | ["state"] => (st, "ok | " ++ showCState st.s)
  | ["guarded"] => (st, s!"ok {Gen.Cursors.missAddGuarded}")
  | ["retentionoff"] => (st, s!"ok {Gen.Cursors.retentionOff}")
  | ["cachesize"] => (st, s!"ok {Gen.Cursors.cacheSize}")
  | ["pb", id, stream, part, off] =>
    match parseRef id stream part, off.toInt? with
    | some (i, sm, p), some o => (st, s!"ok {toHex (pbCursor sm p i o)} {toHex (keyOf i sm (digits p))} {(pbOffset (pbCursor sm p i o)).getD (-999)}")
    | _, _ => (st, "bad-op")
  | _ => (st, "bad-op")

end Liftbridge.Driver
