/-
Driver commands of the C15 model (`c15 …`). The handler table is the regenerated
`Gen.Handlers.handlers`, so the driver answers for the code as it is now.

  c15 handlers                      → ok <name> <name> …
  c15 info <handler>                → ok res=<expr> act=<action> checkedFirst=<b> violates=<b>
  c15 run <handler> <own> <other>   → ok denied=<b> mayAuth=<b> effects=<k,k,…|->
        policy: the handler's own (resource, action) is granted iff own=1, every other
        key iff other=1.
  c15 paths <handler> <own> <other> → ok <effects>/<refused><noreq>/<exit> | …   (for replay files)
  c15 decide <enabled> <none|empty|id:<text>> <enfErr> <enfOk> → ok allow | ok refuse
        the regenerated decision tree of ensureAuthorizationPermission
  c15 loops                         → ok <name> …          (per-message loops of the table)
  c15 session <loop> <bits>         → ok <i>:<denied|open>:<effects|-> …
        one session of the per-message loop reached from RPC <loop>; message i goes to its
        own stream s<i> and is granted by the policy in force for it iff bit i is 1. Per
        message: `denied` = every path of the iteration refuses and has no effect; effects =
        every effect some path may execute (the iterations of `Authz.sessions` are
        independent, so this is computed per message).
-/
import Liftbridge.Model.Authz
import Liftbridge.Gen.Handlers

namespace Liftbridge.Driver
open Liftbridge.Authz

def c15Find (n : String) : Option Handler := Gen.Handlers.handlers.find? (·.name == n)

def c15Sorted (l : List String) : List String := (l.toArray.qsort (· < ·)).toList.eraseDups

def c15Tok (s : String) : String := String.ofList (s.toList.map fun c => if c == ' ' then '_' else c)

def c15Bool : String → Option Bool
  | "1" => some true
  | "0" => some false
  | _ => none

def c15Pol (h : Handler) (own other : Bool) : Res → Act → Bool :=
  fun r a => if r == h.res && a == h.act then own else other

def c15List (l : List String) : String := if l.isEmpty then "-" else ",".intercalate l

def c15Step (toks : List String) : String :=
  match toks with
  | ["handlers"] => "ok " ++ " ".intercalate (Gen.Handlers.handlers.map (·.name))
  | ["info", n] =>
    match c15Find n with
    | some h => s!"ok res={c15Tok h.res} act={c15Tok h.act} checkedFirst={h.checkedFirst} violates={h.violates}"
    | none => "bad-op"
  | ["run", n, own, other] =>
    match c15Find n, c15Bool own, c15Bool other with
    | some h, some o, some x =>
      let ps := paths (c15Pol h o x) h.body
      let denied := ps.all Path.refusal
      let mayAuth := ps.any fun p => p.exit == .ret .auth
      s!"ok denied={denied} mayAuth={mayAuth} effects={c15List (c15Sorted (ps.flatMap (·.effects)))}"
    | _, _, _ => "bad-op"
  | ["paths", n, own, other] =>
    match c15Find n, c15Bool own, c15Bool other with
    | some h, some o, some x =>
      let ps := paths (c15Pol h o x) h.body
      "ok " ++ " | ".intercalate (ps.map fun p =>
        s!"{c15List p.effects}/{if p.refused then "R" else "r"}{if p.noreq then "N" else "n"}/{p.exit.str}")
    | _, _, _ => "bad-op"
  | ["decide", en, idt, ee, eo] =>
    let ident : Option (Option String) :=
      if idt == "none" then some none
      else if idt == "empty" then some (some "")
      else if idt.startsWith "id:" then some (some (idt.drop 3).toString) else none
    match c15Bool en, ident, c15Bool ee, c15Bool eo with
    | some e, some i, some x, some o =>
      if (Gen.Handlers.ensureDecision.eval ⟨e, i, x, o⟩).isAllow then "ok allow" else "ok refuse"
    | _, _, _, _ => "bad-op"
  | ["loops"] => "ok " ++ " ".intercalate (Gen.Handlers.sessionLoops.map (·.name))
  | ["session", n, bits] =>
    match Gen.Handlers.sessionLoops.find? (·.name == n) with
    | none => "bad-op"
    | some l =>
      if bits.toList.any (fun c => c != '0' && c != '1') then "bad-op" else
      let msgs : List Msg := bits.toList.zipIdx.map fun (c, i) =>
        ⟨s!"s{i}", fun _ r a => r == s!"s{i}" && a == l.act && c == '1'⟩
      let outs := msgs.zipIdx.map fun (m, i) =>
        let ps := paths (m.allow l.res "alice") l.body
        let clean := ps.all fun p => p.effects.isEmpty && p.refusal
        s!"{i}:{if clean then "denied" else "open"}:{c15List (c15Sorted (ps.flatMap (·.effects)))}"
      "ok " ++ " ".intercalate outs
  | _ => "bad-op"

end Liftbridge.Driver
