/-
Driver commands of the C15 model (`c15 …`). The handler table is the regenerated
`Gen.Handlers.handlers`, so the driver answers for the code as it is now.

  c15 handlers                      → ok <name> <name> …
  c15 info <handler>                → ok res=<expr> act=<action> checkedFirst=<b> violates=<b>
  c15 run <handler> <own> <other>   → ok denied=<b> mayAuth=<b> effects=<k,k,…|->
        policy: the handler's own (resource, action) is granted iff own=1, every other
        key iff other=1.
  c15 paths <handler> <own> <other> → ok <effects>/<refused><noreq>/<exit> | …   (for replay files)
-/
import Liftbridge.Model.Authz
import Liftbridge.Gen.Handlers

namespace Liftbridge.Driver
open Liftbridge.Authz

def c15Find (n : String) : Option Handler := Gen.Handlers.handlers.find? (·.name == n)

def c15Sorted (l : List String) : List String := (l.toArray.qsort (· < ·)).toList.eraseDups

def c15Tok (s : String) : String := String.ofList (s.toList.map fun c => if c == ' ' then '_' else c)

def c15Bool : String → Option Bool
  | "1" => some true
  | "0" => some false
  | _ => none

def c15Pol (h : Handler) (own other : Bool) : Res → Act → Bool :=
  fun r a => if r == h.res && a == h.act then own else other

def c15List (l : List String) : String := if l.isEmpty then "-" else ",".intercalate l

def c15Step (toks : List String) : String :=
  match toks with
  | ["handlers"] => "ok " ++ " ".intercalate (Gen.Handlers.handlers.map (·.name))
  | ["info", n] =>
    match c15Find n with
    | some h => s!"ok res={c15Tok h.res} act={c15Tok h.act} checkedFirst={h.checkedFirst} violates={h.violates}"
    | none => "bad-op"
  | ["run", n, own, other] =>
    match c15Find n, c15Bool own, c15Bool other with
    | some h, some o, some x =>
      let ps := paths (c15Pol h o x) h.body
      let denied := ps.all Path.refusal
      let mayAuth := ps.any fun p => p.exit == .ret .auth
      s!"ok denied={denied} mayAuth={mayAuth} effects={c15List (c15Sorted (ps.flatMap (·.effects)))}"
    | _, _, _ => "bad-op"
  | ["paths", n, own, other] =>
    match c15Find n, c15Bool own, c15Bool other with
    | some h, some o, some x =>
      let ps := paths (c15Pol h o x) h.body
      "ok " ++ " | ".intercalate (ps.map fun p =>
        s!"{c15List p.effects}/{if p.refused then "R" else "r"}{if p.noreq then "N" else "n"}/{p.exit.str}")
    | _, _, _ => "bad-op"
  | _ => "bad-op"

end Liftbridge.Driver
