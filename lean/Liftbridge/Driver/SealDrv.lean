/-
Line-protocol front end of the `Seal` model (C17, harness/encryption). The cryptographic
parameters are instantiated per operation from ORACLE BITS supplied by the harness (does the
real unwrap / key setup / open succeed on the parts the model cut out, and with what result),
so what is compared is exactly the framing: where a stored value is cut, in which order the
steps run, and which inputs give error / panic.

  c17 frame <wrapped> <ct>                                -> ok <stored>
  c17 seal <dek> <nonce> <pt> <wrapped|-> <keyOk> <sealed> -> ok <stored> | err <e>
  c17 split <fixed|prefix> <stored> <nonceSize>           -> ok <wrapped> <nonce> <ct> | err <e> | panic
  c17 read <fixed|prefix> <stored> <nonceSize> <unwrapOk> <keyOk> <openOk> <pt>
                                                          -> ok <pt> | err <e> | panic
  c17 wrappedlen <n>                                      -> ok <len>
`fixed` = repaired `Read` (bounds checks), `prefix` = `Read` before the repair.

Pipeline of server/partition.go (Model/SealPipe.lean over the regenerated Gen/SealPipe.lean,
harness/server/zz_verif_c17pipe_test.go); the codec's answers are supplied by the harness:
  c17 pipe-sites                                          -> ok <ctx>:<guarded><seals><errSkips>,… | <func>:<guarded><reads><errReports><errEnds><deliversRead>,…
  c17 pipe-ingest <site> <enc> <value> <sealed|->         -> ok <stored> | drop | err no-site
        (<sealed> = what the real Seal returned for this message, `-` = Seal failed)
  c17 pipe-sub <loop> <enc> <stored>:<pt|!> …             -> ok <delivered> … | waiting|error|silent
        (<pt> = what the real Read returns for <stored>, `!` = Read fails)
-/
import Liftbridge.Base
import Liftbridge.Model.Seal
import Liftbridge.Model.SealPipe

namespace Liftbridge.Driver
open Liftbridge

private def sealShow {α} (f : α → String) : Res α → String
  | .ok a => "ok " ++ f a
  | .err e => "err " ++ e
  | .panic => "panic"

private def bit (s : String) : Option Bool :=
  if s = "1" then some true else if s = "0" then some false else none

private def mode (s : String) : Option Bool :=
  if s = "fixed" then some true else if s = "prefix" then some false else none

private def oracle (nonceSize : Nat) (wrapped : Option Bytes) (u k o : Bool) (sealed pt : Bytes) :
    Seal.Crypto where
  wrap := fun _ => wrapped
  unwrap := fun _ => if u then some [] else none
  keyOk := fun _ => k
  nonceSize := nonceSize
  aeadSeal := fun _ _ _ => sealed
  aeadOpen := fun _ _ _ => if o then some pt else none

def c17 (toks : List String) : String :=
  match toks with
  | ["frame", w, ct] =>
    match fromHex w, fromHex ct with
    | some w, some ct => "ok " ++ toHex (Seal.frame w ct)
    | _, _ => "bad-op"
  | ["seal", dek, nonce, pt, wrapped, k, sealed] =>
    match fromHex dek, fromHex nonce, fromHex pt, fromHexOpt wrapped, bit k, fromHex sealed with
    | some dek, some nonce, some pt, some wrapped, some k, some sealed =>
      sealShow toHex (Seal.sealData (oracle nonce.length wrapped true k true sealed []) dek nonce pt)
    | _, _, _, _, _, _ => "bad-op"
  | ["split", m, d, n] =>
    match mode m, fromHex d, n.toNat? with
    | some chk, some b, some n =>
      sealShow (fun (w, nonce, ct) => s!"{toHex w} {toHex nonce} {toHex ct}") (Seal.splitWith chk n b)
    | _, _, _ => "bad-op"
  | ["read", m, d, n, u, k, o, pt] =>
    match mode m, fromHex d, n.toNat?, bit u, bit k, bit o, fromHex pt with
    | some chk, some b, some n, some u, some k, some o, some pt =>
      sealShow toHex (Seal.readWith chk (oracle n none u k o [] pt) b)
    | _, _, _, _, _, _, _ => "bad-op"
  | ["pipe-sites"] =>
    let b := fun (x : Bool) => if x then "1" else "0"
    let i := Gen.SealPipe.ingestSites.map fun s => s!"{s.ctx}:{b s.guarded}{b s.seals}{b s.errSkips}"
    let d := Gen.SealPipe.deliverSites.map fun s =>
      s!"{s.func}:{b s.guarded}{b s.reads}{b s.errReports}{b s.errEnds}{b s.deliversRead}"
    "ok " ++ ",".intercalate i ++ " | " ++ ",".intercalate d
  | ["pipe-ingest", site, enc, v, sealed] =>
    match site.toNat?, bit enc, fromHex v, fromHexOpt sealed with
    | some i, some enc, some v, some sealed =>
      match Gen.SealPipe.ingestSites[i]? with
      | none => "err no-site"
      | some s =>
        match SealPipe.ingest s enc { doSeal := fun _ _ => sealed, doRead := fun _ => none } 0 v with
        | some x => "ok " ++ toHex x
        | none => "drop"
    | _, _, _, _ => "bad-op"
  | "pipe-sub" :: loopIdx :: enc :: toks =>
    let parse : String → Option (Bytes × Option Bytes) := fun t =>
      match t.splitOn ":" with
      | [s, p] =>
        match fromHex s with
        | none => none
        | some s => if p = "!" then some (s, none) else (fromHex p).map fun p => (s, some p)
      | _ => none
    match loopIdx.toNat?, bit enc, toks.mapM parse with
    | some i, some enc, some table =>
      match Gen.SealPipe.deliverSites[i]? with
      | none => "err no-site"
      | some d =>
        let codec : SealPipe.Codec :=
          { doSeal := fun _ _ => none, doRead := fun b => (table.lookup b).join }
        let o := SealPipe.subscribe d enc codec (table.map Prod.fst)
        let e := match o.ending with
          | .waiting => "waiting"
          | .error => "error"
          | .silent => "silent"
        "ok " ++ " ".intercalate (o.delivered.map toHex) ++ " | " ++ e
    | _, _, _ => "bad-op"
  | ["wrappedlen", n] =>
    match n.toNat? with
    | some n => s!"ok {Seal.kwpWrappedLen n}"
    | none => "bad-op"
  | _ => "bad-op"

end Liftbridge.Driver
