/- Line-protocol front end of the crash-recovery model (`c05 …`, see harness/commitlog/zz_verif_c05_test.go). -/
import Liftbridge.Model.Recover
import Liftbridge.Driver.LogDrv

namespace Liftbridge.Driver
open Liftbridge Liftbridge.Log Liftbridge.Recover

/-- One "life" of the process over a directory. `dead` = not started yet / killed / closed:
only `open`, `restart`, `tear` and the file listing make sense then. -/
structure RecSt where
  cfg : Cfg := {}
  fs : FS := {}
  mem : Mem := {}
  dead : Bool := true
  budget : Nat := noCrash
  steps : Nat := 0
  trace : List (String × Nat) := []
  deriving Inhabited

def sfxStr : Sfx → String
  | .plain => "" | .cleaned => ".cleaned" | .truncated => ".truncated"

def pad20 (n : Int) : String :=
  let s := toString n.toNat
  String.ofList (List.replicate (20 - s.length) '0') ++ s

/-- Directory listing `name:size`, sorted by name (checkpoint files: `hw=`, `ep=`). -/
def showFiles (fs : FS) : String :=
  let logs := fs.logs.map fun (f, c) => (pad20 f.base ++ ".log" ++ sfxStr f.sfx, chunksSize c)
  let idxs := fs.idxs.map fun (f, ix) => (pad20 f.base ++ ".index" ++ sfxStr f.sfx, ix.size * Gen.Log.entryWidth)
  let all := (logs ++ idxs).toArray.qsort (fun a b => a.1 < b.1) |>.toList
  let hw := match fs.hw with | some v => s!" hw={v}" | none => " hw=-"
  let ep := match fs.epochs with
    | some c => " ep=" ++ ",".intercalate (c.map fun (e, o) => s!"{e}@{o}")
    | none => " ep=-"
  " ".intercalate (all.map fun (n, sz) => s!"{n}:{sz}") ++ hw ++ ep

def showMSeg (s : MSeg) : String :=
  s!"{s.base}:{s.firstOffset}:{s.lastOffset}:{s.idxPos}:{s.position}"

def showMem (m : Mem) : String :=
  let segs := ",".intercalate (m.segs.map showMSeg)
  let ep := ",".intercalate (m.epochs.map fun (e, o) => s!"{e}@{o}")
  s!"new={m.newest} old={m.oldest} hw={m.hw} segs={segs} ep={ep}"

def showRecC (r : Rec) : String :=
  s!"{r.offset}:{r.ts}:{r.epoch}:{showBytes r.body.key}:{showBytes r.body.val}"

def showWalk (w : List Rec × Bool) : String :=
  " ".intercalate (w.1.map showRecC ++ (if w.2 then ["GARBAGE"] else []))

def parseShape (s : String) : Option Shape :=
  if s = "current" then some Shape.current
  else if s = "unfixed" then some Shape.unfixed
  else if s = "fixed" then some Shape.fixed
  else none

def parseC05Cfg (cfg : Cfg) : List String → Option Cfg
  | [] => some cfg
  | kv :: rest =>
    match kv.splitOn "=" with
    | [k, v] =>
      if k = "shape" then (parseShape v).bind fun sh => parseC05Cfg { cfg with shape := sh } rest
      else match v.toInt? with
      | some n =>
        if k = "compact" then parseC05Cfg { cfg with compact := n = 1 } rest
        else if k = "maxbytes" then parseC05Cfg { cfg with maxBytes := n } rest
        else if k = "maxmsgs" then parseC05Cfg { cfg with maxMsgs := n } rest
        else if k = "maxage" then parseC05Cfg { cfg with maxAge := n } rest
        else none
      | none => none
    | _ => none

def parseKV (tok : String) : Option Msg :=
  match tok.splitOn "/" with
  | [k, v] => do
    let key ← parseBytes k
    let val ← parseBytes v
    pure { key := key, val := val }
  | _ => none

/-- Run one program of the model in the current life. -/
def runOp (st : RecSt) (p : M Mem) : RecSt × String :=
  let marksSince (s : St) : String :=
    ",".intercalate ((s.trace.take (s.trace.length - st.trace.length)).reverse.map (·.1))
  match p { fs := st.fs, budget := st.budget, steps := st.steps, trace := st.trace } with
  | .ok m s => ({ st with fs := s.fs, mem := m, budget := s.budget, steps := s.steps, trace := s.trace },
                s!"ok [{marksSince s}] | " ++ showMem m)
  | .crashed s => ({ st with fs := s.fs, dead := true, budget := 0, steps := s.steps, trace := s.trace },
                s!"crashed [{marksSince s}]")
  | .fail e s => ({ st with fs := s.fs, budget := s.budget, steps := s.steps, trace := s.trace },
                s!"err {e} [{marksSince s}]")

def recStep (st : RecSt) (toks : List String) : RecSt × String :=
  match toks with
  | "begin" :: m :: kvs =>
    match m.toInt?, parseC05Cfg {} kvs with
    | some m, some cfg => ({ cfg := { cfg with maxSegBytes := m } }, "ok")
    | _, _ => (st, "bad-op")
  | ["budget", n] =>
    match n.toNat? with
    | some n => ({ st with budget := n }, "ok")
    | none => (st, "bad-op")
  | ["restart"] => ({ st with dead := true, budget := noCrash, steps := 0, trace := [] }, "ok")
  | ["files"] => (st, "ok " ++ showFiles st.fs)
  | ["trace"] => (st, "ok " ++ ",".intercalate (st.trace.reverse.map fun (n, k) => s!"{n}@{k}"))
  | ["tear", n] =>
    match n.toNat? with
    | some n =>
      if !st.dead then (st, "err running") else
      -- the newest plain log file (the active segment of the dead process)
      match (st.fs.logs.filter fun (f, _) => f.sfx = .plain).getLast? with
      | some (f, _) => ({ st with fs := (Eff.tear f n).apply st.fs }, "ok")
      | none => (st, "err no-log")
    | none => (st, "bad-op")
  | ["open"] =>
    if !st.dead then (st, "err running") else
    let (st', out) := runOp { st with dead := false } (recoverM st.cfg)
    (st', out)
  | _ =>
    if st.dead then (st, "dead") else
    match toks with
    | ["op"] =>
      let (st', out) := runOp st (do mark "workload.op"; pure st.mem)
      (st', out)
    | "append" :: e :: t :: msgs =>
      match e.toNat?, t.toInt?, msgs.mapM parseKV with
      | some e, some t, some ms => runOp st (appendM st.mem e t ms)
      | _, _, _ => (st, "bad-op")
    | ["sethw", o] =>
      match o.toInt? with
      | some o => let m := setHW st.mem o; ({ st with mem := m }, "ok [] | " ++ showMem m)
      | none => (st, "bad-op")
    | ["hw"] => runOp st (do checkpointHWM st.mem; pure st.mem)
    | ["truncate", o] =>
      match o.toInt? with
      | some o => runOp st (truncateM st.mem o)
      | none => (st, "bad-op")
    | ["clean", ttl] =>
      match ttl.toInt? with
      | some ttl => runOp st (cleanM st.mem ttl)
      | none => (st, "bad-op")
    | ["roll"] => runOp st (rollM st.mem)
    | ["close"] =>
      let (st', out) := runOp st (closeM st.mem)
      ({ st' with dead := true }, out)
    | ["reopen"] =>
      let (st', out) := runOp st (do let _ ← closeM st.mem; recoverM st.cfg)
      (st', out)
    | ["state"] => (st, "ok | " ++ showMem st.mem)
    | ["bytes"] => (st, "ok " ++ showWalk (bytes st.fs st.mem))
    | ["heads"] =>
      -- for every offset from max(0, oldest) to newest: what a reader created at that offset returns first
      let lo := if st.mem.oldest < 0 then 0 else st.mem.oldest
      let n := (st.mem.newest + 1 - lo).toNat
      let toks := (List.range (min n 64)).map fun (i : Nat) =>
        let o : Int := lo + (i : Int)
        let h := match readFrom st.fs st.mem o with
          | .ok (r :: _, _) => toString r.offset
          | .ok ([], true) => "G"
          | .ok ([], false) => "-"
          | .err _ => "E"
          | .panic => "P"
        s!"{o}>{h}"
      (st, "ok " ++ " ".intercalate toks)
    | ["read", o] =>
      match o.toInt? with
      | some o => (st, match readFrom st.fs st.mem o with
          | .ok w => "ok " ++ showWalk w
          | .err e => "err " ++ e
          | .panic => "panic")
      | none => (st, "bad-op")
    | _ => (st, "bad-op")

end Liftbridge.Driver
