/- Line-protocol front end of the small-step committed-reader model (C03, `c03 ...`). -/
import Liftbridge.Model.HWReader
import Liftbridge.Driver.LogDrv

namespace Liftbridge.Driver
open Liftbridge Liftbridge.Log Liftbridge.HWReader

structure HWSt where
  s : HWReader.State := HWReader.State.init (CLog.init 1024 false)
  ids : List Nat := []

instance : Inhabited HWSt := ⟨{}⟩

/-- `0-5,7,9-12` -/
def showRanges (xs : List Int) : String :=
  let rec go (acc : List (Int × Int)) : List Int → List (Int × Int)
    | [] => acc.reverse
    | x :: rest =>
      match acc with
      | (a, b) :: tl => if x = b + 1 then go ((a, x) :: tl) rest else go ((x, x) :: (a, b) :: tl) rest
      | [] => go [(x, x)] rest
  ",".intercalate ((go [] xs).map fun (a, b) => if a = b then toString a else s!"{a}-{b}")

def showPhase : Phase → String
  | .creating => "creating"
  | .idle => "idle"
  | .reading => "reading"
  | .atLimit => "atlimit"
  | .mustWait => "mustwait"
  | .waiting => "waiting"
  | .resync h => s!"resync({h})"
  | .failed e => "failed(" ++ e ++ ")"

def showReader (id : Nat) (r : Reader) : String :=
  s!"{id}:{showPhase r.phase}:n={r.delivered.length}:[{showRanges (r.delivered.map (·.offset))}]"

def showReaders (st : HWSt) : String :=
  " ".intercalate (st.ids.filterMap fun id => (st.s.readers id).map (showReader id))

def showHW (st : HWSt) : String :=
  let l := st.s.log
  s!"new={l.newest} hw={l.hw} ro={if l.readonly then 1 else 0} nsegs={l.segs.length} waiters={st.s.waiters.length}"

def settleAll (st : HWSt) (fuel : Nat) : HWSt :=
  { st with s := st.ids.foldl (fun s id => settleOne id fuel s) st.s }

/-- `advance`: the part of `ReadMessage` that runs without consulting the log's HW — from
`creating`/`idle`/`reading` until one more message is delivered, or the reader reaches its limit
(`atlimit`: its next action is the HW sample) or dies. The stepped real reader of the harness does
the same by ONE real `ReadMessage` call (or by none, when the real reader's fields say it stands
at its limit). -/
def advance (id : Nat) (n0 : Nat) : Nat → HWReader.State → HWReader.State
  | 0, s => s
  | fuel + 1, s =>
    match s.readers id with
    | none => s
    | some r =>
      if r.delivered.length > n0 then s else
      match r.phase with
      | .creating | .idle | .reading =>
        match nextOp id r.phase with
        | some op => advance id n0 fuel (step s op)
        | none => s
      | _ => s

def parseReaderOp (name : String) (id : Nat) : Option Op :=
  if name = "init" then some (.initReader id)
  else if name = "begin" then some (.beginRead id)
  else if name = "read" then some (.readStep id)
  else if name = "check" then some (.checkHW id)
  else if name = "wait" then some (.registerWait id)
  else if name = "resync" then some (.resync id)
  else if name = "cancel" then some (.cancel id)
  else none

def hwStep (st : HWSt) (toks : List String) : HWSt × String :=
  let apply (op : Op) : HWSt × String :=
    let st' := { st with s := step st.s op }
    (st', "ok | " ++ showHW st')
  match toks with
  | ["begin", m] =>
    match m.toInt? with
    | some m => let st' : HWSt := { s := State.init (CLog.init m false), ids := [] }; (st', "ok | " ++ showHW st')
    | none => (st, "bad-op")
  | "append" :: e :: t :: msgs =>
    match e.toNat?, t.toInt? with
    | some e, some t =>
      match mapIdxM (parseMsg t e) 0 msgs with
      | some ms =>
        -- the leader's Append: stamp offsets at the log end (after the split check; refused when read-only)
        if st.s.log.readonly then (st, "err readonly | " ++ showHW st) else
        let base := st.s.log.nextOffset
        let rs := (List.range ms.length).zipWith (fun (i : Nat) (m : CLog.Msg) =>
          ({ offset := base + i, ts := m.ts, epoch := m.epoch, body := m.body } : Rec)) ms
        apply (.append rs)
      | none => (st, "bad-op")
    | _, _ => (st, "bad-op")
  | "appendset" :: recs =>
    match recs.mapM parseRec with
    | some rs => apply (.append rs)
    | none => (st, "bad-op")
  | ["roll"] => apply .roll
  | ["sethw", h] =>
    match h.toInt? with
    | some h => apply (.setHW h)
    | none => (st, "bad-op")
  | ["followerhw", h] =>
    match h.toInt? with
    | some h => apply (.followerHW h)
    | none => (st, "bad-op")
  | ["readonly", b] => if b = "1" ∨ b = "0" then apply (.setReadonly (b = "1")) else (st, "bad-op")
  | ["reader", id, start] =>
    -- NewReader as one call: sample + construct
    match id.toNat?, start.toInt? with
    | some id, some start =>
      if (st.s.readers id).isSome ∨ start < 0 then (st, "bad-op") else
      let s1 := step (step st.s (.newReader id start)) (.initReader id)
      let st' := { s := s1, ids := st.ids ++ [id] }
      (st', "ok " ++ ((s1.readers id).map (showReader id)).getD "-")
    | _, _ => (st, "bad-op")
  | ["newreader", id, start] =>
    -- only the HW sample (fine-grained schedules)
    match id.toNat?, start.toInt? with
    | some id, some start =>
      if (st.s.readers id).isSome ∨ start < 0 then (st, "bad-op") else
      let st' := { s := step st.s (.newReader id start), ids := st.ids ++ [id] }
      (st', "ok | " ++ showHW st')
    | _, _ => (st, "bad-op")
  | ["step", name, id] =>
    match id.toNat? with
    | some id =>
      match parseReaderOp name id with
      | some op => apply op
      | none => (st, "bad-op")
    | none => (st, "bad-op")
  | ["rstep", name, id] =>
    -- one step of reader `id` of the stepped schedules, answered with the reader's line
    match id.toNat? with
    | some id =>
      let s' : Option HWReader.State :=
        if name = "advance" then
          (st.s.readers id).map fun r => advance id r.delivered.length 100000 st.s
        else if name = "none" then some st.s   -- a parked or dead reader is scheduled: nothing happens
        else (parseReaderOp name id).map (step st.s)
      match s' with
      | some s' =>
        let st' := { st with s := s' }
        (st', "ok " ++ ((s'.readers id).map (showReader id)).getD "-" ++ " | " ++ showHW st')
      | none => (st, "bad-op")
    | none => (st, "bad-op")
  | ["next", id] =>
    -- the reader's next operation, whatever it is (a parked or dead reader does nothing)
    match id.toNat? with
    | some id =>
      match (st.s.readers id).bind (fun r => nextOp id r.phase) with
      | some op => apply op
      | none => (st, "ok | " ++ showHW st)
    | none => (st, "bad-op")
  | ["settle"] =>
    let st' := settleAll st 1000000
    (st', "ok " ++ showReaders st' ++ " | " ++ showHW st')
  | ["readers"] => (st, "ok " ++ showReaders st ++ " | " ++ showHW st)
  | ["state"] => (st, "ok | " ++ showState st.s.log)
  | _ => (st, "bad-op")

end Liftbridge.Driver
