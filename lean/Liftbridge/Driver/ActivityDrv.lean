/- Line-protocol front end of the activity-stream model (C18, see harness/server/zz_verif_c18_test.go).

  c18 begin <ackNone 0|1>                 new empty state
  c18 commit <cmd 0|1> <op> <noMembers>   a committed Raft entry (cmd 0: noop / barrier / configuration);
                                          answers `ok idx=<raft index> ev=<activity op|->`
  c18 dispatch <who> <pubfail|appended|recorded|ok|lost>   one iteration of a dispatch goroutine
                                          (who 0: the controller's, k+1: stale goroutine k)
  c18 leader <view|-> <linger 0|1>        controller change (view: snapshot index the new FSM was restored from)
  c18 restart
  c18 snapshot <idx> <floor>
  c18 state
  c18 restored <snap>                     what a restart from a snapshot at <snap> would recompute
  c18 table                               the regenerated event table

Answers: `ok <state>` / `err <enum>` (step not enabled, state unchanged); state =
`len=<n> floor=<n> snap=<n> lp=<n> disp=<next>:<holding>|- zombies=<next>:<h>,…|- crashed=<0|1> ids=<id,id,…|->`. -/
import Liftbridge.Model.Activity

namespace Liftbridge.Driver
open Liftbridge Liftbridge.Activity

structure ActivitySt where
  s : State := {}

def b01 (b : Bool) : String := if b then "1" else "0"

def parse01 (t : String) : Option Bool :=
  if t = "1" then some true else if t = "0" then some false else none

def showDisp (d : Disp) : String := s!"{d.next}:{b01 d.holding}"

def dashA (s : String) : String := if s.isEmpty then "-" else s

def showActivity (s : State) : String :=
  let disp := match s.dispatcher with
    | some d => showDisp d
    | none => "-"
  s!"len={s.raft.length} floor={s.floor} snap={s.snap} lp={s.lastPublished} disp={disp} " ++
  s!"zombies={dashA (",".intercalate (s.zombies.map showDisp))} crashed={b01 s.crashed} " ++
  s!"ids={dashA (",".intercalate ((ids s).map toString))}"

def parseOutcome : String → Option Outcome
  | "pubfail" => some .pubFail
  | "appended" => some .appended
  | "recorded" => some .recorded
  | "ok" => some .ok
  | "lost" => some .lost
  | _ => none

def activityStep (st : ActivitySt) (toks : List String) : ActivitySt × String :=
  let apply (x : Step) : ActivitySt × String :=
    match stepE st.s x with
    | .ok s' => ({ s := s' }, "ok " ++ showActivity s')
    | .err e => (st, "err " ++ e)
    | .panic => (st, "panic")
  match toks with
  | ["begin", a] =>
    match parse01 a with
    | some a => ({ s := init a }, "ok " ++ showActivity (init a))
    | none => (st, "bad-op")
  | ["commit", c, o, m] =>
    match parse01 c, o.toNat?, parse01 m with
    | some c, some o, some m =>
      let e : Entry := { cmd := c, op := o, arg := 0, noMembers := m }
      match stepE st.s (.commit e) with
      | .ok s' =>
        let ev := match eventOf e with
          | some a => toString a
          | none => "-"
        ({ s := s' }, s!"ok idx={s'.raft.length} ev={ev}")
      | .err x => (st, "err " ++ x)
      | .panic => (st, "panic")
    | _, _, _ => (st, "bad-op")
  | ["dispatch", w, o] =>
    match w.toNat?, parseOutcome o with
    | some w, some o => apply (.dispatch w o)
    | _, _ => (st, "bad-op")
  | ["leader", v, l] =>
    match parse01 l with
    | some l =>
      if v = "-" then apply (.leaderChange none l) else
      match v.toNat? with
      | some v => apply (.leaderChange (some v) l)
      | none => (st, "bad-op")
    | none => (st, "bad-op")
  | ["restart"] => apply .restart
  | ["snapshot", i, f] =>
    match i.toNat?, f.toNat? with
    | some i, some f => apply (.snapshot i f)
    | _, _ => (st, "bad-op")
  | ["state"] => (st, "ok " ++ showActivity st.s)
  | ["restored", v] =>
    match v.toNat? with
    | some v => (st, s!"ok {restored v st.s.raft}")
    | none => (st, "bad-op")
  | ["table"] =>
    let cs := Gen.Activity.eventCases.map fun (o, a, g) => s!"{o}:{a}:{b01 g}"
    (st, s!"ok pa={Gen.Activity.opPublishActivity} carries={b01 Gen.Activity.snapshotCarriesLastPublished} " ++
         s!"panics={b01 Gen.Activity.getLogErrorPanics} cases={",".intercalate cs}")
  | _ => (st, "bad-op")

end Liftbridge.Driver
