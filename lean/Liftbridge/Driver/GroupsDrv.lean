/- Line-protocol front end of the consumer-group model (C12, see harness/server/zz_verif_c12_test.go).

  c12 begin <stream=parts,…|-> [epoch]   new empty group; answers the state
  c12 setparts <stream=parts,…|->        change the partition-count function (stream deleted /
                                         re-created at the metadata level); answers the state
  c12 join <id> <epoch> <s,s,…|->        AddMember
  c12 leave <id> <epoch>                 RemoveMember
  c12 deleted <stream> <epoch>           StreamDeleted
  c12 get <id> <epoch>                   GetAssignments (coordinator)
  c12 pop                                drop the newest state (every op pushes one, refused ops
                                         push the unchanged state) — depth-first enumeration
  c12 state
  c12 async                              regenerated fact: is StreamDeleted sent from a goroutine?

Answers: `ok <state>` / `err <enum>`; state = `e=<epoch> m=<members> s=<subscribers>`, members
sorted by id as `id{streams}[stream:p.p|stream:p]#count`, subscribers sorted by stream as
`stream:id,id`, `-` for an empty collection. -/
import Liftbridge.Model.Groups

namespace Liftbridge.Driver
open Liftbridge Liftbridge.Groups

structure GroupsSt where
  parts : List (String × Nat) := []
  stack : List Group := []

def partsFn (l : List (String × Nat)) (s : String) : Nat :=
  match l.find? (·.1 = s) with
  | some (_, n) => n
  | none => 0

def parseParts (tok : String) : Option (List (String × Nat)) :=
  if tok = "-" then some [] else
  (tok.splitOn ",").mapM fun kv =>
    match kv.splitOn "=" with
    | [k, v] => do
      let n ← v.toNat?
      if k.isEmpty then none else pure (k, n)
    | _ => none

def parseList (tok : String) : Option (List String) :=
  if tok = "-" then some [] else
  let l := tok.splitOn ","
  if l.any (·.isEmpty) then none else some l

def dash (s : String) : String := if s.isEmpty then "-" else s

def showAsg (a : Asg) : String :=
  let a := a.mergeSort (fun x y => decide (x.1 ≤ y.1))
  "|".intercalate (a.map fun (k, v) => k ++ ":" ++ ".".intercalate (v.map toString))

def showCons (c : Cons) : String :=
  c.id ++ "{" ++ ",".intercalate c.streams ++ "}[" ++ showAsg c.asg ++ "]#" ++ toString c.count

def showGroup (g : Group) : String :=
  let ms := g.members.mergeSort (fun x y => decide (x.id ≤ y.id))
  let ss := g.subs.mergeSort (fun x y => decide (x.1 ≤ y.1))
  let subs := ss.map fun (k, v) => k ++ ":" ++ ",".intercalate (v.mergeSort (fun x y => decide (x ≤ y)))
  s!"e={g.epoch} m={dash (";".intercalate (ms.map showCons))} s={dash (";".intercalate subs)}"

def groupsStep (st : GroupsSt) (toks : List String) : GroupsSt × String :=
  let cur : Group := st.stack.headD {}
  let apply (r : Res Group) : GroupsSt × String :=
    match r with
    | .ok g => ({ st with stack := g :: st.stack }, "ok " ++ showGroup g)
    | .err e => ({ st with stack := cur :: st.stack }, "err " ++ e)
    | .panic => ({ st with stack := cur :: st.stack }, "panic")
  match toks with
  | ["begin", p] =>
    match parseParts p with
    | some parts => ({ parts := parts, stack := [Group.new 0] }, "ok " ++ showGroup (Group.new 0))
    | none => (st, "bad-op")
  | ["begin", p, e] =>
    match parseParts p, e.toNat? with
    | some parts, some e => ({ parts := parts, stack := [Group.new e] }, "ok " ++ showGroup (Group.new e))
    | _, _ => (st, "bad-op")
  | ["setparts", p] =>
    match parseParts p with
    | some parts => ({ st with parts := parts }, "ok " ++ showGroup cur)
    | none => (st, "bad-op")
  | ["join", id, e, ss] =>
    match e.toNat?, parseList ss with
    | some e, some ss => apply (join (partsFn st.parts) cur id ss e)
    | _, _ => (st, "bad-op")
  | ["leave", id, e] =>
    match e.toNat? with
    | some e => apply (leave (partsFn st.parts) cur id e)
    | none => (st, "bad-op")
  | ["deleted", s, e] =>
    match e.toNat? with
    | some e => apply (streamDeleted (partsFn st.parts) cur s e)
    | none => (st, "bad-op")
  | ["get", id, e] =>
    match e.toNat? with
    | some e =>
      match getAssignments cur id e with
      | .ok a => (st, "ok " ++ dash (showAsg a))
      | .err x => (st, "err " ++ x)
      | .panic => (st, "panic")
    | none => (st, "bad-op")
  | ["pop"] =>
    match st.stack with
    | _ :: rest@(_ :: _) => ({ st with stack := rest }, "ok")
    | _ => (st, "bad-op")
  | ["state"] => (st, "ok " ++ showGroup cur)
  | ["async"] => (st, "ok " ++ toString Gen.Groups.streamDeletedInGoroutine)
  | _ => (st, "bad-op")

end Liftbridge.Driver
