/- Line-protocol front end of the leadership/failover model (C07, see harness/server/zz_verif_c07_test.go).

  c07 begin [fixed|asfound|code]          empty controller; the structural facts to use (default: code)
  c07 cfg                                 the regenerated structural facts
  c07 create <p> <r,r,…> <leader> <idx>   stream creation applied at Raft index idx (ISR = replicas)
  c07 remove <p> <idx>                    stream deletion applied at idx
  c07 report <p> <replica> <leader> <le> <choice|->   ReportLeader up to the proposal
  c07 shrink <p> <replica> <leader> <le>  ShrinkISR up to the proposal
  c07 expand <p> <replica> <leader> <le>  ExpandISR up to the proposal
  c07 commit <k> <idx>                    precondition + apply of the k-th in-flight request at idx
  c07 expire <p>                          the expiry timer fires
  c07 lost                                LostLeadership
  c07 state <p>

Answers: `<outcome> | <state of the partition concerned>`; Raft indices are absolute and must
increase (`bad-index` otherwise). State: `L=<leader> le=<leaderEpoch> e=<epoch> isr=<sorted>
rep=<sorted> fo=<-|witnesses(sorted):armed|stopped> fl=<in-flight requests>` or `none fo=… fl=…`. -/
import Liftbridge.Model.Failover

namespace Liftbridge.Driver
open Liftbridge Liftbridge.Failover

structure FailoverSt where
  cfg : Cfg := Cfg.code
  ctl : Ctl := {}

def c07List (tok : String) : Option (List String) :=
  if tok = "-" then some [] else
  let l := tok.splitOn ","
  if l.any (·.isEmpty) then none else some l

def c07Sorted (l : List String) : String :=
  if l.isEmpty then "-" else ",".intercalate (l.mergeSort (fun x y => decide (x ≤ y)))

def c07Why : Why → String
  | .noPartition => "no-partition"
  | .stale => "stale"
  | .leaderRemoval => "leader-removal"
  | .notReplica => "not-replica"
  | .candidateGone => "candidate-gone"

def c07Out : Out → String
  | .recorded => "recorded"
  | .triggered c => "triggered " ++ c
  | .noCandidates => "no-candidates"
  | .accepted => "accepted"
  | .refused w => "refused " ++ c07Why w
  | .applied => "applied"
  | .idempotent => "idempotent"
  | .done => "done"
  | .notArmed => "not-armed"
  | .panic => "panic"
  | .dead => "dead"
  | .illegal => "illegal"

def c07State (s : Ctl) (p : PKey) : String :=
  let fo := match s.fos p with
    | none => "-"
    | some f => c07Sorted f.witnesses ++ ":" ++ (if f.armed then "armed" else "stopped")
  let tail := s!" fo={fo} fl={s.inflight.length}" ++ (if s.crashed then " CRASHED" else "")
  match s.parts p with
  | none => "none" ++ tail
  | some pt => s!"L={pt.leader} le={pt.leaderEpoch} e={pt.epoch} isr={c07Sorted pt.isr} rep={c07Sorted pt.replicas}" ++ tail

def c07OpPart : Op → PKey
  | .shrink p _ _ _ => p
  | .expand p _ _ _ => p
  | .change p _ _ _ => p

def c07Bool (b : Bool) : String := if b then "1" else "0"

def failoverStep (st : FailoverSt) (toks : List String) : FailoverSt × String :=
  let s := st.ctl
  let fin (r : Ctl × Out) (p : PKey) : FailoverSt × String :=
    ({ st with ctl := r.1 }, c07Out r.2 ++ " | " ++ c07State r.1 p)
  let gapOf (idx : Nat) : Option Nat := if idx > s.index then some (idx - s.index - 1) else none
  -- an index that does not increase is only an error when the step appends an entry
  let finIdx (idx : Nat) (mk : Nat → Step) (p : PKey) : FailoverSt × String :=
    match gapOf idx with
    | some g => fin (step st.cfg s (mk g)) p
    | none =>
      let r := step st.cfg s (mk 0)
      if r.1.index = s.index then fin r p else (st, "bad-index")
  match toks with
  | ["begin"] => ({ cfg := Cfg.code, ctl := {} }, "ok")
  | ["begin", "code"] => ({ cfg := Cfg.code, ctl := {} }, "ok")
  | ["begin", "fixed"] => ({ cfg := Cfg.fixed, ctl := {} }, "ok")
  | ["begin", "asfound"] => ({ cfg := Cfg.asFound, ctl := {} }, "ok")
  | ["cfg"] =>
    let c := Cfg.code
    (st, s!"ok dropOnTrigger={c07Bool c.dropOnTrigger} dropOnChange={c07Bool c.dropOnChange} followerOnly={c07Bool c.followerOnly} underLock={c07Bool c.underLock} shrinkNotLeader={c07Bool c.shrinkNotLeader} replicaOnly={c07Bool c.replicaOnly}")
  | ["create", p, rs, l, idx] =>
    match c07List rs, idx.toNat? with
    | some rs, some idx => finIdx idx (fun g => .create p rs l g) p
    | _, _ => (st, "bad-op")
  | ["remove", p, idx] =>
    match idx.toNat? with
    | some idx => finIdx idx (fun g => .remove p g) p
    | none => (st, "bad-op")
  | ["report", p, r, l, e, c] =>
    match e.toNat? with
    | some e => fin (step st.cfg s (.report p r l e c)) p
    | none => (st, "bad-op")
  | ["shrink", p, r, l, e] =>
    match e.toNat? with
    | some e => fin (step st.cfg s (.reqShrink p r l e)) p
    | none => (st, "bad-op")
  | ["expand", p, r, l, e] =>
    match e.toNat? with
    | some e => fin (step st.cfg s (.reqExpand p r l e)) p
    | none => (st, "bad-op")
  | ["commit", k, idx] =>
    match k.toNat?, idx.toNat? with
    | some k, some idx =>
      let p := match s.inflight[k]? with
        | some op => c07OpPart op
        | none => "-"
      finIdx idx (fun g => .commit k g) p
    | _, _ => (st, "bad-op")
  | ["expire", p] => fin (step st.cfg s (.expire p)) p
  | ["lost"] => let r := step st.cfg s .lostLeadership; ({ st with ctl := r.1 }, c07Out r.2)
  | ["state", p] => (st, "ok | " ++ c07State s p)
  | _ => (st, "bad-op")

end Liftbridge.Driver
