/-
Line-protocol driver (`lbmodel`): one operation per input line, one output line per
operation. The first token selects the model. Unparseable operations answer `bad-op`
(never a default). State of stateful models lives in `St` and is reset by `<model> begin`.
-/
import Liftbridge.Base
import Liftbridge.Driver.Crc
import Liftbridge.Model.Envelope
import Liftbridge.Driver.LogDrv
import Liftbridge.Driver.TelemetryDrv
import Liftbridge.Driver.AuthzDrv
import Liftbridge.Driver.GroupsDrv
import Liftbridge.Driver.SealDrv
import Liftbridge.Driver.GroupSubDrv
import Liftbridge.Driver.ActivityDrv
import Liftbridge.Driver.FailoverDrv
import Liftbridge.Driver.MetadataDrv
import Liftbridge.Driver.RecoverDrv
import Liftbridge.Driver.ProtoDrv
import Liftbridge.Driver.CodecDrv
import Liftbridge.Driver.CursorsDrv
import Liftbridge.Driver.HWReaderDrv
import Liftbridge.Driver.PipelineDrv
import Liftbridge.Driver.GoMiniDrv

namespace Liftbridge.Driver
open Liftbridge

structure St where
  log : LogSt := {}
  groups : GroupsSt := {}
  groupSub : GroupSubSt := {}
  activity : ActivitySt := {}
  failover : FailoverSt := {}
  metadata : MetaSt := {}
  recov : RecSt := {}
  proto : ProtoSt := {}
  cursors : CursorsSt := {}
  hw : HWSt := {}
  pipe : PipeSt := {}

def showRes {α} (f : α → String) : Res α → String
  | .ok a => "ok " ++ f a
  | .err e => "err " ++ e
  | .panic => "panic"

def c14 (toks : List String) : String :=
  match toks with
  | ["check", d, ty] =>
    match fromHex d, ty.toNat? with
    | some data, some t => showRes toHex (Envelope.check crc32c data (UInt8.ofNat t))
    | _, _ => "bad-op"
  | ["repl", d] =>
    match fromHex d with
    | some data => showRes (fun (e, h, b) => s!"{e} {h} {toHex b}") (Envelope.unmarshalReplResp crc32c data)
    | none => "bad-op"
  | ["classify", d, pbok] =>
    match fromHex d with
    | some data =>
      let dec : Bytes → Option Unit := fun _ => if pbok = "1" then some () else none
      showRes (fun c => match c with
        | .envelope _ => "envelope"
        | .raw v => "raw " ++ toHex v) (Envelope.classify crc32c dec data)
    | none => "bad-op"
  | ["marshal", d, ty] =>
    match fromHex d, ty.toNat? with
    | some data, some t => "ok " ++ toHex (Envelope.marshal data (UInt8.ofNat t))
    | _, _ => "bad-op"
  | _ => "bad-op"

def step (st : St) (line : String) : St × String :=
  match (line.splitOn " ").filter (· ≠ "") with
  | "c14" :: rest => (st, c14 rest)
  | "gomini" :: rest => (st, gominiStep rest)
  | "c19" :: rest => (st, c19 rest)
  | "c15" :: rest => (st, c15Step rest)
  | "c17" :: rest => (st, c17 rest)
  | "c03" :: rest => let (h, out) := hwStep st.hw rest; ({ st with hw := h }, out)
  | "c11" :: rest => let (c, out) := cursorsStep st.cursors rest; ({ st with cursors := c }, out)
  | "codec" :: rest => (st, codecStep rest)
  | "c04p" :: rest => let (p, out) := pipeStep st.pipe rest; ({ st with pipe := p }, out)
  | "proto" :: rest => let (p, out) := protoStep st.proto rest; ({ st with proto := p }, out)
  | "c05" :: rest => let (r, out) := recStep st.recov rest; ({ st with recov := r }, out)
  | "c06" :: rest => let (m, out) := metaStep st.metadata rest; ({ st with metadata := m }, out)
  | "c07" :: rest => let (f, out) := failoverStep st.failover rest; ({ st with failover := f }, out)
  | "c18" :: rest => let (a, out) := activityStep st.activity rest; ({ st with activity := a }, out)
  | "c13" :: rest => let (g, out) := groupSubStep st.groupSub rest; ({ st with groupSub := g }, out)
  | "c12" :: rest => let (g, out) := groupsStep st.groups rest; ({ st with groups := g }, out)
  | "log" :: rest => let (l, out) := logStep st.log rest; ({ st with log := l }, out)
  | _ => (st, "bad-op")

partial def loop (hin hout : IO.FS.Stream) (st : St) : IO Unit := do
  let line ← hin.getLine
  if line.isEmpty then return ()
  let l := String.ofList (line.toList.filter (fun c => c ≠ '\n' && c ≠ '\r'))
  let (st', out) := step st l
  hout.putStrLn out
  hout.flush
  loop hin hout st'

end Liftbridge.Driver

def main : IO Unit := do
  Liftbridge.Driver.loop (← IO.getStdin) (← IO.getStdout) {}
