/- Line-protocol front end of the commit-log model (see harness/commitlog). -/
import Liftbridge.Model.Log
import Liftbridge.Model.Compact
import Liftbridge.Model.Subscribe
import Liftbridge.Model.Sequencer
import Liftbridge.Driver.Crc

namespace Liftbridge.Driver
open Liftbridge Liftbridge.Log

def fnv1a (b : Bytes) : Nat :=
  (b.foldl (fun (h : UInt32) x => (h ^^^ x.toUInt32) * 16777619) 2166136261).toNat

/-- Bytes for output: short strings in hex, long ones as `#len.fnv`. -/
def showBytes : Option Bytes → String
  | none => "-"
  | some b => if b.length > 24 then s!"#{b.length}.{fnv1a b}" else toHex b

def parseBytes (s : String) : Option (Option Bytes) :=
  -- `*n.x` = n bytes all equal to x (large payloads without large lines)
  if s.startsWith "*" then
    match (s.drop 1).toString.splitOn "." with
    | [n, x] => match n.toNat?, x.toNat? with
      | some n, some x => some (some (List.replicate n (UInt8.ofNat x)))
      | _, _ => none
    | _ => none
  else fromHexOpt s

def parseHdrs (s : String) : Option (List (String × Option Bytes)) :=
  if s = "_" then some [] else
  (s.splitOn ";").mapM fun kv =>
    match kv.splitOn "~" with
    | [k, v] => do
      let kb ← (← parseBytes k)
      let vb ← parseBytes v
      pure (String.fromUTF8! (ByteArray.mk kb.toArray), vb)
    | _ => none

def showHdrs (h : List (String × Option Bytes)) : String :=
  if h.isEmpty then "_" else
  ";".intercalate (h.map fun (k, v) => toHex k.toUTF8.toList ++ "~" ++ showBytes v)

def parsePayload (k v h : String) : Option Payload := do
  let key ← parseBytes k
  let val ← parseBytes v
  let hdrs ← parseHdrs h
  pure { key := key, val := val, hdrs := hdrs }

def showRec (r : Rec) : String :=
  s!"{r.offset}:{r.ts}:{r.epoch}:{showBytes r.body.key}:{showBytes r.body.val}:{showHdrs r.body.hdrs}"

def showRecs (rs : List Rec) : String := " ".intercalate (rs.map showRec)

def showSeg (s : Seg) : String :=
  s!"{s.base}:{s.firstOffset}:{s.lastOffset}:{s.count}:{s.position}:{s.lastTs}"

def showState (l : CLog) : String :=
  let segs := ",".intercalate (l.segs.map showSeg)
  let ep := ",".intercalate (l.epochs.map fun (e, o) => s!"{e}@{o}")
  s!"new={l.newest} old={l.oldest} hw={l.hw} ro={if l.readonly then 1 else 0} segs={segs} ep={ep}"

def parseMsg (ts : Int) (epoch : Nat) (i : Nat) (tok : String) : Option CLog.Msg :=
  match tok.splitOn "/" with
  | [k, v, h, e] => do
    let body ← parsePayload k v h
    let ex ← e.toInt?
    pure { ts := ts + i, epoch := epoch, body := body, expected := ex }
  | _ => none

def parseRec (tok : String) : Option Rec :=
  match tok.splitOn "/" with
  | [o, t, e, k, v, h] => do
    let body ← parsePayload k v h
    pure { offset := ← o.toInt?, ts := ← t.toInt?, epoch := ← e.toNat?, body := body }
  | _ => none

def mapIdxM {α β} (f : Nat → α → Option β) : Nat → List α → Option (List β)
  | _, [] => some []
  | i, a :: as => do
    let b ← f i a
    let bs ← mapIdxM f (i + 1) as
    pure (b :: bs)

def showOffs (o : List Int) : String := "[" ++ ",".intercalate (o.map toString) ++ "]"

/-- Cleaner configuration of the log under test (Options.MaxLog*, Compact). -/
structure CleanCfg where
  lim : Retention.Limits := ⟨0, 0, 0⟩
  compact : Bool := false
  deriving Inhabited

def parseCfg (cfg : CleanCfg) : List String → Option CleanCfg
  | [] => some cfg
  | kv :: rest =>
    match kv.splitOn "=" with
    | [k, v] =>
      match v.toInt? with
      | some n =>
        if k = "compact" then parseCfg { cfg with compact := n = 1 } rest
        else if k = "workers" then parseCfg cfg rest
        else if k = "maxbytes" then parseCfg { cfg with lim := { cfg.lim with bytes := n } } rest
        else if k = "maxmsgs" then parseCfg { cfg with lim := { cfg.lim with msgs := n } } rest
        else if k = "maxage" then parseCfg { cfg with lim := { cfg.lim with age := n } } rest
        else none
      | none => none
    | _ => none

def logStep' (cfg : CleanCfg) (l : CLog) (toks : List String) : CLog × String :=
  match toks with
  | "append" :: e :: t :: msgs =>
    match e.toNat?, t.toInt? with
    | some e, some t =>
      match mapIdxM (parseMsg t e) 0 msgs with
      | some ms =>
        match l.append ms with
        | .ok (l', offs) => (l', s!"ok {showOffs offs} | " ++ showState l')
        | .err er => (l.checkSplitIfWritable, s!"err {er} | " ++ showState l.checkSplitIfWritable)
        | .panic => (l, "panic")
      | none => (l, "bad-op")
    | _, _ => (l, "bad-op")
  | "appendset" :: recs =>
    match recs.mapM parseRec with
    | some rs =>
      match l.appendSet rs with
      | .ok (l', offs) => (l', s!"ok {showOffs offs} | " ++ showState l')
      | .err er => (l, s!"err {er} | " ++ showState l)
      | .panic => (l, "panic")
    | none => (l, "bad-op")
  | ["truncate", o] =>
    match o.toInt? with
    | some o => let l' := l.truncate o; (l', "ok | " ++ showState l')
    | none => (l, "bad-op")
  | ["sethw", o] =>
    match o.toInt? with
    | some o => let l' := l.setHW o; (l', "ok | " ++ showState l')
    | none => (l, "bad-op")
  | ["newepoch", e] =>
    match e.toNat? with
    | some e => let l' := l.newLeaderEpoch e; (l', "ok | " ++ showState l')
    | none => (l, "bad-op")
  | ["lastoff", e] =>
    match e.toNat? with
    | some e => (l, s!"ok {l.lastOffsetForLeaderEpoch e}")
    | none => (l, "bad-op")
  | ["reopen"] => let l' := l.reopen; (l', "ok | " ++ showState l')
  | ["readonly", b] => let l' := { l with readonly := b = "1" }; (l', "ok | " ++ showState l')
  | ["read", o, mode] =>
    match o.toInt? with
    | some o =>
      let r := if mode = "u" then l.readUncommitted o else l.readCommitted o
      (l, showRes showRecs r)
    | none => (l, "bad-op")
  | ["state"] => (l, "ok | " ++ showState l)
  | ["roll"] => let l' := if l.active.recs.isEmpty then l else l.roll; (l', "ok | " ++ showState l')
  | ["clean", ttl] =>
    match ttl.toInt? with
    | some ttl => let l' := Compact.cleanLog cfg.lim ttl cfg.compact l; (l', "ok | " ++ showState l')
    | none => (l, "bad-op")
  | _ => (l, "bad-op")
where
  showRes {α} (f : α → String) : Res α → String
    | .ok a => "ok " ++ f a
    | .err e => "err " ++ e
    | .panic => "panic"

structure LogSt where
  cfg : CleanCfg := {}
  l : CLog := CLog.init 1024 false
  sub : Option Subscribe.Sub := none
  readers : List (String × Int × Bool) := []     -- live readers: id, next offset, uncommitted?
  deriving Inhabited

def showRecBrief (r : Rec) : String :=
  s!"{r.offset}:{r.ts}:{showBytes r.body.key}:{showBytes r.body.val}"

def showEnding : Subscribe.Ending → String
  | .waiting => "waiting"
  | .status s => "status " ++ s

def parseStart (s : String) : Option Subscribe.StartPos :=
  match s.splitOn ":" with
  | ["e"] => some .earliest
  | ["l"] => some .latest
  | ["n"] => some .newOnly
  | ["o", n] => n.toInt?.map .offset
  | ["t", n] => n.toInt?.map .timestamp
  | _ => none

def parseStop (s : String) : Option Subscribe.StopPos :=
  match s.splitOn ":" with
  | ["c"] => some .onCancel
  | ["l"] => some .latest
  | ["o", n] => n.toInt?.map .offset
  | ["t", n] => n.toInt?.map .timestamp
  | _ => none

/-- Split a token list at "+" tokens. -/
def splitGroups : List String → List (List String)
  | [] => [[]]
  | t :: ts =>
    match splitGroups ts with
    | [] => [[t]]
    | g :: gs => if t = "+" then [] :: g :: gs else (t :: g) :: gs

def logStep (st : LogSt) (toks : List String) : LogSt × String :=
  match toks with
  | "begin" :: m :: occ :: kvs =>
    match m.toInt?, parseCfg {} kvs with
    | some m, some cfg => let l := CLog.init m (occ = "1"); ({ cfg := cfg, l := l }, "ok | " ++ showState l)
    | _, _ => (st, "bad-op")
  | ["sub", a, b, rev] =>
    match parseStart a, parseStop b with
    | some sa, some sb =>
      match Subscribe.create st.l { start := sa, stop := sb, reverse := rev = "1" } with
      | .refused status => ({ st with sub := none }, "refused " ++ status)
      | .live d e sub => ({ st with sub := some sub }, s!"ok {" ".intercalate (d.map showRecBrief)} | {showEnding e}")
    | _, _ => (st, "bad-op")
  | ["drain"] =>
    match st.sub with
    | none => (st, "err no-subscription")
    | some sub =>
      let (d, e, sub') := Subscribe.drain st.l sub
      ({ st with sub := some sub' }, s!"ok {" ".intercalate (d.map showRecBrief)} | {showEnding e}")
  | ["dump"] => (st, "ok " ++ " ".intercalate (st.l.abs.map showRecBrief))
  | "seq" :: bm :: e :: t :: msgs =>
    -- C16 (server level): one round of the partition leader's sequencer on the batch it formed:
    -- `[illegal-batch limit=n ; ]<Append outcome> ; <what each publisher hears> | state`
    match bm.toNat?, e.toNat?, t.toInt? with
    | some bm, some e, some t =>
      match mapIdxM (parseMsg t e) 0 msgs with
      | some ms =>
        let (l', ans) := Sequencer.stepBatch st.l ms
        let outcome := match st.l.append ms with
          | .ok (_, offs) => s!"ok {showOffs offs}"
          | .err er => s!"err {er}"
          | .panic => "panic"
        let legal := if Sequencer.legalBatch st.l.occ bm ms then ""
          else s!"illegal-batch limit={max 1 (Sequencer.batchLimit st.l.occ bm)} ; "
        let showAns : Sequencer.Answer → String
          | .ack o => s!"ack@{o}"
          | .nack er => s!"nack:{er}"
          | .silent => "silent"
        ({ st with l := l' }, s!"{legal}{outcome} ; {" ".intercalate (ans.map (fun a => showAns a.2))} | " ++ showState l')
      | none => (st, "bad-op")
    | _, _, _ => (st, "bad-op")
  | ["ropen", id, o, mode] =>
    match o.toInt? with
    | some o =>
      let u := mode = "u"
      let r := if u then st.l.readUncommitted o else st.l.readCommitted o
      -- a committed reader created beyond the HW (or on an empty log) parks and resumes at the
      -- message after the HW it saw (newReaderCommitted)
      let o' := if !u && (o > st.l.hw || st.l.oldest = -1) then st.l.hw + 1 else o
      match r with
      | .ok _ => ({ st with readers := (id, o', u) :: st.readers.filter (·.1 ≠ id) }, "ok")
      | _ => (st, "err")
    | none => (st, "bad-op")
  | ["rnext", id, n] =>
    match st.readers.find? (·.1 = id), n.toNat? with
    | some (_, next, u), some n =>
      -- a live reader continues behind what it delivered; if its segment was replaced or
      -- removed meanwhile it re-initialises at that offset
      if next > (if u then st.l.newest else st.l.hw) then (st, "ok ") else
      let r := if u then st.l.readUncommitted next else st.l.readCommitted next
      match r with
      | .ok rs =>
        let d := rs.take n
        let next' := match d.getLast? with | some r => r.offset + 1 | none => next
        ({ st with readers := (id, next', u) :: st.readers.filter (·.1 ≠ id) }, "ok " ++ showRecs d)
      | _ => (st, "err")
    | _, _ => (st, "bad-op")
  | ["rwait", id] =>
    -- a live reader starts a BLOCKING read (it parks on the HW when nothing is readable yet); the
    -- model's readers have no thread of their own: the read is answered by the matching `rjoin`
    match st.readers.find? (·.1 = id) with
    | some _ => (st, "ok")
    | none => (st, "bad-op")
  | ["rjoin", id] =>
    -- what the blocking read returns once something is readable: the next retained message
    match st.readers.find? (·.1 = id) with
    | some (_, next, u) =>
      if next > (if u then st.l.newest else st.l.hw) then (st, "ok ") else
      let r := if u then st.l.readUncommitted next else st.l.readCommitted next
      match r with
      | .ok rs =>
        let d := rs.take 1
        let next' := match d.getLast? with | some r => r.offset + 1 | none => next
        ({ st with readers := (id, next', u) :: st.readers.filter (·.1 ≠ id) }, "ok " ++ showRecs d)
      | _ => (st, "err")
    | none => (st, "bad-op")
  | "cleanmid" :: ttl :: e :: t :: rest =>
    match ttl.toInt?, e.toNat?, t.toInt? with
    | some ttl, some e, some t =>
      -- appends (groups separated by "+") happen right after Clean snapshotted the segment list
      let groups := (splitGroups rest).filter (fun g => !g.isEmpty)
      let n := st.l.segs.length
      let step := fun (acc : Option (CLog × Int)) (g : List String) =>
        match acc with
        | none => none
        | some (l, ts) =>
          match mapIdxM (parseMsg ts e) 0 g with
          | some ms => match l.append ms with
            | .ok (l', _) => some (l', ts + 10)
            | _ => none
          | none => none
      match groups.foldl step (some (st.l, t)) with
      | some (l1, _) =>
        let l' := Compact.cleanLogDuring st.cfg.lim ttl st.cfg.compact n l1
        ({ st with l := l' }, "ok | " ++ showState l')
      | none => (st, "bad-op")
    | _, _, _ => (st, "bad-op")
  | ["tsearliest", t] =>
    match t.toInt? with
    | some t => (st, match Subscribe.earliestAfterTs st.l t with | .ok o => s!"ok {o}" | .err e => "err " ++ e | .panic => "panic")
    | none => (st, "bad-op")
  | ["tslatest", t] =>
    match t.toInt? with
    | some t => (st, match Subscribe.latestBeforeTs st.l t with | .ok o => s!"ok {o}" | .err e => "err " ++ e | .panic => "panic")
    | none => (st, "bad-op")
  | ["revread", o] =>
    match o.toInt? with
    | some o => (st, match Subscribe.reverseRecs st.l o with | .ok rs => "ok " ++ " ".intercalate (rs.map showRecBrief) | .err e => "err " ++ e | .panic => "panic")
    | none => (st, "bad-op")
  | ["reopen"] =>
    -- closing the log ends every reader attached to it
    let (l, out) := logStep' st.cfg st.l toks; ({ st with l := l, readers := [] }, out)
  | _ => let (l, out) := logStep' st.cfg st.l toks; ({ st with l := l }, out)

end Liftbridge.Driver
