/- Line-protocol front end of the message codec model. -/
import Liftbridge.Model.Codec
import Liftbridge.Driver.LogDrv

namespace Liftbridge.Driver
open Liftbridge Liftbridge.Codec

def showRawHdrs (h : List (Bytes × Option Bytes)) : String :=
  -- Go builds a map: the last occurrence of a key wins; printed sorted by key bytes
  let dedup := h.foldl (fun acc kv => (acc.filter (fun x => x.1 ≠ kv.1)) ++ [kv]) []
  let sorted := dedup.toArray.qsort (fun a b => decide (a.1.map UInt8.toNat < b.1.map UInt8.toNat)) |>.toList
  if sorted.isEmpty then "_" else ";".intercalate (sorted.map fun (k, v) => toHex k ++ "~" ++ showBytes v)

def codecStep (toks : List String) : String :=
  match toks with
  | ["enc", k, v, h] =>
    match parsePayload k v h with
    | some p => "ok " ++ showBytes (some (encode crc32c (toWire p)))
    | none => "bad-op"
  | ["dec", d] =>
    match fromHex d with
    | some b =>
      match key b, value b, headers b with
      | .ok k, .ok v, .ok h => s!"ok {showBytes k} {showBytes v} {showRawHdrs h}"
      | _, _, _ => "panic"
    | none => "bad-op"
  | ["crc", d] =>
    match fromHex d with
    | some b => if crcOk crc32c b then "ok true" else "ok false"
    | none => "bad-op"
  | _ => "bad-op"

end Liftbridge.Driver
