/-
Line protocol for the group-subscription model (C13, correspondence with `partition.Subscribe` /
`subscription.Close` / the subscribe loop's clean-up on a real partition; see
harness/server/zz_verif_c13_test.go).

  c13 begin                          empty partition
  c13 sub <g|-> <c> <e> [ok|early|late]
                                     Subscribe with Consumer{GroupId g, ConsumerId c, GroupEpoch e}
                                     (`-` = no group). ok: valid request; early: start/stop validation
                                     fails; late: reader creation fails (after Close(previous))
                                     → `ok s<n>` | `refused` | `invalid` | `reader-failed`
  c13 cancel s<n>                    subscription.Close()        → `ok` | `no-such`
  c13 exit s<n>                      the loop goroutine returns   → `ok` | `no-such`
  c13 msg                            a message arrives: every closed loop that is still running
                                     notices and returns (ascending ids)      → `ok`
  c13 pop                            drop the newest state (every op above pushes one)
  c13 state
  c13 mode                           regenerated fact: `by-subscription` | `by-consumer-id`

Every answer except pop/mode is followed by ` | <state>`:
  reg <g>=<c>@<e>/s<n>,…  act <g>=s<n>+s<n>,…  loops s<n>:<g>:<c>:<e>:<c|-><x|->,…
(registered member per group; active subscription ids per group that ever had a subscription;
all subscriptions handed out; `-` for an empty collection or no group). -/
import Liftbridge.Model.GroupSub

namespace Liftbridge.Driver
open Liftbridge Liftbridge.GroupSub

structure GroupSubSt where
  stack : List State := []

def c13Dash (s : String) : String := if s.isEmpty then "-" else s

def c13SortStr (l : List String) : List String := l.mergeSort (fun a b => decide (a ≤ b))

def c13Dedup : List String → List String
  | a :: b :: rest => if a = b then c13Dedup (b :: rest) else a :: c13Dedup (b :: rest)
  | l => l

def c13Groups (s : State) : List String :=
  c13Dedup (c13SortStr ((s.loops.map (·.group)).filter (· ≠ "")))

def c13Show (s : State) : String :=
  let regGroups := c13Dedup (c13SortStr (s.consumers.map (·.1)))
  let reg := regGroups.filterMap fun g =>
    (lookup g s.consumers).map fun m => s!"{g}={m.consumer}@{m.epoch}/s{m.subId}"
  let act := (c13Groups s).map fun g =>
    let ids := ((activeOf s g).map (·.subId)).mergeSort (fun a b => decide (a ≤ b))
    g ++ "=" ++ c13Dash ("+".intercalate (ids.map fun i => s!"s{i}"))
  let loops := s.loops.reverse.map fun l =>
    s!"s{l.subId}:{c13Dash l.group}:{l.consumer}:{l.epoch}:" ++ (if l.cancelled then "c" else "-") ++
      (if l.exited then "x" else "-")
  "reg " ++ c13Dash (",".intercalate reg) ++ " act " ++ c13Dash (",".intercalate act) ++
    " loops " ++ c13Dash (",".intercalate loops)

def c13Id (tok : String) : Option Nat :=
  if tok.startsWith "s" then (tok.drop 1).toNat? else none

def c13Reply : Reply → String
  | .sub id => s!"ok s{id}"
  | .refused => "refused"
  | .invalid => "invalid"
  | .readerFailed => "reader-failed"
  | .done => "ok"
  | .noSuch => "no-such"

def c13Outcome : String → Option Outcome
  | "ok" => some .ok
  | "early" => some .early
  | "late" => some .late
  | _ => none

def groupSubStep (st : GroupSubSt) (toks : List String) : GroupSubSt × String :=
  let cur : State := st.stack.headD State.empty
  let apply (r : State × Reply) : GroupSubSt × String :=
    ({ stack := r.1 :: st.stack }, c13Reply r.2 ++ " | " ++ c13Show r.1)
  let sub (g c e o : String) : GroupSubSt × String :=
    match e.toNat?, c13Outcome o with
    | some e, some o =>
      if g.isEmpty || c.isEmpty then (st, "bad-op")
      else apply (step Cfg.current cur (.subscribe (if g = "-" then "" else g) c e o))
    | _, _ => (st, "bad-op")
  match toks with
  | ["begin"] => ({ stack := [State.empty] }, "ok | " ++ c13Show State.empty)
  | ["sub", g, c, e] => sub g c e "ok"
  | ["sub", g, c, e, o] => sub g c e o
  | ["cancel", id] =>
    match c13Id id with
    | some id => apply (step Cfg.current cur (.cancel id))
    | none => (st, "bad-op")
  | ["exit", id] =>
    match c13Id id with
    | some id => apply (step Cfg.current cur (.loopExit id))
    | none => (st, "bad-op")
  | ["msg"] =>
    let ids := (cur.loops.filter fun l => l.cancelled && !l.exited).map (·.subId)
    let ids := ids.mergeSort (fun a b => decide (a ≤ b))
    apply (run Cfg.current cur (ids.map .loopExit), .done)
  | ["pop"] =>
    match st.stack with
    | _ :: rest@(_ :: _) => ({ stack := rest }, "ok")
    | _ => (st, "bad-op")
  | ["state"] => (st, "ok | " ++ c13Show cur)
  | ["mode"] => (st, if Cfg.current.bySub then "by-subscription" else "by-consumer-id")
  | _ => (st, "bad-op")

end Liftbridge.Driver
