/-
Driver commands of the C19 model (stateless):
  c19 enabled  <default> <file> <env> <prog> <hasfile>          → ok true|false
  c19 requests <default> <file> <env> <prog> <hasfile> <ticks>  → ok <n>
  c19 keys                                                      → ok k1,k2,…   (sorted)
  c19 envvar                                                    → ok <VARIABLE> file=<b> nofile=<b>
  c19 default                                                   → ok true|false
<file>/<env>: `-` (route silent), `""` (set but empty) or the raw scalar, read through
`castBool` like viper's GetBool does; <prog>: `-`|true|false; <default>,<hasfile>: true|false.
<default> overrides the regenerated default so the harness states which default it saw.
-/
import Liftbridge.Model.TelemetryCfg

namespace Liftbridge.Driver
open Liftbridge Liftbridge.TelemetryCfg

def c19Bool? : String → Option Bool
  | "true" => some true
  | "false" => some false
  | _ => none

def c19Route (s : String) : Option Bool :=
  if s = "-" ∨ s = "\"\"" then none else castBool s.toList

def c19Prog? : String → Option (Option Bool)
  | "-" => some none
  | s => (c19Bool? s).map some

def c19Cfg? (d f e p h : String) : Option (Facts × Cfg) :=
  match c19Bool? d, c19Prog? p, c19Bool? h with
  | some d, some p, some h =>
    some ({ genFacts with defaultEnabled := d }, { file := c19Route f, env := c19Route e, prog := p, hasConfigFile := h })
  | _, _, _ => none

def c19 (toks : List String) : String :=
  match toks with
  | ["enabled", d, f, e, p, h] =>
    match c19Cfg? d f e p h with
    | some (F, c) => s!"ok {enabled F c}"
    | none => "bad-op"
  | ["requests", d, f, e, p, h, n] =>
    match c19Cfg? d f e p h, n.toNat? with
    | some (F, c), some n => s!"ok {requests F c n}"
    | _, _ => "bad-op"
  | ["keys"] => "ok " ++ ",".intercalate (Gen.Telemetry.payloadKeys.toArray.qsort (· < ·)).toList
  | ["envvar"] =>
    s!"ok {String.ofList (envVarFor genFacts)} file={genFacts.fileParses && genFacts.fileEnv && genFacts.envAutomatic} nofile={genFacts.noFileParses && genFacts.noFileEnv && genFacts.envAutomatic}"
  | ["default"] => s!"ok {genFacts.defaultEnabled}"
  | _ => "bad-op"

end Liftbridge.Driver
