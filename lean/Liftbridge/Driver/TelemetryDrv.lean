/-
Driver commands of the C19 model (stateless):
  c19 enabled  <default> <file> <env> <prog> <hasfile>          → ok true|false
  c19 requests <default> <file> <env> <prog> <hasfile> <ticks>  → ok <n>      (interval 1 s, id file creatable)
  c19 path <default> <file> <env> <prog> <hasfile> <interval-seconds> <idenv> <ticks>
        the whole path NewConfig → Server.Start → telemetry.New → Collector.Start → run
                                                                → ok created=<b> flag=<b|-> interval=<ns|-> id=<err|file|fresh|other|-> requests=<n>
  c19 new <enabled> <interval-ns> <idenv> <ticks>               → same answer, for telemetry.New(&Config{…}) + Start()
  c19 newnil <idenv> <ticks>                                    → same answer, for telemetry.New(nil, …) + Start()
<idenv>: five characters  m f r w o :  m,r,w,o ∈ {0,1} = os.MkdirAll / crypto/rand / os.WriteFile
succeed, conditions the extractor does not understand hold;  f ∈ {n,e,c} = the id file is
unreadable / empty / has content.  `id=-`: New was not called.
  c19 keys                                                      → ok k1,k2,…   (sorted)
  c19 envvar                                                    → ok <VARIABLE> file=<b> nofile=<b>
  c19 default                                                   → ok true|false
<file>/<env>: `-` (route silent), `""` (set but empty) or the raw scalar, read through
`castBool` like viper's GetBool does; <prog>: `-`|true|false; <default>,<hasfile>: true|false.
<default> overrides the regenerated default so the harness states which default it saw.
-/
import Liftbridge.Model.TelemetryCfg

namespace Liftbridge.Driver
open Liftbridge Liftbridge.TelemetryTypes Liftbridge.TelemetryCfg

def c19Bool? : String → Option Bool
  | "true" => some true
  | "false" => some false
  | _ => none

def c19Route (s : String) : Option Bool :=
  if s = "-" ∨ s = "\"\"" then none else castBool s.toList

def c19Prog? : String → Option (Option Bool)
  | "-" => some none
  | s => (c19Bool? s).map some

def c19Cfg? (d f e p h : String) : Option (Facts × Cfg) :=
  match c19Bool? d, c19Prog? p, c19Bool? h with
  | some d, some p, some h =>
    some ({ genFacts with defaultEnabled := d }, { file := c19Route f, env := c19Route e, prog := p, hasConfigFile := h })
  | _, _, _ => none

def c19Bit? : Char → Option Bool
  | '1' => some true
  | '0' => some false
  | _ => none

def c19IdEnv? (s : String) : Option IdEnv :=
  match s.toList with
  | [m, f, r, w, o] =>
    let file : Option (Option (List Char)) :=
      match f with
      | 'n' => some none
      | 'e' => some (some [])
      | 'c' => some (some ['x'])
      | _ => none
    match c19Bit? m, file, c19Bit? r, c19Bit? w, c19Bit? o with
    | some m, some f, some r, some w, some o => some ⟨m, f, r, w, o⟩
    | _, _, _, _, _ => none
  | _ => none

def c19IdName : IdOut → String
  | .err => "err"
  | .file => "file"
  | .fresh => "fresh"
  | .other _ => "other"

/-- Answer for "New was called with `arg` and, if a collector came out, started". -/
def c19Outcome (F : Facts) (called : Bool) (arg : Option TCfg) (e : IdEnv) (ticks : Nat) : String :=
  if !called then "ok created=false flag=- interval=- id=- requests=0"
  else
    let fs : String → IdEnv := fun _ => e
    match newCfg F arg with
    | none => "ok created=false flag=- interval=- id=- requests=0"
    | some c =>
      let id := loadOrCreate F e
      let n := collectorRequests F arg fs ticks
      s!"ok created={!idIsErr id} flag={c.enabled} interval={c.interval} id={c19IdName id} requests={n}"

def c19 (toks : List String) : String :=
  match toks with
  | ["path", d, f, e, p, h, iv, env, n] =>
    match c19Cfg? d f e p h, iv.toInt?, c19IdEnv? env, n.toNat? with
    | some (F, c), some iv, some env, some n =>
      let r : Run := ⟨enabled F c, iv, "data"⟩
      let arg := startArg F r
      let ans := c19Outcome F arg.isSome arg env n
      -- the two formulations of the model agree (cheap self-check of the driver)
      if (requests F c iv "data" (fun _ => env) n) == (if arg.isSome then collectorRequests F arg (fun _ => env) n else 0)
      then ans else "bad-op"
    | _, _, _, _ => "bad-op"
  | ["new", en, iv, env, n] =>
    match c19Bool? en, iv.toInt?, c19IdEnv? env, n.toNat? with
    | some en, some iv, some env, some n => c19Outcome genFacts true (some ⟨en, iv, "data"⟩) env n
    | _, _, _, _ => "bad-op"
  | ["newnil", env, n] =>
    match c19IdEnv? env, n.toNat? with
    | some env, some n => c19Outcome genFacts true none env n
    | _, _ => "bad-op"
  | ["enabled", d, f, e, p, h] =>
    match c19Cfg? d f e p h with
    | some (F, c) => s!"ok {enabled F c}"
    | none => "bad-op"
  | ["requests", d, f, e, p, h, n] =>
    match c19Cfg? d f e p h, n.toNat? with
    | some (F, c), some n => s!"ok {requests F c 1 "data" fsOk n}"
    | _, _ => "bad-op"
  | ["keys"] => "ok " ++ ",".intercalate (Gen.Telemetry.payloadKeys.toArray.qsort (· < ·)).toList
  | ["envvar"] =>
    s!"ok {String.ofList (envVarFor genFacts)} file={genFacts.fileParses && genFacts.fileEnv && genFacts.envAutomatic} nofile={genFacts.noFileParses && genFacts.noFileEnv && genFacts.envAutomatic}"
  | ["default"] => s!"ok {genFacts.defaultEnabled}"
  | _ => "bad-op"

end Liftbridge.Driver
