/-
`gomini …`: the driver RUNS TRANSLATED GO CODE (Gen/Go*.lean through the GoMini interpreter), so that
the correspondence harness compares the real function with its own translation — this validates the
translator and the semantics of the embedding, the trusted part of the function-level tie.

  gomini reconcile <lastLeaderEpoch> <newest> <hw> <r0> <r1> <r2>     r = ok:<offset> | timeout | fail
      -> ok <t1,t2,…|->      the arguments of the `Truncate` calls of partition.truncateUncommitted
-/
import Liftbridge.Model.GoPartitionEnv

namespace Liftbridge.Driver
open Liftbridge.GoMini Liftbridge.GoPartitionEnv

def parseReply (s : String) : Option Reply :=
  if s = "timeout" then some .timeout
  else if s = "fail" then some .fail
  else match s.splitOn ":" with
    | ["ok", o] => o.toInt?.map .ok
    | _ => none

def showVal : Val → String
  | .int i => toString i
  | .bool b => toString b
  | .str s => s
  | .nil => "nil"
  | _ => "?"

def gominiStep (toks : List String) : String :=
  match toks with
  | ["reconcile", le, newest, hw, r0, r1, r2] =>
    match le.toInt?, newest.toInt?, hw.toInt?, parseReply r0, parseReply r1, parseReply r2 with
    | some le, some newest, some hw, some a, some b, some c =>
      match reconcile (fun k => if k = 0 then a else if k = 1 then b else c) le newest hw with
      | some ts =>
        let xs := ts.map fun args => String.intercalate "/" (args.map showVal)
        "ok " ++ (if xs.isEmpty then "-" else String.intercalate "," xs)
      | none => "stuck"
    | _, _, _, _, _, _ => "bad-op"
  | _ => "bad-op"

end Liftbridge.Driver
