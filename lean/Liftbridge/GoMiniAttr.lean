import Lean.Meta.Tactic.Simp.RegisterCommand
/-! Simp set used to run GoMini code symbolically (`simp only [gomini, …]`). -/
/-- rewrite rules of the GoMini interpreter, one per constructor -/
register_simp_attr gomini
