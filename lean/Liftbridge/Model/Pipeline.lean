/-
Model of the LEADER'S PUBLISH PIPELINE of one partition within one leadership term (C04):
`partition.messageProcessingLoop` (receive → reject? → batch → Append → ack per policy),
`processPendingMessage` and `commitLoop` of server/partition.go, AS THEY ARE.

What is new with respect to `Protocol.publishStep` (which takes a ready batch and screens it in
one go): the loop takes messages off its channel at several RECEIVE SITES (the message that
opens a batch; messages already queued — non-blocking select; messages arriving during the
`batch.max.time` wait), and every site carries its own copy of the rejection code. The model
evaluates each received message through the REGENERATED per-site facts `Gen.Pipeline.sites`
(is the Seal error / the size checked, is the negative ack sent, does control leave before
`msgBatch = append(msgBatch, m)`), the Append error path through `Gen.Pipeline.appendErrSkips` /
`incorrectOffsetNack` / `incorrectOffsetNackFirst`, the source of the ack fields through
`ackFieldsOK`, and the gate of the commit loop through `Gen.Pipeline.commitGateCurrentIsr`. A
fact that flips changes the model (and breaks the theorems of Props/C04.lean §pipeline).

Go state                                   model
---------------------------------------------------------------------------------------------
p.log (leader's commit log, this term)     `St.log : List Stored`, offset = index. Append assigns
                                             contiguous offsets and stores nothing when it returns
                                             ErrIncorrectOffset (C01 / C16 `rejected_unchanged` on
                                             the commit-log model; assumed here)
msgBatch                                   `St.batch`
p.commitQueue                              `St.queue`
p.isr (replica → latest offset), minISR    `St.isr`, `Cfg.minISR`
HighWatermark                              `St.hw`
acks published on ack inboxes              `St.acks` (append-only; `published` drops acks without inbox)
ghost                                      `St.nrecv` (messages taken off the channel so far; the k-th
                                             gets `mid := k`), `St.received`, `St.rejected` (what the
                                             PROPERTY calls rejected: seal failure, too large, refused
                                             expected offset — independent of what the code does about it)

One event = one receive at a given site, one dispatch of the batch (end of batchLoop: batch full,
timer, or nothing queued), one commit-loop iteration, one replica progress report, one ISR
change. The site of a receive is an INPUT (the scheduler/timing decides it); it must only be
consistent with the control state: a batch-opening site needs an empty batch, the others an open
batch with room (`remaining > 0`). With optimistic concurrency control the batch size is 1
(`Gen.Partition.occBatchOne`). Deviation: the real Append panics for an OCC batch of more than
one message (Model/Log.lean `occBatchCmp`); here it checks the expected offsets one by one.
-/
import Liftbridge.Model.Protocol
import Liftbridge.Gen.Pipeline
import Liftbridge.Gen.Partition

namespace Liftbridge.Pipeline
open Liftbridge Liftbridge.Protocol

abbrev Site := Gen.Pipeline.Site

/-- What the leader's log holds at one offset: which message (ghost arrival number) and the
correlation id it was published with. -/
structure Stored where
  seq : Nat
  cid : Nat
  deriving DecidableEq, Repr, Inhabited

structure Cfg where
  rf : Nat := 1           -- p.ReplicationFactor
  minISR : Nat := 1
  occ : Bool := false     -- optimistic concurrency control on the stream
  batchMax : Nat := 1024  -- config.BatchMaxMessages
  me : Sid := 0
  deriving DecidableEq, Repr, Inhabited

structure St where
  log : List Stored := []
  batch : List PubMsg := []
  queue : List Ack := []
  hw : Int := -1
  isr : List (Sid × Int) := []
  acks : List Ack := []
  nrecv : Nat := 0
  received : List PubMsg := []
  rejected : List (PubMsg × AckErr) := []
  deriving Repr, Inhabited

inductive Ev where
  | recv (site : Nat) (m : PubMsg)
  | dispatch
  | commit
  | progress (r : Sid) (off : Int)
  | shrink (r : Sid)
  | expand (r : Sid)
  deriving Repr, Inhabited

/-- Why the property calls a message rejected at reception (the seal is attempted first). -/
def rejectReason (m : PubMsg) : Option AckErr :=
  if m.sealFails then some .encryption else if m.tooLarge then some .tooLarge else none

def nack (c : Cfg) (m : PubMsg) (e : AckErr) : Ack :=
  { cid := m.cid, policy := m.policy, offset := 0, err := e, mid := m.mid, by_ := c.me, epoch := 0, inbox := m.ackInbox }

/-- Does the too-large branch of this site really send a TOO_LARGE nack? -/
def sizeNacks (s : Site) : Bool := s.sizeNack && Gen.Pipeline.tooLargeNackSends

/-- A site whose rejection code is complete: both tests present, both negative acks sent, control
leaves before the join in both cases. -/
def siteSound (s : Site) : Bool :=
  s.sealChecked && s.sealNack && s.sealSkip && s.sizeChecked && sizeNacks s && s.sizeSkip

/-- The statements of one receive site between the receive and `msgBatch = append(msgBatch, m)`:
(does the message join the batch, negative acks built on the way). -/
def handle (s : Site) (c : Cfg) (m : PubMsg) : Bool × List Ack :=
  let sealHit := m.sealFails && s.sealChecked
  let n1 := if sealHit && s.sealNack then [nack c m .encryption] else []
  if sealHit && s.sealSkip then (false, n1) else
  let sizeHit := m.tooLarge && s.sizeChecked
  let n2 := if sizeHit && sizeNacks s then [nack c m .tooLarge] else []
  if sizeHit && s.sizeSkip then (false, n1 ++ n2) else (true, n1 ++ n2)

/-- `batchSize` (1 with concurrency control; a batch always takes its first message). -/
def limit (c : Cfg) : Nat := if c.occ && Gen.Partition.occBatchOne then 1 else max 1 c.batchMax

/-- Control-state consistency of a receive at site `s`. -/
def siteEnabled (c : Cfg) (st : St) (s : Site) : Bool :=
  if s.kind = 0 then st.batch.isEmpty else !st.batch.isEmpty && decide (st.batch.length < limit c)

def recv (c : Cfg) (st : St) (i : Nat) (m0 : PubMsg) : Option St :=
  match Gen.Pipeline.sites[i]? with
  | none => none
  | some s =>
    if !siteEnabled c st s then none else
    let m := { m0 with mid := st.nrecv }
    let r := handle s c m
    some { st with
      nrecv := st.nrecv + 1,
      received := st.received ++ [m],
      rejected := (match rejectReason m with | some e => st.rejected ++ [(m, e)] | none => st.rejected),
      batch := if r.1 then st.batch ++ [m] else st.batch,
      acks := st.acks ++ published r.2 }

def stored (m : PubMsg) : Stored := { seq := m.mid, cid := m.cid }

/-- The first message of the batch whose expected offset `Append` refuses (`o` = offset it would get). -/
def firstBad (occ : Bool) : Nat → List PubMsg → Option PubMsg
  | _, [] => none
  | o, m :: ms => if occ && m.expected != -1 && m.expected != (o : Int) then some m else firstBad occ (o + 1) ms

/-- The fields of a positive ack come from where they should: `processPendingMessage(offset, msg)`
builds `Offset: offset, CorrelationId: msg.CorrelationID, AckInbox: msg.AckInbox, AckPolicy:
msg.AckPolicy` without an error, and is called as `processPendingMessage(offsets[i], msg)` for
`i, msg := range msgBatch` (regenerated texts). -/
def ackFieldsOK : Bool :=
  Gen.Pipeline.pendingParams == "offset,msg" && Gen.Pipeline.pendingAckOffset == "offset" &&
  Gen.Pipeline.pendingAckCorrelation == "msg.CorrelationID" && Gen.Pipeline.pendingAckInbox == "msg.AckInbox" &&
  Gen.Pipeline.pendingAckPolicy == "msg.AckPolicy" && !Gen.Pipeline.pendingAckSetsError &&
  Gen.Pipeline.pendingCall == "for i,msg:=range msgBatch{p.processPendingMessage(offsets[i],msg)}"

/-- The ack `processPendingMessage` builds for batch message `m` stored at offset `o`. When the
field sources are not the expected ones the model knows nothing about them (offset -1, cid 0). -/
def ackOf (c : Cfg) (m : PubMsg) (o : Nat) : Ack :=
  if ackFieldsOK then
    { cid := m.cid, policy := m.policy, offset := (o : Int), err := .ok, mid := m.mid, by_ := c.me, epoch := 0, inbox := m.ackInbox }
  else
    { cid := 0, policy := m.policy, offset := -1, err := .ok, mid := m.mid, by_ := c.me, epoch := 0, inbox := m.ackInbox }

/-- `processPendingMessage` over the batch: (acks sent at once, entries put on the commit queue). -/
def pend (c : Cfg) : Nat → List PubMsg → List Ack × List Ack
  | _, [] => ([], [])
  | o, m :: ms =>
    let r := pend c (o + 1) ms
    let a := ackOf c m o
    let sent := if m.policy = .leader then a :: r.1 else r.1
    if Gen.Protocol.pendingRFCmp.evalNat c.rf 1 && m.policy ≠ .all then (sent, r.2) else (sent, a :: r.2)

/-- After a successful Append (or, if the error path did not leave, after a failed one): acks,
commit queue, fast path, own replica offset. -/
def deliver (c : Cfg) (st : St) (b : List PubMsg) (base : Nat) : St :=
  let r := pend c base b
  let fast := Gen.Protocol.fastPathRFCmp.evalNat c.rf 1 && b.all (fun m => m.policy ≠ .all)
  let last : Int := ((base + b.length : Nat) : Int) - 1
  { st with
    queue := st.queue ++ r.2,
    hw := if fast && decide (last > st.hw) then last else st.hw,
    isr := (updateOffset st.isr c.me last).1,
    acks := st.acks ++ published r.1 }

/-- End of `batchLoop`: `p.log.Append(msgBatch)` and what follows. -/
def dispatch (c : Cfg) (st : St) : Option St :=
  if st.batch.isEmpty then none else
  let b := st.batch
  let base := st.log.length
  match firstBad c.occ base b with
  | some bad =>
    let target := if Gen.Pipeline.incorrectOffsetNackFirst then b.head? else none
    let nacks := if Gen.Pipeline.incorrectOffsetNack then (match target with | some m => [nack c m .incorrectOffset] | none => []) else []
    let st1 := { st with batch := [], acks := st.acks ++ published nacks, rejected := st.rejected ++ [(bad, .incorrectOffset)] }
    some (if Gen.Pipeline.appendErrSkips then st1 else deliver c st1 b base)
  | none => some (deliver c { st with batch := [], log := st.log ++ b.map stored } b base)

/-- The gate of `commitLoop`. Only a comparison of the CURRENT ISR size with minISR counts as a
gate; anything else (a cached flag, no check) is no gate for the model. -/
def gate (c : Cfg) (st : St) : Bool :=
  Gen.Pipeline.commitGateCurrentIsr && Gen.Pipeline.commitGateCmp.evalNat st.isr.length c.minISR

def commitTaken (st : St) : List Ack :=
  st.queue.takeWhile (fun a => Gen.Protocol.commitTakeCmp.evalInt a.offset (goMin (st.isr.map (·.2))))

/-- The acks one commit-loop iteration publishes. -/
def commitAcks (c : Cfg) (st : St) : List Ack :=
  if gate c st then [] else published ((commitTaken st).filter (fun a => a.policy = .all))

/-- One iteration of `commitLoop`. -/
def commit (c : Cfg) (st : St) : St :=
  if gate c st then st else
  let minLatest := goMin (st.isr.map (·.2))
  { st with
    hw := if decide (minLatest > st.hw) then minLatest else st.hw,
    queue := st.queue.dropWhile (fun a => Gen.Protocol.commitTakeCmp.evalInt a.offset minLatest),
    acks := st.acks ++ commitAcks c st }

def step (c : Cfg) (st : St) : Ev → Option St
  | .recv i m => recv c st i m
  | .dispatch => dispatch c st
  | .commit => some (commit c st)
  | .progress r off => some { st with isr := (updateOffset st.isr r off).1 }
  | .shrink r => some { st with isr := mErase st.isr r }
  | .expand r => some { st with isr := mSet st.isr r (-1) }

/-- Events that are not enabled (a receive at a site the control state excludes, a dispatch of
an empty batch) are skipped. -/
def run (c : Cfg) : St → List Ev → St
  | st, [] => st
  | st, e :: es => run c ((step c st e).getD st) es

/-- `newPartition`: the leader's own offset is its newest offset, the others start at -1. The
initial ISR may be ANY subset of the replicas (a partition restored after the ISR shrank). -/
def init (isr : List Sid) : St :=
  { isr := isr.foldl (fun m r => mSet m r (-1)) [] }

/-- The receive phase alone over a list of (site, message) pairs, ignoring the control state:
(messages that join a batch, negative acks). Used to tie `Protocol.screen` to the site facts. -/
def joinAll (c : Cfg) : List (Site × PubMsg) → List PubMsg × List Ack
  | [] => ([], [])
  | (s, m) :: rest =>
    let r := joinAll c rest
    let h := handle s c m
    (if h.1 then m :: r.1 else r.1, h.2 ++ r.2)

end Liftbridge.Pipeline
