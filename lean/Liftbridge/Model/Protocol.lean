/-
Model of the replication protocol of one partition (C02, C04): server/partition.go,
server/replicator.go and the ISR / leader operations of server/metadata.go + fsm.go, AS THEY ARE.

Go state                                        model
------------------------------------------------------------------------------------------------
partition.log (commitlog.CommitLog)             `Srv.log : CLog`  (Model/Log.lean: records, HW, epoch cache)
partition.isLeading / isFollowing               `Srv.role` (`reconciling` = inside becomeFollower, partition
                                                  mutex held while the leader-offset RPC is outstanding)
partition.Leader / LeaderEpoch / isr keys       `Srv.leader`, `Srv.leaderEpoch`, keys of `Srv.isrOff`
                                                  = this server's APPLIED view of the Raft metadata
partition.isr[r].offset                         `Srv.isrOff : Sid ↦ Int` — max-only update (`updateOffset`),
                                                  set to -1 by AddToISR, created by newPartition
                                                  (own = newest, others = -1); NOT touched by becomeLeader /
                                                  becomeFollower: it survives across this server's terms
partition.commitQueue                           `Srv.queue` (new queue per leadership term)
partition.commitCheck (buffered chan)           `Srv.commitCheck : Nat` (pending signals, capacity = #replicas;
                                                  the channel is created once per partition object and is not
                                                  drained when leadership ends)
replicator.lastCaughtUp                         `Srv.caughtUp : Sid ↦ Int` — "was caught up within max lag
                                                  time" flag (lastCaughtUpElapsed below maxLagTime), set when
                                                  `req.Offset ≥ newest` (value: the offset at that instant,
                                                  ghost), cleared nondeterministically (`clearCaughtUp` = time
                                                  passes)
replicator.lastSeen                             `Srv.seen : List Sid` — "sent a fetch within max lag time"
                                                  flag (lastSeenElapsed below maxLagTime), set by every fetch
                                                  that reaches the replicator, cleared by `clearSeen` (only
                                                  after `caughtUp`: lastCaughtUp ≤ lastSeen in the code)
replicator.tick                                 `outOfSync` = the REGENERATED decision `Gen.Protocol.tickOutOfSync`
                                                  (connectives and comparison operators) over the two flags;
                                                  shrink / expand proposals are enabled for the (outOfSync, inISR)
                                                  valuations of `Gen.Protocol.tickShrinkWhen / tickExpandWhen`
follower fetch                                  `Net.replReq` carries the follower's epoch / newest offset iff
                                                  `Gen.Protocol.fetchCarriesEpoch / fetchOffsetIsNewest`; the
                                                  leader drops it by `Gen.Protocol.replReqReject`
partition.recovered                             `Srv.recovered`
Raft log of metadata ops                        `State.committed : List MetaOp` (index i ↦ epoch i, 1-based),
                                                  `Srv.applied` = how many of them this server has applied
proposals that passed the controller's          `State.proposed` (propose-time checks are separate from the
  checks, not yet committed                       commit: F-C07-c)
NATS request/reply traffic                      `State.net : List Net` (any delay / loss; a reply is only
                                                  accepted by the request it answers: `Srv.waiting`)
acks published on ack inboxes                   `State.acks : List Ack` (append-only stream)
process up / down                               `Srv.up`

A mutex-protected region / one loop iteration is one atomic step; goroutines interleave as
steps. Raft itself (one totally ordered committed log, applied in order by every server at its
own pace) and NATS delivery are parameters of the model, not modelled.

`Fixes` switches select REPAIRED variants of four decision points; all of them are `false` for
the code as it is. They exist so that the search can attribute a witness to a root cause
(a witness is caused by X iff it violates as-is and stops violating with repair X alone).
-/
import Liftbridge.Model.Log
import Liftbridge.Gen.Protocol
import Liftbridge.Gen.Pipeline

namespace Liftbridge.Protocol
open Liftbridge Liftbridge.Log

abbrev Sid := Nat

inductive Policy where
  | leader | all | none
  deriving DecidableEq, Repr, Inhabited, Hashable

inductive Role where
  | idle | leader | follower | reconciling
  deriving DecidableEq, Repr, Inhabited, Hashable

inductive AckErr where
  | ok | tooLarge | incorrectOffset | encryption
  deriving DecidableEq, Repr, Inhabited, Hashable

/-- Operations of the Raft metadata log that concern one partition. The index of an op in the
committed list (1-based) is the `epoch` the FSM passes to the partition. -/
inductive MetaOp where
  | create (leader : Sid)
  | shrink (r : Sid)
  | expand (r : Sid)
  | changeLeader (l : Sid)
  deriving DecidableEq, Repr, Inhabited, Hashable

/-- A message as published by a client. `mid` identifies the message (it is the payload);
`cid` is the publisher's correlation id. -/
structure PubMsg where
  mid : Nat
  cid : Nat
  policy : Policy
  ackInbox : Bool := true
  expected : Int := -1
  tooLarge : Bool := false
  sealFails : Bool := false
  deriving DecidableEq, Repr, Inhabited, Hashable

/-- An acknowledgement as published on the ack inbox. `mid`, `by_`, `epoch` are ghost fields
(which message, which server sent it, in which leader epoch). -/
structure Ack where
  cid : Nat
  policy : Policy
  offset : Int
  err : AckErr
  mid : Nat
  by_ : Sid
  epoch : Nat
  inbox : Bool := true
  deriving DecidableEq, Repr, Inhabited, Hashable

/-- In-flight NATS request/reply messages. -/
inductive Net where
  | replReq (src : Sid) (offset : Int) (epoch : Nat) (rid : Nat)
  | replResp (dst : Sid) (rid : Nat) (epoch : Nat) (hw : Int) (recs : List Rec)
  /-- `lepoch` (the requester's current leader epoch), `fepochs` / `fend` (its epoch cache and log
  end) are ghost fields: not on the wire in the code as it is, used only by repaired variants. -/
  | offReq (src : Sid) (epoch : Nat) (rid : Nat) (lepoch : Nat) (fepochs : Epochs) (fend : Int)
  | offResp (dst : Sid) (rid : Nat) (answer : Int)
  deriving DecidableEq, Repr, Inhabited

/-- Repaired variants (all `false` = the code as it is). -/
structure Fixes where
  isrReset : Bool := false       -- becomeLeader forgets the replica offsets of earlier terms
  epochBoundary : Bool := false  -- one convention: an epoch starts at its FIRST offset; answers are exclusive ends
  expandNow : Bool := false      -- ISR re-entry requires the replica's offset to be ≥ HW at decision time
  noFallback : Bool := false     -- no HW-fallback truncation (the follower keeps asking)
  sentinel : Bool := false       -- "no later epoch in the cache" is not confused with a recorded start offset -1
  fenceOffset : Bool := false    -- the leader-offset request carries the follower's leader epoch; other epochs do not answer
  atomicPropose : Bool := false  -- the controller checks and appends a metadata op atomically (no stale proposals)
  kip101 : Bool := false         -- reconciliation on the last epoch COMMON to follower and leader (implies epochBoundary)
  legacyIsr : Bool := false      -- the behaviour BEFORE repair C04-isr-offsets-reset, whatever the source says now
  deriving DecidableEq, Repr, Inhabited, Hashable

structure Cfg where
  n : Nat := 3            -- servers = replicas (replication factor)
  minISR : Nat := 2
  maxSeg : Int := 1024    -- Options.MaxSegmentBytes of every commit log
  occ : Bool := false
  fixes : Fixes := {}
  deriving DecidableEq, Repr, Inhabited, Hashable

structure Srv where
  up : Bool := true
  log : CLog
  role : Role := .idle
  applied : Nat := 0
  hasPart : Bool := false
  leader : Sid := 0
  leaderEpoch : Nat := 0
  isrOff : List (Sid × Int) := []
  recovered : Bool := false
  queue : List Ack := []
  commitCheck : Nat := 0
  caughtUp : List (Sid × Int) := []
  seen : List Sid := []
  rid : Nat := 0
  waiting : Option Nat := none
  deriving Repr, Inhabited

structure State where
  srv : List Srv
  committed : List MetaOp := []
  proposed : List MetaOp := []
  net : List Net := []
  acks : List Ack := []
  deriving Repr, Inhabited

/-! ### small maps -/

def lookup (m : List (Sid × Int)) (k : Sid) : Option Int := (m.find? (·.1 = k)).map (·.2)

def mErase (m : List (Sid × Int)) (k : Sid) : List (Sid × Int) := m.filter (·.1 ≠ k)

/-- Insert / replace, keeping the list sorted by key (a Go map has no order). -/
def mSet : List (Sid × Int) → Sid → Int → List (Sid × Int)
  | [], k, v => [(k, v)]
  | (k', v') :: rest, k, v =>
    if k < k' then (k, v) :: (k', v') :: rest
    else if k = k' then (k, v) :: rest
    else (k', v') :: mSet rest k v

def keys (m : List (Sid × Int)) : List Sid := m.map (·.1)

/-- `updateISRLatestOffset` + `replica.updateLatestOffset`: only for members of `p.isr`, and only
upwards (`if offset > r.offset`). Returns whether the offset changed (⇒ a commit check). -/
def updateOffset (m : List (Sid × Int)) (k : Sid) (v : Int) : List (Sid × Int) × Bool :=
  match lookup m k with
  | none => (m, false)
  | some cur => if Gen.Protocol.updateOffsetCmp.evalInt v cur then (mSet m k v, true) else (m, false)

/-- Go's `min(v []int64)` of partition.go: 0 for an empty slice. -/
def goMin : List Int → Int
  | [] => 0
  | x :: xs => xs.foldl (fun m y => if y < m then y else m) x

def sInsert (xs : List Sid) (x : Sid) : List Sid :=
  if xs.contains x then xs else (xs.filter (· < x)) ++ [x] ++ (xs.filter (· > x))

def removeFirst {α} [DecidableEq α] : List α → α → List α
  | [], _ => []
  | x :: xs, a => if x = a then xs else x :: removeFirst xs a

/-! ### ISR membership as `replicator.tick` decides it, the term fence of fetches -/

/-- Abstract elapsed time of one of the replicator's two timers, relative to `maxLagTime` (the
bound is 0): below it while the flag is set, above it once it is cleared. -/
def lagOf (fresh : Bool) : Int := if fresh then -1 else 1

/-- `outOfSync` of `replicator.tick` for replica `r` on leader `sv`: the regenerated decision over
(lastSeenElapsed · maxLagTime, lastCaughtUpElapsed · maxLagTime). -/
def outOfSync (sv : Srv) (r : Sid) : Bool :=
  Gen.Protocol.tickOutOfSync.eval fun i =>
    if i = 0 then (lagOf (sv.seen.contains r), 0) else (lagOf (lookup sv.caughtUp r).isSome, 0)

/-- `tick` calls `shrinkISR()` / `expandISR()` for the regenerated (outOfSync, inISR) valuations. -/
def tickShrinks (sv : Srv) (r : Sid) : Bool :=
  Gen.Protocol.tickShrinkWhen.contains (outOfSync sv r, (keys sv.isrOff).contains r)

def tickExpands (sv : Srv) (r : Sid) : Bool :=
  Gen.Protocol.tickExpandWhen.contains (outOfSync sv r, (keys sv.isrOff).contains r)

/-- `handleReplicationRequest` drops a request of another term: the regenerated decision over
(req.LeaderEpoch · 0, req.LeaderEpoch · p.LeaderEpoch). -/
def rejectFetch (reqEpoch leaderEpoch : Nat) : Bool :=
  Gen.Protocol.replReqReject.eval fun i =>
    if i = 0 then ((reqEpoch : Int), 0) else ((reqEpoch : Int), (leaderEpoch : Int))

/-- What `sendReplicationRequest` puts into the request: (Offset, LeaderEpoch); a field the
struct literal does not set is the zero value. -/
def fetchFieldsOf (sv : Srv) : Int × Nat :=
  (if Gen.Protocol.fetchOffsetIsNewest then sv.log.newest else 0,
   if Gen.Protocol.fetchCarriesEpoch then sv.leaderEpoch else 0)

/-! ### records -/

def midByte (mid : Nat) : UInt8 := UInt8.ofNat mid

/-- Payload of message `mid` (one byte). -/
def bodyOf (mid : Nat) : Payload := { key := none, val := some [midByte mid], hdrs := [] }

def Rec.mid (r : Rec) : Nat := match r.body.val with | some [b] => b.toNat | _ => 0

/-- The record stored at offset `o`, if any. -/
def recAt (l : CLog) (o : Int) : Option Rec := l.abs.find? (fun r => r.offset = o)

/-- Timestamp given to message `mid` (non-zero; the leader's clock is an input). -/
def tsOf (mid : Nat) : Int := (mid : Int) + 1

/-! ### the controller's view -/

structure MetaView where
  exists_ : Bool := false
  leader : Sid := 0
  epoch : Nat := 0
  isr : List Sid := []
  deriving DecidableEq, Repr, Inhabited

def MetaView.apply (n : Nat) (v : MetaView) (idx : Nat) : MetaOp → MetaView
  | .create l => { exists_ := true, leader := l, epoch := idx, isr := List.range n }
  | .shrink r => { v with isr := v.isr.filter (· ≠ r) }
  | .expand r => { v with isr := sInsert v.isr r }
  | .changeLeader l => { v with leader := l, epoch := idx }

def metaFrom (n : Nat) (v : MetaView) (idx : Nat) : List MetaOp → MetaView
  | [] => v
  | op :: ops => metaFrom n (v.apply n idx op) (idx + 1) ops

/-- The metadata as the controller sees it: every committed op applied. -/
def metaView (n : Nat) (ops : List MetaOp) : MetaView := metaFrom n {} 1 ops

/-! ### commit-log calls of the glue -/

/-- `NewLeaderEpoch(epoch)`: `Assign(epoch, NewestOffset() + k)` with the regenerated `k` (0 in
the code as it is: the LAST offset of the previous epoch). Repaired variant: the first offset
of the new epoch. -/
def newLeaderEpoch (c : Cfg) (l : CLog) (epoch : Nat) : CLog :=
  if c.fixes.epochBoundary || c.fixes.kip101 then { l with epochs := l.epochs.assign epoch l.nextOffset }
  else { l with epochs := l.epochs.assign epoch (l.newest + Gen.Protocol.electedAssignAddend) }

/-- `handleLeaderOffsetRequest`: `LastOffsetForLeaderEpoch(req.LeaderEpoch)`. Repaired variant:
the EXCLUSIVE end of the epoch (start offset of the next epoch in the cache, else the log end). -/
def offsetAnswer (c : Cfg) (l : CLog) (epoch : Nat) : Int :=
  if c.fixes.epochBoundary then
    (match l.epochs.findEpoch (epoch + 1) with
     | some e => e.2
     | none => l.nextOffset)
  else if c.fixes.sentinel then
    (match l.epochs.findEpoch (epoch + 1) with
     | some e => e.2
     | none => l.nextOffset - 1)
  else l.lastOffsetForLeaderEpoch epoch

/-- Exclusive end of epoch `e` in a log with cache `c` and next offset `n`. -/
def endOfEpoch (c : Epochs) (n : Int) (e : Nat) : Int :=
  match c.find? (fun x => e < x.1) with
  | some x => x.2
  | none => n

/-- Repaired reconciliation (KIP-101 with the whole epoch history in the request): the logs can
only agree up to the end of the last epoch both know; the answer is the exclusive offset the
follower must truncate to. -/
def kipAnswer (l : CLog) (fepochs : Epochs) (fend : Int) : Int :=
  match (fepochs.filter fun x => l.epochs.any (·.1 = x.1)).getLast? with
  | none => 0
  | some x => min (endOfEpoch fepochs fend x.1) (endOfEpoch l.epochs l.nextOffset x.1)

/-- `truncateUncommitted` after a successful RPC: `Truncate(lastOffset + 1)`. -/
def reconcileTruncate (c : Cfg) (l : CLog) (answer : Int) : CLog :=
  if c.fixes.epochBoundary || c.fixes.kip101 then l.truncate answer
  else l.truncate (answer + Gen.Protocol.truncAddend)

/-- `truncateToHW`. -/
def truncateToHW (l : CLog) : CLog :=
  if Gen.Protocol.truncHWEqCmp.evalInt l.newest l.hw then l
  else l.truncate (l.hw + Gen.Protocol.truncHWAddend)

/-! ### role changes -/

/-- `stopLeadingOrFollowing`: a leader disposes its commit queue. -/
def Srv.stop (sv : Srv) : Srv :=
  match sv.role with
  | .leader => { sv with role := .idle, queue := [], waiting := none }
  | _ => { sv with role := .idle, waiting := none }

/-- Does `becomeLeader` forget the replica offsets of earlier terms? Regenerated from the source
(`Gen.Protocol.becomeLeaderResetsOffsets`: false before repair fixes/C04-isr-offsets-reset.diff);
`fixes.isrReset` forces it on, `fixes.legacyIsr` forces the old behaviour. -/
def resetsIsrOnLead (c : Cfg) : Bool :=
  c.fixes.isrReset || (Gen.Protocol.becomeLeaderResetsOffsets && !c.fixes.legacyIsr)

/-- `becomeLeader(epoch)`. -/
def becomeLeader (c : Cfg) (me : Sid) (sv : Srv) : Srv :=
  let sv := sv.stop
  let log := if Gen.Protocol.recoveredSkipsNewEpoch && sv.recovered then sv.log
             else newLeaderEpoch c sv.log sv.leaderEpoch
  let isr0 := if resetsIsrOnLead c then (keys sv.isrOff).foldl (fun m k => mSet m k (-1)) [] else sv.isrOff
  let isr1 := match lookup isr0 me with
    | some _ => isr0
    | none => mSet isr0 me (-1)
  let isr2 := (updateOffset isr1 me log.newest).1
  { sv with log := log, isrOff := isr2, queue := [], caughtUp := [], seen := [], role := .leader, recovered := false }

/-- `becomeFollower`, first half: stop, send the leader-offset request for `LastLeaderEpoch()`. -/
def becomeFollower (me : Sid) (sv : Srv) : Srv × Net :=
  let sv := sv.stop
  let rid := sv.rid + 1
  ({ sv with role := .reconciling, rid := rid, waiting := some rid, recovered := false },
   .offReq me sv.log.epochs.latestEpoch rid sv.leaderEpoch sv.log.epochs sv.log.nextOffset)

/-- `startLeadingOrFollowing` (every server of the model is a replica). -/
def startRole (c : Cfg) (me : Sid) (sv : Srv) : Srv × List Net :=
  if sv.leader = me then (becomeLeader c me sv, [])
  else let (sv', m) := becomeFollower me sv; (sv', [m])

/-- `newPartition`: offsets -1, own offset = newest. -/
def newIsr (n : Nat) (me : Sid) (l : CLog) : List (Sid × Int) :=
  (List.range n).map fun r => (r, if r = me then l.newest else -1)

/-- Apply metadata op number `idx` on server `me`; `recovering` = during the replay after a
restart (the partition is not started until the replay is over). -/
def applyOp (c : Cfg) (me : Sid) (sv : Srv) (idx : Nat) (op : MetaOp) (recovering : Bool) : Srv × List Net :=
  match op with
  | .create l =>
    let sv := { sv with hasPart := true, leader := l, leaderEpoch := idx, isrOff := newIsr c.n me sv.log,
                        recovered := recovering, applied := idx }
    if recovering then (sv, []) else startRole c me sv
  | .shrink r =>
    if !sv.hasPart then ({ sv with applied := idx }, []) else
    -- RemoveFromISR: delete; a leader re-checks the commit queue
    let cc := if sv.role = .leader then min c.n (sv.commitCheck + 1) else sv.commitCheck
    ({ sv with isrOff := mErase sv.isrOff r, commitCheck := cc, applied := idx }, [])
  | .expand r =>
    if !sv.hasPart then ({ sv with applied := idx }, []) else
    -- AddToISR: `p.isr[rep] = &replica{offset: -1}`
    ({ sv with isrOff := mSet sv.isrOff r (-1), applied := idx }, [])
  | .changeLeader l =>
    if !sv.hasPart then ({ sv with applied := idx }, []) else
    -- SetLeader: `if epoch < p.LeaderEpoch { error }`
    if Gen.Protocol.setLeaderEpochCmp.evalNat idx sv.leaderEpoch then ({ sv with applied := idx }, []) else
    let sv := { sv with leader := l, leaderEpoch := idx, applied := idx }
    if recovering || sv.recovered then (sv, []) else startRole c me sv

/-- Replay of ops `from+1 … upTo` during recovery. -/
def replay (c : Cfg) (me : Sid) (ops : List MetaOp) : Nat → Nat → Srv → Srv
  | 0, _, sv => sv
  | fuel + 1, idx, sv =>
    match ops[idx - 1]? with
    | none => sv
    | some op => replay c me ops fuel (idx + 1) (applyOp c me sv idx op true).1

/-! ### steps -/

inductive Step where
  | publish (s : Sid) (batch : List PubMsg)
  | fetch (f : Sid)
  | serve (l : Sid) (m : Net)
  | applyResp (f : Sid) (m : Net)
  | drop (m : Net)
  | commit (l : Sid)
  | shrinkDecision (l : Sid) (r : Sid)
  | expandDecision (l : Sid) (r : Sid)
  | clearCaughtUp (l : Sid) (r : Sid)
  | clearSeen (l : Sid) (r : Sid)
  | electDecision (cand : Sid)
  | raftCommit (op : MetaOp)
  | applyNext (s : Sid)
  | offServe (l : Sid) (m : Net)
  | reconcile (f : Sid) (m : Net)
  | reconcileFail (f : Sid)
  | crash (s : Sid)
  | restart (s : Sid) (upTo : Nat)
  deriving DecidableEq, Repr, Inhabited

def State.get (st : State) (s : Sid) : Option Srv := st.srv[s]?

def State.set (st : State) (s : Sid) (sv : Srv) : State := { st with srv := st.srv.set s sv }

def init (c : Cfg) : State :=
  { srv := List.replicate c.n { log := CLog.init c.maxSeg c.occ } }

/-- The messages of a batch that survive the per-message checks of `messageProcessingLoop`
(seal, then size), and the negative acks of the others. -/
def screen (me : Sid) (epoch : Nat) : List PubMsg → List PubMsg × List Ack
  | [] => ([], [])
  | m :: ms =>
    let (ok, nacks) := screen me epoch ms
    if m.sealFails then
      (ok, { cid := m.cid, policy := m.policy, offset := 0, err := .encryption, mid := m.mid, by_ := me, epoch := epoch, inbox := m.ackInbox } :: nacks)
    else if m.tooLarge then
      (ok, { cid := m.cid, policy := m.policy, offset := 0, err := .tooLarge, mid := m.mid, by_ := me, epoch := epoch, inbox := m.ackInbox } :: nacks)
    else (m :: ok, nacks)

def toMsg (epoch : Nat) (m : PubMsg) : CLog.Msg :=
  { ts := tsOf m.mid, epoch := epoch, body := bodyOf m.mid, expected := m.expected }

/-- `processPendingMessage` over the stored batch: LEADER-policy acks are sent at once; entries
go to the commit queue unless replication factor 1 and the policy is not ALL. -/
def pending (c : Cfg) (me : Sid) (epoch : Nat) : List PubMsg → List Int → List Ack × List Ack
  | m :: ms, o :: os =>
    let (sent, queued) := pending c me epoch ms os
    let ack : Ack := { cid := m.cid, policy := m.policy, offset := o, err := .ok, mid := m.mid, by_ := me, epoch := epoch, inbox := m.ackInbox }
    let sent := if m.policy = .leader then ack :: sent else sent
    if Gen.Protocol.pendingRFCmp.evalNat c.n 1 && m.policy ≠ .all then (sent, queued) else (sent, ack :: queued)
  | _, _ => ([], [])

/-- Only acks with an ack inbox are published (`sendAck`: `if ack.AckInbox == "" { return }`). -/
def published (as : List Ack) : List Ack := as.filter (·.inbox)

/-- One iteration of `messageProcessingLoop` on leader `me`. -/
def publishStep (c : Cfg) (me : Sid) (sv : Srv) (batch : List PubMsg) : Option (Srv × List Ack) :=
  let epoch := sv.leaderEpoch
  let (okMsgs, nacks) := screen me epoch batch
  if okMsgs.isEmpty then some (sv, published nacks) else
  match sv.log.append (okMsgs.map (toMsg epoch)) with
  | .panic => none
  | .err e =>
    let log := sv.log.checkSplitIfWritable
    if e = "incorrect-offset" then
      match okMsgs with
      | m :: _ =>
        some ({ sv with log := log },
              published (nacks ++ [{ cid := m.cid, policy := m.policy, offset := 0, err := .incorrectOffset, mid := m.mid, by_ := me, epoch := epoch, inbox := m.ackInbox }]))
      | [] => some ({ sv with log := log }, published nacks)
    else some ({ sv with log := log }, published nacks)
  | .ok (log, offs) =>
    let (sent, queued) := pending c me epoch okMsgs offs
    let fast := Gen.Protocol.fastPathRFCmp.evalNat c.n 1 && okMsgs.all (fun m => m.policy ≠ .all)
    let last := offs.getLast?.getD (-1)
    let log := if fast then log.setHW last else log
    let (isr, upd) := updateOffset sv.isrOff me last
    let cc := if upd then min c.n (sv.commitCheck + 1) else sv.commitCheck
    some ({ sv with log := log, queue := sv.queue ++ queued, isrOff := isr, commitCheck := cc },
          published (nacks ++ sent))

/-- The gate of `commitLoop`: "no commit below min ISR". Only a comparison of the CURRENT size of
`p.isr` with `p.minISR` counts (regenerated structural fact `Gen.Pipeline.commitGateCurrentIsr`: the
condition of the first `if … { …; continue }` before the commit queue is consulted); a gate that
reads anything else — a cached flag maintained by ISR transitions, say — is no gate for the model. -/
def commitGate (c : Cfg) (sv : Srv) : Bool :=
  Gen.Pipeline.commitGateCurrentIsr && Gen.Protocol.commitMinISRCmp.evalNat sv.isrOff.length c.minISR

/-- One iteration of `commitLoop` on a leader (after a commit-check signal). Returns the new
server state and the acks sent. -/
def commitStep (c : Cfg) (sv : Srv) : Srv × List Ack :=
  let sv := { sv with commitCheck := sv.commitCheck - 1 }
  if commitGate c sv then (sv, []) else
  let minLatest := goMin (sv.isrOff.map (·.2))
  let committed := sv.queue.takeWhile (fun a => Gen.Protocol.commitTakeCmp.evalInt a.offset minLatest)
  let rest := sv.queue.dropWhile (fun a => Gen.Protocol.commitTakeCmp.evalInt a.offset minLatest)
  ({ sv with log := sv.log.setHW minLatest, queue := rest },
   published (committed.filter (fun a => a.policy = .all)))

/-- `handleReplicationRequest` + one iteration of the replicator loop on leader `sv`. -/
def serveStep (c : Cfg) (sv : Srv) (src : Sid) (offset : Int) (epoch : Nat) (rid : Nat) : Srv × List Net :=
  if rejectFetch epoch sv.leaderEpoch then (sv, [])
  else if !(decide (src < c.n)) then (sv, [])
  else
    let (isr, upd) := updateOffset sv.isrOff src offset
    let cc := if upd then min c.n (sv.commitCheck + 1) else sv.commitCheck
    -- replicator.start: `r.lastSeen = req.received` for every request that reaches the replicator
    let sv := { sv with isrOff := isr, commitCheck := cc, seen := sInsert sv.seen src }
    let latest := sv.log.newest
    if Gen.Protocol.caughtUpCmp.evalInt offset latest then
      -- `r.caughtUp(…)`: `r.lastCaughtUp = req.received`
      ({ sv with caughtUp := mSet sv.caughtUp src offset }, [.replResp src rid sv.leaderEpoch sv.log.hw []])
    else
      let recs := match sv.log.readUncommitted (offset + Gen.Protocol.serveReadAddend) with
        | .ok rs => rs
        | _ => []
      -- lastCaughtUp is refreshed here as well iff the call is NOT under the offset comparison
      ({ sv with caughtUp := if Gen.Protocol.caughtUpGuarded then sv.caughtUp else mSet sv.caughtUp src offset },
       [.replResp src rid sv.leaderEpoch sv.log.hw recs])

/-- `handleReplicationResponse` on a follower. -/
def applyRespStep (sv : Srv) (epoch : Nat) (hw : Int) (recs : List Rec) : Srv :=
  if sv.role ≠ .follower then sv
  else if Gen.Protocol.replRespEpochCmp.evalNat sv.leaderEpoch epoch then sv
  else
    -- the follower adopts the leader's HW; since fix ba85aea it is capped at the follower's own
    -- newest offset, and raised again after the append (`Gen.Protocol.followerHwCapped`)
    let cap := fun (l : Log.CLog) => if Gen.Protocol.followerHwCapped then (if hw < l.newest then hw else l.newest) else hw
    let log := sv.log.setHW (cap sv.log)
    match recs with
    | [] => { sv with log := log }
    | r :: _ =>
      if Gen.Protocol.replRespOffsetCmp.evalInt r.offset (log.newest + 1) then { sv with log := log }
      else match log.appendSet recs with
        | .ok (log', _) => { sv with log := if Gen.Protocol.followerHwCapped then log'.setHW (cap log') else log' }
        | _ => { sv with log := log }

def isNetTo (s : Sid) : Net → Bool
  | .replResp d _ _ _ _ => d = s
  | .offResp d _ _ => d = s
  | _ => false

def isLeaderUp (sv : Srv) : Bool := sv.up && sv.role = .leader

/-- The transition function: `none` = the step is not enabled in this state. -/
def step (c : Cfg) (st : State) : Step → Option State
  | .publish s batch => do
    let sv ← st.get s
    if !isLeaderUp sv then none else
    let (sv', acks) ← publishStep c s sv batch
    pure { (st.set s sv') with acks := st.acks ++ acks }
  | .fetch f => do
    let sv ← st.get f
    if !(sv.up && sv.role = .follower) then none else
    let rid := sv.rid + 1
    pure { (st.set f { sv with rid := rid, waiting := some rid }) with
           net := st.net ++ [.replReq f (fetchFieldsOf sv).1 (fetchFieldsOf sv).2 rid] }
  | .serve l m => do
    let sv ← st.get l
    if !isLeaderUp sv || !st.net.contains m then none else
    match m with
    | .replReq src offset epoch rid =>
      let (sv', out) := serveStep c sv src offset epoch rid
      pure { (st.set l sv') with net := removeFirst st.net m ++ out }
    | _ => none
  | .applyResp f m => do
    let sv ← st.get f
    if !sv.up || !st.net.contains m then none else
    match m with
    | .replResp dst rid epoch hw recs =>
      if dst ≠ f || sv.waiting ≠ some rid then none else
      pure { (st.set f { applyRespStep sv epoch hw recs with waiting := none }) with net := removeFirst st.net m }
    | _ => none
  | .drop m => if st.net.contains m then some { st with net := removeFirst st.net m } else none
  | .commit l => do
    let sv ← st.get l
    if !isLeaderUp sv || sv.commitCheck = 0 then none else
    let (sv', acks) := commitStep c sv
    pure { (st.set l sv') with acks := st.acks ++ acks }
  | .shrinkDecision l r => do
    let sv ← st.get l
    let mv := metaView c.n st.committed
    -- replicator.tick: out of sync ∧ in the ISR ⇒ ShrinkISR; controller: leader and epoch must match
    if c.fixes.atomicPropose && !st.proposed.isEmpty then none else
    if !isLeaderUp sv || r = l || !(decide (r < c.n)) || !tickShrinks sv r then none
    else if Gen.Protocol.shrinkLeaderCmp.evalNat l mv.leader || Gen.Protocol.shrinkEpochCmp.evalNat sv.leaderEpoch mv.epoch then none
    else pure { st with proposed := st.proposed ++ [.shrink r] }
  | .expandDecision l r => do
    let sv ← st.get l
    let mv := metaView c.n st.committed
    if c.fixes.atomicPropose && !st.proposed.isEmpty then none else
    if !isLeaderUp sv || r = l || !(decide (r < c.n)) || !tickExpands sv r then none else
    -- the offset at which the replica was last seen caught up (ghost; -1: never within the window)
    let at_ := (lookup sv.caughtUp r).getD (-1)
    if c.fixes.expandNow && at_ < sv.log.hw then none
    else if Gen.Protocol.expandLeaderCmp.evalNat l mv.leader || Gen.Protocol.expandEpochCmp.evalNat sv.leaderEpoch mv.epoch then none
    else pure { st with proposed := st.proposed ++ [.expand r] }
  | .clearCaughtUp l r => do
    let sv ← st.get l
    if !isLeaderUp sv || (lookup sv.caughtUp r).isNone then none else
    pure (st.set l { sv with caughtUp := mErase sv.caughtUp r })
  | .clearSeen l r => do
    let sv ← st.get l
    -- lastCaughtUp ≤ lastSeen: the "seen" timer can only run out after the "caught up" timer
    if !isLeaderUp sv || !sv.seen.contains r || (lookup sv.caughtUp r).isSome then none else
    pure (st.set l { sv with seen := sv.seen.filter (· ≠ r) })
  | .electDecision cand =>
    let mv := metaView c.n st.committed
    -- electNewPartitionLeader: `len(isr) <= 1` ⇒ no candidates; candidates = ISR minus the leader
    if c.fixes.atomicPropose && !st.proposed.isEmpty then none
    else if !mv.exists_ || Gen.Protocol.electISRCmp.evalNat mv.isr.length 1 then none
    else if cand = mv.leader || !mv.isr.contains cand then none
    else some { st with proposed := st.proposed ++ [.changeLeader cand] }
  | .raftCommit op =>
    match op with
    | .create _ =>
      if st.committed.isEmpty then some { st with committed := [op] } else none
    | _ =>
      if st.proposed.contains op then
        some { st with proposed := removeFirst st.proposed op, committed := st.committed ++ [op] }
      else none
  | .applyNext s => do
    let sv ← st.get s
    if !sv.up || sv.role = .reconciling then none else
    let op ← st.committed[sv.applied]?
    let (sv', out) := applyOp c s sv (sv.applied + 1) op false
    pure { (st.set s sv') with net := st.net ++ out }
  | .offServe l m => do
    let sv ← st.get l
    if !isLeaderUp sv || !st.net.contains m then none else
    match m with
    | .offReq src epoch rid lepoch fepochs fend =>
      if c.fixes.fenceOffset && sv.leaderEpoch ≠ lepoch then none else
      let answer := if c.fixes.kip101 then kipAnswer sv.log fepochs fend else offsetAnswer c sv.log epoch
      pure { st with net := removeFirst st.net m ++ [.offResp src rid answer] }
    | _ => none
  | .reconcile f m => do
    let sv ← st.get f
    if !sv.up || sv.role ≠ .reconciling || !st.net.contains m then none else
    match m with
    | .offResp dst rid answer =>
      if dst ≠ f || sv.waiting ≠ some rid then none else
      pure { (st.set f { sv with log := reconcileTruncate c sv.log answer, role := .follower, waiting := none }) with
             net := removeFirst st.net m }
    | _ => none
  | .reconcileFail f => do
    let sv ← st.get f
    if !sv.up || sv.role ≠ .reconciling || c.fixes.noFallback || !Gen.Protocol.hwFallback then none else
    pure (st.set f { sv with log := truncateToHW sv.log, role := .follower, waiting := none })
  | .crash s => do
    let sv ← st.get s
    if !sv.up then none else
    pure { (st.set s { up := false, log := sv.log, applied := sv.applied, rid := sv.rid }) with
           net := st.net.filter (fun m => !isNetTo s m) }
  | .restart s upTo => do
    let sv ← st.get s
    if sv.up || upTo < sv.applied || st.committed.length < upTo then none else
    let sv0 : Srv := { up := true, log := sv.log.reopen, rid := sv.rid }
    let sv1 := replay c s st.committed upTo 1 sv0
    -- finishedRecovery → StartRecovered: start the partition, then clear `recovered`
    if sv1.hasPart then
      let (sv2, out) := startRole c s sv1
      pure { (st.set s { sv2 with applied := upTo }) with net := st.net ++ out }
    else pure (st.set s { sv1 with applied := upTo })

def run (c : Cfg) : State → List Step → Option State
  | st, [] => some st
  | st, s :: ss => (step c st s).bind (run c · ss)

/-! ### steps that name in-flight messages by their position in `State.net`
(the textual form used by Search, the driver, the corpus and the replays in Props) -/

inductive IStep where
  | publish (s : Sid) (batch : List PubMsg)
  | fetch (f : Sid)
  | serve (l : Sid) (i : Nat)
  | applyResp (f : Sid) (i : Nat)
  | drop (i : Nat)
  | commit (l : Sid)
  | shrinkDecision (l : Sid) (r : Sid)
  | expandDecision (l : Sid) (r : Sid)
  | clearCaughtUp (l : Sid) (r : Sid)
  | clearSeen (l : Sid) (r : Sid)
  | electDecision (cand : Sid)
  | raftCommit (op : MetaOp)
  | applyNext (s : Sid)
  | offServe (l : Sid) (i : Nat)
  | reconcile (f : Sid) (i : Nat)
  | reconcileFail (f : Sid)
  | crash (s : Sid)
  | restart (s : Sid) (upTo : Nat)
  deriving DecidableEq, Repr, Inhabited

def resolve (st : State) : IStep → Option Step
  | .publish s b => some (.publish s b)
  | .fetch f => some (.fetch f)
  | .serve l i => (st.net[i]?).map (.serve l ·)
  | .applyResp f i => (st.net[i]?).map (.applyResp f ·)
  | .drop i => (st.net[i]?).map .drop
  | .commit l => some (.commit l)
  | .shrinkDecision l r => some (.shrinkDecision l r)
  | .expandDecision l r => some (.expandDecision l r)
  | .clearCaughtUp l r => some (.clearCaughtUp l r)
  | .clearSeen l r => some (.clearSeen l r)
  | .electDecision c => some (.electDecision c)
  | .raftCommit op => some (.raftCommit op)
  | .applyNext s => some (.applyNext s)
  | .offServe l i => (st.net[i]?).map (.offServe l ·)
  | .reconcile f i => (st.net[i]?).map (.reconcile f ·)
  | .reconcileFail f => some (.reconcileFail f)
  | .crash s => some (.crash s)
  | .restart s k => some (.restart s k)

def istep (c : Cfg) (st : State) (i : IStep) : Option State := (resolve st i).bind (step c st)

def irun (c : Cfg) : State → List IStep → Option State
  | st, [] => some st
  | st, s :: ss => (istep c st s).bind (irun c · ss)

/-- All intermediate states of a run (including the first), `none` if a step is not enabled. -/
def itrace (c : Cfg) : State → List IStep → Option (List State)
  | st, [] => some [st]
  | st, s :: ss => (istep c st s).bind fun st' => (itrace c st' ss).map (st :: ·)

/-! ### observation: the C02 / C04 predicates (Bool, evaluated by Search, Driver and Props) -/

def logs (st : State) : List CLog := st.srv.map (·.log)

/-- Union of the leader's view of the ISR and the controller's. -/
def isrAtMoment (c : Cfg) (st : State) (sv : Srv) : List Sid :=
  (metaView c.n st.committed).isr.foldl sInsert (keys sv.isrOff)

def storedBy (st : State) (s : Sid) (r : Rec) : Bool :=
  match st.get s with
  | some sv => recAt sv.log r.offset = some r
  | none => false

/-- Messages that are committed in the sense of the property: at or below the HW of a leader
that is up while every member of the ISR (leader's view ∪ controller's view) stores the very
same record. Paired with the epoch of that leader. -/
def committedNow (c : Cfg) (st : State) : List (Rec × Nat) :=
  st.srv.flatMap fun sv =>
    if isLeaderUp sv then
      (sv.log.abs.filter fun r => r.offset ≤ sv.log.hw && (isrAtMoment c st sv).all (fun m => storedBy st m r)).map (·, sv.leaderEpoch)
    else []

/-- Ghost history: every (record, epoch) that was committed in some state so far. -/
abbrev Ghost := List (Rec × Nat)

def observe (c : Cfg) (st : State) (g : Ghost) : Ghost :=
  (committedNow c st).foldl (fun g p => if g.any (fun q => q.1 = p.1 && q.2 ≤ p.2) then g else g ++ [p]) g

/-- C02a violated: a committed record is missing or different in the log of a server that
leads in a later epoch. -/
def lostCommitted (st : State) (g : Ghost) : List (Rec × Nat × Sid) :=
  g.flatMap fun (r, e) =>
    (List.range st.srv.length).filterMap fun s =>
      match st.get s with
      | some sv => if isLeaderUp sv && e < sv.leaderEpoch && recAt sv.log r.offset ≠ some r then some (r, e, s) else none
      | none => none

/-- C02b violated: two replicas hold different records at an offset at or below both HWs. -/
def divergedBelowHW (st : State) : List (Sid × Sid × Int) :=
  (List.range st.srv.length).flatMap fun a =>
    (List.range st.srv.length).flatMap fun b =>
      if a < b then
        match st.get a, st.get b with
        | some x, some y =>
          (x.log.abs.filter fun r => r.offset ≤ x.log.hw && r.offset ≤ y.log.hw &&
            (match recAt y.log r.offset with | some r' => r' ≠ r | none => false)).map fun r => (a, b, r.offset)
        | _, _ => []
      else []

/-- C04, judged at the moment an ack is sent (`post` = state right after the step that
published it; such a step does not change any other replica's log or the ISR). -/
def ackProblems (c : Cfg) (post : State) (a : Ack) : List String :=
  match post.get a.by_ with
  | none => ["ack-from-nowhere"]
  | some sv =>
    if a.err ≠ .ok then [] else
    let here := match recAt sv.log a.offset with | some r => Rec.mid r = a.mid | none => false
    (if a.policy = .none then ["ack-for-policy-none"] else []) ++
    (if !here then [if a.policy = .leader then "leader-ack-before-stored" else "ack-offset-mismatch"] else []) ++
    (if a.policy = .all then
      (if sv.isrOff.length < c.minISR then ["all-ack-below-min-isr"] else []) ++
      (if (keys sv.isrOff).all (fun m => match post.get m with
          | some x => (match recAt x.log a.offset with | some r => Rec.mid r = a.mid | none => false)
          | none => false) then [] else ["all-ack-not-stored-by-isr"])
     else [])

/-- Acks published by the step `pre → post`. -/
def newAcks (pre post : State) : List Ack := post.acks.drop pre.acks.length

def ackViolations (c : Cfg) (pre post : State) : List String :=
  (newAcks pre post).flatMap (ackProblems c post)

/-- A negatively acknowledged message is stored somewhere. -/
def nackedStored (st : State) : List Nat :=
  (st.acks.filter (·.err ≠ .ok)).filterMap fun a =>
    if st.srv.any (fun sv => sv.log.abs.any (fun r => Rec.mid r = a.mid)) then some a.mid else none

/-- Correlation: every positive ack carries the correlation id the message was published
with (`cidOf` = the publisher's table). -/
def ackCorrelationOK (cidOf : Nat → Nat) (st : State) : Bool :=
  st.acks.all fun a => a.cid = cidOf a.mid

/-! ### monitored replay (used by Search, the driver and the negation witnesses in Props) -/

/-- Kinds of violation visible after the step `pre → post` with ghost history `g` (already
updated for `post`). -/
def violationsOf (c : Cfg) (pre post : State) (g : Ghost) : List String :=
  (if (lostCommitted post g).isEmpty then [] else ["C02a-lost-committed"]) ++
  (if (divergedBelowHW post).isEmpty then [] else ["C02b-diverged-below-hw"]) ++
  (((ackViolations c pre post).map ("C04-" ++ ·)).foldl (fun acc k => if acc.contains k then acc else acc ++ [k]) []) ++
  (if (nackedStored post).isEmpty then [] else ["C04-nacked-stored"])


/-- Violation kinds met along a path (`none`: not a path of this model variant). -/
def replayViolAux (c : Cfg) : State → Ghost → List String → List IStep → Option (List String)
  | _, _, acc, [] => some acc
  | st, g, acc, i :: rest =>
    match istep c st i with
    | none => none
    | some post =>
      let g' := observe c post g
      let v := violationsOf c st post g'
      replayViolAux c post g' (acc ++ v.filter (fun k => !acc.contains k)) rest

def replayViol (c : Cfg) (steps : List IStep) : Option (List String) := replayViolAux c (init c) [] [] steps

/-- Lenient replay: steps that are not enabled are skipped (used to see whether a witness
survives a repair that changes which steps are enabled). -/
def replayLenient (c : Cfg) : State → Ghost → List String → List IStep → List String
  | _, _, acc, [] => acc
  | st, g, acc, i :: rest =>
    match istep c st i with
    | none => replayLenient c st g acc rest
    | some post =>
      let g' := observe c post g
      let v := violationsOf c st post g'
      replayLenient c post g' (acc ++ v.filter (fun k => !acc.contains k)) rest


end Liftbridge.Protocol
