/-
Model of server/commitlog/delete_cleaner.go: retention by age, then message count, then
bytes, then age again, at segment granularity, always keeping the last (active) segment.
-/
import Liftbridge.Model.Log
import Liftbridge.Gen.Retention

namespace Liftbridge.Retention
open Liftbridge Liftbridge.Log

/-- Retention limits; `0` = not configured (as in the Go options). `ttl` is what
`computeTTL(Age)` returned for this clean (now − age), an explicit input. -/
structure Limits where
  bytes : Int
  msgs : Int
  age : Int
  deriving Repr, DecidableEq, Inhabited

/-- `applyAgeLimit`: drop the longest prefix of non-last segments whose last write time is
before the TTL (the loop stops at the first segment that is the last one or is young enough). -/
def applyAge (ttl : Int) : List Seg → List Seg
  | [] => []
  | [s] => [s]
  | s :: s' :: rest => if Gen.Retention.ageCmp.evalInt s.lastTs ttl then applyAge ttl (s' :: rest) else s :: s' :: rest

/-- Walk backwards from the segment before the last one, adding sizes; stop at the first segment
that makes the running total exceed the limit (`total > limit ⇒ break`). Input and output are in
reverse log order. -/
def keepBack (cmp : Cmp) (limit : Int) (size : Seg → Int) : List Seg → Int → List Seg
  | [], _ => []
  | s :: rest, total =>
    let t := total + size s
    if cmp.evalInt t limit then [] else s :: keepBack cmp limit size rest t

/-- `applyMessagesLimit` / `applyBytesLimit`. -/
def applyLimit (cmp : Cmp) (limit : Int) (size : Seg → Int) (segs : List Seg) : List Seg :=
  match segs.reverse with
  | [] => []
  | last :: revInit => (last :: keepBack cmp limit size revInit (size last)).reverse

def msgSize (s : Seg) : Int := s.count
def byteSize (s : Seg) : Int := s.position

/-- `deleteCleaner.Clean`. -/
def clean (lim : Limits) (ttl : Int) (segs : List Seg) : List Seg :=
  if lim.bytes = 0 ∧ lim.msgs = 0 ∧ lim.age = 0 then segs else
  let s1 := if Gen.Retention.ageOnCmp.evalInt lim.age 0 then applyAge ttl segs else segs
  let s2 := if Gen.Retention.msgsOnCmp.evalInt lim.msgs 0 then applyLimit Gen.Retention.msgsCmp lim.msgs msgSize s1 else s1
  let s3 := if Gen.Retention.bytesOnCmp.evalInt lim.bytes 0 then applyLimit Gen.Retention.bytesCmp lim.bytes byteSize s2 else s2
  -- the age limit is enforced again: removing segments by count or size can uncover old ones
  if Gen.Retention.ageSecondPass && Gen.Retention.ageOnCmp.evalInt lim.age 0 then applyAge ttl s3 else s3

/-- `commitLog.Clean` without compaction: swap the segment list and move the earliest leader
epoch forward to the new first segment's *base* offset. -/
def cleanLog (lim : Limits) (ttl : Int) (l : CLog) : CLog :=
  let segs := clean lim ttl l.segs
  match segs.head? with
  | none => l
  | some s0 => { l with segs := segs, epochs := l.epochs.clearEarliest s0.base }

end Liftbridge.Retention
