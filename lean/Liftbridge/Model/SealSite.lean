/-
Vocabulary of the regenerated seal / deliver pipeline table (Gen/SealPipe.lean, produced by
extract/gen_sealpipe.go from every non-test file of /repo/server). Kept apart from
Model/SealPipe.lean because the generated file imports it. Core Lean only.
-/
namespace Liftbridge.SealPipe

/-- One place where a commit-log message is built from a received publish
(`m := natsToProtoMessage(msg, …)`) and put into the batch that `log.Append` stores. -/
structure IngestSite where
  /-- enclosing function -/
  func : String
  /-- `first` (first message of a batch), `queued` (non-blocking receive of messages that are
  already there), `waiting` (blocking receive while the batch fills, `batch.max.time > 0`) -/
  ctx : String
  /-- an `if <p>.encryptionHandler != nil { … Seal(m.Value) … }` sits between construction and store -/
  guarded : Bool
  /-- inside it `m.Value` is replaced by the result of `Seal(m.Value)`; nothing rewrites it before the store -/
  seals : Bool
  /-- a `Seal` error leaves the iteration (`continue` / `return`) without storing `m` -/
  errSkips : Bool
  deriving Repr, DecidableEq

/-- One place where a stored message is read back (`reader.ReadMessage`) and handed to a client. -/
structure DeliverSite where
  func : String
  /-- an `if <p>.encryptionHandler != nil { … Read(v) … }` sits between `v := m.Value()` and the client message -/
  guarded : Bool
  /-- inside it `v` is replaced by the result of `Read(v)` -/
  reads : Bool
  /-- the `Read` error branch sends a status derived from the error on the error channel -/
  errReports : Bool
  /-- the `Read` error branch ends with `return` and sends nothing on the message channel -/
  errEnds : Bool
  /-- the client message carries that `v` -/
  deliversRead : Bool
  deriving Repr, DecidableEq

end Liftbridge.SealPipe
