/-
Model of the partition's SEAL / DELIVER PIPELINE (C17), server/partition.go:

  publish ──NATS──▶ messageProcessingLoop ──(ingest site: natsToProtoMessage, Seal)──▶ batch
          ──log.Append──▶ partition log ──ReadMessage──▶ newSubscribeLoop (deliver site: Read)
          ──▶ subscriber

The loop turns received messages into commit-log messages at SEVERAL sites (first message of a
batch, messages already queued, messages arriving while the batch fills); each site is one row
of the regenerated table `Gen.SealPipe.ingestSites`, each read loop one row of
`Gen.SealPipe.deliverSites`. The functions below are parameterised by a row and do exactly what
the row's facts say, so a site that stops sealing (or a read loop that skips an unreadable
value) changes the model on the next run and the theorems of Props/C17Pipe.lean, which are
stated over the generated tables, stop checking.

The codec (`LocalEncryptionHandler.Seal` / `.Read`, modelled in Model/Seal.lean) is a
parameter; `ofCrypto` instantiates it with that model. Core Lean only.
-/
import Liftbridge.Base
import Liftbridge.Model.Seal
import Liftbridge.Model.SealSite
import Liftbridge.Gen.SealPipe

namespace Liftbridge.SealPipe
open Liftbridge

/-- `encryption.Codec` of one partition. `doSeal r v` is the `r`-th call of `Seal` (fresh data key
and nonce per call are hidden in `r`); `none` = returned an error. -/
structure Codec where
  doSeal : Nat → Bytes → Option Bytes
  doRead : Bytes → Option Bytes

/-- What one ingest site puts into the batch for a received value: `some stored`, or `none`
when the message is dropped (Seal failed, an ENCRYPTION nack is sent). `enc` =
`p.encryptionHandler != nil`. A site that does not seal stores the value as received; a site
that does not leave on a Seal error stores the value as received, too (`m.Value` untouched). -/
def ingest (s : IngestSite) (enc : Bool) (c : Codec) (r : Nat) (v : Bytes) : Option Bytes :=
  if enc && s.guarded && s.seals then
    match c.doSeal r v with
    | some x => some x
    | none => if s.errSkips then none else some v
  else some v

/-- A received publish: the site of the loop it is taken at and its value. -/
structure Pub where
  site : Nat
  value : Bytes
  deriving Repr, DecidableEq

/-- The (published value, stored value) pairs the log holds after the publishes `ps`, `r` being
the index of the first one (the i-th publish draws randomness `r + i`). A publish taken at a
site that does not exist stores nothing. -/
def storePairs (sites : List IngestSite) (enc : Bool) (c : Codec) : Nat → List Pub → List (Bytes × Bytes)
  | _, [] => []
  | r, p :: ps =>
    match sites[p.site]? with
    | none => storePairs sites enc c (r + 1) ps
    | some s =>
      match ingest s enc c r p.value with
      | none => storePairs sites enc c (r + 1) ps
      | some x => (p.value, x) :: storePairs sites enc c (r + 1) ps

/-- The stored values, in log order. -/
def store (sites : List IngestSite) (enc : Bool) (c : Codec) (ps : List Pub) : List Bytes :=
  (storePairs sites enc c 0 ps).map Prod.snd

/-- What the read loop does with one stored value. -/
inductive Step where
  /-- hands this value to the subscriber and goes on -/
  | deliver (v : Bytes)
  /-- leaves the loop; `reported` = a status went to the subscriber -/
  | stop (reported : Bool)
  /-- goes on with the next message without delivering anything -/
  | skip
  deriving Repr, DecidableEq

def deliverStep (d : DeliverSite) (enc : Bool) (c : Codec) (stored : Bytes) : Step :=
  if enc && d.guarded then
    match c.doRead stored with
    | some p => .deliver (if d.reads && d.deliversRead then p else stored)
    | none => if d.errEnds then .stop d.errReports else .skip
  else .deliver stored

/-- How a subscription stands after the log has been read to its end. -/
inductive Ending where
  /-- still subscribed, waiting for new messages -/
  | waiting
  /-- ended with an error status -/
  | error
  /-- ended without telling the subscriber -/
  | silent
  deriving Repr, DecidableEq

structure Outcome where
  delivered : List Bytes
  ending : Ending
  deriving Repr, DecidableEq

/-- A subscription from the earliest offset over the stored values `log`. -/
def subscribe (d : DeliverSite) (enc : Bool) (c : Codec) : List Bytes → Outcome
  | [] => ⟨[], .waiting⟩
  | s :: rest =>
    match deliverStep d enc c s with
    | .deliver v => let o := subscribe d enc c rest; ⟨v :: o.delivered, o.ending⟩
    | .skip => subscribe d enc c rest
    | .stop reported => ⟨[], if reported then .error else .silent⟩

/-- Every site seals: guarded by the handler test, value replaced, error leaves. -/
def allSeal (sites : List IngestSite) : Bool :=
  sites.all fun s => s.guarded && s.seals && s.errSkips

/-- Every read loop decrypts, delivers the decrypted value and ends with a status on error. -/
def allRead (ds : List DeliverSite) : Bool :=
  ds.all fun d => d.guarded && d.reads && d.deliversRead && d.errReports && d.errEnds

def resToOption {α} : Res α → Option α
  | .ok a => some a
  | _ => none

/-- The codec of Model/Seal.lean: one data key per handler, the `r`-th call draws `nonce r`. -/
def ofCrypto (k : Seal.Crypto) (dek : Bytes) (nonce : Nat → Bytes) : Codec where
  doSeal := fun r v => resToOption (Seal.sealData k dek (nonce r) v)
  doRead := fun b => resToOption (Seal.read k b)

end Liftbridge.SealPipe
