/-
Model of the activity stream (server/activity.go, the PUBLISH_ACTIVITY case of server/fsm.go,
Snapshot/Restore of server/fsm.go, leadershipAcquired/leadershipLost of server/server.go) — C18.

* `raft` is the committed metadata Raft log; entry `k` (0-based) has Raft index `k+1`. Entries
  are never removed from the model's list: `floor` records the first index the log STORE still
  has after hashicorp/raft's `compactLogs` (everything below is only in the snapshot).
* `lastPublished` is `activityManager.lastPublishedRaftIndex` of the controller: written only by
  the FSM when it applies a PUBLISH_ACTIVITY entry; after a process restart it is what
  `Restore` (which does not touch it — regenerated fact `snapshotCarriesLastPublished`) followed by
  the replay of the entries after the snapshot leaves.
* `dispatcher` is the `dispatch` goroutine of the controller: its local `index` and whether it
  sits in the RETRY loop holding the entry in memory. `zombies` are dispatch goroutines of earlier
  leaderships that did not see their stop signal yet (BecomeFollower closes a channel that the
  goroutine only polls between entries; a goroutine inside `handleRaftLog` can still publish,
  and — if the node regained leadership meanwhile — still record).
* One `dispatch` step is one iteration of the loop body for one entry, with the outcome of the
  two external calls (`api.Publish`, Raft `applyOperation`) as an explicit input.

Decision points are evaluated through `Gen.Activity.*`, regenerated from the source on every run.
-/
import Liftbridge.Base
import Liftbridge.Cmp
import Liftbridge.Gen.Activity

namespace Liftbridge.Activity

/-- One committed entry of the metadata Raft log. -/
structure Entry where
  /-- `log.Type == raft.LogCommand` (false: LogNoop / LogBarrier / LogConfiguration). -/
  cmd : Bool := true
  /-- `proto.Op` number of the operation. -/
  op : Nat := 0
  /-- `PublishActivityOp.RaftIndex` (PUBLISH_ACTIVITY only). -/
  arg : Nat := 0
  /-- CREATE_CONSUMER_GROUP whose member list is empty. -/
  noMembers : Bool := false
  deriving DecidableEq, Repr, Inhabited

/-- What was appended to `__activity`: the event id and the `client.ActivityStreamOp` number. -/
structure Event where
  id : Nat
  op : Nat
  deriving DecidableEq, Repr, Inhabited

/-- `handleRaftLog`: the activity op published for an entry, `none` when the entry is skipped
(`default: return nil`, the empty-member guard, or not a command at all). -/
def eventOf (e : Entry) : Option Nat :=
  if e.cmd then
    match Gen.Activity.eventCases.find? (fun c => c.1 == e.op) with
    | some (_, act, guard) => if guard && e.noMembers then none else some act
    | none => none
  else none

def isPA (e : Entry) : Bool := e.cmd && e.op == Gen.Activity.opPublishActivity

def paEntry (i : Nat) : Entry := { cmd := true, op := Gen.Activity.opPublishActivity, arg := i }

/-- A `dispatch` goroutine. -/
structure Disp where
  next : Nat
  holding : Bool := false
  deriving DecidableEq, Repr, Inhabited

structure State where
  raft : List Entry := []
  floor : Nat := 1
  snap : Nat := 0
  lastPublished : Nat := 0
  stream : List Event := []
  dispatcher : Option Disp := none
  zombies : List Disp := []
  crashed : Bool := false
  /-- `activity.stream.publish.ack.policy: none` — Publish returns without waiting for an ack. -/
  ackNone : Bool := false
  deriving Repr, Inhabited

def init (ackNone : Bool) : State := { ackNone := ackNone }

def entryAt (raft : List Entry) (i : Nat) : Option Entry :=
  if i = 0 then none else raft[i - 1]?

/-- Is the entry with Raft index `i` committed and event-bearing? -/
def evAt (raft : List Entry) (i : Nat) : Bool :=
  match entryAt raft i with
  | some e => (eventOf e).isSome
  | none => false

def ids (s : State) : List Nat := s.stream.map (·.id)

/-- FSM replay of a list of entries: the only op that touches the index is PUBLISH_ACTIVITY. -/
def replay (start : Nat) (entries : List Entry) : Nat :=
  entries.foldl (fun lp e => if isPA e then (if Gen.Activity.applyStoresArg then e.arg else lp) else lp) start

/-- `lastPublishedRaftIndex` of a fresh process whose FSM was restored from a snapshot taken at
index `snap` and then replayed the rest of the log. `carries` = the snapshot contains the index. -/
def restoredC (carries : Bool) (snap : Nat) (raft : List Entry) : Nat :=
  replay (if carries then replay 0 (raft.take snap) else 0) (raft.drop snap)

def restored (snap : Nat) (raft : List Entry) : Nat :=
  restoredC Gen.Activity.snapshotCarriesLastPublished snap raft

/-- Outcome of `handleRaftLog` for an event-bearing entry.
* `pubFail`: `api.Publish` failed and nothing was appended.
* `appended`: the event was appended but `handleRaftLog` returned an error (ack timed out, or the
  Raft record failed and was not committed).
* `recorded`: appended, the PUBLISH_ACTIVITY entry was committed, but an error was still returned
  (the timeout future fired first).
* `ok`: appended, recorded, `nil` returned.
* `lost`: ack policy NONE only — `Publish` returned `nil` without confirmation, the message never
  reached the partition, the index was recorded. -/
inductive Outcome where
  | pubFail | appended | recorded | ok | lost
  deriving DecidableEq, Repr, Inhabited

inductive Step where
  /-- a metadata operation (or a Raft-internal entry) is committed -/
  | commit (e : Entry)
  /-- one loop iteration of a dispatch goroutine: `who = 0` the controller's, `who = k+1` zombie `k` -/
  | dispatch (who : Nat) (o : Outcome)
  /-- control passes on: `view = none` — to an FSM that applied the same entries one by one (another
  node, or the same node re-elected); `view = some v` — to a node whose FSM was restored from a
  snapshot at index `v`. `linger`: the old goroutine has not seen its stop signal yet. -/
  | leaderChange (view : Option Nat) (linger : Bool)
  /-- the controller process restarts (from its newest snapshot) and is elected again -/
  | restart
  /-- hashicorp/raft takes a snapshot at applied index `idx` and truncates the log store to `[f, …]` -/
  | snapshot (idx f : Nat)
  deriving Repr, Inhabited

def getDisp (s : State) (who : Nat) : Option Disp :=
  match who with
  | 0 => s.dispatcher
  | k + 1 => s.zombies[k]?

def setDisp (s : State) (who : Nat) (d : Disp) : State :=
  match who with
  | 0 => { s with dispatcher := some d }
  | k + 1 => { s with zombies := s.zombies.set k d }

/-- `event.Id = l.Index`. -/
def eventId (i : Nat) : Nat := if Gen.Activity.idIsIndex then i else 0

/-- `PublishActivityOp{RaftIndex: event.Id}` committed and applied by the controller's FSM. -/
def record (s : State) (id : Nat) : State :=
  let arg := if Gen.Activity.recordArgIsEventId then id else 0
  { s with raft := s.raft ++ [paEntry arg],
           lastPublished := if Gen.Activity.applyStoresArg then arg else s.lastPublished }

def append (s : State) (ev : Event) : State := { s with stream := s.stream ++ [ev] }

/-- `handleRaftLog` for an event-bearing entry with Raft index `i`, by outcome. -/
def publishE (s : State) (who i act : Nat) : Outcome → Res State
  | .pubFail => .ok (setDisp s who { next := i, holding := true })
  | .appended => .ok (setDisp (append s { id := eventId i, op := act }) who { next := i, holding := true })
  | .recorded =>
    .ok (setDisp (record (append s { id := eventId i, op := act }) (eventId i)) who { next := i, holding := true })
  | .ok =>
    .ok (setDisp (record (append s { id := eventId i, op := act }) (eventId i)) who { next := i + 1, holding := false })
  | .lost =>
    if s.ackNone then .ok (setDisp (record s (eventId i)) who { next := i + 1, holding := false })
    else .err "ack-policy"

/-- One iteration of the `dispatch` loop of goroutine `who`. -/
def dispatchE (s : State) (who : Nat) (o : Outcome) : Res State :=
  if s.crashed then .err "crashed" else
  match getDisp s who with
  | none => .err "no-dispatcher"
  | some d =>
    -- `if index > raftNode.getCommitIndex() { wait }`
    if Gen.Activity.caughtUpCmp.evalNat d.next s.raft.length then .err "waiting" else
    -- `if err := raftNode.store.GetLog(index, log); err != nil { panic(err) }`
    if !d.holding && (decide (d.next < s.floor) || decide (d.next = 0)) then
      if Gen.Activity.getLogErrorPanics then
        .ok { s with crashed := true, dispatcher := none, zombies := [] }
      else .err "stuck"
    else
    match entryAt s.raft d.next with
    | none => .err "no-entry"
    | some e =>
      match eventOf e with
      | none => .ok (setDisp s who { next := d.next + 1, holding := false })
      | some act => publishE s who d.next act o

/-- The `lastPublishedRaftIndex` the next controller starts from. -/
def viewOf (s : State) : Option Nat → Nat
  | none => s.lastPublished
  | some v => restored v s.raft

def startDisp (lp : Nat) : Disp := { next := lp + Gen.Activity.startOffset, holding := false }

/-- One step; `.err` = the step is not enabled in this state (the state is then unchanged). -/
def stepE (s : State) : Step → Res State
  | .commit e =>
    if isPA e then .err "pa-only-by-dispatcher" else .ok { s with raft := s.raft ++ [e] }
  | .dispatch who o => dispatchE s who o
  | .leaderChange view linger =>
    let zs := match s.dispatcher, linger with
      | some d, true => s.zombies ++ [d]
      | _, _ => s.zombies
    .ok { s with crashed := false, lastPublished := viewOf s view, zombies := zs,
                 dispatcher := some (startDisp (viewOf s view)) }
  | .restart =>
    .ok { s with crashed := false, lastPublished := restored s.snap s.raft, zombies := [],
                 dispatcher := some (startDisp (restored s.snap s.raft)) }
  | .snapshot idx f =>
    if s.crashed then .err "crashed" else
    if s.snap ≤ idx ∧ idx ≤ s.raft.length ∧ s.floor ≤ f ∧ f ≤ idx + 1 then
      .ok { s with snap := idx, floor := f }
    else .err "not-enabled"

def step (s : State) (st : Step) : State :=
  match stepE s st with
  | .ok s' => s'
  | _ => s

def run (s : State) (steps : List Step) : State := steps.foldl step s

/-- First occurrences of a list, in order of appearance. -/
def firsts (l : List Nat) : List Nat :=
  l.foldl (fun acc x => if x ∈ acc then acc else acc ++ [x]) []

/-- `n` successful iterations of the controller's dispatch goroutine. -/
def drive : Nat → State → State
  | 0, s => s
  | n + 1, s => drive n (step s (.dispatch 0 .ok))

end Liftbridge.Activity
