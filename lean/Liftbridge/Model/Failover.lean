/-
Model of partition leadership changes on the metadata leader ("controller"):
server/metadata.go (ShrinkISR / ExpandISR / ReportLeader / electNewPartitionLeader /
RemoveFromISR / AddToISR / ChangeLeader / LostLeadership / removeStream), server/failover.go
(failoverStatus.report, partitionFailover.Quorum), server/fsm.go (epoch = Raft index of the
entry), server/partition.go (SetLeader, RemoveFromISR, AddToISR).

Go state                                           model
--------------------------------------------------------------------------------------------
metadataAPI.streams … *partition                   `Ctl.parts : PKey → Option Part`
  {Replicas, Isr (the `isr` map), Leader,            (`isr`, `replicas`: Go map key sets as
   LeaderEpoch, Epoch}                                duplicate-free lists)
metadataAPI.partitionFailovers[*partition]         `Ctl.fos : PKey → Option FStat`
  failoverStatus{witnesses, timer}                   (`armed` = the timer exists and runs; the
                                                      entry of a deleted partition is deleted with
                                                      it, so keying by name = keying by pointer)
requests that passed the checks made when they     `Ctl.inflight : List Op`
  came in and wait for `raftNode.applyOperation`
  (Raft lock → barrier → precondition → Apply)
last Raft index applied                            `Ctl.index`
the process died in `Server.Apply` (`panic(err)`)  `Ctl.crashed`

GRANULARITY.  A request is TWO steps: the checks of `ShrinkISR`/`ExpandISR`/`ReportLeader`
(`reqShrink`, `reqExpand`, `report`; they run on the caller's goroutine without any lock that
spans the proposal) and `commit k gap`, which takes ANY in-flight request `k`, runs the
precondition callback of `applyOperation` and applies the entry at Raft index
`index + 1 + gap` on the state of that moment (`gap` = entries of other kinds in between, e.g.
the barrier).  Two requests checked against the same state and both committed — the
check-then-propose race — are therefore histories of the model.  Inside `applyOperation`
nothing can interleave (Raft lock held from the barrier to `Apply`; every proposal of the
controller goes through it), so precondition + apply is one step.  `ReportLeader`'s own check
and witness insertion are one step (in-memory, microseconds apart; recorded as an assumption).

CANDIDATE SELECTION.  `electNewPartitionLeader` builds the candidates by ranging over the `isr`
MAP (random order), stable-sorts them by `brokerLeaderLoad` and takes the first: which in-sync
follower wins depends on map iteration order and on the leader counts of all other streams.  The
model takes the winner as an input (`choice`) and accepts any in-sync replica other than the
leader; any other choice is `illegal` (not a step of the system).

TIME.  The expiry timer is an event: `expire p` stands for "ReplicaMaxLeaderTimeout elapsed
since the last report for `p` that did not trigger", it fires only on an armed timer.

`Cfg` collects the structural facts that the proposed repairs (fixes/C07-*.diff) change; the
extractor regenerates them from the source (`Cfg.code`), so the model follows the code with and
without the repairs.
-/
import Liftbridge.Base
import Liftbridge.Cmp
import Liftbridge.Gen.Failover

namespace Liftbridge.Failover
open Liftbridge

abbrev Id := String
abbrev PKey := String

/-- Go string comparison (only `==` / `!=` occur). -/
def cmpId : Cmp → Id → Id → Bool
  | .lt, a, b => decide (a < b)
  | .le, a, b => decide (a ≤ b)
  | .gt, a, b => decide (b < a)
  | .ge, a, b => decide (b ≤ a)
  | .eq, a, b => decide (a = b)
  | .ne, a, b => decide (a ≠ b)

/-- Structural facts of the code that the model depends on. -/
structure Cfg where
  /-- `newPartitionFailoverHandler` deletes the failover entry before electing -/
  dropOnTrigger : Bool
  /-- `ChangeLeader` (commit) deletes the failover entry -/
  dropOnChange : Bool
  /-- only witnesses that are in-sync followers at the time of the test are counted -/
  followerOnly : Bool
  /-- (leader, epoch[, candidate]) validated again by the `applyOperation` precondition -/
  underLock : Bool
  /-- `ShrinkISR` refuses to remove the leader -/
  shrinkNotLeader : Bool
  /-- `ShrinkISR`/`ExpandISR` refuse a broker that is not a replica -/
  replicaOnly : Bool
  deriving Repr, DecidableEq

/-- What the source says now (regenerated). -/
def Cfg.code : Cfg :=
  { dropOnTrigger := Gen.Failover.dropOnTrigger, dropOnChange := Gen.Failover.dropOnChange,
    followerOnly := Gen.Failover.witnessFollowerOnly, underLock := Gen.Failover.underLock,
    shrinkNotLeader := Gen.Failover.shrinkRefusesLeader, replicaOnly := Gen.Failover.isrChangeRequiresReplica }

/-- The code with fixes/C07-*.diff applied. -/
def Cfg.fixed : Cfg := ⟨true, true, true, true, true, true⟩

/-- The code as it was found. -/
def Cfg.asFound : Cfg := ⟨false, false, false, false, false, false⟩

structure Part where
  replicas : List Id
  isr : List Id
  leader : Id
  leaderEpoch : Nat
  epoch : Nat
  deriving Repr, DecidableEq

/-- One `failoverStatus`. -/
structure FStat where
  witnesses : List Id
  armed : Bool
  deriving Repr, DecidableEq

/-- A request that passed the incoming checks and is about to be proposed. `change` carries what
`electNewPartitionLeader` read when it selected the candidate (not part of the Raft entry). -/
inductive Op where
  | shrink (p : PKey) (replica leader : Id) (le : Nat)
  | expand (p : PKey) (replica leader : Id) (le : Nat)
  | change (p : PKey) (cand oldLeader : Id) (oldEpoch : Nat)
  deriving Repr, DecidableEq

structure Ctl where
  parts : PKey → Option Part := fun _ => none
  fos : PKey → Option FStat := fun _ => none
  inflight : List Op := []
  index : Nat := 0
  crashed : Bool := false

inductive Why where
  | noPartition | stale | leaderRemoval | notReplica | candidateGone
  deriving Repr, DecidableEq

inductive Out where
  /-- report: witness stored, timer (re)armed -/
  | recorded
  /-- report: quorum reached, `ChangeLeader(c)` about to be proposed -/
  | triggered (c : Id)
  /-- report: quorum reached, "No ISR candidates" -/
  | noCandidates
  /-- shrink / expand request passed the checks -/
  | accepted
  /-- refused with FailedPrecondition; nothing changed -/
  | refused (why : Why)
  /-- commit: the entry changed the partition -/
  | applied
  /-- commit: `GetEpoch() >= epoch`, nothing done -/
  | idempotent
  /-- create / remove / lostLeadership / expire performed -/
  | done
  /-- expire: no armed timer, nothing happens -/
  | notArmed
  /-- the apply function returned an error: `Server.Apply` panics, the process dies -/
  | panic
  /-- the process is dead -/
  | dead
  /-- not a step of the system -/
  | illegal
  deriving Repr, DecidableEq

inductive Step where
  | create (p : PKey) (replicas : List Id) (leader : Id) (gap : Nat)
  | remove (p : PKey) (gap : Nat)
  | report (p : PKey) (replica leader : Id) (le : Nat) (choice : Id)
  | reqShrink (p : PKey) (replica leader : Id) (le : Nat)
  | reqExpand (p : PKey) (replica leader : Id) (le : Nat)
  | commit (k gap : Nat)
  | expire (p : PKey)
  | lostLeadership
  deriving Repr, DecidableEq

/-- Map update. -/
def upd {α : Type} (f : PKey → Option α) (k : PKey) (v : Option α) : PKey → Option α :=
  fun x => if x = k then v else f x

/-- Set insertion / deletion on duplicate-free lists (Go map keys). -/
def sins (l : List Id) (x : Id) : List Id := if x ∈ l then l else l ++ [x]
def sdel (l : List Id) (x : Id) : List Id := l.filter (fun y => y ≠ x)

/-- `req.Leader != leader || req.LeaderEpoch != epoch` with the regenerated operators. -/
def stale (cl ce : Cmp) (pt : Part) (l : Id) (e : Nat) : Bool :=
  cmpId cl l pt.leader || ce.evalNat e pt.leaderEpoch

/-- `partitionFailover.IsWitness` (repaired code). -/
def isWitness (pt : Part) (w : Id) : Bool := decide (w ≠ pt.leader) && decide (w ∈ pt.isr)

/-- What `failoverStatus.report` compares with the quorum. -/
def reports (cfg : Cfg) (pt : Part) (ws : List Id) : Nat :=
  if cfg.followerOnly then (ws.filter (isWitness pt)).length else ws.length

/-- `partitionFailover.Quorum`. (Go's `/` truncates towards zero: `(0 - 1) / 2 = 0`, as here.) -/
def quorum (pt : Part) : Nat := (pt.isr.length - Gen.Failover.quorumSub) / Gen.Failover.quorumDiv

/-- The candidates of `electNewPartitionLeader`. -/
def candidates (pt : Part) : List Id :=
  pt.isr.filter (fun c => !(cmpId Gen.Failover.electSkipCmp c pt.leader))

/-- `electNewPartitionLeader` up to the proposal. -/
def elect (pt : Part) (choice : Id) : Out :=
  if Gen.Failover.electIsrCmp.evalNat pt.isr.length 1 then .noCandidates
  else if Gen.Failover.electNoneCmp.evalNat (candidates pt).length 0 then .noCandidates
  else if choice ∈ candidates pt then .triggered choice
  else .illegal

/-- `ReportLeader`. -/
def report (cfg : Cfg) (s : Ctl) (p : PKey) (r l : Id) (e : Nat) (choice : Id) : Ctl × Out :=
  match s.parts p with
  | none => (s, .refused .noPartition)
  | some pt =>
    if stale Gen.Failover.staleLeaderReport Gen.Failover.staleEpochReport pt l e then (s, .refused .stale)
    else
      let fo : FStat := (s.fos p).getD ⟨[], false⟩
      let ws := sins fo.witnesses r
      if Gen.Failover.quorumCmp.evalNat (reports cfg pt ws) (quorum pt) then
        -- leaderFailed: the timer is stopped, Failover(ctx) runs
        let fos' := if cfg.dropOnTrigger then upd s.fos p none else upd s.fos p (some ⟨ws, false⟩)
        match elect pt choice with
        | .triggered c =>
          ({ s with fos := fos', inflight := s.inflight ++ [.change p c pt.leader pt.leaderEpoch] }, .triggered c)
        | .noCandidates => ({ s with fos := fos' }, .noCandidates)
        | _ => (s, .illegal)
      else ({ s with fos := upd s.fos p (some ⟨ws, true⟩) }, .recorded)

/-- The checks of `ShrinkISR` before the proposal. -/
def reqShrink (cfg : Cfg) (s : Ctl) (p : PKey) (r l : Id) (e : Nat) : Ctl × Out :=
  match s.parts p with
  | none => (s, .refused .noPartition)
  | some pt =>
    if stale Gen.Failover.staleLeaderShrink Gen.Failover.staleEpochShrink pt l e then (s, .refused .stale)
    else if cfg.replicaOnly && !decide (r ∈ pt.replicas) then (s, .refused .notReplica)
    else if cfg.shrinkNotLeader && decide (r = pt.leader) then (s, .refused .leaderRemoval)
    else ({ s with inflight := s.inflight ++ [.shrink p r l e] }, .accepted)

/-- The checks of `ExpandISR` before the proposal. -/
def reqExpand (cfg : Cfg) (s : Ctl) (p : PKey) (r l : Id) (e : Nat) : Ctl × Out :=
  match s.parts p with
  | none => (s, .refused .noPartition)
  | some pt =>
    if stale Gen.Failover.staleLeaderExpand Gen.Failover.staleEpochExpand pt l e then (s, .refused .stale)
    else if cfg.replicaOnly && !decide (r ∈ pt.replicas) then (s, .refused .notReplica)
    else ({ s with inflight := s.inflight ++ [.expand p r l e] }, .accepted)

/-- `checkLeaderGeneration` of the repaired code (same operators as the incoming check). -/
def staleAtCommit (pt : Part) (l : Id) (e : Nat) : Bool :=
  decide (l ≠ pt.leader) || decide (e ≠ pt.leaderEpoch)

/-- Outcome of an apply function on one partition. -/
inductive Applied where
  | changed (pt : Part)
  | same
  | fail

/-- `metadataAPI.RemoveFromISR` at Raft index `idx`. -/
def applyShrink (pt : Part) (r : Id) (idx : Nat) : Applied :=
  if Gen.Failover.idemShrinkCmp.evalNat pt.epoch idx then .same
  else if r ∈ pt.replicas then .changed { pt with isr := sdel pt.isr r, epoch := idx }
  else .fail

/-- `metadataAPI.AddToISR` at Raft index `idx`. -/
def applyExpand (pt : Part) (r : Id) (idx : Nat) : Applied :=
  if Gen.Failover.idemExpandCmp.evalNat pt.epoch idx then .same
  else if r ∈ pt.replicas then .changed { pt with isr := sins pt.isr r, epoch := idx }
  else .fail

/-- `metadataAPI.ChangeLeader` at Raft index `idx` (`SetLeader` refuses a smaller leader epoch). -/
def applyChange (pt : Part) (c : Id) (idx : Nat) : Applied :=
  if Gen.Failover.idemChangeCmp.evalNat pt.epoch idx then .same
  else if Gen.Failover.setLeaderCmp.evalNat idx pt.leaderEpoch then .fail
  else .changed { pt with leader := c, leaderEpoch := idx, epoch := idx }

/-- Precondition callback + apply of one in-flight request at index `idx`. `s` already has the
request removed from `inflight`. `Ctl.index` is the index of the last entry that changed a
partition; a refused proposal appends nothing. -/
def commitOp (cfg : Cfg) (s : Ctl) (idx : Nat) : Op → Ctl × Out
  | .shrink p r l e =>
    match s.parts p with
    | none => (s, .refused .noPartition)
    | some pt =>
      if cfg.underLock && staleAtCommit pt l e then (s, .refused .stale)
      else match applyShrink pt r idx with
        | .changed pt' => ({ s with parts := upd s.parts p (some pt'), index := idx }, .applied)
        | .same => (s, .idempotent)
        | .fail => ({ s with crashed := true }, .panic)
  | .expand p r l e =>
    match s.parts p with
    | none => (s, .refused .noPartition)
    | some pt =>
      if cfg.underLock && staleAtCommit pt l e then (s, .refused .stale)
      else match applyExpand pt r idx with
        | .changed pt' => ({ s with parts := upd s.parts p (some pt'), index := idx }, .applied)
        | .same => (s, .idempotent)
        | .fail => ({ s with crashed := true }, .panic)
  | .change p c ol oe =>
    match s.parts p with
    | none => (s, .refused .noPartition)
    | some pt =>
      if cfg.underLock && staleAtCommit pt ol oe then (s, .refused .stale)
      else if cfg.underLock && !decide (c ∈ pt.isr) then (s, .refused .candidateGone)
      else match applyChange pt c idx with
        | .changed pt' =>
          ({ s with parts := upd s.parts p (some pt'), index := idx,
                    fos := if cfg.dropOnChange then upd s.fos p none else s.fos }, .applied)
        | .same => (s, .idempotent)
        | .fail => ({ s with crashed := true }, .panic)

/-- `commit k gap`. -/
def commit (cfg : Cfg) (s : Ctl) (k gap : Nat) : Ctl × Out :=
  match s.inflight[k]? with
  | none => (s, .illegal)
  | some op =>
    let idx := s.index + 1 + gap
    commitOp cfg { s with inflight := s.inflight.eraseIdx k } idx op

/-- Stream creation as applied by the FSM: ISR = replicas, both epochs = Raft index. -/
def create (s : Ctl) (p : PKey) (replicas : List Id) (leader : Id) (gap : Nat) : Ctl × Out :=
  match s.parts p with
  | some _ => (s, .illegal)
  | none =>
    if leader ∈ replicas ∧ replicas.Nodup then
      let idx := s.index + 1 + gap
      ({ s with parts := upd s.parts p (some ⟨replicas, replicas, leader, idx, idx⟩), index := idx }, .done)
    else (s, .illegal)

/-- Stream deletion (`removeStream`): the partition and its failover entry go. -/
def remove (s : Ctl) (p : PKey) (gap : Nat) : Ctl × Out :=
  match s.parts p with
  | none => (s, .refused .noPartition)
  | some _ =>
    ({ s with parts := upd s.parts p none, fos := upd s.fos p none, index := s.index + 1 + gap }, .done)

/-- The expiry timer fires (`OnExpired` deletes the entry). -/
def expire (s : Ctl) (p : PKey) : Ctl × Out :=
  match s.fos p with
  | some fo => if fo.armed then ({ s with fos := upd s.fos p none }, .done) else (s, .notArmed)
  | none => (s, .notArmed)

/-- `LostLeadership` → `resetFailovers`. -/
def lostLeadership (s : Ctl) : Ctl × Out := ({ s with fos := fun _ => none }, .done)

def step (cfg : Cfg) (s : Ctl) (st : Step) : Ctl × Out :=
  if s.crashed then (s, .dead) else
  match st with
  | .create p rs l g => create s p rs l g
  | .remove p g => remove s p g
  | .report p r l e c => report cfg s p r l e c
  | .reqShrink p r l e => reqShrink cfg s p r l e
  | .reqExpand p r l e => reqExpand cfg s p r l e
  | .commit k g => commit cfg s k g
  | .expire p => expire s p
  | .lostLeadership => lostLeadership s

/-- The state after a history, with the history of (step, outcome) pairs, newest first. -/
def runH (cfg : Cfg) : Ctl → List (Step × Out) → List Step → Ctl × List (Step × Out)
  | s, h, [] => (s, h)
  | s, h, st :: rest => let r := step cfg s st; runH cfg r.1 ((st, r.2) :: h) rest

def run (cfg : Cfg) (s : Ctl) (steps : List Step) : Ctl := (runH cfg s [] steps).1

/-! ### specification vocabulary (used by the statements of Props/C07.lean, not by the model) -/

/-- Did this `report` pass the (leader, epoch) check, i.e. is it a report OF that pair? -/
def accepted : Out → Bool
  | .recorded => true
  | .triggered _ => true
  | .noCandidates => true
  | _ => false

/-- What an entry of the history means for the report window of partition `p` and pair `(l, e)`. -/
inductive Ev where
  | rep (r : Id)   -- `r` reported `(l, e)` for `p`
  | close          -- the window of `p` ended (timer fired / leadership lost / stream deleted)
  | other

def classify (p : PKey) (l : Id) (e : Nat) : Step × Out → Ev
  | (.report q r l' e' _, o) => if q = p ∧ l' = l ∧ e' = e ∧ accepted o = true then .rep r else .other
  | (.expire q, .done) => if q = p then .close else .other
  | (.remove q _, .done) => if q = p then .close else .other
  | (.lostLeadership, .done) => .close
  | _ => .other

/-- The replicas that reported leader `l` in epoch `e` of partition `p` within the current window:
accepted reports of exactly that pair, back to the last event that ended the window (the history
is newest first). Defined on the observable history only. -/
def reporters (p : PKey) (l : Id) (e : Nat) : List (Step × Out) → List Id
  | [] => []
  | x :: h =>
    match classify p l e x with
    | .rep r => r :: reporters p l e h
    | .close => []
    | .other => reporters p l e h

/-- The partition and the (leader, leader epoch) pair a request was checked against. -/
def Op.part : Op → PKey
  | .shrink p _ _ _ => p
  | .expand p _ _ _ => p
  | .change p _ _ _ => p
def Op.leader : Op → Id
  | .shrink _ _ l _ => l
  | .expand _ _ l _ => l
  | .change _ _ l _ => l
def Op.epoch : Op → Nat
  | .shrink _ _ _ e => e
  | .expand _ _ _ e => e
  | .change _ _ _ e => e

/-- The in-sync followers of a partition. -/
def followers (pt : Part) : List Id := pt.isr.filter (fun x => decide (x ≠ pt.leader))

/-- The empty controller. -/
def Ctl.init : Ctl := {}

end Liftbridge.Failover
