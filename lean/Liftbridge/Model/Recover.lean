/-
C05 — crash recovery of the partition log.

Model of the FILE-SYSTEM behaviour of server/commitlog: the directory of a partition is an
`FS` (segment log files as chunk lists, index files as slot lists with a zero tail, the
`.cleaned` / `.truncated` variants, the HW checkpoint and the leader-epoch checkpoint), the
in-memory commit log is a `Mem` (what the Go structs remember: positions, first/last offsets,
index positions, sealed/closed flags, HW, epoch cache), and every operation of the commit log
is a program in the monad `M` that issues ATOMIC FILE-SYSTEM EFFECTS (`Eff`) and CRASH MARKS
(`mark name`, one per `crashPoint("name")` hook in the Go code) in code order.

Process-crash model: a crash stops the program between two primitive steps; the file system
keeps exactly what the executed effects wrote (`St.budget` = number of primitive steps that
still run; the `Out.crashed` outcome carries the file system left behind). `recover` mirrors
`commitlog.New` on such a directory: epoch checkpoint, directory scan in name order, orphan
index removal, `newSegment` (position = log file size, first/last offset from the INDEX),
`InitializePosition` through the literal `sort.Search` mirror, corrupt → rebuild, HW file,
`ClearLatest(NextOffset)`, `ClearEarliest(OldestOffset)`.

Readers walk the log BYTES (`Mem.readFrom`, `Mem.bytes`), not the index — which is what makes
an unindexed tail or a stale index visible.
-/
import Liftbridge.Base
import Liftbridge.Model.Log
import Liftbridge.Gen.Log
import Liftbridge.Gen.Retention
import Liftbridge.Gen.Compact
import Liftbridge.Gen.Recover

namespace Liftbridge.Recover
open Liftbridge Liftbridge.Log

/-- `sort.Search` once more, by structural recursion on a fuel argument so that the kernel can
evaluate it (`Liftbridge.goSearch`, the literal mirror used by the other models, is defined by
well-founded recursion). `Proofs/Recover.lean` proves `goSearchS n f = goSearch n f`. -/
def searchFuel (f : Nat → Bool) : Nat → Nat → Nat → Nat
  | 0, i, _ => i
  | fuel + 1, i, j =>
    if i < j then
      let m := (i + j) / 2
      if f m then searchFuel f fuel i m else searchFuel f fuel (m + 1) j
    else i

def goSearchS (n : Nat) (f : Nat → Bool) : Nat := searchFuel f n 0 n

/-! ## Files -/

/-- Suffix of a segment file: `""`, `.cleaned`, `.truncated`. -/
inductive Sfx where
  | plain | cleaned | truncated
  deriving DecidableEq, Repr, Inhabited

def Sfx.ord : Sfx → Nat
  | .plain => 0 | .cleaned => 1 | .truncated => 2

/-- `%020d.log<sfx>` / `%020d.index<sfx>`. -/
structure FName where
  base : Int
  sfx : Sfx
  deriving DecidableEq, Repr, Inhabited

/-- Directory order (`os.ReadDir` sorts by name; the base is zero-padded). -/
def FName.lt (a b : FName) : Bool :=
  decide (a.base < b.base) || (decide (a.base = b.base) && decide (a.sfx.ord < b.sfx.ord))

/-- Content of a log file, in write order: whole records, or `n` bytes that are not a whole
record (the prefix of a record whose `write(2)` was cut by the kill). -/
inductive Chunk where
  | msg (r : Rec)
  | junk (n : Nat)
  deriving DecidableEq, Repr, Inhabited

def Chunk.size : Chunk → Nat
  | .msg r => r.size
  | .junk n => n

def chunksSize (cs : List Chunk) : Nat := (cs.map Chunk.size).sum

/-- An index file: the slots written so far (from slot 0, contiguous) and the file size in
slots; slots `≥ slots.length` are zero bytes (pre-allocation / expansion). -/
structure IdxFile where
  slots : List Entry
  size : Nat
  deriving DecidableEq, Repr, Inhabited

/-- Number of slots of a pre-allocated index (`10 MiB / entryWidth`). -/
def idxSlots : Nat := Gen.Recover.indexBytes / Gen.Log.entryWidth

structure FS where
  logs : List (FName × List Chunk) := []
  idxs : List (FName × IdxFile) := []
  hw : Option Int := none          -- replication-offset-checkpoint
  epochs : Option Epochs := none   -- leader-epoch-checkpoint
  deriving DecidableEq, Repr, Inhabited

def lookupF {α} (f : FName) : List (FName × α) → Option α
  | [] => none
  | (g, v) :: rest => if g = f then some v else lookupF f rest

/-- Insert or replace, keeping directory order. -/
def insertF {α} (f : FName) (v : α) : List (FName × α) → List (FName × α)
  | [] => [(f, v)]
  | (g, w) :: rest =>
    if g = f then (f, v) :: rest
    else if f.lt g then (f, v) :: (g, w) :: rest
    else (g, w) :: insertF f v rest

def eraseF {α} (f : FName) (l : List (FName × α)) : List (FName × α) := l.filter (fun p => p.1 ≠ f)

namespace FS
def log? (fs : FS) (f : FName) : Option (List Chunk) := lookupF f fs.logs
def idx? (fs : FS) (f : FName) : Option IdxFile := lookupF f fs.idxs
def logSize (fs : FS) (f : FName) : Nat := chunksSize ((fs.log? f).getD [])
end FS

/-! ## Atomic file-system effects -/

inductive Eff where
  /-- `os.OpenFile(log, O_RDWR|O_CREATE|O_APPEND)`: creates an empty file when missing. -/
  | createLog (f : FName)
  /-- `os.OpenFile(index, O_RDWR|O_CREATE)`. -/
  | createIdx (f : FName)
  /-- `if fi.Size() == 0 { file.Truncate(10 MiB) }` of `newIndex`. -/
  | preallocIdx (f : FName)
  /-- `write(2)` on the `O_APPEND` descriptor. -/
  | writeLog (f : FName) (cs : List Chunk)
  /-- `copy(mmap[k*entryWidth:], …)`; a shrunk file is first expanded by 10 MiB. -/
  | writeIdx (f : FName) (k : Nat) (es : List Entry)
  /-- `file.Truncate(position)` of `Shrink` / `Close`. -/
  | shrinkIdx (f : FName) (n : Nat)
  | renameLog (src dst : FName)
  | renameIdx (src dst : FName)
  | removeLog (f : FName)
  | removeIdx (f : FName)
  /-- `atomic_file.WriteFile(replication-offset-checkpoint)`. -/
  | putHW (v : Int)
  /-- `atomic_file.WriteFile(leader-epoch-checkpoint)`. -/
  | putEpochs (c : Epochs)
  /-- `log.Truncate(n)`: cut the log file back to `n` bytes (only issued by the repaired open). -/
  | truncLog (f : FName) (n : Nat)
  /-- Only for simulated torn writes: cut `n` bytes off the end of a log file (whole trailing
  records become one `junk` chunk of the remaining bytes). Never issued by an operation. -/
  | tear (f : FName) (n : Nat)
  deriving Repr, Inhabited

/-- Cut `n` bytes off the end of a chunk list (given reversed). -/
def tearRev : List Chunk → Nat → List Chunk
  | [], _ => []
  | cs, 0 => cs
  | c :: cs, n + 1 =>
    if c.size ≤ n + 1 then tearRev cs (n + 1 - c.size)
    else .junk (c.size - (n + 1)) :: cs

def Eff.apply (e : Eff) (fs : FS) : FS :=
  match e with
  | .createLog f => match fs.log? f with
    | some _ => fs
    | none => { fs with logs := insertF f [] fs.logs }
  | .createIdx f => match fs.idx? f with
    | some _ => fs
    | none => { fs with idxs := insertF f { slots := [], size := 0 } fs.idxs }
  | .preallocIdx f => match fs.idx? f with
    | some ix => if ix.size = 0 then { fs with idxs := insertF f { ix with size := idxSlots } fs.idxs } else fs
    | none => fs
  | .writeLog f cs => match fs.log? f with
    | some old => { fs with logs := insertF f (old ++ cs) fs.logs }
    | none => fs
  | .writeIdx f k es => match fs.idx? f with
    | some ix =>
      let slots := ix.slots.take k ++ es
      -- `offset+pSize >= idx.size` ⇒ expand by 10 MiB (or to fit)
      let size := if k + es.length ≥ ix.size then max (ix.size + idxSlots) (k + es.length) else ix.size
      { fs with idxs := insertF f { slots := slots, size := size } fs.idxs }
    | none => fs
  | .shrinkIdx f n => match fs.idx? f with
    | some ix => { fs with idxs := insertF f { slots := ix.slots.take n, size := n } fs.idxs }
    | none => fs
  | .renameLog src dst => match fs.log? src with
    | some c => { fs with logs := insertF dst c (eraseF src fs.logs) }
    | none => fs
  | .renameIdx src dst => match fs.idx? src with
    | some c => { fs with idxs := insertF dst c (eraseF src fs.idxs) }
    | none => fs
  | .removeLog f => { fs with logs := eraseF f fs.logs }
  | .removeIdx f => { fs with idxs := eraseF f fs.idxs }
  | .putHW v => { fs with hw := some v }
  | .putEpochs c => { fs with epochs := some c }
  | .truncLog f n => match fs.log? f with
    | some c => { fs with logs := insertF f (tearRev c.reverse (chunksSize c - n)).reverse fs.logs }
    | none => fs
  | .tear f n => match fs.log? f with
    | some c => { fs with logs := insertF f (tearRev c.reverse n).reverse fs.logs }
    | none => fs

/-! ## The crash monad -/

structure St where
  fs : FS
  /-- primitive steps (effects and marks) that still run before the process dies -/
  budget : Nat
  steps : Nat := 0
  /-- crash marks hit so far with the step number at which they were hit (newest first) -/
  trace : List (String × Nat) := []
  /-- ghost: operations of the workload that have returned -/
  opsDone : Nat := 0
  /-- ghost: the in-memory high watermark when the last operation returned (`SetHighWatermark`
  has no file-system effect, so this is the HW at the moment of a crash) -/
  hwSeen : Int := -1
  deriving Repr, Inhabited

inductive Out (α : Type) where
  | ok (a : α) (s : St)
  /-- the process was killed; `s.fs` is what the file system holds -/
  | crashed (s : St)
  /-- the Go function returned an error -/
  | fail (e : String) (s : St)
  deriving Repr, Inhabited

def M (α : Type) := St → Out α

namespace M
def pure {α} (a : α) : M α := fun s => .ok a s
def bind {α β} (m : M α) (f : α → M β) : M β := fun s =>
  match m s with
  | .ok a s' => f a s'
  | .crashed s' => .crashed s'
  | .fail e s' => .fail e s'
instance : Monad M where
  pure := M.pure
  bind := M.bind
end M

def tick (f : St → St) : M Unit := fun s =>
  if s.budget = 0 then .crashed s
  else .ok () (f { s with budget := s.budget - 1, steps := s.steps + 1 })

/-- One atomic file-system effect. -/
def eff (e : Eff) : M Unit := tick fun s => { s with fs := e.apply s.fs }
/-- One `crashPoint(name)` hook. -/
def mark (name : String) : M Unit := tick fun s => { s with trace := (name, s.steps - 1) :: s.trace }
def getFS : M FS := fun s => .ok s.fs s
def failM {α} (e : String) : M α := fun s => .fail e s

def forM' {α} (xs : List α) (f : α → M Unit) : M Unit :=
  match xs with
  | [] => pure ()
  | x :: rest => do f x; forM' rest f

/-! ## In-memory state (what the Go structs remember) -/

structure MSeg where
  base : Int
  sfx : Sfx := .plain
  position : Nat := 0          -- `segment.position`
  firstOffset : Int := -1
  lastOffset : Int := -1
  firstTs : Int := 0           -- `firstWriteTime` (0 = no write yet)
  lastTs : Int := 0
  idxPos : Nat := 0            -- `Index.position / entryWidth`
  sealed : Bool := false
  closed : Bool := false
  deriving DecidableEq, Repr, Inhabited

namespace MSeg
def fname (s : MSeg) : FName := ⟨s.base, s.sfx⟩
def nextOffset (s : MSeg) : Int := if s.lastOffset = -1 then s.base else s.lastOffset + 1
def isEmpty (s : MSeg) : Bool := s.firstOffset = -1
end MSeg

/-- The shape of the code as far as crash behaviour goes: the order of effects and what opening a
segment does. `Shape.current` is regenerated from the source on every run. -/
structure Shape where
  /-- `WriteMessageSet`: log write before index write -/
  writeLogFirst : Bool
  /-- `Replace`: log renamed before index -/
  renameLogFirst : Bool
  /-- `commitLog.append`: leader epoch assigned (and flushed) before the message set is written -/
  epochFirst : Bool
  /-- `Cleaned()` / `Truncated()` remove a left-over file before creating the segment -/
  removeStaleSuffix : Bool
  /-- opening a segment validates the last index entry against the log (mismatch ⇒ rebuild) and
  cuts the log back to the indexed end -/
  validateOnOpen : Bool
  deriving DecidableEq, Repr, Inhabited

def Shape.current : Shape :=
  { writeLogFirst := Gen.Recover.writeLogFirst, renameLogFirst := Gen.Recover.renameLogFirst,
    epochFirst := Gen.Recover.epochFirst, removeStaleSuffix := Gen.Recover.removeStaleSuffix,
    validateOnOpen := Gen.Recover.validateOnOpen }

/-- The code as it was when the slice was written (before the proposed repairs). -/
def Shape.unfixed : Shape :=
  { writeLogFirst := true, renameLogFirst := true, epochFirst := false, removeStaleSuffix := false, validateOnOpen := false }

/-- The code with fixes/C05-*.diff applied. -/
def Shape.fixed : Shape :=
  { writeLogFirst := true, renameLogFirst := true, epochFirst := true, removeStaleSuffix := true, validateOnOpen := true }

structure Cfg where
  shape : Shape := Shape.current
  maxSegBytes : Int := 1024
  compact : Bool := false
  maxBytes : Int := 0
  maxMsgs : Int := 0
  maxAge : Int := 0
  deriving Repr, Inhabited

structure Mem where
  cfg : Cfg := {}
  segs : List MSeg := []
  hw : Int := -1
  epochs : Epochs := []
  deriving Repr, Inhabited

namespace Mem
def active (m : Mem) : MSeg := m.segs.getLast?.getD { base := 0 }
def nextOffset (m : Mem) : Int := m.active.nextOffset
def newest (m : Mem) : Int := m.nextOffset - 1
def oldest (m : Mem) : Int := match m.segs.head? with | some s => s.firstOffset | none => -1
end Mem

/-! ## Index initialisation (`newIndex`, `InitializePosition`, `setupIndex`, `rebuildIndex`) -/

def zeroSlot (base : Int) : Entry := { offset := base, ts := 0, pos := 0, size := 0 }

/-- What `ReadEntryAtFileOffset` decodes at slot `i` (relative offset 0 reads as `base`). -/
def IdxFile.slotAt (ix : IdxFile) (base : Int) (i : Nat) : Entry := (ix.slots[i]?).getD (zeroSlot base)

/-- `entry.Position == 0 && entry.Timestamp == 0 && entry.Size == 0`. -/
def entryIsZero (e : Entry) : Bool := e.pos == 0 && e.ts == 0 && e.size == 0

inductive InitPos where
  | ok (n : Nat) (last : Option Entry)
  | corrupt (n : Nat)
  deriving Repr, DecidableEq

/-- `InitializePosition`: binary search (literal `sort.Search`) for the first empty slot over the
whole file; the last entry before it must not lie below the base offset. -/
def initPosition (ix : IdxFile) (base : Int) : InitPos :=
  let i := goSearchS ix.size (fun i => entryIsZero (ix.slotAt base i))
  if i = 0 then .ok 0 none
  else
    let e := ix.slotAt base (i - 1)
    if Gen.Recover.corruptCmp.evalInt e.offset base then .corrupt i else .ok i (some e)

/-- Leading whole records of a log file (what `rebuildIndex` can index). -/
def leadingRecs : List Chunk → List Rec
  | .msg r :: cs => r :: leadingRecs cs
  | _ => []

/-- `newIndex`: open/create, pre-allocate when the file is empty. -/
def newIndexM (f : FName) : M Unit := do
  eff (.createIdx f)
  mark "index.new.open"
  let fs ← getFS
  match fs.idx? f with
  | some ix => if ix.size = 0 then do eff (.preallocIdx f); mark "index.new.prealloc" else pure ()
  | none => pure ()

def idxOf (fs : FS) (f : FName) : IdxFile := (fs.idx? f).getD { slots := [], size := 0 }

/-- `rebuildIndex`: drop the index, create a fresh one, write one entry per whole record. -/
def rebuildIndexM (s : MSeg) (n : Nat) : M Unit := do
  let f := s.fname
  eff (.shrinkIdx f n)   -- Index.Close(): shrink to the position InitializePosition found
  mark "index.close.shrink"
  eff (.removeIdx f)
  newIndexM f
  let fs ← getFS
  let recs := leadingRecs ((fs.log? f).getD [])
  let es := Seg.entriesFrom 0 recs
  let rec go (k : Nat) : List Entry → M Unit
    | [] => pure ()
    | e :: rest => do eff (.writeIdx f k [e]); mark "index.write"; go (k + 1) rest
  go 0 es

/-- What is found at byte position `pos` of a log file. -/
inductive At where
  | msg (r : Rec)
  | eof            -- at/after the end of the file
  | tail           -- an incomplete record at the end of the file
  | garbage        -- not at a record boundary
  deriving Repr, DecidableEq

def chunkAt : List Chunk → Nat → At
  | [], _ => .eof
  | .msg r :: _, 0 => .msg r
  | [.junk _], 0 => .tail
  | .junk _ :: _, 0 => .garbage
  | c :: cs, p + 1 => if c.size ≤ p + 1 then chunkAt cs (p + 1 - c.size) else .garbage

/-- Does the last index entry describe a whole record of the log (same offset, same size)? -/
def lastMatches (fs : FS) (s : MSeg) (last : Option Entry) : Bool :=
  match last with
  | none => true
  | some e =>
    match chunkAt ((fs.log? s.fname).getD []) e.pos with
    | .msg r => r.offset == e.offset && r.size == e.size
    | _ => false

/-- End of `setupIndex`: take `idxPos`, first/last offset and write times from the index; with
`validateOnOpen` cut the log back to the end of the last indexed record (`trimLog`). -/
def setupFinM (sh : Shape) (s : MSeg) (n : Nat) (last : Option Entry) : M MSeg := do
  let f := s.fname
  let fs ← getFS
  let s : MSeg := match last with
    | none => { s with idxPos := n }
    | some e =>
      let first := (idxOf fs f).slotAt s.base 0
      { s with idxPos := n, lastOffset := e.offset, lastTs := e.ts, firstOffset := first.offset, firstTs := first.ts }
  if sh.validateOnOpen then
    let stop : Nat := match last with | none => 0 | some e => e.pos + e.size
    if s.position > stop then do
      eff (.truncLog f stop)
      pure { s with position := stop }
    else pure s
  else pure s

/-- The corrupt-index path of `setupIndex`: rebuild from the log, initialise again. -/
def setupAgainM (sh : Shape) (s : MSeg) (n : Nat) : M MSeg := do
  rebuildIndexM s n
  let fs ← getFS
  match initPosition (idxOf fs s.fname) s.base with
  | .ok n last => setupFinM sh s n last
  | .corrupt _ => failM "failed-to-initialize-rebuilt-index"

/-- `setupIndex` after `newIndex`: `InitializePosition`, the validation of the repaired code, the
corrupt path. -/
def setupRestM (sh : Shape) (s : MSeg) : M MSeg := do
  let f := s.fname
  let fs ← getFS
  match initPosition (idxOf fs f) s.base with
  | .ok n last => if sh.validateOnOpen && !lastMatches fs s last then setupAgainM sh s n else setupFinM sh s n last
  | .corrupt n => setupAgainM sh s n

/-- `setupIndex`: returns the segment with `idxPos`, first/last offset and write times taken from
the index file. With `validateOnOpen` the last entry is checked against the log (mismatch ⇒
rebuild, like a corrupt index) and the log is cut back to the end of the last indexed record. -/
def setupIndexM (sh : Shape) (s : MSeg) : M MSeg := do
  newIndexM s.fname
  setupRestM sh s

/-- `newSegment(path, base, maxBytes, isNew, suffix)`. -/
def newSegmentM (sh : Shape) (base : Int) (isNew : Bool) (sfx : Sfx) : M MSeg := do
  let f : FName := ⟨base, sfx⟩
  let fs ← getFS
  if isNew && (fs.log? f).isSome then failM "segment-exists" else do
    eff (.createLog f)
    mark "segment.new.log"
    let fs ← getFS
    let s : MSeg := { base := base, sfx := sfx, position := fs.logSize f }
    let s ← setupIndexM sh s
    mark "segment.new.index"
    pure s

/-! ## Segment operations -/

/-- `segment.write`: the log write and the in-memory bookkeeping. -/
def writeLogM (s : MSeg) (recs : List Rec) (entries : List Entry) : M MSeg := do
  eff (.writeLog s.fname (recs.map Chunk.msg))
  let s := { s with position := s.position + (recs.map Rec.size).sum }
  let s := match entries.head?, s.firstTs == 0 with
    | some e, true => { s with firstOffset := e.offset, firstTs := e.ts }
    | _, _ => s
  pure (match entries.getLast? with
    | some e => { s with lastOffset := e.offset, lastTs := e.ts }
    | none => s)

/-- `Index.writeEntries`. -/
def writeIdxM (s : MSeg) (entries : List Entry) : M MSeg := do
  eff (.writeIdx s.fname s.idxPos entries)
  mark "index.write"
  pure { s with idxPos := s.idxPos + entries.length }

/-- `segment.WriteMessageSet(ms, entries)`: log write, THEN index write (`writeLogFirst`). -/
def writeM (sh : Shape) (s : MSeg) (recs : List Rec) (entries : List Entry) : M MSeg :=
  if sh.writeLogFirst then do
    let s ← writeLogM s recs entries
    mark "segment.write.log"
    writeIdxM s entries
  else do
    let s ← writeIdxM s entries
    let s ← writeLogM s recs entries
    mark "segment.write.log"
    pure s

/-- `segment.seal()`. -/
def sealM (s : MSeg) : M MSeg :=
  if s.sealed then pure s else do
    -- on a closed segment the Truncate of `Shrink` fails on the closed descriptor (ignored)
    if !s.closed then eff (.shrinkIdx s.fname s.idxPos) else pure ()
    mark "segment.seal.shrink"
    pure { s with sealed := true }

/-- `segment.close()`: `Index.Close` shrinks the index to its contents. -/
def closeSegM (s : MSeg) : M MSeg :=
  if s.closed then pure s else do
    eff (.shrinkIdx s.fname s.idxPos)
    mark "index.close.shrink"
    sealM { s with closed := true }

/-- `segment.Delete()`. -/
def deleteSegM (s : MSeg) : M Unit := do
  let s ← closeSegM s
  let fs ← getFS
  if (fs.log? s.fname).isSome then eff (.removeLog s.fname) else pure ()
  mark "segment.delete.log"
  let fs ← getFS
  if (fs.idx? s.fname).isSome then eff (.removeIdx s.fname) else pure ()
  mark "segment.delete.index"

/-- `new.Replace(old)`: close both, rename the log, rename the index, reopen. -/
def replaceM (sh : Shape) (new old : MSeg) : M MSeg := do
  let _ ← closeSegM old
  let new ← closeSegM new
  let renLog : M Unit := do
    let fs ← getFS
    if (fs.log? new.fname).isNone then failM "rename-log-failed" else eff (.renameLog new.fname old.fname)
  let renIdx : M Unit := do
    let fs ← getFS
    if (fs.idx? new.fname).isNone then failM "rename-index-failed" else eff (.renameIdx new.fname old.fname)
  if sh.renameLogFirst then do
    renLog; mark "segment.replace.log-renamed"; renIdx; mark "segment.replace.index-renamed"
  else do
    renIdx; mark "segment.replace.log-renamed"; renLog; mark "segment.replace.index-renamed"
  let new := { new with sfx := .plain, closed := false }
  eff (.createLog new.fname)
  setupIndexM sh new

/-- The repaired `Cleaned()` / `Truncated()` first remove what a crashed clean / truncate left
under that name (`os.Remove`, "not exist" ignored). -/
def removeStaleM (f : FName) : M Unit := do
  let fs ← getFS
  (if (fs.log? f).isSome then eff (.removeLog f) else pure () : M Unit)
  (if (fs.idx? f).isSome then eff (.removeIdx f) else pure () : M Unit)

/-- `Cleaned()` / `Truncated()`: the segment with the suffix; a left-over file of that name is
reopened (`O_APPEND`) unless `removeStaleSuffix`. -/
def suffixedM (sh : Shape) (base : Int) (sfx : Sfx) : M MSeg := do
  (if sh.removeStaleSuffix then removeStaleM ⟨base, sfx⟩ else pure () : M Unit)
  newSegmentM sh base false sfx

/-! ### Reading a segment -/

/-- Sequential byte walk of one file from `pos`: the records returned and how the walk ended
(`garbage`: a reader hits a CRC mismatch / a nonsensical size there). -/
def walkFile (cs : List Chunk) (pos : Nat) : (fuel : Nat) → List Rec × At
  | 0 => ([], .eof)
  | fuel + 1 =>
    match chunkAt cs pos with
    | .msg r => let (rs, e) := walkFile cs (pos + r.size) fuel; (r :: rs, e)
    | e => ([], e)

/-- `segmentScanner` (index-driven, as used by `Truncate` and the compactor): slot `k` of the
index up to the in-memory position, stop at a slot whose offset reads 0 (`k ≠ 0`), then the
record at the slot's position. `none` = the scan read garbage. -/
def scanSeg (fs : FS) (s : MSeg) : Option (List (Rec × Entry)) :=
  let ix := idxOf fs s.fname
  let cs := (fs.log? s.fname).getD []
  let rec go (k : Nat) : (fuel : Nat) → Option (List (Rec × Entry))
    | 0 => some []
    | fuel + 1 =>
      if k ≥ s.idxPos then some [] else
      let e := ix.slotAt s.base k
      if e.offset = 0 ∧ k ≠ 0 then some [] else
      match chunkAt cs e.pos with
      | .msg r => (go (k + 1) fuel).map ((r, e) :: ·)
      | .eof => some []
      | .tail => some []
      | .garbage => none
  go 0 (s.idxPos + 1)

/-! ## Epoch cache with its checkpoint file -/

def flushM (c : Epochs) : M Unit := do
  mark "epoch.flush.before"
  eff (.putEpochs c)
  mark "epoch.flush.after"

/-- `assign` + flush when something was appended. -/
def assignM (c : Epochs) (epoch : Nat) (offset : Int) : M Epochs :=
  let c' := c.assign epoch offset
  if c'.length = c.length then pure c else do flushM c'; pure c'

/-- `ClearLatest(offset)`: flushes unless `offset > latestOffset`. -/
def clearLatestM (c : Epochs) (offset : Int) : M Epochs :=
  if Gen.Log.clearLatestSkipCmp.evalInt offset c.latestOffset then pure c
  else do let c' := c.clearLatest offset; flushM c'; pure c'

/-- `ClearEarliest(offset)`: flushes unless it returned early. -/
def clearEarliestM (c : Epochs) (offset : Int) : M Epochs :=
  if Gen.Log.clearEarliestSkipCmp.evalInt c.earliestOffset offset then pure c
  else if (c.filter (fun e => e.2 < offset)).isEmpty then pure c
  else do let c' := c.clearEarliest offset; flushM c'; pure c'

/-! ## `commitlog.New` -/

/-- `open()` + the two epoch-cache repairs. Directory order: per base `.index` before `.log`;
only names ending exactly in `.index` / `.log` are looked at. -/
def recoverM (cfg : Cfg) : M Mem := do
  let fs ← getFS
  let epochs : Epochs := fs.epochs.getD []
  -- orphan indexes
  forM' (fs.idxs.filter fun (f, _) => f.sfx = .plain && (fs.log? f).isNone) fun (f, _) => eff (.removeIdx f)
  let bases := (fs.logs.filter fun (f, _) => f.sfx = .plain).map fun (f, _) => f.base
  let rec openAll : List Int → List MSeg → M (List MSeg)
    | [], acc => pure acc.reverse
    | b :: rest, acc => do let s ← newSegmentM cfg.shape b false .plain; openAll rest (s :: acc)
  let segs ← openAll bases []
  let hw := fs.hw.getD (-1)
  let segs ← if segs.isEmpty then do let s ← newSegmentM cfg.shape 0 true .plain; pure [s] else pure segs
  let m : Mem := { cfg := cfg, segs := segs, hw := hw, epochs := epochs }
  let e1 ← clearLatestM epochs m.nextOffset
  let e2 ← clearEarliestM e1 m.oldest
  pure { m with epochs := e2 }

/-! ## Commit-log operations -/

def setActive (m : Mem) (s : MSeg) : Mem := { m with segs := m.segs.dropLast ++ [s] }

/-- `split` + `Seal` of the former active segment. -/
def splitM (m : Mem) : M Mem := do
  let old := m.active
  let s ← newSegmentM m.cfg.shape (m.newest + 1) true .plain
  mark "log.split.created"
  let m := { m with segs := m.segs ++ [s] }
  let old' ← sealM old
  pure { m with segs := (m.segs.dropLast.dropLast) ++ [old', s] }

/-- `checkAndPerformSplit`. `ErrSegmentExists` makes the Go loop retry with the same active
segment for ever; the model reports it as the error `split-livelock`. -/
def checkSplitM (m : Mem) : M Mem :=
  if Gen.Log.splitCmp.evalInt (m.active.position : Int) m.cfg.maxSegBytes then
    fun s => match splitM m s with
      | .fail e s' => .fail (if e = "segment-exists" then "split-livelock" else e) s'
      | o => o
  else pure m

structure Msg where
  key : Option Bytes
  val : Option Bytes
  deriving Repr, Inhabited

def mkRecs (base : Int) (ts : Int) (epoch : Nat) : Nat → List Msg → List Rec
  | _, [] => []
  | i, m :: ms => { offset := base + i, ts := ts + i, epoch := epoch, body := { key := m.key, val := m.val, hdrs := [] } } :: mkRecs base ts epoch (i + 1) ms

/-- `commitLog.append`'s epoch loop. -/
def assignEpochsM (c : Epochs) (last : Nat) : List Rec → M Epochs
  | [] => pure c
  | r :: rs =>
    if Gen.Log.appendEpochCmp.evalNat r.epoch last then do
      let c' ← assignM c r.epoch r.offset
      assignEpochsM c' r.epoch rs
    else assignEpochsM c last rs

/-- `Append(msgs)` (one leader epoch and consecutive timestamps per batch). The leader epoch is
assigned after the write, or before it (`epochFirst`). -/
def appendM (m : Mem) (epoch : Nat) (ts : Int) (msgs : List Msg) : M Mem := do
  let m ← checkSplitM m
  let a := m.active
  let recs := mkRecs a.nextOffset ts epoch 0 msgs
  let entries := Seg.entriesFrom a.position recs
  if m.cfg.shape.epochFirst then do
    let ep ← assignEpochsM m.epochs m.epochs.latestEpoch recs
    let m := { m with epochs := ep }
    let a' ← writeM m.cfg.shape a recs entries
    let m := setActive m a'
    mark "log.append.written"
    mark "log.append.done"
    pure m
  else do
    let a' ← writeM m.cfg.shape a recs entries
    let m := setActive m a'
    mark "log.append.written"
    let ep ← assignEpochsM m.epochs m.epochs.latestEpoch recs
    mark "log.append.done"
    pure { m with epochs := ep }

/-- `SetHighWatermark`. -/
def setHW (m : Mem) (hw : Int) : Mem := if Gen.Log.setHWCmp.evalInt hw m.hw then { m with hw := hw } else m

/-- `checkpointHW`. -/
def checkpointHWM (m : Mem) : M Unit := do
  mark "log.hw.before"
  eff (.putHW m.hw)
  mark "log.hw.after"

/-- `Close`. -/
def closeM (m : Mem) : M Mem := do
  checkpointHWM m
  mark "log.close.hw"
  let rec go : List MSeg → List MSeg → M (List MSeg)
    | [], acc => pure acc.reverse
    | s :: rest, acc => do
      let s' ← closeSegM s
      mark "log.close.segment"
      go rest (s' :: acc)
  let segs ← go m.segs []
  pure { m with segs := segs }

/-- `findSegment` over the in-memory segments. -/
def findSegmentIdx (segs : List MSeg) (offset : Int) : Option Nat :=
  let n := segs.length
  let i := goSearchS n (fun i => match segs[i]? with
    | some s => Gen.Log.findSegmentCmp.evalInt s.nextOffset offset
    | none => true)
  if i = n then none else some i

def deleteAllM (mk : String) : List MSeg → M Unit
  | [] => pure ()
  | s :: rest => do deleteSegM s; mark mk; deleteAllM mk rest

/-- `Truncate(offset)`. -/
def truncateM (m : Mem) (offset : Int) : M Mem := do
  match findSegmentIdx m.segs offset with
  | none => pure m
  | some idx =>
    match m.segs[idx]? with
    | none => pure m
    | some seg => do
      deleteAllM "log.truncate.deleted" (m.segs.drop (idx + 1))
      let keep := m.segs.take idx
      let replace ← (if Gen.Log.truncateBaseCmp.evalInt seg.base offset then
          (if idx = 0 then pure true else do
            deleteSegM seg
            mark "log.truncate.target-deleted"
            pure false)
        else pure true : M Bool)
      let segs ← (if replace then do
          let fs ← getFS
          let scanned := scanSeg fs seg
          let new ← suffixedM m.cfg.shape seg.base .truncated
          mark "log.truncate.created"
          match scanned with
          | none => failM "garbage"
          | some items => do
            let kept := items.takeWhile (fun (r, _) => Gen.Log.truncateKeepCmp.evalInt r.offset offset)
            let rec copy (new : MSeg) : List (Rec × Entry) → M MSeg
              | [] => pure new
              | (r, e) :: rest => do let new ← writeM m.cfg.shape new [r] [e]; copy new rest
            let new ← copy new kept
            mark "log.truncate.copied"
            let new ← replaceM m.cfg.shape new seg
            mark "log.truncate.replaced"
            pure (keep ++ [new])
        else pure keep : M (List MSeg))
      let ep ← clearLatestM m.epochs offset
      pure { m with segs := segs, epochs := ep }

/-! ### Retention (`deleteCleaner`) over the in-memory counters -/

/-- `applyAgeLimit`: the prefix of non-last segments whose last write is before the TTL. -/
def ageVictims (ttl : Int) : List MSeg → List MSeg
  | [] => []
  | [_] => []
  | s :: s' :: rest => if Gen.Retention.ageCmp.evalInt s.lastTs ttl then s :: ageVictims ttl (s' :: rest) else []

/-- `applyMessagesLimit` / `applyBytesLimit`: number of newest segments kept. -/
def keepCount (cmp : Cmp) (limit : Int) (size : MSeg → Int) : List MSeg → Int → Nat
  | [], _ => 0
  | s :: rest, total =>
    let t := total + size s
    if cmp.evalInt t limit then 0 else 1 + keepCount cmp limit size rest t

/-- One size/count stage: deletes the victims newest first (`for ; i > -1; i--`). -/
def limitStageM (cmp : Cmp) (limit : Int) (size : MSeg → Int) (segs : List MSeg) : M (List MSeg) :=
  match segs.reverse with
  | [] => pure segs
  | [_] => pure segs
  | last :: revInit => do
    let k := keepCount cmp limit size revInit (size last)
    let victims := revInit.drop k         -- newest victim first
    deleteAllM "retention.deleted" victims
    pure ((revInit.take k).reverse ++ [last])

def ageStageM (ttl : Int) (segs : List MSeg) : M (List MSeg) := do
  let v := ageVictims ttl segs
  deleteAllM "retention.deleted" v
  pure (segs.drop v.length)

/-- `deleteCleaner.Clean`. -/
def retentionM (cfg : Cfg) (ttl : Int) (segs : List MSeg) : M (List MSeg) :=
  if cfg.maxBytes = 0 ∧ cfg.maxMsgs = 0 ∧ cfg.maxAge = 0 then pure segs else do
    let s1 ← if Gen.Retention.ageOnCmp.evalInt cfg.maxAge 0 then ageStageM ttl segs else pure segs
    let s2 ← if Gen.Retention.msgsOnCmp.evalInt cfg.maxMsgs 0 then limitStageM Gen.Retention.msgsCmp cfg.maxMsgs (fun s => (s.idxPos : Int)) s1 else pure s1
    let s3 ← if Gen.Retention.bytesOnCmp.evalInt cfg.maxBytes 0 then limitStageM Gen.Retention.bytesCmp cfg.maxBytes (fun s => (s.position : Int)) s2 else pure s2
    if Gen.Retention.ageSecondPass && Gen.Retention.ageOnCmp.evalInt cfg.maxAge 0 then ageStageM ttl s3 else pure s3

/-! ### Compaction -/

/-- `scanKeys` with ONE worker (`CompactMaxGoroutines = 1`, as the harness configures it): the
segments are scanned in order and `break LOOP` ends the whole scan at the first offset above
the HW; newest offset per key among what was scanned. -/
def latestKey (hw : Int) (scanned : List (List Rec)) (k : Bytes) : Option Int :=
  (((scanned.flatMap id).takeWhile (fun r => !(Gen.Compact.scanStopCmp.evalInt r.offset hw))).filter
      (fun r => r.body.key = some k)).foldl
    (fun acc r => match acc with
      | none => some r.offset
      | some o => if r.offset > o then some r.offset else some o) none

def retainRec (hw : Int) (scanned : List (List Rec)) (r : Rec) : Bool :=
  match r.body.key with
  | none => true
  | some k => Gen.Compact.retainLatestCmp.evalInt r.offset ((latestKey hw scanned k).getD 0) ||
              Gen.Compact.retainHWCmp.evalInt r.offset hw

def rebuildEpochs (c : Epochs) : List Rec → Epochs
  | [] => c
  | r :: rs => if r.epoch > c.latestEpoch then rebuildEpochs (c.assign r.epoch r.offset) rs else rebuildEpochs c rs

/-- `cleanSegment`. Returns the replacing segment (none = removed) and the survivors. -/
def cleanSegmentM (sh : Shape) (hw : Int) (scanned : List (List Rec)) (seg : MSeg) : M (Option MSeg × List Rec) := do
  let fs ← getFS
  let items := scanSeg fs seg
  let new ← suffixedM sh seg.base .cleaned
  mark "compact.created"
  match items with
  | none => failM "garbage"
  | some items => do
    let kept := (items.map (·.1)).filter (retainRec hw scanned)
    let rec copy (new : MSeg) : List Rec → M MSeg
      | [] => pure new
      | r :: rest => do
        let new ← writeM sh new [r] (Seg.entriesFrom new.position [r])
        copy new rest
    let new ← copy new kept
    mark "compact.written"
    if new.isEmpty then do
      deleteSegM new
      mark "compact.empty.new-deleted"
      deleteSegM seg
      pure (none, kept)
    else do
      let new ← replaceM sh new seg
      mark "compact.replaced"
      pure (some new, kept)

/-- `Compact(hw, segments)`. -/
def compactM (sh : Shape) (hw : Int) (segs : List MSeg) : M (List MSeg × Option Epochs) :=
  if Gen.Compact.skipCmp.evalNat segs.length 1 then pure (segs, none) else do
    let fs ← getFS
    match segs.mapM (fun s => (scanSeg fs s).map (·.map (·.1))) with
    | none => failM "garbage"
    | some scanned => do
      let rec go : List MSeg → List MSeg → List Rec → M (List MSeg × List Rec)
        | [], acc, surv => pure (acc.reverse, surv)
        | s :: rest, acc, surv => do
          let (r, kept) ← cleanSegmentM sh hw scanned s
          match r with
          | some s' => go rest (s' :: acc) (surv ++ kept)
          | none => go rest acc (surv ++ kept)
      let (out, surv) ← go segs.dropLast [] []
      let last := segs.getLast?.getD { base := 0 }
      let lastRecs := (scanned.getLast?).getD []
      pure (out ++ [last], some (rebuildEpochs [] (surv ++ lastRecs)))

/-- `Clean()`. -/
def cleanM (m : Mem) (ttl : Int) : M Mem := do
  let segs ← retentionM m.cfg ttl m.segs
  let (segs, ep) ← (if m.cfg.compact then compactM m.cfg.shape m.hw segs else pure (segs, none) : M (List MSeg × Option Epochs))
  mark "log.clean.cleaned"
  let ep ← (match ep with
    | some c => do flushM c; pure c
    | none => clearEarliestM m.epochs ((segs.head?.map (·.base)).getD 0) : M Epochs)
  mark "log.clean.done"
  pure { m with segs := segs, epochs := ep }

/-- Age-based roll as the harness performs it: `split` + `Seal` when the active segment has
been written to. -/
def rollM (m : Mem) : M Mem := if m.active.isEmpty then pure m else splitM m

/-! ## Readers (byte walkers) -/

def findSegmentByBaseIdx (segs : List MSeg) (offset : Int) : Option Nat :=
  let n := segs.length
  let i := goSearchS n (fun i => match segs[i]? with
    | some s => Gen.Log.findSegmentByBaseCmp.evalInt s.base offset
    | none => true)
  if i = n then none else some i

/-- The uncommitted reader's walk from byte `pos` of segment `i`: to the end of the file, then
`findSegmentByBaseOffset(base+1)`, until there is no next segment (it would wait). An
incomplete record at the end of a file that has a successor is completed with the successor's
bytes: garbage. The flag says whether the walk ended in garbage. -/
def walkFrom (fs : FS) (segs : List MSeg) (i pos : Nat) : (fuel : Nat) → List Rec × Bool
  | 0 => ([], false)
  | fuel + 1 =>
    match segs[i]? with
    | none => ([], false)
    | some s =>
      let cs := (fs.log? s.fname).getD []
      let (rs, e) := walkFile cs pos (cs.length + 1)
      match e with
      | .garbage => (rs, true)
      | .msg _ => (rs, false)
      | e =>
        match findSegmentByBaseIdx segs (s.base + 1) with
        | none => (rs, false)
        | some j =>
          if e = .tail then (rs, true) else
          let (rs', g') := walkFrom fs segs j 0 fuel; (rs ++ rs', g')

/-- Everything a sequential byte reader sees from the start of the oldest segment. -/
def bytes (fs : FS) (m : Mem) : List Rec × Bool := walkFrom fs m.segs 0 0 (m.segs.length + 1)

/-- `findEntry(offset)` on the index file up to the in-memory position. -/
def findEntry (fs : FS) (s : MSeg) (offset : Int) : Option Entry :=
  let ix := idxOf fs s.fname
  let n := s.idxPos
  let i := goSearchS n (fun i => Gen.Log.findEntryCmp.evalInt (ix.slotAt s.base i).offset offset)
  if i = n then none else some (ix.slotAt s.base i)

/-- `NewReader(offset, uncommitted)` + reading until the reader would wait. -/
def readFrom (fs : FS) (m : Mem) (offset : Int) : Res (List Rec × Bool) :=
  match findSegmentIdx m.segs offset with
  | none => .err "segment-not-found"
  | some i =>
    match m.segs[i]? with
    | none => .err "segment-not-found"
    | some s =>
      if Gen.Log.containsCmp.evalInt s.base offset then
        match findEntry fs s offset with
        | none => .err "entry-not-found"
        | some e => .ok (walkFrom fs m.segs i e.pos (m.segs.length + 1))
      else .ok (walkFrom fs m.segs i 0 (m.segs.length + 1))

/-! ## Workloads and the property as an executable check -/

inductive Op where
  | append (epoch : Nat) (ts : Int) (msgs : List Msg)
  | setHW (hw : Int)
  | checkpointHW
  | truncate (offset : Int)
  | clean (ttl : Int)
  | roll
  | reopen
  deriving Repr, Inhabited

def stepOp (m : Mem) : Op → M Mem
  | .append e ts msgs => appendM m e ts msgs
  | .setHW hw => pure (setHW m hw)
  | .checkpointHW => do checkpointHWM m; pure m
  | .truncate o => truncateM m o
  | .clean ttl => cleanM m ttl
  | .roll => rollM m
  | .reopen => do let _ ← closeM m; recoverM m.cfg

/-- ghost step: one more operation has returned (no budget, no effect) -/
def opDone (m : Mem) : M Unit := fun s => .ok () { s with opsDone := s.opsDone + 1, hwSeen := m.hw }
/-- ghost step: the log is open -/
def opened (m : Mem) : M Unit := fun s => .ok () { s with hwSeen := m.hw }

def runOps (m : Mem) : List Op → M Mem
  | [] => pure m
  | op :: rest => do
    let m ← stepOp m op
    opDone m
    runOps m rest

/-- A process life: `New` on the directory, then the operations. -/
def life (cfg : Cfg) (ops : List Op) : M Mem := do
  let m ← recoverM cfg
  opened m
  runOps m ops

/-- Budget that no workload of the harness exhausts. -/
def noCrash : Nat := 1000000000

/-- `commitlog.New` on a directory, run to completion. -/
def recover (cfg : Cfg) (fs : FS) : Res (Mem × FS) :=
  match recoverM cfg { fs := fs, budget := noCrash } with
  | .ok m s => .ok (m, s.fs)
  | .crashed _ => .err "budget"
  | .fail e _ => .err e

/-- The workload on a fresh directory, killed after `k` primitive steps: the directory left
behind, the number of operations that had returned and the in-memory HW at that moment
(`none`: the workload finished or failed within `k` steps). -/
def crashAt (cfg : Cfg) (ops : List Op) (k : Nat) : Option (FS × Nat × Int) :=
  match life cfg ops { fs := {}, budget := k } with
  | .crashed s => some (s.fs, s.opsDone, s.hwSeen)
  | _ => none

/-- Crash-free run of a prefix of the workload: memory and directory. -/
def runFree (cfg : Cfg) (ops : List Op) : Option (Mem × FS) :=
  match life cfg ops { fs := {}, budget := noCrash } with
  | .ok m s => some (m, s.fs)
  | _ => none

/-- What a sequential reader sees after the crash-free run of `ops` ([] if it fails). -/
def contentAfter (cfg : Cfg) (ops : List Op) : List Rec :=
  match runFree cfg ops with
  | some (m, fs) => (bytes fs m).1
  | none => []

/-- (a): the messages that must still be there when the process died with `n` operations
returned: everything a reader saw after those `n`, minus what the operation in progress (if
it had started removing) removes. -/
def mustKeep (cfg : Cfg) (ops : List Op) (n : Nat) : List Rec :=
  let before := contentAfter cfg (ops.take n)
  match ops[n]? with
  | some (.truncate o) => before.filter (fun r => r.offset < o)
  | some (.clean _) => let after := contentAfter cfg (ops.take (n + 1)); before.filter (fun r => after.contains r)
  | _ => before

/-- Everything the workload ever wrote (what a reader saw after any prefix). -/
def written (cfg : Cfg) (ops : List Op) : List Rec :=
  (List.range (ops.length + 1)).flatMap fun i => contentAfter cfg (ops.take i)

def strictlyIncreasing : List Int → Bool
  | [] => true
  | [_] => true
  | a :: b :: rest => decide (a < b) && strictlyIncreasing (b :: rest)

/-- Leader epoch the cache gives for an offset: the last entry starting at or before it. -/
def epochAt (c : Epochs) (o : Int) : Nat :=
  c.foldl (fun acc e => if e.2 ≤ o then e.1 else acc) 0

/-- (d) -/
def epochsMatch (c : Epochs) (rs : List Rec) : Bool := rs.all fun r => epochAt c r.offset == r.epoch

/-- A reader created at an offset that is present starts with that message, and the log end is
the last message. -/
def coherentReads (fs : FS) (m : Mem) (rs : List Rec) : Bool :=
  (rs.all fun r => match readFrom fs m r.offset with
    | .ok (r' :: _, _) => r'.offset == r.offset
    | _ => false) &&
  (match rs.getLast? with
   | some r => m.newest == r.offset
   | none => true)

/-- One view of the reopened log judged by the property: no garbage, (b) no duplicate and no
phantom, (a) nothing lost, coherent readers, (d) epochs. `extra` = messages appended after the
recovery. -/
def viewOK (fs : FS) (m : Mem) (must written extra : List Rec) : Bool :=
  let (rs, g) := bytes fs m
  !g && strictlyIncreasing (rs.map (·.offset)) &&
  rs.all (fun r => written.contains r || extra.any (fun x => x.ts == r.ts && x.body == r.body)) &&
  must.all (fun r => rs.contains r) &&
  coherentReads fs m rs &&
  epochsMatch m.epochs rs

/-- The message the resumed process appends after recovery. -/
def postMsg : Msg := { key := some [0x7a], val := some [0x7a, 0x7a] }
def postRec : Rec := { offset := 0, ts := 900, epoch := 9, body := { key := postMsg.key, val := postMsg.val, hdrs := [] } }

/-- What the resumed process does: redo an interrupted truncate / clean, then one append. -/
def postOps (ops : List Op) (n : Nat) (started : Bool) : List Op :=
  (match ops[n]?, started with
   | some (.truncate o), true => [.truncate o]
   | some (.clean t), true => [.clean t]
   | _, _ => []) ++ [.append 9 900 [postMsg]]

/-- THE PROPERTY for one crash: the workload `ops` on a fresh directory is killed after `k`
primitive steps. Reopening succeeds; the reopened log holds every message whose append had
completed (other than what an interrupted truncate / clean removes), a sequential reader sees
no duplicate offset, nothing that was never written and no bytes that are not a message,
readers start where they are asked to, the HW is not above the one before the crash, the leader
epochs match the messages; and the resumed process (redo of the interrupted truncate / clean,
one append) ends up with a log of which all this is still true and that holds the new message
exactly once. `started` = the crash fell inside operation `n` (not exactly between two). -/
def crashOK (cfg : Cfg) (ops : List Op) (k : Nat) : Bool :=
  match crashAt cfg ops k with
  | none => true
  | some (fs, n, hwBefore) =>
    -- did operation `n` start? (the first `n` operations took fewer than `k` steps)
    let started := match life cfg (ops.take n) { fs := {}, budget := k } with
      | .ok _ s => s.budget != 0
      | _ => true
    match recoverM cfg { fs := fs, budget := noCrash } with
    | .ok m s =>
      let must := if started then mustKeep cfg ops n else contentAfter cfg (ops.take n)
      let wr := written cfg ops
      viewOK s.fs m must wr [] &&
      decide (m.hw ≤ hwBefore) &&
      (match runOps m (postOps ops n started) { fs := s.fs, budget := noCrash } with
       | .ok m' s' =>
         viewOK s'.fs m' must wr [postRec] &&
         ((bytes s'.fs m').1.filter (fun r => r.ts == 900 && r.body == postRec.body)).length == 1
       | _ => false)
    | _ => false

/-- What a sequential reader sees after: crash of `ops` at step `k`, (optionally a torn tail of
`tear` bytes on the newest plain log file), reopen, and the operations `post` in the resumed
process. `none` = no crash at `k`; `.err` = reopen or a `post` operation failed. -/
def resumeView (cfg : Cfg) (ops : List Op) (k : Nat) (tear : Nat) (post : List Op) :
    Option (Res (List Rec × Bool × Mem)) :=
  match crashAt cfg ops k with
  | none => none
  | some (fs, _, _) =>
    let fs := if tear = 0 then fs else
      match (fs.logs.filter fun (f, _) => f.sfx = .plain).getLast? with
      | some (f, _) => (Eff.tear f tear).apply fs
      | none => fs
    match recoverM cfg { fs := fs, budget := noCrash } with
    | .ok m s =>
      (match runOps m post { fs := s.fs, budget := noCrash } with
       | .ok m' s' => some (.ok ((bytes s'.fs m').1, (bytes s'.fs m').2, m'))
       | .fail e _ => some (.err e)
       | .crashed _ => some (.err "budget"))
    | .fail e _ => some (.err e)
    | .crashed _ => some (.err "budget")

def viewOffsets (v : Option (Res (List Rec × Bool × Mem))) : Option (List Int × Bool) :=
  match v with
  | some (.ok (rs, g, _)) => some (rs.map (·.offset), g)
  | _ => none

end Liftbridge.Recover
