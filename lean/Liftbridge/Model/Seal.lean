/-
Model of server/encryption/localkey_handler.go: the FRAMING that `Seal` writes around the
wrapped data key and the AES-GCM ciphertext, and the way `Read`/`decryptData` cut a stored
value apart again.

    stored = [ byte(len wrapped) ] ++ wrapped ++ nonce ++ gcmCiphertextAndTag

All cryptography is a PARAMETER (`Crypto`): the key wrap (tink KWP, RFC 5649), AES key
setup, and AES-GCM seal/open. Nothing is assumed about them here; the theorems in
Props/C17.lean state their hypotheses explicitly.

Two variants of the read path are defined by one body (`readWith checked`):
  * `read`          = `readWith true`  : the REPAIRED code (fixes/C17-read-bounds.diff): three
                      length checks, evaluated through the regenerated `Gen.Seal.guard*`
                      operators. The extractor reports these guards as LOST on a tree that
                      does not have them.
  * `readUnchecked` = `readWith false` : the code as it was before the repair: index and
                      slices without any length check (Go panics are `Res.panic`).

Go slicing note: `s[a:b]` is bounded by cap(s), `s[a:]` by len(s). `Read` evaluates
`encryptedData[1:keyEndPos]` and then `encryptedData[keyEndPos:]`; the second one panics
whenever keyEndPos > len, whatever the capacity, so "panic iff keyEndPos > len" is exact for
the pair. The same holds for `[:nonceSize]` / `[nonceSize:]` in `decryptData`.
-/
import Liftbridge.Base
import Liftbridge.Gen.Seal

namespace Liftbridge.Seal
open Liftbridge

/-- The cryptographic primitives used by `LocalEncryptionHandler`, for one fixed master key.
Randomness (the data key and the nonce) is an explicit argument of `sealData`. -/
structure Crypto where
  /-- `keyWrapper.Wrap(dek)` (fails for key sizes outside 16..8192). -/
  wrap : Bytes → Option Bytes
  /-- `keyWrapper.Unwrap(wrapped)`. -/
  unwrap : Bytes → Option Bytes
  /-- `aes.NewCipher(dek)` and `cipher.NewGCM` succeed (key of 16, 24 or 32 bytes). -/
  keyOk : Bytes → Bool
  /-- `gcm.NonceSize()`. -/
  nonceSize : Nat
  /-- `gcm.Seal(nil, nonce, plaintext, nil)`: ciphertext followed by the tag. -/
  aeadSeal : (key nonce plaintext : Bytes) → Bytes
  /-- `gcm.Open(nil, nonce, ciphertext, nil)`. -/
  aeadOpen : (key nonce ciphertext : Bytes) → Option Bytes

/-- What `Seal` assembles: `keySize := []byte{byte(keyLength)}` (truncation to one byte),
then the wrapped key, then the ciphertext. The three `copy` calls fill a buffer of exactly
`1 + keyLength + len(ciphertext)` bytes, so they cannot panic or truncate. -/
def frame (wrapped ct : Bytes) : Bytes :=
  UInt8.ofNat wrapped.length :: (wrapped ++ ct)

/-- `encryptData`: key setup, then `gcm.Seal(nonce, nonce, plaintext, nil)` — the nonce is
the destination prefix, so the result is `nonce ++ sealed`. -/
def encryptData (c : Crypto) (dek nonce pt : Bytes) : Res Bytes :=
  if !c.keyOk dek then .err "cipher" else .ok (nonce ++ c.aeadSeal dek nonce pt)

/-- `Seal(data)` with the handler's data key `dek` and the freshly drawn `nonce`. Statement
order as in the code: encrypt first, wrap second. -/
def sealData (c : Crypto) (dek nonce data : Bytes) : Res Bytes := do
  let ct ← encryptData c dek nonce data
  match c.wrap dek with
  | none => .err "wrap"
  | some w => .ok (frame w ct)

/-- First half of `Read`: key-size byte, wrapped key, rest. -/
def splitKey (checked : Bool) (b : Bytes) : Res (Bytes × Bytes) :=
  if checked && Gen.Seal.guardEmpty.evalNat b.length 0 then .err "empty" else do
  let k0 ← index b 0
  let keyEndPos := k0.toNat + Gen.Seal.keyEndOffset
  if checked && Gen.Seal.guardKeyBeyond.evalNat keyEndPos b.length then .err "keysize" else do
  let wrapped ← slice b Gen.Seal.wrappedLo keyEndPos
  let rest ← sliceFrom b keyEndPos
  .ok (wrapped, rest)

/-- The slicing of `decryptData`: `encryptedData[:nonceSize]`, `encryptedData[nonceSize:]`. -/
def splitNonce (checked : Bool) (nonceSize : Nat) (ed : Bytes) : Res (Bytes × Bytes) :=
  if checked && Gen.Seal.guardNonceShort.evalNat ed.length nonceSize then .err "nonce" else do
  let nonce ← slice ed 0 nonceSize
  let ct ← sliceFrom ed nonceSize
  .ok (nonce, ct)

/-- `decryptData`: key setup (error before any slicing), nonce split, `gcm.Open`. -/
def decryptDataWith (checked : Bool) (c : Crypto) (dek ed : Bytes) : Res Bytes :=
  if !c.keyOk dek then .err "cipher" else do
  let (nonce, ct) ← splitNonce checked c.nonceSize ed
  match c.aeadOpen dek nonce ct with
  | none => .err "open"
  | some p => .ok p

/-- `Read`: split, unwrap (an unwrap error returns before `decryptData` is entered), decrypt. -/
def readWith (checked : Bool) (c : Crypto) (b : Bytes) : Res Bytes := do
  let (wrapped, rest) ← splitKey checked b
  match c.unwrap wrapped with
  | none => .err "unwrap"
  | some dek => decryptDataWith checked c dek rest

/-- The repaired `Read`. -/
def read (c : Crypto) (b : Bytes) : Res Bytes := readWith true c b
/-- `Read` before the repair. -/
def readUnchecked (c : Crypto) (b : Bytes) : Res Bytes := readWith false c b

/-- Pure framing decision (what the driver's `c17 split` prints): where a stored value is
cut, assuming the crypto in between succeeds. -/
def splitWith (checked : Bool) (nonceSize : Nat) (b : Bytes) : Res (Bytes × Bytes × Bytes) := do
  let (wrapped, rest) ← splitKey checked b
  let (nonce, ct) ← splitNonce checked nonceSize rest
  .ok (wrapped, nonce, ct)

/-- Size of a KWP-wrapped key (tink `wrappingSize`): padded to a multiple of 8, plus the
8-byte integrity block. Hand-copied from the dependency; the harness compares it with
`len(wrapDEK(dek))` on every run. -/
def kwpWrappedLen (n : Nat) : Nat := n + (7 - (n + 7) % 8) + 8

end Liftbridge.Seal
