/-
C19 — the vocabulary in which the extractor (extract/gen_telemetry.go) describes the SHAPE of
  telemetry.New              (what it does to its *Config argument before storing it),
  Server.Start               (what it puts into the telemetry.Config it passes to New),
  loadOrCreateInstanceID     (every syntactic path to a `return`, with the conditions on it).
`Gen/Telemetry.lean` imports this file and emits constructor terms; `Model/TelemetryCfg.lean`
gives them their meaning. Core Lean only.
-/
import Liftbridge.Cmp

namespace Liftbridge.TelemetryTypes

/-- Where the value of one field comes from after an assignment / a block of assignments. -/
inductive Src (α : Type) where
  /-- unchanged (also: saved in a local and written back to the same field) -/
  | keep
  /-- the value `DefaultConfig()` gives that field -/
  | dflt
  /-- a constant (for a composite literal without the key: the zero value) -/
  | lit (v : α)
  /-- anything the extractor does not understand (reported `lost`; the model assumes the worst) -/
  | unknown
  deriving Repr

/-- The condition of an `if` in `telemetry.New` (on the `cfg` parameter). -/
inductive Guard where
  /-- an assignment outside any `if` -/
  | always
  /-- `cfg == nil` (`true`) / `cfg != nil` (`false`) -/
  | isNil (b : Bool)
  /-- `cfg.Interval <op> k` (k in nanoseconds) -/
  | interval (op : Cmp) (k : Int)
  /-- `cfg.Enabled` (`true`) / `!cfg.Enabled` (`false`) -/
  | enabled (b : Bool)
  /-- anything else (reported `lost`; the model assumes it may hold) -/
  | unknown
  deriving Repr

/-- One guarded block of `telemetry.New`: net effect on the three fields of `*cfg`. -/
structure Rewrite where
  guard : Guard
  enabled : Src Bool
  interval : Src Int
  dataDir : Src String
  deriving Repr

/-- The operations `loadOrCreateInstanceID` performs that can fail. -/
inductive IdOp where
  | mkdir | read | rand | write
  deriving Repr, DecidableEq

/-- A condition on one syntactic path through `loadOrCreateInstanceID`. -/
inductive IdCond where
  /-- the operation succeeded (`true`) / failed (`false`) -/
  | op (o : IdOp) (ok : Bool)
  /-- `err == nil && len(data) <idLenGuard> 0` on the result of `os.ReadFile(idPath)` -/
  | fileUsable (b : Bool)
  /-- any other condition (text kept for the report) holds / does not hold -/
  | other (txt : String) (b : Bool)
  deriving Repr

/-- What a path returns. -/
inductive IdOut where
  /-- `return "", <error>` -/
  | err
  /-- the (trimmed) content of the id file -/
  | file
  /-- the freshly generated `generateUUID()` value -/
  | fresh
  /-- anything else (text of the returned expression) -/
  | other (txt : String)
  deriving Repr

structure IdPath where
  conds : List IdCond
  out : IdOut
  deriving Repr

end Liftbridge.TelemetryTypes
