/-
Model of a subscription on one partition: start/stop position resolution
(partition.go getStartOffset/getStopOffset, commitlog.go EarliestOffsetAfterTimestamp /
LatestOffsetBeforeTimestamp with their segment and entry binary searches), the
`stop`/`start` validation, the forward committed reader (creation, parking beyond the HW,
continuation after the HW moved), the reverse reader (start clamp, start slot, walk to the
beginning), the delivery loop's stop test and the status mapping.

Time is absent: a subscription is observed by *draining* it — everything it delivers until it
would wait — after creation and again after later log operations (append, HW advance,
read-only toggle).
-/
import Liftbridge.Model.Log
import Liftbridge.Gen.Subscribe

namespace Liftbridge.Subscribe
open Liftbridge Liftbridge.Log

inductive StartPos where
  | offset (o : Int) | earliest | latest | newOnly | timestamp (t : Int)
  deriving Repr, DecidableEq, Inhabited

inductive StopPos where
  | onCancel | offset (o : Int) | latest | timestamp (t : Int)
  deriving Repr, DecidableEq, Inhabited

structure Req where
  start : StartPos
  stop : StopPos
  reverse : Bool
  deriving Repr, DecidableEq, Inhabited

/-- How a drain ends: the subscriber keeps waiting, or a final status (code:reason). -/
inductive Ending where
  | waiting
  | status (s : String)
  deriving Repr, DecidableEq, Inhabited

/-- `sort.Search` whose predicate can fail: a failing probe counts as `true` and sets the error
flag (the Go closures assign `err = e; return true`). Returns (index, error seen). -/
def goSearchErrAux (f : Nat → Option Bool) (i j : Nat) (err : Bool) : Nat × Bool :=
  if h : i < j then
    let m := (i + j) / 2
    match f m with
    | none => goSearchErrAux f i m true
    | some true => goSearchErrAux f i m err
    | some false => goSearchErrAux f (m + 1) j err
  else (i, err)
termination_by j - i
decreasing_by all_goals omega

def goSearchErr (n : Nat) (f : Nat → Option Bool) : Nat × Bool := goSearchErrAux f 0 n false

/-- `findSegmentIndexByTimestamp`: first segment whose FIRST entry has a timestamp `> ts` (`>= ts`
when `inclusive`); reading
the first entry of a segment without entries fails with io.EOF. -/
def findSegIdxByTs (segs : List Seg) (ts : Int) (inclusive : Bool := false) : Nat × Bool :=
  goSearchErr segs.length fun i =>
    match segs[i]? with
    | none => none
    | some s => match s.recs.head? with
      | none => if Gen.Subscribe.tsEmptySegNoError then some true else none
      | some r => some ((inclusive && r.ts = ts) || Gen.Log.findSegmentTsCmp.evalInt r.ts ts)

/-- `findEntryByTimestamp`: first entry of the segment whose timestamp is `>= ts`. -/
def findEntryByTs (s : Seg) (ts : Int) : Option Rec :=
  let n := s.recs.length
  let i := goSearch n fun i => match s.recs[i]? with
    | some r => Gen.Log.findEntryTsCmp.evalInt r.ts ts
    | none => true
  s.recs[i]?

def lastNextOffset (segs : List Seg) : Int := (segs.getLast?.map Seg.nextOffset).getD 0

/-- `EarliestOffsetAfterTimestamp`. -/
def earliestAfterTs (l : CLog) (ts : Int) : Res Int :=
  -- the segment search is inclusive of an equal base timestamp: messages stamped exactly `ts`
  -- may also sit at the end of the previous segment
  let (idx, err) := findSegIdxByTs l.segs ts Gen.Subscribe.tsEarliestInclusive
  if err then .ok (lastNextOffset l.segs) else
  let seg := if idx = 0 then l.segs[0]? else l.segs[idx - 1]?
  match seg with
  | none => .panic
  | some seg =>
    match findEntryByTs seg ts with
    | some r => .ok r.offset
    | none =>
      if Gen.Subscribe.tsNextSegCmp.evalInt idx (l.segs.length - Gen.Subscribe.tsNextSegOff) then
        match l.segs[idx]? with
        | none => .panic
        | some s2 => match findEntryByTs s2 ts with
          | some r => .ok r.offset
          | none =>
            -- since the last segment is searched too, "not found" there means beyond the end
            if Gen.Subscribe.tsNextSegOff = 0 then .ok (lastNextOffset l.segs) else .err "timestamp"
      else .ok (lastNextOffset l.segs)

/-- `LatestOffsetBeforeTimestamp`. -/
def latestBeforeTs (l : CLog) (ts : Int) : Res Int :=
  let (idx, err) := findSegIdxByTs l.segs ts
  if err then .err "timestamp" else
  let seg := if idx = 0 then l.segs[0]? else l.segs[idx - 1]?
  match seg with
  | none => .panic
  | some seg =>
    if idx = 0 ∧ ((Gen.Subscribe.tsLatestEmptyCheck && seg.isEmpty) ∨ ts < seg.firstTs) then .err "timestamp" else
    if Gen.Subscribe.tsLatestExact then
      -- `findLatestEntryByTimestamp`: the entry before the first one with a later timestamp
      let n := seg.recs.length
      let i := goSearch n fun i => match seg.recs[i]? with
        | some r => Gen.Subscribe.tsLatestCmp.evalInt r.ts ts
        | none => true
      if i = 0 then .err "timestamp" else
      match seg.recs[i - 1]? with
      | some r => .ok r.offset
      | none => .panic
    else
    match findEntryByTs seg ts with
    | some r => if r.ts = ts then .ok r.offset else .ok (r.offset - 1)
    | none => .ok seg.lastOffset

def waitForNew : Int := -1

/-- `getStartOffset` (negative results are clamped to 0). -/
def startOffset (l : CLog) : StartPos → Res Int
  | .offset o => .ok (if o < 0 then 0 else o)
  | .earliest => .ok (if l.oldest < 0 then 0 else l.oldest)
  | .latest => .ok (if l.newest < 0 then 0 else l.newest)
  | .newOnly => .ok (if l.newest + 1 < 0 then 0 else l.newest + 1)
  | .timestamp t => do
    let o ← earliestAfterTs l t
    .ok (if o < 0 then 0 else o)

/-- `getStopOffset`. `none` = refused with ResourceExhausted "Stream is empty". -/
def stopOffset (l : CLog) (reverse : Bool) : StopPos → Res (Option Int)
  | .onCancel =>
    if l.readonly && (!Gen.Subscribe.readonlyStopForwardOnly || !reverse) then .ok (some l.newest) else .ok (some waitForNew)
  | .offset o => .ok (some o)
  | .latest => if l.newest = -1 then .ok none else .ok (some l.newest)
  | .timestamp t => do
    let o ← latestBeforeTs l t
    .ok (some o)

/-- A live subscription. Forward: `nextOff` is where reading continues (see `create`);
reverse subscriptions deliver everything at creation. -/
structure Sub where
  nextOff : Int
  stop : Int
  reverse : Bool
  ended : Bool
  deriving Repr, DecidableEq, Inhabited

/-- Deliver from a list of records read in order, applying the loop's stop tests. Returns the
delivered records and whether the stop status was sent. -/
def deliverFwd (stop : Int) : List Rec → List Rec × Bool
  | [] => ([], false)
  | r :: rs =>
    if Gen.Subscribe.stopBeyondCheck && stop ≠ waitForNew && r.offset > stop then ([], true)
    else if r.offset = stop then ([r], true)
    else let (d, e) := deliverFwd stop rs; (r :: d, e)

def deliverRev (stop : Int) : List Rec → List Rec × Bool
  | [] => ([], false)
  | r :: rs =>
    if Gen.Subscribe.stopBeyondCheck && stop ≠ waitForNew && r.offset < stop then ([], true)
    else if r.offset = stop then ([r], true)
    else let (d, e) := deliverRev stop rs; (r :: d, e)

/-- Drain a forward subscription on the current log: what the committed reader hands over until
it would wait, then the ending. -/
def drain (l : CLog) (s : Sub) : List Rec × Ending × Sub :=
  if s.ended then ([], .status "ended", s) else
  match l.readCommitted s.nextOff with
  | .err e => ([], .status ("Unknown:" ++ e), { s with ended := true })
  | .panic => ([], .status "panic", { s with ended := true })
  | .ok rs =>
    let (d, stopped) := deliverFwd s.stop rs
    let next := match d.getLast? with | some r => r.offset + 1 | none => s.nextOff
    if stopped then (d, .status "ResourceExhausted:stop", { s with nextOff := next, ended := true })
    else if l.readonly && l.hw = l.newest && (d.length = rs.length) then
      (d, .status "ResourceExhausted:readonly", { s with nextOff := next, ended := true })
    else (d, .waiting, { s with nextOff := next })

/-- The reverse reader: start clamp (`startOffset > hw || startOffset == -1 ⇒ hw`), the segment
holding the start, the start slot inside it, then every earlier record down to the beginning. -/
def reverseRecs (l : CLog) (start : Int) : Res (List Rec) :=
  if l.hw = -1 then .err "segment-not-found" else
  let eff := if start > l.hw || start = -1 then l.hw else start
  match CLog.findSegmentIdx l.segs eff with
  | none => .err "segment-not-found"
  | some i =>
    match l.segs[i]? with
    | none => .err "segment-not-found"
    | some s =>
      -- start slot: the last entry of the segment whose offset is <= the start offset
      let inSeg := (s.recs.filter (fun r => r.offset ≤ eff)).reverse
      .ok (inSeg ++ ((l.segs.take i).flatMap Seg.recs).reverse)

inductive Created where
  | refused (status : String)
  | live (delivered : List Rec) (ending : Ending) (sub : Sub)
  deriving Repr, Inhabited

/-- `partition.Subscribe` followed by a first drain. -/
def create (l : CLog) (req : Req) : Created :=
  match startOffset l req.start with
  | .err _ => .refused "Internal:timestamp"
  | .panic => .refused "panic"
  | .ok start =>
    match stopOffset l req.reverse req.stop with
    | .err _ => .refused "Internal:timestamp"
    | .panic => .refused "panic"
    | .ok none => .refused "ResourceExhausted:empty"
    | .ok (some stop) =>
      let bad := if req.reverse && Gen.Subscribe.reverseStopRule then stop ≠ waitForNew ∧ stop > start
                 else stop ≠ waitForNew ∧ stop < start
      if bad then .refused "InvalidArgument:stop-start" else
      if req.reverse then
        match reverseRecs l start with
        | .err _ => .refused "Internal:reader"
        | .panic => .refused "panic"
        | .ok rs =>
          let (d, stopped) := deliverRev stop rs
          let ending := if stopped then "ResourceExhausted:stop" else Gen.Subscribe.reverseEndStatus
          .live d (.status ending) { nextOff := 0, stop := stop, reverse := true, ended := true }
      else
        -- `newReaderCommitted`: beyond the HW (or on an empty log) the reader parks and will resume
        -- at the message after the HW it saw, whatever the requested offset was
        let next := if Gen.Log.readerBeyondHWCmp.evalInt start l.hw || l.oldest = -1 then l.hw + 1 else start
        let s : Sub := { nextOff := next, stop := stop, reverse := false, ended := false }
        let (d, e, s') := drain l s
        .live d e s'

end Liftbridge.Subscribe
