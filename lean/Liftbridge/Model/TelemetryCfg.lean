/-
C19 — model of how `Config.Telemetry.Enabled` is decided and of what the server does with it.

Mirrors, as the code IS (every decision is taken through the regenerated
`Gen.Telemetry.*` facts, collected in `genFacts`):

  server/config.go  NewDefaultConfig   config.Telemetry.Enabled = defaultTelemetryEnabled
                    NewConfig          if configFile == "" { [parseTelemetryConfig]; return }   (early return)
                                       v.SetEnvPrefix / v.SetEnvKeyReplacer / v.AutomaticEnv
                                       ReadInConfig … parseTelemetryConfig(config, v)
                    parseTelemetryConfig  if v.IsSet(k) { config.Telemetry.Enabled = v.GetBool(k) }
  viper             find(k): AutomaticEnv ⇒ os.LookupEnv(replacer(upper(prefix_k))) (non-empty) before the
                    config file; GetBool = cast.ToBool (strconv.ParseBool, error ⇒ false)
  server/server.go  Start: if s.config.Telemetry.Enabled {            (createGuarded)
                             cfg := &telemetry.Config{Enabled: true,  (argEnabled)
                                      Interval: time.Duration(s.config.Telemetry.IntervalSeconds) * time.Second,
                                      DataDir: s.config.DataDir}
                             s.telemetry, err = telemetry.New(cfg, Version, logger)   -- error: warning only, s.telemetry stays nil
                           }
                           if s.telemetry != nil { s.telemetry.Start() }
  telemetry.go      New:   if cfg == nil { cfg = DefaultConfig() }    (newSteps: EVERY guarded block that writes to cfg)
                           instanceID, err := loadOrCreateInstanceID(cfg.DataDir); if err != nil { return nil, err }
                           &Collector{config: cfg, instanceID: instanceID, …}
                    loadOrCreateInstanceID: every syntactic path to a return (idPaths), first match
                    Start: if !c.config.Enabled { return }; go run()
                    run:   one beacon; time.NewTicker(c.config.Interval) (panics when ≤ 0); one beacon per tick

`Facts` is a parameter of every definition so that theorems can be stated for ANY shape of
the code (`∀ F`) and then instantiated with the regenerated one.
Core Lean only. Strings that are computed with (`envVarFor`) are `List Char`, because the
kernel does not reduce `String` primitives.
-/
import Liftbridge.Gen.Telemetry

namespace Liftbridge.TelemetryCfg
open Liftbridge.TelemetryTypes

/-- The shape of the Go code that matters for C19 (regenerated: `genFacts`). -/
structure Facts where
  /-- `defaultTelemetryEnabled` -/
  defaultEnabled : Bool
  /-- `v.AutomaticEnv()` is called -/
  envAutomatic : Bool
  /-- argument of `v.SetEnvPrefix` -/
  envPrefix : List Char
  /-- pairs of `strings.NewReplacer` given to `v.SetEnvKeyReplacer` ([] = no replacer) -/
  envReplacer : List (Char × Char)
  /-- `configTelemetryEnabled` -/
  configKey : List Char
  /-- without a config file, `parseTelemetryConfig` is called before returning -/
  noFileParses : Bool
  /-- without a config file, the env set-up has been executed before returning -/
  noFileEnv : Bool
  /-- with a config file, `parseTelemetryConfig` is called -/
  fileParses : Bool
  /-- with a config file, the env set-up precedes `parseTelemetryConfig` -/
  fileEnv : Bool
  /-- `telemetry.New` only inside `if s.config.Telemetry.Enabled` -/
  createGuarded : Bool
  /-- `telemetry.Config{Enabled: …}` in `Server.Start`: `.keep` = `s.config.Telemetry.Enabled` -/
  argEnabled : Src Bool
  /-- `if s.telemetry != nil { s.telemetry.Start() }` (false: the nil check is missing) -/
  startNilGuard : Bool
  /-- `Collector.Start` returns immediately when `!c.config.Enabled` -/
  startChecks : Bool
  /-- `DefaultConfig().Enabled` -/
  dfltEnabled : Bool
  /-- `DefaultConfig().Interval` (ns) -/
  dfltInterval : Int
  /-- `DefaultConfig().DataDir` -/
  dfltDataDir : String
  /-- `telemetry.New`: the guarded blocks that write to its `*Config` parameter, in order -/
  newSteps : List Rewrite
  /-- `loadOrCreateInstanceID`: every syntactic path to a return -/
  idPaths : List IdPath
  /-- `len(data) > 0` in `loadOrCreateInstanceID` -/
  idLenGuard : Cmp
  deriving Repr

/-- The facts of the working tree, regenerated on every run. -/
def genFacts : Facts where
  defaultEnabled := Gen.Telemetry.defaultEnabled
  envAutomatic := Gen.Telemetry.envAutomatic
  envPrefix := Gen.Telemetry.envPrefix.toList
  envReplacer := Gen.Telemetry.envReplacer
  configKey := Gen.Telemetry.configKey.toList
  noFileParses := Gen.Telemetry.noFileParsesTelemetry
  noFileEnv := Gen.Telemetry.noFileEnvActive
  fileParses := Gen.Telemetry.fileParsesTelemetry
  fileEnv := Gen.Telemetry.fileEnvActive
  createGuarded := Gen.Telemetry.createGuarded
  argEnabled := Gen.Telemetry.startArgEnabled
  startNilGuard := Gen.Telemetry.startNilGuard
  startChecks := Gen.Telemetry.startChecksEnabled
  dfltEnabled := Gen.Telemetry.dfltEnabled
  dfltInterval := Gen.Telemetry.dfltIntervalNs
  dfltDataDir := Gen.Telemetry.dfltDataDir
  newSteps := Gen.Telemetry.newSteps
  idPaths := Gen.Telemetry.idPaths
  idLenGuard := Gen.Telemetry.idLenGuard

/-- The facts of the tree BEFORE the repair `fixes/C19-telemetry-env-ignored.diff`
(commit 344a871): no env key replacer, and an early return without a config file that
consults nothing. Kept to document the old behaviour's witness. -/
def unfixedFacts : Facts where
  defaultEnabled := true
  envAutomatic := true
  envPrefix := "LIFTBRIDGE".toList
  envReplacer := []
  configKey := "telemetry.enabled".toList
  noFileParses := false
  noFileEnv := false
  fileParses := true
  fileEnv := true
  createGuarded := true
  argEnabled := .lit true
  startNilGuard := true
  startChecks := true
  dfltEnabled := true
  dfltInterval := 86400000000000
  dfltDataDir := "./data"
  newSteps := [{ guard := .isNil true, enabled := .dflt, interval := .dflt, dataDir := .dflt }]
  idPaths := [
    { conds := [.op .mkdir false], out := .err },
    { conds := [.op .mkdir true, .fileUsable true], out := .file },
    { conds := [.op .mkdir true, .fileUsable false, .op .rand false], out := .err },
    { conds := [.op .mkdir true, .fileUsable false, .op .rand true, .op .write false], out := .err },
    { conds := [.op .mkdir true, .fileUsable false, .op .rand true, .op .write true], out := .fresh }]
  idLenGuard := .gt

/-- One configuration = what each route says (`none` = the route is silent). -/
structure Cfg where
  /-- `telemetry.enabled` in the YAML file, after `cast.ToBool` (`none`: key absent) -/
  file : Option Bool
  /-- `LIFTBRIDGE_TELEMETRY_ENABLED` after `cast.ToBool` (`none`: unset or empty) -/
  env : Option Bool
  /-- assignment to `Config.Telemetry.Enabled` after `NewConfig` (embedding program / tests) -/
  prog : Option Bool
  /-- a config file is given (`--config`) -/
  hasConfigFile : Bool
  deriving Repr, DecidableEq

/-- The variable the documentation names (CHANGELOG.md:91-94). -/
def documentedEnvVar : List Char := "LIFTBRIDGE_TELEMETRY_ENABLED".toList

def replaceChar (ps : List (Char × Char)) (c : Char) : Char :=
  match ps.find? (·.1 = c) with
  | some p => p.2
  | none => c

/-- viper: `mergeWithEnvPrefix` (upper-case `prefix_key`) then the key replacer of `getEnv`. -/
def envVarFor (F : Facts) : List Char :=
  ((if F.envPrefix.isEmpty then F.configKey else F.envPrefix ++ ['_'] ++ F.configKey).map Char.toUpper).map
    (replaceChar F.envReplacer)

/-- Does the documented variable reach `telemetry.enabled` at all? -/
def envBinds (F : Facts) : Bool := F.envAutomatic && envVarFor F == documentedEnvVar

/-- viper `IsSet`/`GetBool` of `telemetry.enabled`: environment first (when in effect and
bound), then the config file. -/
def viperLookup (F : Facts) (envActive : Bool) (c : Cfg) : Option Bool :=
  match (if envActive && envBinds F then c.env else none) with
  | some b => some b
  | none => if c.hasConfigFile then c.file else none

/-- `NewConfig(configFile).Telemetry.Enabled`. -/
def afterNewConfig (F : Facts) (c : Cfg) : Bool :=
  if c.hasConfigFile then
    if F.fileParses then (viperLookup F F.fileEnv c).getD F.defaultEnabled else F.defaultEnabled
  else
    if F.noFileParses then (viperLookup F F.noFileEnv c).getD F.defaultEnabled else F.defaultEnabled

/-- `s.config.Telemetry.Enabled` as `Server.Start` sees it. -/
def enabled (F : Facts) (c : Cfg) : Bool :=
  match c.prog with
  | some b => b
  | none => afterNewConfig F c

/-! ### `telemetry.Config`, `telemetry.New`, `loadOrCreateInstanceID` -/

/-- `telemetry.Config`. -/
structure TCfg where
  enabled : Bool
  /-- `time.Duration`: nanoseconds -/
  interval : Int
  dataDir : String
  deriving Repr

/-- `DefaultConfig()`. -/
def dfltCfg (F : Facts) : TCfg := ⟨F.dfltEnabled, F.dfltInterval, F.dfltDataDir⟩

/-- Value of a field after a rewrite. `.unknown` (the extractor did not understand the
assignment — also reported `lost`) is resolved to the given worst case. -/
def srcEval {α : Type} (s : Src α) (cur dflt worst : α) : α :=
  match s with
  | .keep => cur
  | .dflt => dflt
  | .lit v => v
  | .unknown => worst

/-- Does the condition hold for the current value of `cfg` (`none` = nil)? A field test on a
nil pointer would panic; no caller passes nil and a field test, so it is read as "does not
hold". `.unknown` (reported `lost`) is assumed to hold. -/
def guardHolds (g : Guard) (c : Option TCfg) : Bool :=
  match g, c with
  | .always, _ => true
  | .unknown, _ => true
  | .isNil b, c => c.isNone == b
  | .interval op k, some c => op.evalInt c.interval k
  | .enabled b, some c => c.enabled == b
  | _, none => false

/-- One guarded block of `New`. Worst case for an assignment that was not understood:
Enabled becomes true, the interval stays positive (the collector keeps reporting). Writing
a single field through a nil pointer would panic; it is read as "starting from
`DefaultConfig()`" (no caller passes nil to such a block). -/
def applyRewrite (F : Facts) (c : Option TCfg) (r : Rewrite) : Option TCfg :=
  if guardHolds r.guard c then
    let cur := c.getD (dfltCfg F)
    some { enabled := srcEval r.enabled cur.enabled F.dfltEnabled true
           interval := srcEval r.interval cur.interval F.dfltInterval 1
           dataDir := srcEval r.dataDir cur.dataDir F.dfltDataDir cur.dataDir }
  else c

/-- The `*Config` the collector ends up with, given `New`'s argument (`none` = nil). -/
def newCfg (F : Facts) (arg : Option TCfg) : Option TCfg := F.newSteps.foldl (applyRewrite F) arg

/-- What `loadOrCreateInstanceID` finds in the data directory it is given. -/
structure IdEnv where
  /-- `os.MkdirAll(dataDir)` succeeds -/
  mkdirOk : Bool
  /-- `os.ReadFile(<dataDir>/.instance_id)`: `some bytes` = success -/
  file : Option (List Char)
  /-- `crypto/rand.Read` succeeds -/
  randOk : Bool
  /-- `os.WriteFile(<dataDir>/.instance_id)` succeeds -/
  writeOk : Bool
  /-- truth value of every condition the extractor does not understand -/
  other : Bool
  deriving Repr

/-- `err == nil && len(data) > 0` (the comparison is regenerated). -/
def fileUsable (F : Facts) (e : IdEnv) : Bool :=
  match e.file with
  | some d => F.idLenGuard.evalNat d.length 0
  | none => false

def opOk (e : IdEnv) : IdOp → Bool
  | .mkdir => e.mkdirOk
  | .read => e.file.isSome
  | .rand => e.randOk
  | .write => e.writeOk

def condHolds (F : Facts) (e : IdEnv) : IdCond → Bool
  | .op o ok => opOk e o == ok
  | .fileUsable b => fileUsable F e == b
  | .other _ b => e.other == b

/-- The path `loadOrCreateInstanceID` takes. -/
def idPathTaken (F : Facts) (e : IdEnv) : Option IdPath :=
  F.idPaths.find? fun p => p.conds.all (condHolds F e)

/-- Result of `loadOrCreateInstanceID`: `.err` also when no path matches (cannot happen: the
extractor enumerates both branches of every `if`). -/
def loadOrCreate (F : Facts) (e : IdEnv) : IdOut :=
  match idPathTaken F e with
  | some p => p.out
  | none => .err

def idIsErr : IdOut → Bool
  | .err => true
  | _ => false

/-- A collector as `New` builds it. -/
structure Collector where
  cfg : TCfg
  /-- origin of `instanceID` (never `.err`) -/
  id : IdOut
  deriving Repr

/-- `telemetry.New(arg, …)` with `fs` = what the file system holds under each data
directory: `none` = `(nil, err)` (also for the nil dereference when `arg` is nil and no
block of `New` replaces it). -/
def newCollector (F : Facts) (arg : Option TCfg) (fs : String → IdEnv) : Option Collector :=
  match newCfg F arg with
  | none => none
  | some c =>
    let id := loadOrCreate F (fs c.dataDir)
    if idIsErr id then none else some ⟨c, id⟩

/-- `Collector.Start` starts the goroutine `run`. -/
def collectorRuns (F : Facts) (k : Collector) : Bool := if F.startChecks then k.cfg.enabled else true

/-- Requests of a collector whose `run` was started, up to the `ticks`-th expiry of the
interval timer: the initial beacon, then `time.NewTicker(interval)` — which panics for a
non-positive interval (the process dies after one request) — then one request per tick. -/
def runRequests (k : Collector) (ticks : Nat) : Nat := if k.cfg.interval > 0 then 1 + ticks else 1

/-- `telemetry.New(arg)` followed by `Start()`: requests made (collector level, for direct
users of package telemetry). -/
def collectorRequests (F : Facts) (arg : Option TCfg) (fs : String → IdEnv) (ticks : Nat) : Nat :=
  match newCollector F arg fs with
  | none => 0
  | some k => if collectorRuns F k then runRequests k ticks else 0

/-! ### `Server.Start` -/

/-- What `Server.Start` sees: the switch, `Telemetry.IntervalSeconds`, `DataDir`. -/
structure Run where
  enabled : Bool
  intervalSeconds : Int
  dataDir : String
  deriving Repr

/-- The `*telemetry.Config` handed to `New`; `none` = `New` is not called. The interval is
`time.Duration(seconds) * time.Second` (64-bit wrap-around not modelled). -/
def startArg (F : Facts) (r : Run) : Option TCfg :=
  if F.createGuarded && !r.enabled then none
  else some { enabled := srcEval F.argEnabled r.enabled F.dfltEnabled true
              interval := r.intervalSeconds * 1000000000
              dataDir := r.dataDir }

/-- `s.telemetry` after the initialisation block (`none` = nil: not created, or `New` failed
and only a warning is logged). -/
def serverCollector (F : Facts) (r : Run) (fs : String → IdEnv) : Option Collector :=
  match startArg F r with
  | none => none
  | some a => newCollector F (some a) fs

/-- Requests of a started server. A missing nil guard around `s.telemetry.Start()` is a nil
dereference (panic), not a request. -/
def serverRequests (F : Facts) (r : Run) (fs : String → IdEnv) (ticks : Nat) : Nat :=
  match serverCollector F r fs with
  | none => 0
  | some k => if collectorRuns F k then runRequests k ticks else 0

/-- A file system where the id can always be loaded or created. -/
def fsOk : String → IdEnv := fun _ => ⟨true, none, true, true, false⟩

/-- Number of HTTP requests a server configured by `c` issues up to the `ticks`-th expiry
of the interval timer, for interval `iv` (seconds), data dir `dir`, file system `fs`. -/
def requests (F : Facts) (c : Cfg) (iv : Int) (dir : String) (fs : String → IdEnv) (ticks : Nat) : Nat :=
  serverRequests F ⟨enabled F c, iv, dir⟩ fs ticks

/-- The highest-precedence route that says anything says "off":
programmatic > environment > config file (documentation/configuration.md:106-110 for
env over file; the programmatic assignment happens after `NewConfig`). -/
def effectiveOff (c : Cfg) : Prop :=
  c.prog = some false ∨
  (c.prog = none ∧ c.env = some false) ∨
  (c.prog = none ∧ c.env = none ∧ c.hasConfigFile = true ∧ c.file = some false)

instance (c : Cfg) : Decidable (effectiveOff c) := by unfold effectiveOff; exact inferInstance

/-- A block of `New` that cannot turn a disabled config into an enabled one: it is only
entered for nil / for an enabled config, or it leaves `Enabled` alone, or sets it to false. -/
def rewriteKeepsOff (dfltEnabled : Bool) (r : Rewrite) : Bool :=
  match r.guard with
  | .isNil true => true
  | .enabled true => true
  | _ =>
    match r.enabled with
    | .keep => true
    | .lit b => !b
    | .dflt => !dfltEnabled
    | .unknown => false

/-- `telemetry.New` never loses an `Enabled: false` of a non-nil argument. -/
def newKeepsOff (F : Facts) : Bool := F.newSteps.all (rewriteKeepsOff F.dfltEnabled)

/-- `Server.Start` hands the switch on: copies it, or says `false`. -/
def argKeepsOff (F : Facts) : Bool :=
  match F.argEnabled with
  | .keep => true
  | .lit b => !b
  | .dflt => !F.dfltEnabled
  | .unknown => false

/-- The collector-side gate: `New` keeps `Enabled: false` and `Start` looks at it. -/
def collectorGates (F : Facts) : Prop := newKeepsOff F = true ∧ F.startChecks = true

/-- The server-side gate: a disabled configuration never reaches `run` — the collector is
not even created, or the switch is handed on to a collector that honours it. -/
def serverGates (F : Facts) : Prop :=
  F.createGuarded = true ∨ (argKeepsOff F = true ∧ collectorGates F)

/-! ### Origin of the instance id -/

def condIsOpOk (o : IdOp) : IdCond → Bool
  | .op o' true => o == o'
  | _ => false

def condIsFileUsable : IdCond → Bool
  | .fileUsable true => true
  | _ => false

/-- A path of `loadOrCreateInstanceID` that respects "the id is the content of the id file
or a fresh random UUID" (what C19 demands): it returns an error, or the file content on a
path where the file was usable, or the fresh UUID on a path where `crypto/rand` succeeded
— never anything else. -/
def pathClean (p : IdPath) : Bool :=
  match p.out with
  | .err => true
  | .file => p.conds.any condIsFileUsable
  | .fresh => p.conds.any (condIsOpOk .rand)
  | .other _ => false

/-- … and, stronger (the code as it is; "persistent per installation"): a fresh UUID is only
returned on a path where it was written to the id file. -/
def pathPersists (p : IdPath) : Bool :=
  pathClean p && match p.out with
    | .fresh => p.conds.any (condIsOpOk .write)
    | _ => true

def idPathsPersist (F : Facts) : Bool := F.idPaths.all pathPersists

def idPathsClean (F : Facts) : Bool := F.idPaths.all pathClean

/-- The environment route is honoured on both paths of `NewConfig`. -/
def envHonoured (F : Facts) : Prop :=
  envBinds F = true ∧ F.fileParses = true ∧ F.fileEnv = true ∧ F.noFileParses = true ∧ F.noFileEnv = true

instance (F : Facts) : Decidable (collectorGates F) := by unfold collectorGates; exact inferInstance
instance (F : Facts) : Decidable (serverGates F) := by unfold serverGates; exact inferInstance
instance (F : Facts) : Decidable (envHonoured F) := by unfold envHonoured; exact inferInstance

/-- `cast.ToBool` of a string (environment values are always strings; YAML scalars the
harness writes agree): `strconv.ParseBool`, an error yields `false`. `[]` = unset/empty
(viper ignores empty environment values: `allowEmptyEnv` is off). -/
def castBool (s : List Char) : Option Bool :=
  if s.isEmpty then none
  else if s ∈ ["1", "t", "T", "TRUE", "true", "True"].map String.toList then some true
  else some false

/-! ### Whitelists (hand-written from the documentation) -/

/-- /repo/CHANGELOG.md:69-75, "What's Collected":
  - Instance ID (random UUID, persistent per installation)   → instance_id
  - Liftbridge version                                       → liftbridge_version
  - OS information (name, version, architecture)             → os, os.name, os.version, os.architecture
  - CPU cores (physical/logical)                             → cpu, cpu.physical_cores, cpu.logical_cores
  - Total system memory                                      → memory, memory.total_gb
(the property text: "random instance id, version, operating system, CPU and memory figures").
/repo/documentation/*.md does not mention telemetry; the CHANGELOG points to an external page. -/
def documented : List String :=
  ["instance_id", "liftbridge_version", "os", "os.name", "os.version", "os.architecture",
   "cpu", "cpu.physical_cores", "cpu.logical_cores", "memory", "memory.total_gb"]

/-- Keys that are sent but not named in the documented list. None can carry user data, and
the harness checks the stated reason on every recorded body:
  - os.platform        = os.name ++ "-" ++ os.version ++ "-" ++ os.architecture (derived from documented fields)
  - cpu.frequency_mhz  always JSON null
  - timestamp          UTC time of the report, layout 2006-01-02T15:04:05Z, nothing else
A documentation gap, reported as an observation, not as a violation. -/
def derivedOrConstant : List String := ["os.platform", "cpu.frequency_mhz", "timestamp"]

def whitelist : List String := documented ++ derivedOrConstant

/-- What `collectPayload` may read: the collector's instance id and version, the Go
runtime's description of the machine, the clock, and `fmt.Sprintf`. -/
def allowedSources : List String :=
  ["c.instanceID", "c.version", "fmt.Sprintf", "runtime.GOARCH", "runtime.GOOS", "runtime.NumCPU",
   "runtime.ReadMemStats", "runtime.Version", "time.Now"]

/-- What `sendTelemetry` may read besides the payload: the fixed endpoint constant, the
collector's context/client/logger, instance id (log line) and version (User-Agent). -/
def allowedRequestSources : List String :=
  ["bytes.NewReader", "c.client.Do", "c.ctx", "c.instanceID", "c.logger.Errorf", "c.logger.Infof",
   "c.logger.Warnf", "c.version", "encoding/json.Marshal", "fmt.Sprintf",
   "net/http.NewRequestWithContext", "pkg:DefaultEndpoint"]

/-- What may determine the instance id: the id file under the data dir, or `crypto/rand` (import paths are
spelled out by the extractor, so `math/rand` would not pass). -/
def allowedIdSources : List String :=
  ["bytes.TrimSpace", "crypto/rand.Read", "fmt.Errorf", "fmt.Sprintf", "os.MkdirAll", "os.ReadFile",
   "os.WriteFile", "path/filepath.Join", "pkg:instanceIDFile"]

end Liftbridge.TelemetryCfg
