/-
C19 — model of how `Config.Telemetry.Enabled` is decided and of what the server does with it.

Mirrors, as the code IS (every decision is taken through the regenerated
`Gen.Telemetry.*` facts, collected in `genFacts`):

  server/config.go  NewDefaultConfig   config.Telemetry.Enabled = defaultTelemetryEnabled
                    NewConfig          if configFile == "" { [parseTelemetryConfig]; return }   (early return)
                                       v.SetEnvPrefix / v.SetEnvKeyReplacer / v.AutomaticEnv
                                       ReadInConfig … parseTelemetryConfig(config, v)
                    parseTelemetryConfig  if v.IsSet(k) { config.Telemetry.Enabled = v.GetBool(k) }
  viper             find(k): AutomaticEnv ⇒ os.LookupEnv(replacer(upper(prefix_k))) (non-empty) before the
                    config file; GetBool = cast.ToBool (strconv.ParseBool, error ⇒ false)
  server/server.go  Start: if s.config.Telemetry.Enabled { s.telemetry = telemetry.New(&Config{Enabled: true,…}) }
                           if s.telemetry != nil { s.telemetry.Start() }
  telemetry.go      Start: if !c.config.Enabled { return }; go run()  — run: one beacon, then one per tick

`Facts` is a parameter of every definition so that theorems can be stated for ANY shape of
the code (`∀ F`) and then instantiated with the regenerated one.
Core Lean only. Strings that are computed with (`envVarFor`) are `List Char`, because the
kernel does not reduce `String` primitives.
-/
import Liftbridge.Gen.Telemetry

namespace Liftbridge.TelemetryCfg

/-- The shape of the Go code that matters for C19 (regenerated: `genFacts`). -/
structure Facts where
  /-- `defaultTelemetryEnabled` -/
  defaultEnabled : Bool
  /-- `v.AutomaticEnv()` is called -/
  envAutomatic : Bool
  /-- argument of `v.SetEnvPrefix` -/
  envPrefix : List Char
  /-- pairs of `strings.NewReplacer` given to `v.SetEnvKeyReplacer` ([] = no replacer) -/
  envReplacer : List (Char × Char)
  /-- `configTelemetryEnabled` -/
  configKey : List Char
  /-- without a config file, `parseTelemetryConfig` is called before returning -/
  noFileParses : Bool
  /-- without a config file, the env set-up has been executed before returning -/
  noFileEnv : Bool
  /-- with a config file, `parseTelemetryConfig` is called -/
  fileParses : Bool
  /-- with a config file, the env set-up precedes `parseTelemetryConfig` -/
  fileEnv : Bool
  /-- `telemetry.New` only inside `if s.config.Telemetry.Enabled` -/
  createGuarded : Bool
  /-- `telemetry.Config{Enabled: s.config.Telemetry.Enabled}` (false: the literal `true`) -/
  cfgCopies : Bool
  /-- `Collector.Start` returns immediately when `!c.config.Enabled` -/
  startChecks : Bool
  deriving Repr, DecidableEq

/-- The facts of the working tree, regenerated on every run. -/
def genFacts : Facts where
  defaultEnabled := Gen.Telemetry.defaultEnabled
  envAutomatic := Gen.Telemetry.envAutomatic
  envPrefix := Gen.Telemetry.envPrefix.toList
  envReplacer := Gen.Telemetry.envReplacer
  configKey := Gen.Telemetry.configKey.toList
  noFileParses := Gen.Telemetry.noFileParsesTelemetry
  noFileEnv := Gen.Telemetry.noFileEnvActive
  fileParses := Gen.Telemetry.fileParsesTelemetry
  fileEnv := Gen.Telemetry.fileEnvActive
  createGuarded := Gen.Telemetry.createGuarded
  cfgCopies := Gen.Telemetry.collectorCfgCopiesEnabled
  startChecks := Gen.Telemetry.startChecksEnabled

/-- The facts of the tree BEFORE the repair `fixes/C19-telemetry-env-ignored.diff`
(commit 344a871): no env key replacer, and an early return without a config file that
consults nothing. Kept to document the old behaviour's witness. -/
def unfixedFacts : Facts where
  defaultEnabled := true
  envAutomatic := true
  envPrefix := "LIFTBRIDGE".toList
  envReplacer := []
  configKey := "telemetry.enabled".toList
  noFileParses := false
  noFileEnv := false
  fileParses := true
  fileEnv := true
  createGuarded := true
  cfgCopies := false
  startChecks := true

/-- One configuration = what each route says (`none` = the route is silent). -/
structure Cfg where
  /-- `telemetry.enabled` in the YAML file, after `cast.ToBool` (`none`: key absent) -/
  file : Option Bool
  /-- `LIFTBRIDGE_TELEMETRY_ENABLED` after `cast.ToBool` (`none`: unset or empty) -/
  env : Option Bool
  /-- assignment to `Config.Telemetry.Enabled` after `NewConfig` (embedding program / tests) -/
  prog : Option Bool
  /-- a config file is given (`--config`) -/
  hasConfigFile : Bool
  deriving Repr, DecidableEq

/-- The variable the documentation names (CHANGELOG.md:91-94). -/
def documentedEnvVar : List Char := "LIFTBRIDGE_TELEMETRY_ENABLED".toList

def replaceChar (ps : List (Char × Char)) (c : Char) : Char :=
  match ps.find? (·.1 = c) with
  | some p => p.2
  | none => c

/-- viper: `mergeWithEnvPrefix` (upper-case `prefix_key`) then the key replacer of `getEnv`. -/
def envVarFor (F : Facts) : List Char :=
  ((if F.envPrefix.isEmpty then F.configKey else F.envPrefix ++ ['_'] ++ F.configKey).map Char.toUpper).map
    (replaceChar F.envReplacer)

/-- Does the documented variable reach `telemetry.enabled` at all? -/
def envBinds (F : Facts) : Bool := F.envAutomatic && envVarFor F == documentedEnvVar

/-- viper `IsSet`/`GetBool` of `telemetry.enabled`: environment first (when in effect and
bound), then the config file. -/
def viperLookup (F : Facts) (envActive : Bool) (c : Cfg) : Option Bool :=
  match (if envActive && envBinds F then c.env else none) with
  | some b => some b
  | none => if c.hasConfigFile then c.file else none

/-- `NewConfig(configFile).Telemetry.Enabled`. -/
def afterNewConfig (F : Facts) (c : Cfg) : Bool :=
  if c.hasConfigFile then
    if F.fileParses then (viperLookup F F.fileEnv c).getD F.defaultEnabled else F.defaultEnabled
  else
    if F.noFileParses then (viperLookup F F.noFileEnv c).getD F.defaultEnabled else F.defaultEnabled

/-- `s.config.Telemetry.Enabled` as `Server.Start` sees it. -/
def enabled (F : Facts) (c : Cfg) : Bool :=
  match c.prog with
  | some b => b
  | none => afterNewConfig F c

/-- `s.telemetry != nil` after the initialisation block of `Server.Start`. -/
def collectorCreated (F : Facts) (c : Cfg) : Bool := if F.createGuarded then enabled F c else true
/-- `c.config.Enabled` of the created collector. -/
def collectorFlag (F : Facts) (c : Cfg) : Bool := if F.cfgCopies then enabled F c else true
/-- The goroutine `run` is started. -/
def sends (F : Facts) (c : Cfg) : Bool :=
  collectorCreated F c && (if F.startChecks then collectorFlag F c else true)

/-- Number of HTTP requests issued up to the `ticks`-th expiry of the interval timer
(`run`: one initial beacon, then one per tick); 0 when `run` is never started. -/
def requests (F : Facts) (c : Cfg) (ticks : Nat) : Nat := if sends F c then 1 + ticks else 0

/-- The highest-precedence route that says anything says "off":
programmatic > environment > config file (documentation/configuration.md:106-110 for
env over file; the programmatic assignment happens after `NewConfig`). -/
def effectiveOff (c : Cfg) : Prop :=
  c.prog = some false ∨
  (c.prog = none ∧ c.env = some false) ∨
  (c.prog = none ∧ c.env = none ∧ c.hasConfigFile = true ∧ c.file = some false)

instance (c : Cfg) : Decidable (effectiveOff c) := by unfold effectiveOff; exact inferInstance

/-- The server-side gate: a disabled configuration never reaches `run`. -/
def serverGates (F : Facts) : Prop := F.createGuarded = true ∨ (F.cfgCopies = true ∧ F.startChecks = true)

/-- The environment route is honoured on both paths of `NewConfig`. -/
def envHonoured (F : Facts) : Prop :=
  envBinds F = true ∧ F.fileParses = true ∧ F.fileEnv = true ∧ F.noFileParses = true ∧ F.noFileEnv = true

instance (F : Facts) : Decidable (serverGates F) := by unfold serverGates; exact inferInstance
instance (F : Facts) : Decidable (envHonoured F) := by unfold envHonoured; exact inferInstance

/-- `cast.ToBool` of a string (environment values are always strings; YAML scalars the
harness writes agree): `strconv.ParseBool`, an error yields `false`. `[]` = unset/empty
(viper ignores empty environment values: `allowEmptyEnv` is off). -/
def castBool (s : List Char) : Option Bool :=
  if s.isEmpty then none
  else if s ∈ ["1", "t", "T", "TRUE", "true", "True"].map String.toList then some true
  else some false

/-! ### Whitelists (hand-written from the documentation) -/

/-- /repo/CHANGELOG.md:69-75, "What's Collected":
  - Instance ID (random UUID, persistent per installation)   → instance_id
  - Liftbridge version                                       → liftbridge_version
  - OS information (name, version, architecture)             → os, os.name, os.version, os.architecture
  - CPU cores (physical/logical)                             → cpu, cpu.physical_cores, cpu.logical_cores
  - Total system memory                                      → memory, memory.total_gb
(the property text: "random instance id, version, operating system, CPU and memory figures").
/repo/documentation/*.md does not mention telemetry; the CHANGELOG points to an external page. -/
def documented : List String :=
  ["instance_id", "liftbridge_version", "os", "os.name", "os.version", "os.architecture",
   "cpu", "cpu.physical_cores", "cpu.logical_cores", "memory", "memory.total_gb"]

/-- Keys that are sent but not named in the documented list. None can carry user data, and
the harness checks the stated reason on every recorded body:
  - os.platform        = os.name ++ "-" ++ os.version ++ "-" ++ os.architecture (derived from documented fields)
  - cpu.frequency_mhz  always JSON null
  - timestamp          UTC time of the report, layout 2006-01-02T15:04:05Z, nothing else
A documentation gap, reported as an observation, not as a violation. -/
def derivedOrConstant : List String := ["os.platform", "cpu.frequency_mhz", "timestamp"]

def whitelist : List String := documented ++ derivedOrConstant

/-- What `collectPayload` may read: the collector's instance id and version, the Go
runtime's description of the machine, the clock, and `fmt.Sprintf`. -/
def allowedSources : List String :=
  ["c.instanceID", "c.version", "fmt.Sprintf", "runtime.GOARCH", "runtime.GOOS", "runtime.NumCPU",
   "runtime.ReadMemStats", "runtime.Version", "time.Now"]

/-- What `sendTelemetry` may read besides the payload: the fixed endpoint constant, the
collector's context/client/logger, instance id (log line) and version (User-Agent). -/
def allowedRequestSources : List String :=
  ["bytes.NewReader", "c.client.Do", "c.ctx", "c.instanceID", "c.logger.Errorf", "c.logger.Infof",
   "c.logger.Warnf", "c.version", "encoding/json.Marshal", "fmt.Sprintf",
   "net/http.NewRequestWithContext", "pkg:DefaultEndpoint"]

/-- What may determine the instance id: the id file under the data dir, or `crypto/rand` (import paths are
spelled out by the extractor, so `math/rand` would not pass). -/
def allowedIdSources : List String :=
  ["bytes.TrimSpace", "crypto/rand.Read", "fmt.Errorf", "fmt.Sprintf", "os.MkdirAll", "os.ReadFile",
   "os.WriteFile", "path/filepath.Join", "pkg:instanceIDFile"]

end Liftbridge.TelemetryCfg
