/-
Model of server/protocol/envelope.go: checkEnvelope, marshalEnvelope,
UnmarshalReplicationResponse and the publish-path classification
(getMessage / natsToProtoMessage in server/partition.go).

External functions are parameters: `crc : Bytes → Nat` (CRC-32C, uninterpreted)
and the protobuf codec `pbDec : Bytes → Option μ`, `pbEnc : μ → Bytes`.
-/
import Liftbridge.Base
import Liftbridge.Gen.Envelope

namespace Liftbridge.Envelope
open Liftbridge

def magic : Bytes := Gen.Envelope.magic.map UInt8.ofNat
def minHeaderLen : Nat := Gen.Envelope.minHeaderLen
def protoV0 : UInt8 := UInt8.ofNat Gen.Envelope.protoV0

/-- `checkEnvelope(data, expectedType)`; statement order as in the Go code: the payload
slice `data[headerLen:]` is evaluated in the `var` block *before* the type comparison. -/
def check (crc : Bytes → Nat) (data : Bytes) (expected : UInt8) : Res Bytes :=
  if Gen.Envelope.guardShort.evalNat data.length minHeaderLen then .err "short"
  else if data.take magic.length ≠ magic then .err "magic"
  else do
    let ver ← index data 4
    if ver ≠ protoV0 then .err "version" else
    let hl ← index data 5
    let headerLen := hl.toNat
    let flags ← index data 6
    let ty ← index data 7
    if Gen.Envelope.guardHeaderBeyond.evalNat headerLen data.length then .err "hdrlen" else
    let payload ← sliceFrom data headerLen
    if ty ≠ expected then .err "type"
    else if flags.toNat % 2 = 1 then
      if Gen.Envelope.guardCrcHeader.evalNat headerLen (minHeaderLen + 4) then .err "hdrsize"
      else do
        let c ← slice data minHeaderLen headerLen
        if crc payload ≠ beNat c then .err "crc" else .ok payload
    else .ok payload

/-- `marshalEnvelope` applied to already-serialised protobuf bytes. -/
def marshal (payload : Bytes) (ty : UInt8) : Bytes :=
  magic ++ [protoV0, UInt8.ofNat minHeaderLen, 0, ty] ++ payload

/-- `unmarshalEnvelope`: check, then protobuf-decode the payload. -/
def unmarshal {μ} (crc : Bytes → Nat) (pbDec : Bytes → Option μ) (data : Bytes) (ty : UInt8) :
    Res μ := do
  let p ← check crc data ty
  match pbDec p with
  | some m => .ok m
  | none => .err "proto"

/-- `UnmarshalReplicationResponse`: (leaderEpoch, hw as uint64, message data). -/
def unmarshalReplResp (crc : Bytes → Nat) (data : Bytes) : Res (Nat × Nat × Bytes) := do
  let p ← check crc data 3
  if Gen.Envelope.guardReplShort.evalNat p.length Gen.Envelope.replMinLen then .err "notenough" else
  let e ← slice p 0 8
  let rest ← sliceFrom p 8
  let h := rest.take 8        -- binary.BigEndian.Uint64 reads the first 8 bytes
  let body ← sliceFrom p 16
  .ok (beNat e, beNat h, body)

/-- What the publish path stores for a NATS payload: the decoded publish envelope, or the
payload verbatim as an opaque value (`getMessage` + `natsToProtoMessage`). -/
inductive Classified (μ : Type) where
  | envelope (m : μ)
  | raw (value : Bytes)
  deriving Repr, DecidableEq

/-- `Res` because the decision runs `checkEnvelope`, whose panics would propagate. -/
def classify {μ} (crc : Bytes → Nat) (pbDec : Bytes → Option μ) (data : Bytes) : Res (Classified μ) :=
  match unmarshal crc pbDec data 0 with
  | .ok m => .ok (.envelope m)
  | .err _ => .ok (.raw data)
  | .panic => .panic

end Liftbridge.Envelope
