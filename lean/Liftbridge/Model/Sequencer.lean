/-
The partition leader's sequencer — `partition.messageProcessingLoop` (server/partition.go) — as
far as C16 needs it: messages arrive in some order; the loop cuts the arrival sequence into
batches (how depends on timing, `BatchMaxTime` and `BatchMaxMessages`; any cut into non-empty
pieces of at most the batch limit can happen), hands every batch to `Append` and answers the
publishers:

* `Append` succeeded: every message of the batch is acknowledged with the offset it got
  (`processPendingMessage`; the ack policies LEADER and ALL differ only in WHEN it is sent);
* `Append` returned `ErrIncorrectOffset`: a negative acknowledgement `INCORRECT_OFFSET` is sent
  to `msgBatch[0]` — the first message of the batch ONLY; nothing is stored;
* any other error is only logged.

On a log with concurrency control the loop forces the batch size to 1
(`Gen.Partition.occBatchOne`, regenerated from the source on every run).
-/
import Liftbridge.Model.Log
import Liftbridge.Gen.Partition

namespace Liftbridge.Sequencer
open Liftbridge Liftbridge.Log Liftbridge.Log.CLog

/-- What a publisher hears from the partition leader. -/
inductive Answer where
  | ack (offset : Int)
  | nack (error : String)
  | silent
  deriving Repr, DecidableEq, Inhabited

/-- `batchSize`: `BatchMaxMessages`, but 1 when `p.log.IsConcurrencyControlEnabled()`. -/
def batchLimit (occ : Bool) (batchMax : Nat) : Nat :=
  if occ && Gen.Partition.occBatchOne then 1 else batchMax

/-- A batch the loop can form: the first message it blocks for plus at most `batchSize - 1` more. -/
def legalBatch (occ : Bool) (batchMax : Nat) (b : List Msg) : Bool :=
  decide (1 ≤ b.length) && decide (b.length ≤ max 1 (batchLimit occ batchMax))

/-- Answers after a failed `Append`: `msgBatch[0]` gets the error ack if the error is
`ErrIncorrectOffset`; nobody else hears anything. -/
def failAnswers (e : String) : List Msg → List (Msg × Answer)
  | [] => []
  | m :: rest =>
    (m, if e = "incorrect-offset" then Answer.nack e else Answer.silent) ::
      rest.map (fun m => (m, Answer.silent))

/-- One round of the loop on a collected batch. -/
def stepBatch (l : CLog) (b : List Msg) : CLog × List (Msg × Answer) :=
  match l.append b with
  | .ok (l', offs) => (l', List.zipWith (fun m o => (m, Answer.ack o)) b offs)
  | .err e => (l.checkSplitIfWritable, failAnswers e b)
  | .panic => (l, b.map (fun m => (m, Answer.silent)))   -- the process dies

/-- The loop over the batches it formed; every message paired with what its publisher hears. -/
def run : CLog → List (List Msg) → List (Msg × Answer)
  | _, [] => []
  | l, b :: bs => (stepBatch l b).2 ++ run (stepBatch l b).1 bs

def final : CLog → List (List Msg) → CLog
  | l, [] => l
  | l, b :: bs => final (stepBatch l b).1 bs

/-- Every batch is one the loop can form under the settings. -/
def Legal (occ : Bool) (batchMax : Nat) (bs : List (List Msg)) : Prop :=
  ∀ b ∈ bs, legalBatch occ batchMax b = true

end Liftbridge.Sequencer
