/-
Byte-level model of the stored message format (server/commitlog/message.go `Encode` through
encoder.go's byteEncoder, and the `SerializedMessage` accessors used by every reader).

  crc(4) magic(1) attributes(1) key(int32 len | -1, bytes) value(int32 len | -1, bytes)
  headerCount(int16) { key(int16 len, bytes) value(int32 len | -1, bytes) }*

Header keys are byte strings here (a Go string is any byte sequence); `Log.Payload` uses
`String` keys and is connected through `toWire`. CRC-32C is a parameter.
-/
import Liftbridge.Base
import Liftbridge.Model.Log

namespace Liftbridge.Codec
open Liftbridge

/-- A message as handed to `encode`: headers in the order the map iteration produced. -/
structure WireMsg where
  magic : UInt8
  attrs : UInt8
  key : Option Bytes
  val : Option Bytes
  hdrs : List (Bytes × Option Bytes)
  deriving DecidableEq, Repr, Inhabited

/-- `PutBytes`: `int32(-1)` for nil, else `int32(len)` and the bytes. -/
def putBytes : Option Bytes → Bytes
  | none => beBytes 4 (2 ^ 32 - 1)
  | some b => beBytes 4 b.length ++ b

/-- `PutString`: `int16(len)` and the bytes. -/
def putString (k : Bytes) : Bytes := beBytes 2 k.length ++ k

def putHeaders : List (Bytes × Option Bytes) → Bytes
  | [] => []
  | (k, v) :: rest => putString k ++ putBytes v ++ putHeaders rest

/-- Everything after the CRC field. `PutInt16(int16(len(m.Headers)))` keeps the low 16 bits. -/
def encodeBody (m : WireMsg) : Bytes :=
  [m.magic, m.attrs] ++ putBytes m.key ++ putBytes m.val ++ beBytes 2 m.hdrs.length ++ putHeaders m.hdrs

/-- `encode(m)`: the CRC-32C of the body in front of it (`crcField.Fill`). -/
def encode (crc : Bytes → Nat) (m : WireMsg) : Bytes :=
  beBytes 4 (crc (encodeBody m)) ++ encodeBody m

/-- `encoding.Uint32(m[at:])` as `int32`: needs 4 bytes, else the slice/index panics. -/
def getInt32 (m : Bytes) (at' : Nat) : Res Int := do
  let s ← sliceFrom m at'
  if s.length < 4 then .panic else
  let u := beNat (s.take 4)
  .ok (if u ≥ 2 ^ 31 then (u : Int) - 2 ^ 32 else u)

def getUint16 (m : Bytes) (at' : Nat) : Res Nat := do
  let s ← sliceFrom m at'
  if s.length < 2 then .panic else .ok (beNat (s.take 2))

/-- `keyOffsets` / `valueOffsets`: (start, end, size) of a size-prefixed field starting at `start`. -/
def fieldOffsets (m : Bytes) (start : Nat) : Res (Nat × Int × Int) := do
  let size ← getInt32 m start
  let end' : Int := (start : Int) + 4 + (if size ≠ -1 then size else 0)
  .ok (start, end', size)

/-- `m[start+4 : end]` for a field, `nil` when the size is -1. -/
def fieldBytes (m : Bytes) (start : Nat) : Res (Option Bytes × Int) := do
  let (_, end', size) ← fieldOffsets m start
  if size = -1 then .ok (none, end') else
  if end' < 0 then .panic else do
    let b ← slice m (start + 4) end'.toNat
    .ok (some b, end')

/-- `SerializedMessage.Key()`. -/
def key (m : Bytes) : Res (Option Bytes) := do
  let (k, _) ← fieldBytes m 6
  .ok k

/-- `SerializedMessage.Value()` (its start is the key's end). -/
def value (m : Bytes) : Res (Option Bytes) := do
  let (_, keyEnd, _) ← fieldOffsets m 6
  if keyEnd < 0 then .panic else do
    let (v, _) ← fieldBytes m keyEnd.toNat
    .ok v

/-- The header loop of `SerializedMessage.Headers()`: `n` headers starting at position `at'`. -/
def readHeaders (m : Bytes) : Nat → Nat → Res (List (Bytes × Option Bytes))
  | 0, _ => .ok []
  | n + 1, at' => do
    let klen ← getUint16 m at'
    let k ← slice m (at' + 2) (at' + 2 + klen)
    let (v, vend) ← fieldBytes m (at' + 2 + klen)
    if vend < 0 then .panic else do
      let rest ← readHeaders m n vend.toNat
      .ok ((k, v) :: rest)

/-- `SerializedMessage.Headers()` as a list in stored order (the Go code builds a map). -/
def headers (m : Bytes) : Res (List (Bytes × Option Bytes)) := do
  let (_, keyEnd, _) ← fieldOffsets m 6
  if keyEnd < 0 then .panic else do
    let (_, valEnd, _) ← fieldOffsets m keyEnd.toNat
    if valEnd < 0 then .panic else do
      let num ← getUint16 m valEnd.toNat
      readHeaders m num (valEnd.toNat + 2)

/-- The CRC check of `readMessage`: stored CRC = CRC-32C of everything after it. -/
def crcOk (crc : Bytes → Nat) (m : Bytes) : Bool :=
  decide (beNat (m.take 4) = crc (m.drop 4) % 2 ^ 32)

/-- What can be encoded and read back: sizes fit their length prefixes. -/
def WF (m : WireMsg) : Prop :=
  Log.bytesLen m.key < 2 ^ 31 ∧ Log.bytesLen m.val < 2 ^ 31 ∧ m.hdrs.length < 2 ^ 16 ∧
  ∀ kv ∈ m.hdrs, kv.1.length < 2 ^ 15 ∧ Log.bytesLen kv.2 < 2 ^ 31

/-- The wire form of a log payload (headers in the canonical stored order). -/
def toWire (p : Log.Payload) : WireMsg :=
  { magic := 1, attrs := 0, key := p.key, val := p.val,
    hdrs := p.hdrs.map fun kv => (kv.1.toUTF8.toList, kv.2) }

end Liftbridge.Codec
