/-
Small-step model of the committed ("consumer") read path of server/commitlog under
concurrency (property C03): the shared commit log with its high watermark and the `hwWaiters`
map, any number of committed readers, and an environment that appends, rolls segments, moves
the HW and toggles the read-only flag.

One `Op` = one critical section of the Go code (DESIGN.md §2.4: a mutex-protected region is an
atomic step; goroutines are interleavings of such steps):

  environment
    append rs        segment.WriteMessageSet under the segment lock, preceded by the size-based
                     checkAndPerformSplit (Append and AppendMessageSet; the partition is the
                     single writer)
    roll             age-based split of a non-empty active segment
    setHW h          commitLog.SetHighWatermark under the log lock: `if hw > l.hw { l.hw = hw;
                     notifyHWChange() }` — wakes ALL registered waiters and clears the map
    followerHW h     partition.handleReplicationResponse adopting the leader's HW (the argument
                     shape of that call is regenerated: `Gen.HWReader.followerHWCapped`)
    setReadonly b    SetReadonly: store the flag; `notifyReadonly` wakes the waiters with the
                     read-only verdict only if `!(l.hw < NewestOffset())`
  reader `id`
    newReader        newReaderCommitted, first statement: sample `HighWatermark()`
    initReader       rest of newReaderCommitted on the log as it is NOW (Segments(), OldestOffset(),
                     getHWPos, findSegmentContains, findEntry) — park (seg = nil) or position
    beginRead        the consumer calls ReadMessage → committedReader.Read: `segments :=
                     r.cl.Segments()` (the snapshot used for segment hops), `offset := r.hw + 1`
    readStep         one iteration of readLoop: ReadAt under the segment's read lock = one whole
                     record, or EOF → hop to the next segment of the SNAPSHOT, or limit reached
    checkHW          `hw := r.cl.HighWatermark()` and the comparison `hw == r.hw`
    registerWait     commitLog.waitForHW under the log lock: `l.hw != hw` → return at once (only if
                     the code has that comparison: `Gen.HWReader.waitRechecks`);
                     read-only at the end → read-only error; else register and park
    resync           `r.hw = hw; segments = Segments(); getHWPos(...)` (and, for a reader that
                     parked at creation, its positioning at `offset`)
    cancel           context cancelled while parked: removeHWWaiter, io.EOF

The windows the property is about are explicit: between `checkHW` and `registerWait` (lost
wake-up), between `checkHW` and `resync` (HW sampled, log moved on), between `newReader` and
`initReader` (reader created while the HW moves), and the stale segment snapshot of `readStep`.

Segments are identified by their index in `log.segs` (the Go code holds `*segment`): sound
because in the scope of C03 segments are only ever appended (no truncation, retention or
compaction while readers run — those are C02/C09/C08/C10; the INITIAL log may be any log
satisfying the invariant, including trimmed and compacted ones).

Granularity assumptions (not proved, stated in the manifest): a record's bytes become visible
atomically (written and indexed under the segment write lock, read under its read lock); one
ReadMessage (header read + body read) is one step because the limit `hwPos` is a record
boundary; the lookups of one `getHWPos`/`findSegment`/`findEntry` sequence are one step
(they take several short read locks; every record at or below a sampled HW is immutable).
-/
import Liftbridge.Model.Log
import Liftbridge.Gen.HWReader

namespace Liftbridge.HWReader
open Liftbridge Liftbridge.Log

/-- Where a committed reader is in its code. -/
inductive Phase where
  /-- `newReaderCommitted` has sampled `HighWatermark()`; the rest of the constructor is pending -/
  | creating
  /-- the reader exists and its consumer is not inside `ReadMessage` -/
  | idle
  /-- inside `readLoop`, next action: one `ReadAt` -/
  | reading
  /-- next action: `hw := r.cl.HighWatermark()` (limit reached, or woken up, or `r.seg == nil`) -/
  | atLimit
  /-- sampled `hw == r.hw`; next action: `cl.waitForHW` -/
  | mustWait
  /-- registered in `hwWaiters`, blocked on the channel -/
  | waiting
  /-- sampled `hw != r.hw` (the value is the local variable `hw`); next: `r.hw = hw`, re-sync -/
  | resync (hw : Int)
  /-- `NewReader` / `ReadMessage` returned this error: terminal (the subscription ends) -/
  | failed (e : String)
  deriving DecidableEq, Repr, Inhabited

structure Reader where
  phase : Phase
  /-- offset given to `NewReader` -/
  start : Int
  /-- the offset the reader really starts at: `start`, or the local `offset := r.hw + 1` of a
  reader that parked at creation -/
  eff : Int
  /-- `r.seg` (`none` = nil) as an index into the log's segment list -/
  seg : Option Nat
  /-- `r.pos` as a slot number (positions are prefix sums of record sizes) -/
  slot : Nat
  hwSeg : Option Nat
  hwSlot : Nat
  /-- `r.hw` -/
  hwSeen : Int
  /-- length of the `segments` snapshot held by the running `Read` call -/
  snap : Nat
  /-- everything `ReadMessage` has returned so far (the observation) -/
  delivered : List Rec
  deriving Repr, Inhabited

structure State where
  log : CLog
  /-- keys of `hwWaiters` -/
  waiters : List Nat
  readers : Nat → Option Reader

inductive Op where
  | append (rs : List Rec)
  | roll
  | setHW (h : Int)
  | followerHW (leaderHW : Int)
  | setReadonly (b : Bool)
  | newReader (id : Nat) (start : Int)
  | initReader (id : Nat)
  | beginRead (id : Nat)
  | readStep (id : Nat)
  | checkHW (id : Nat)
  | registerWait (id : Nat)
  | resync (id : Nat)
  | cancel (id : Nat)
  deriving Repr, Inhabited

def State.init (l : CLog) : State := { log := l, waiters := [], readers := fun _ => none }

def setReader (s : State) (id : Nat) (r : Reader) : State :=
  { s with readers := fun j => if j = id then some r else s.readers j }

/-- Records a message set may consist of: offsets increase and continue at or after the log end
(what `newMessageSetFromProto` stamps, and what a leader sends to a follower). -/
def admissible (l : CLog) (rs : List Rec) : Bool :=
  !rs.isEmpty && decide (rs.Pairwise (fun a b => a.offset < b.offset)) &&
    rs.all (fun r => decide (l.nextOffset ≤ r.offset))

/-- `notifyHWChange` (`ro = false`) / the waking part of `notifyReadonly` (`ro = true`): every
registered waiter gets the verdict on its channel and the map is cleared. -/
def wakeAll (s : State) (ro : Bool) : State :=
  { s with
    waiters := if Gen.HWReader.notifyClearsWaiters then [] else s.waiters
    readers := fun j =>
      match s.readers j with
      | none => none
      | some r =>
        if j ∈ s.waiters then some { r with phase := if ro then .failed "readonly" else .atLimit }
        else some r }

/-- `SetHighWatermark`. -/
def setHW (s : State) (h : Int) : State :=
  if Gen.Log.setHWCmp.evalInt h s.log.hw then
    let s' := { s with log := { s.log with hw := h } }
    if Gen.HWReader.setHWNotifies then wakeAll s' false else s'
  else s

/-- `SetReadonly`. -/
def setReadonly (s : State) (b : Bool) : State :=
  let s' := { s with log := { s.log with readonly := b } }
  if b && !Gen.HWReader.notifyReadonlyCmp.evalInt s.log.hw s.log.newest then wakeAll s' true else s'

/-- The argument of the follower's `SetHighWatermark` call. -/
def followerArg (l : CLog) (leaderHW : Int) : Int :=
  if Gen.HWReader.followerHWCapped then (if leaderHW < l.newest then leaderHW else l.newest) else leaderHW

def fail (r : Reader) (e : String) : Reader := { r with phase := .failed e }

/-- Rest of `newReaderCommitted(offset)` after the HW sample `r.hwSeen`. -/
def initReader (l : CLog) (r : Reader) : Reader :=
  let segs := l.segs
  let hw := r.hwSeen
  if Gen.Log.readerBeyondHWCmp.evalInt r.start hw || l.oldest = -1 then
    -- `seg: nil`: wait for the next committed message
    { r with phase := .idle, seg := none, eff := hw + 1, snap := segs.length }
  else
    let hp : Res (Option Nat × Nat) :=
      if hw ≠ -1 then (match CLog.hwPos segs hw with
        | .ok (i, k) => .ok (some i, k)
        | .err e => .err e
        | .panic => .panic) else .ok (none, 0)
    match hp with
    | .err e => fail r e
    | .panic => fail r "panic"
    | .ok (hs, hk) =>
      match CLog.findSegmentIdx segs r.start with
      | none =>
        -- `findSegmentContains` returned nil: the reader is created with a nil segment
        { r with phase := .idle, seg := none, eff := hw + 1, hwSeg := hs, hwSlot := hk, snap := segs.length }
      | some i =>
        match segs[i]? with
        | none => fail r "panic"
        | some sg =>
          if Gen.Log.containsCmp.evalInt sg.base r.start then
            match sg.findEntryIdx r.start with
            | none => fail r "entry-not-found"
            | some k =>
              { r with phase := .idle, seg := some i, slot := k, eff := r.start, hwSeg := hs, hwSlot := hk, snap := segs.length }
          else
            { r with phase := .idle, seg := some i, slot := 0, eff := r.start, hwSeg := hs, hwSlot := hk, snap := segs.length }

/-- Start of `committedReader.Read`. -/
def beginRead (l : CLog) (r : Reader) : Reader :=
  match r.seg with
  | none => { r with phase := .atLimit, snap := l.segs.length, eff := r.hwSeen + 1 }
  | some _ => { r with phase := .reading, snap := l.segs.length }

/-- One iteration of `readLoop`. -/
def readStep (l : CLog) (r : Reader) : Reader :=
  match r.seg with
  | none => fail r "panic"
  | some i =>
    match l.segs[i]? with
    | none => fail r "panic"
    | some sg =>
      let limited := Gen.HWReader.hwSegLimit && decide (some i = r.hwSeg)
      let lim : Int := (r.hwSlot : Int) - (r.slot : Int)
      if limited && decide (lim < 0) then fail r "panic"          -- `p[n:lim]` with lim < n
      else if limited && decide (lim = 0) then { r with phase := .atLimit }   -- 0 bytes, no error: "we hit the HW"
      else
        match sg.recs[r.slot]? with
        | some x => { r with phase := .idle, slot := r.slot + 1, delivered := r.delivered ++ [x] }
        | none =>
          -- io.EOF: `findSegmentByBaseOffset(segments, r.seg.BaseOffset+1)` on the snapshot
          match CLog.findSegmentByBaseIdx (l.segs.take r.snap) (sg.base + 1) with
          | none => fail r "no-segment-to-consume"
          | some j => { r with seg := some j, slot := 0 }

/-- `hw := r.cl.HighWatermark(); for hw == r.hw { ... }`. -/
def checkHW (l : CLog) (r : Reader) : Reader :=
  if Gen.HWReader.readerHWSameCmp.evalInt l.hw r.hwSeen then { r with phase := .mustWait }
  else { r with phase := .resync l.hw }

/-- `r.hw = hw; segments = r.cl.Segments(); getHWPos(segments, r.hw)` and, when `r.seg == nil`,
`findSegment(segments, offset)` + `findEntry(offset)`. On an error the reader is dead; its
fields are left as they were (unobservable). -/
def resync (l : CLog) (r : Reader) (hw : Int) : Reader :=
  let segs := l.segs
  match CLog.hwPos segs hw with
  | .err e =>
    -- `Read` (r.seg == nil) returns the error explicitly; `readLoop` returns it only if it is not
    -- shadowed by a loop-local `err` (regenerated). A swallowed error makes `Read` return
    -- (0, nil): the caller goes on with a stale header — the reader is lost (it hangs, or the
    -- CRC check of the garbage it reads next panics); modelled as a terminal state of its own.
    if r.seg.isSome && !Gen.HWReader.resyncErrPropagates then fail r "error-swallowed" else fail r e
  | .panic => fail r "panic"
  | .ok (hi, hk) =>
    let r' := { r with hwSeen := hw, hwSeg := some hi, hwSlot := hk, snap := segs.length }
    match r.seg with
    | some _ => { r' with phase := .reading }
    | none =>
      match CLog.findSegmentIdx segs r.eff with
      | none => fail r "segment-not-found"
      | some j =>
        match segs[j]? with
        | none => fail r "panic"
        | some sg =>
          match sg.findEntryIdx r.eff with
          | none => fail r "entry-not-found"
          | some k => { r' with phase := .reading, seg := some j, slot := k }

/-- `commitLog.waitForHW(r, hw)` for a reader that sampled `hw = r.hwSeen` (one critical section
under the log lock). `recheck` = the code compares the reader's sample with the CURRENT `l.hw`
before registering it (`if l.hw != hw { wait <- false }`); the model is run with the regenerated
`Gen.HWReader.waitRechecks`, the variant `recheck := false` exists to state what the comparison is
for (`Props.C03.lost_wakeup_without_recheck`). -/
def registerWait (recheck : Bool) (s : State) (id : Nat) (r : Reader) : State :=
  if recheck && Gen.HWReader.waitRecheckCmp.evalInt s.log.hw r.hwSeen then
    setReader s id { r with phase := .atLimit }                       -- `wait <- false`
  else if Gen.HWReader.waitReadonlyCmp.evalInt s.log.hw s.log.newest && s.log.readonly then
    setReader s id (fail r "readonly")                                -- `wait <- true`
  else
    { setReader s id { r with phase := .waiting } with waiters := id :: s.waiters }

/-- The transition function. An operation that is not enabled leaves the state unchanged. -/
def step (s : State) : Op → State
  | .append rs =>
    if admissible s.log rs then
      match s.log.appendSet rs with
      | .ok (l', _) => { s with log := l' }
      | _ => s
    else s
  | .roll => if s.log.active.recs.isEmpty then s else { s with log := s.log.roll }
  | .setHW h => setHW s h
  | .followerHW h => setHW s (followerArg s.log h)
  | .setReadonly b => setReadonly s b
  | .newReader id start =>
    match s.readers id with
    | some _ => s
    | none =>
      if 0 ≤ start then
        setReader s id { phase := .creating, start := start, eff := start, seg := none, slot := 0,
                         hwSeg := none, hwSlot := 0, hwSeen := s.log.hw, snap := 0, delivered := [] }
      else s
  | .initReader id =>
    match s.readers id with
    | some r => if r.phase = .creating then setReader s id (initReader s.log r) else s
    | none => s
  | .beginRead id =>
    match s.readers id with
    | some r => if r.phase = .idle then setReader s id (beginRead s.log r) else s
    | none => s
  | .readStep id =>
    match s.readers id with
    | some r => if r.phase = .reading then setReader s id (readStep s.log r) else s
    | none => s
  | .checkHW id =>
    match s.readers id with
    | some r => if r.phase = .atLimit then setReader s id (checkHW s.log r) else s
    | none => s
  | .registerWait id =>
    match s.readers id with
    | some r => if r.phase = .mustWait then registerWait Gen.HWReader.waitRechecks s id r else s
    | none => s
  | .resync id =>
    match s.readers id with
    | some r =>
      match r.phase with
      | .resync hw => setReader s id (resync s.log r hw)
      | _ => s
    | none => s
  | .cancel id =>
    match s.readers id with
    | some r =>
      if r.phase = .waiting then
        { setReader s id (fail r "eof") with waiters := s.waiters.filter (· ≠ id) }
      else s
    | none => s

def run (s : State) (ops : List Op) : State := ops.foldl step s

/-- The same transition function with the re-check of `waitForHW` switched on or off explicitly
(`stepWith Gen.HWReader.waitRechecks = step`). -/
def stepWith (recheck : Bool) (s : State) : Op → State
  | .registerWait id =>
    match s.readers id with
    | some r => if r.phase = .mustWait then registerWait recheck s id r else s
    | none => s
  | op => step s op

def runWith (recheck : Bool) (s : State) (ops : List Op) : State := ops.foldl (stepWith recheck) s

/-- The reader the operation belongs to (`none` for environment operations). -/
def Op.reader : Op → Option Nat
  | .newReader id _ | .initReader id | .beginRead id | .readStep id | .checkHW id
  | .registerWait id | .resync id | .cancel id => some id
  | _ => none

/-- The operation a reader in a given phase can perform next (`none`: it is parked or dead). -/
def nextOp (id : Nat) : Phase → Option Op
  | .creating => some (.initReader id)
  | .idle => some (.beginRead id)
  | .reading => some (.readStep id)
  | .atLimit => some (.checkHW id)
  | .mustWait => some (.registerWait id)
  | .resync _ => some (.resync id)
  | .waiting => none
  | .failed _ => none

/-- Run one reader until it parks, dies, or the fuel is used up (quiescence of the driver). -/
def settleOne (id : Nat) : Nat → State → State
  | 0, s => s
  | fuel + 1, s =>
    match s.readers id with
    | none => s
    | some r =>
      match nextOp id r.phase with
      | none => s
      | some op => settleOne id fuel (step s op)

end Liftbridge.HWReader
