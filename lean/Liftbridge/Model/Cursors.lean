/-
Model of server/cursors.go (cursorManager) on top of the commit-log, compaction and
subscription models: the cursors partition is a compacted `CLog` whose records carry the
cursor key `"<cursorID>,<stream>,<partition>"` and a serialized `proto.Cursor`; in front of it
sits the LRU cache (hashicorp/golang-lru: most recently used first, the oldest entry is
evicted when the size is exceeded; `Get` and `Add` both refresh an entry).

`SetCursor` is ONE atomic step (it holds `c.mu` across publish + `cache.Add`, and an ALL-policy
publish on a replication-factor-1 partition is committed — HW = its offset — before the ack).
`GetCursor` is NOT atomic in the code: the cache lookup happens under `c.mu.RLock()`, the
reads of `HighWatermark()` and `OldestOffset()`, the creation of the reverse subscription and
the scan happen without the lock, and the final `cache.Add` under `c.mu.Lock()`. It is
therefore modelled as five small steps per caller (`lookup`, `readHW`, `readOldest`,
`subscribe`, `finish`; or `abort` when the call fails: an error goes back, nothing is cached);
the atomic `getCursor` is their composition with nothing in between.
The reverse reader works on the HW and the segment list it captured at creation, so the scan
itself is a function of the log at `subscribe` time.

The protobuf codec is a parameter (`dec`), the value bytes of a `set` are an input; that they
decode to the offset (`Unmarshal (Marshal c) = c`) is a hypothesis of the theorems.
-/
import Liftbridge.Model.Log
import Liftbridge.Model.Compact
import Liftbridge.Model.Subscribe
import Liftbridge.Gen.Cursors

namespace Liftbridge.Cursors
open Liftbridge Liftbridge.Log

abbrev Key := Bytes

/-! ### Cursor keys -/

def comma : UInt8 := 44

/-- `getCursorKey`: `fmt.Sprintf("%s,%s,%d", cursorID, streamName, partitionID)`;
`partDigits` is the decimal rendering of the partition id (a parameter: any bytes). -/
def keyOf (cursorID stream partDigits : Bytes) : Key :=
  cursorID ++ [comma] ++ stream ++ [comma] ++ partDigits

/-! ### LRU cache -/

/-- Most recently used first. -/
abbrev Cache := List (Key × Int)

namespace Cache
/-- `lru.Cache.Get`: a hit refreshes the entry. -/
def get (c : Cache) (k : Key) : Option Int × Cache :=
  match c.find? (fun e => e.1 = k) with
  | some e => (some e.2, (k, e.2) :: c.filter (fun e => e.1 ≠ k))
  | none => (none, c)

/-- `lru.Cache.Add`: insert or update at the front; `if evictList.Len() > size { removeOldest }`. -/
def add (cap : Nat) (c : Cache) (k : Key) (v : Int) : Cache :=
  let c' := (k, v) :: c.filter (fun e => e.1 ≠ k)
  if c'.length > cap then c'.dropLast else c'
end Cache

/-! ### Parameters and state -/

structure Params where
  /-- `proto.Cursor.Unmarshal` followed by `.Offset` (`none` = unmarshal error) -/
  dec : Bytes → Option Int
  /-- cache capacity (`cursorCacheSize`; the harness also runs the code with smaller caches) -/
  cap : Nat
  /-- headers the partition attaches to every stored message (`subject`, `reply`) -/
  hdrs : List (String × Option Bytes)
  /-- the server-wide `streams.retention.*` limits the cursors stream inherits (age not modelled) -/
  lim : Retention.Limits
  /-- is the `cache.Add` of the miss path guarded by "no SetCursor since the lookup"?
  (regenerated: `Gen.Cursors.missAddGuarded`) -/
  guarded : Bool
  /-- is the cursors stream exempt from retention? (regenerated: `Gen.Cursors.retentionOff`) -/
  retentionOff : Bool

inductive Stage where
  | looked
  | hwRead (hw : Int)
  | oldRead (hw oldest : Int)
  | scanned (res : Res Int)
  deriving Repr, DecidableEq, Inhabited

/-- A `GetCursor` call that missed the cache and has not finished. `seq0` is the value of the
SetCursor counter seen under the read lock. -/
structure Pending where
  tid : Nat
  key : Key
  seq0 : Nat
  stage : Stage
  deriving Repr, DecidableEq, Inhabited

structure State where
  log : CLog
  paused : Bool
  cache : Cache
  cacheOn : Bool
  /-- number of SetCursor calls so far (the `sets` counter of the repaired code; a ghost
  variable for the unrepaired one) -/
  seq : Nat
  pend : List Pending
  deriving Repr, Inhabited

def State.init (maxSegBytes : Int) (cacheOn : Bool) : State :=
  { log := CLog.init maxSegBytes false, paused := false, cache := [], cacheOn := cacheOn, seq := 0, pend := [] }

/-- A paused partition is resumed by the next publish or (Resume = true) subscription: the log
is reopened, a NEW partition object becomes leader, which purges the cursor cache. -/
def resume (s : State) : State :=
  if s.paused then { s with log := s.log.reopen, paused := false,
                            cache := if Gen.Cursors.purgeOnLeader then [] else s.cache } else s

/-! ### SetCursor -/

/-- The message as it arrives in the log: key and value went through the publish protobuf
(an empty byte string comes out as nil). -/
def cursorMsg (P : Params) (k : Key) (v : Bytes) : CLog.Msg :=
  { ts := 0, epoch := 0, body := { key := if k = [] then none else some k, val := some v, hdrs := P.hdrs } }

/-- `SetCursor`: (resume,) publish with AckPolicy ALL — appended and committed —, then `cache.Add`,
all under `c.mu`. -/
def setCursor (P : Params) (s : State) (k : Key) (o : Int) (v : Bytes) : State × Res Unit :=
  let s := resume s
  let s := { s with seq := s.seq + 1 }
  match s.log.append [cursorMsg P k v] with
  | .ok (l, _) => ({ s with log := l.setHW l.newest, cache := Cache.add P.cap s.cache k o }, .ok ())
  | .err e => ({ s with log := s.log.checkSplitIfWritable }, .err e)
  | .panic => (s, .panic)

/-! ### GetCursor -/

/-- The cache lookup under `c.mu.RLock()` (skipped when `disableCache`). -/
def lookup (s : State) (k : Key) : State × Option Int :=
  if s.cacheOn then
    match Cache.get s.cache k with
    | (some v, c) => ({ s with cache := c }, some v)
    | (none, _) => (s, none)
  else (s, none)

/-- The subscription `getLatestCursorOffset` opens. -/
def cursorReq : Subscribe.Req := { start := .latest, stop := .onCancel, reverse := true }

/-- gRPC code of a subscription status (`ResourceExhausted` = 8, anything else here 2). -/
def statusCode (st : String) : Nat :=
  if st = "ResourceExhausted:begin" ∨ st = "ResourceExhausted:stop" ∨ st = "ResourceExhausted:readonly" ∨
     st = "ResourceExhausted:empty" then 8 else 2

/-- The `select` loop over the delivered messages: the first message whose key equals the
cursor key and whose value unmarshals wins; after looking at the message whose offset is
`oldest` the answer is -1. `none` = all messages consumed without returning. -/
def scanMsgs (dec : Bytes → Option Int) (k : Key) (oldest : Int) : List Rec → Option Int
  | [] => none
  | r :: rs =>
    match (if r.body.key.getD [] = k then dec (r.body.val.getD []) else none) with
    | some v => some v
    | none => if Gen.Cursors.oldestExitCmp.evalInt r.offset oldest then some (-1) else scanMsgs dec k oldest rs

/-- Subscription + scan on the log as it is now. -/
def scanLog (P : Params) (l : CLog) (k : Key) (oldest : Int) : Res Int :=
  match Subscribe.create l cursorReq with
  | .refused st => .err st
  | .live d ending _ =>
    match scanMsgs P.dec k oldest d with
    | some v => .ok v
    | none =>
      match ending with
      | .status st => if Gen.Cursors.endCodeCmp.evalNat (statusCode st) 8 then .ok (-1) else .err st
      | .waiting => .err "deadline"

/-- `getLatestCursorOffset` after `hw` and `oldest` have been read. -/
def subscribeScan (P : Params) (s : State) (k : Key) (hw oldest : Int) : State × Res Int :=
  if Gen.Cursors.hwEmptyCmp.evalInt hw (-1) || Gen.Cursors.oldestEmptyCmp.evalInt oldest (-1) then (s, .ok (-1))
  else
    let s := resume s
    (s, scanLog P s.log k oldest)

/-- Does the miss path store what it scanned? Unrepaired code: always. Repaired code: only if
no SetCursor ran since the lookup. -/
def mayCache (P : Params) (s : State) (seq0 : Nat) : Bool := !P.guarded || seq0 == s.seq

/-- The end of the miss path: `c.mu.Lock(); c.cache.Add(key, offset); c.mu.Unlock()`. -/
def finishGet (P : Params) (s : State) (k : Key) (seq0 : Nat) (res : Res Int) : State × Res Int :=
  match res with
  | .ok v => ({ s with cache := if mayCache P s seq0 then Cache.add P.cap s.cache k v else s.cache }, .ok v)
  | e => (s, e)

/-- `GetCursor` with nothing else running in between. -/
def getCursor (P : Params) (s : State) (k : Key) : State × Res Int :=
  match lookup s k with
  | (s, some v) => (s, .ok v)
  | (s, none) =>
    let (s', r) := subscribeScan P s k s.log.hw s.log.oldest
    finishGet P s' k s.seq r

/-! ### Other operations -/

/-- `commitLog.Clean()` of the cursors partition: retention with the inherited limits (unless
the stream is exempt), then compaction (the stream is created with `CompactEnabled`). -/
def clean (P : Params) (s : State) : State :=
  if s.paused then s else
  { s with log := Compact.cleanLog (if P.retentionOff then ⟨0, 0, 0⟩ else P.lim) 0 true s.log }

/-- Age-based roll of the active segment (only a segment that holds something is rolled). -/
def roll (s : State) : State :=
  if s.paused || s.log.active.recs.isEmpty then s else { s with log := s.log.roll }

/-- `BecomePartitionLeader`. -/
def becomeLeader (s : State) : State :=
  if Gen.Cursors.purgeOnLeader then { s with cache := [] } else s

/-- Server restart on the same data directory: a new cursor manager (empty cache, no calls in
flight), the log reopened; a paused partition stays paused. -/
def restart (s : State) : State :=
  { s with log := s.log.reopen, cache := [], seq := 0, pend := [] }

/-- Auto-pause: the partition is closed (HW checkpointed); the log is untouched. -/
def pause (s : State) : State := { s with paused := true }

/-! ### Histories -/

inductive Op where
  | set (k : Key) (o : Int) (v : Bytes)
  | get (k : Key)
  /- the five small steps of a `GetCursor` call, labelled by caller -/
  | lookup (tid : Nat) (k : Key)
  | readHW (tid : Nat)
  | readOldest (tid : Nat)
  | subscribe (tid : Nat)
  | finish (tid : Nat)
  /- the call of this caller fails (subscription error, deadline, a segment replaced under the
  reverse reader, …): an error goes back to the client and nothing is cached -/
  | abort (tid : Nat)
  | roll | clean | becomeLeader | restart | pause
  | evictAll
  | cacheOn (b : Bool)
  deriving Repr, DecidableEq, Inhabited

def findPend (s : State) (tid : Nat) : Option Pending := s.pend.find? (fun p => p.tid = tid)

def setPend (s : State) (p : Pending) : State :=
  { s with pend := p :: s.pend.filter (fun q => q.tid ≠ p.tid) }

def dropPend (s : State) (tid : Nat) : State := { s with pend := s.pend.filter (fun q => q.tid ≠ tid) }

/-- What an operation answers (for the driver and the theorems). -/
inductive Out where
  | none
  | unit (r : Res Unit)
  | val (r : Res Int)
  | miss
  | int (i : Int)
  | ignored
  deriving Repr, DecidableEq, Inhabited

def step (P : Params) (s : State) : Op → State × Out
  | .set k o v => let (s', r) := setCursor P s k o v; (s', .unit r)
  | .get k => let (s', r) := getCursor P s k; (s', .val r)
  | .lookup tid k =>
    match findPend s tid with
    | some _ => (s, .ignored)
    | none =>
      match lookup s k with
      | (s', some v) => (s', .val (.ok v))
      | (s', none) => (setPend s' { tid := tid, key := k, seq0 := s'.seq, stage := .looked }, .miss)
  | .readHW tid =>
    match findPend s tid with
    | some p =>
      match p.stage with
      | .looked => (setPend s { p with stage := .hwRead s.log.hw }, .int s.log.hw)
      | _ => (s, .ignored)
    | none => (s, .ignored)
  | .readOldest tid =>
    match findPend s tid with
    | some p =>
      match p.stage with
      | .hwRead hw => (setPend s { p with stage := .oldRead hw s.log.oldest }, .int s.log.oldest)
      | _ => (s, .ignored)
    | none => (s, .ignored)
  | .subscribe tid =>
    match findPend s tid with
    | some p =>
      match p.stage with
      | .oldRead hw oldest =>
        let (s', r) := subscribeScan P s p.key hw oldest
        (setPend s' { p with stage := .scanned r }, .none)
      | _ => (s, .ignored)
    | none => (s, .ignored)
  | .finish tid =>
    match findPend s tid with
    | some p =>
      match p.stage with
      | .scanned r =>
        let (s', out) := finishGet P (dropPend s tid) p.key p.seq0 r
        (s', .val out)
      | _ => (s, .ignored)
    | none => (s, .ignored)
  | .abort tid =>
    match findPend s tid with
    | some _ => (dropPend s tid, .none)
    | none => (s, .ignored)
  | .roll => (roll s, .none)
  | .clean => (clean P s, .none)
  | .becomeLeader => (becomeLeader s, .none)
  | .restart => (restart s, .none)
  | .pause => (pause s, .none)
  | .evictAll => ({ s with cache := [] }, .none)
  | .cacheOn b => ({ s with cacheOn := b }, .none)

def run (P : Params) (s : State) : List Op → State
  | [] => s
  | op :: rest => run P (step P s op).1 rest

/-- The abstract cursor store: key ↦ offset of the last `set` (a map `Key → Option Int`). -/
def absStep (M : Key → Option Int) : Op → Key → Option Int
  | .set k o _ => fun k' => if k' = k then some o else M k'
  | _ => M

/-- The offset of the last `set` of each key in a history. -/
def lastSet (hist : List Op) : Key → Option Int := hist.foldl absStep (fun _ => none)

end Liftbridge.Cursors
