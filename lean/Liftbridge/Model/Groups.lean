/-
Model of server/groups.go (consumer-group membership and partition assignment), as it IS.

Go state                                   model
---------------------------------------------------------------------------------------
consumer{id, streams, assignments,         `Cons` (streams: the Go set as a sorted, duplicate-
         assignedCount}                       free list; assignments: association list stream ↦
                                              partitions in assignment order; `count` is the
                                              separately maintained TOTAL over all streams, written
                                              exactly where the Go code writes `assignedCount`
                                              (`Gen.Groups.loadWrites`); that it equals
                                              `asgTotal asg` is a THEOREM, `Props.C12.load_count_exact`)
consumerGroup.members (id ↦ *consumer)     `Group.members : List Cons` (insertion order; ids
                                              distinct — see `join`)
consumerGroup.subscribers                  `Group.subs : stream ↦ List id`  (which consumers are
  (stream ↦ *consumerHeap)                    in the stream's heap; present-but-empty ≠ absent,
                                              exactly as the Go map after the last `heap.Remove`)
consumerGroup.epoch                        `Group.epoch`
getStreamPartitions                        parameter `parts : String → Nat`

THE HEAP ABSTRACTION.  `consumerHeap` is a `container/heap` over `*consumer` ordered by
`Less = (assignedCount, id)` lexicographically.  The only place the order of the heap array is
observed is `subscribers.Peek()` (= `c[0]`) in `balanceAssignmentsForStream`, and every `Peek`
is preceded by a `heap.Init` of that very heap with no change of any `assignedCount` in
between: the first `Peek` follows the `heap.Init(subscribers)` after the reset loop, each later
one follows `assignPartition`, which — after incrementing the chosen consumer's counter —
re-`Init`s the heaps of ALL streams the chosen consumer subscribes to, the current stream
included (the chosen consumer is in this heap, so the stream is in its `streams`).
`heap.Init` establishes `¬ Less(child, parent)` for every edge of the implicit tree; `Less` is a
strict total order as long as the ids in one heap are pairwise distinct (`Proofs.Groups.less_*`),
hence by transitivity along the path to the root `c[0]` is THE minimum, independent of the array
order before `Init` (`Proofs.Groups.peek_perm`).  Everything else done with a heap (`heap.Push`,
`heap.Remove` inside a `range`, ranging over it in `StreamDeleted` and in the reset loop) only
depends on the SET of consumers in it.  So a heap is modelled as the list of its consumers' ids
and `peek` as "minimum by (count, id) among the members whose id is in that list".  The
correspondence harness validates this abstraction against `container/heap` on every history.

DUPLICATE JOIN.  `AddMember` for an id that already is a member would put a NEW `*consumer` in
`c.members[id]` while the OLD object stays in the subscriber heaps (two heap entries with the
same id: `Less` is no longer total, the orphan can win partitions that no member then holds).
`AddMember` itself does not check this; `metadataAPI.checkJoinConsumerGroupPreconditions`
(`ErrConsumerAlreadyMember`, evaluated on the metadata leader under the Raft barrier + apply
lock before the op is proposed) keeps the case from ever reaching the group.  The model makes
that precondition explicit: `join` of an existing member answers `err already-member` and
changes nothing (the harness never sends it in the correspondence part and documents the real
object's behaviour in a separate probe).
-/
import Liftbridge.Base
import Liftbridge.Cmp
import Liftbridge.Gen.Groups

namespace Liftbridge.Groups
open Liftbridge

/-- Comparison of Go strings (bytewise lexicographic = code-point lexicographic for UTF-8). -/
def cmpStr : Cmp → String → String → Bool
  | .lt, a, b => decide (a < b)
  | .le, a, b => decide (a ≤ b)
  | .gt, a, b => decide (b < a)
  | .ge, a, b => decide (b ≤ a)
  | .eq, a, b => decide (a = b)
  | .ne, a, b => decide (a ≠ b)

/-! ### association lists (Go maps with explicit, canonical content) -/

abbrev Asg := List (String × List Nat)

/-- `assignments[stream]` (nil when absent). -/
def asgOf : Asg → String → List Nat
  | [], _ => []
  | (k, v) :: r, s => if k = s then v else asgOf r s

/-- `_, ok := assignments[stream]`. -/
def asgHas : Asg → String → Bool
  | [], _ => false
  | (k, _) :: r, s => if k = s then true else asgHas r s

/-- `delete(assignments, stream)`. -/
def asgErase (a : Asg) (s : String) : Asg := a.filter (fun kv => kv.1 ≠ s)

/-- `assignments[stream] = append(assignments[stream], p)`. -/
def asgAppend : Asg → String → Nat → Asg
  | [], s, p => [(s, [p])]
  | (k, v) :: r, s, p => if k = s then (k, v ++ [p]) :: r else (k, v) :: asgAppend r s p

abbrev Subs := List (String × List String)

def sget : Subs → String → Option (List String)
  | [], _ => none
  | (k, v) :: r, s => if k = s then some v else sget r s

def sset : Subs → String → List String → Subs
  | [], s, v => [(s, v)]
  | (k, w) :: r, s, v => if k = s then (k, v) :: r else (k, w) :: sset r s v

def sdel (l : Subs) (s : String) : Subs := l.filter (fun kv => kv.1 ≠ s)

/-! ### sorted iteration (`rangeStreamsOrdered`) -/

/-- Insert into a sorted duplicate-free list. -/
def insertS (x : String) : List String → List String
  | [] => [x]
  | y :: ys => if x < y then x :: y :: ys else if x = y then y :: ys else y :: insertS x ys

/-- The keys of a Go `map[string]struct{}` built from `l`, in `sort.Strings` order. -/
def sortDedup (l : List String) : List String := l.foldr insertS []

/-! ### consumers -/

/-- One `*consumer`. -/
structure Cons where
  id : String
  streams : List String
  asg : Asg
  count : Int
  deriving Repr, DecidableEq

/-- `consumer.assignPartition`. -/
def Cons.assignPartition (c : Cons) (s : String) (p : Nat) : Cons :=
  { c with asg := asgAppend c.asg s p, count := c.count + 1 }

/-- `consumer.removeStreamAssignments`. -/
def Cons.removeStreamAssignments (c : Cons) (s : String) : Cons :=
  { c with count := c.count - ((asgOf c.asg s).length : Int), asg := asgErase c.asg s }

/-- What `StreamDeleted` does to one subscriber of the deleted stream: the stream leaves its
subscription set and its assignments of the stream are dropped — through
`subscriber.removeStreamAssignments(stream)`, which also lowers the load counter (regenerated fact
`Gen.Groups.deletedLowersCount`; a bare `delete(subscriber.assignments, stream)` would leave a
phantom load behind: `Proofs.Groups.cinv_*` need the fact to be `true`). -/
def Cons.dropStream (c : Cons) (s : String) : Cons :=
  let c' := if Gen.Groups.deletedLowersCount then c.removeStreamAssignments s
            else { c with asg := asgErase c.asg s }
  { c' with streams := c.streams.filter (· ≠ s) }

/-- The number of partitions held over all streams — what `assignedCount` is meant to be. -/
def asgTotal : Asg → Nat
  | [] => 0
  | (_, v) :: r => v.length + asgTotal r

/-- `consumerHeap.Less`, evaluated through the regenerated operators. -/
def less (a b : Cons) : Bool :=
  if Gen.Groups.lessCountEq.evalInt a.count b.count then cmpStr Gen.Groups.lessId a.id b.id
  else Gen.Groups.lessCount.evalInt a.count b.count

/-- Minimum w.r.t. `less` (first minimal element). -/
def minBy : List Cons → Option Cons
  | [] => none
  | x :: xs => some (xs.foldl (fun best c => if less c best then c else best) x)

structure Group where
  members : List Cons := []
  subs : Subs := []
  epoch : Nat := 0
  deriving Repr, DecidableEq

def subsOf (g : Group) (s : String) : List String := (sget g.subs s).getD []

/-- `subscribers.Peek()` right after `heap.Init`: see the header comment. -/
def peek (ms : List Cons) (ids : List String) : Option Cons :=
  minBy (ms.filter (fun c => c.id ∈ ids))

/-- The reset loop of `balanceAssignmentsForStream` (`for _, subscriber := range *subscribers`). -/
def resetFor (s : String) (ids : List String) (ms : List Cons) : List Cons :=
  ms.map fun c => if c.id ∈ ids then c.removeStreamAssignments s else c

/-- `c.assignPartition(stream, partition, minConsumer)` (the heap re-`Init`s change no state of
the abstraction). -/
def assignTo (s : String) (p : Nat) (id : String) (ms : List Cons) : List Cons :=
  ms.map fun c => if c.id = id then c.assignPartition s p else c

/-- `for partition := int32(0); partition ? getStreamPartitions(stream); partition++ { … }`
with the regenerated loop condition; `fuel` bounds the iteration (`n + 1` suffices for `<`/`≤`).
`peek = none` would be Go's index-out-of-range on an empty heap; it cannot happen because
`balance` returns early on an empty heap (`Proofs.Groups.peek_isSome`). -/
def assignLoop (s : String) (n : Nat) (ids : List String) : (fuel p : Nat) → List Cons → List Cons
  | 0, _, ms => ms
  | fuel + 1, p, ms =>
    if Gen.Groups.loopCmp.evalNat p n then
      match peek ms ids with
      | some m => assignLoop s n ids fuel (p + 1) (assignTo s p m.id ms)
      | none => ms
    else ms

/-- `balanceAssignmentsForStream`. -/
def balance (parts : String → Nat) (s : String) (g : Group) : Group :=
  match sget g.subs s with
  | none => g
  | some ids =>
    if ids.isEmpty then g
    else { g with members := assignLoop s (parts s) ids (parts s + 1) 0 (resetFor s ids g.members) }

/-- `heap.Push(subscribers, cons)` (creating the heap when absent). -/
def pushSub (s : String) (id : String) (g : Group) : Group :=
  { g with subs := sset g.subs s ((subsOf g s) ++ [id]) }

/-- `addConsumer`: for each stream in sorted order, push and rebalance. -/
def addConsumer (parts : String → Nat) (id : String) (streams : List String) (g : Group) : Group :=
  streams.foldl (fun g t => balance parts t (pushSub t id g)) g

/-- `addMember` (no epoch handling): also used by `newConsumerGroup` for the initial members. -/
def addMember (parts : String → Nat) (id : String) (streams : List String) (g : Group) : Group :=
  let ss := sortDedup streams
  addConsumer parts id ss { g with members := g.members ++ [{ id := id, streams := ss, asg := [], count := 0 }] }

/-- One iteration of `removeConsumer`'s `rangeStreamsOrdered` callback. -/
def removeStep (parts : String → Nat) (cons : Cons) (g : Group) (t : String) : Group :=
  match sget g.subs t with
  | none => g
  | some ids =>
    let g1 := { g with subs := sset g.subs t (ids.filter (· ≠ cons.id)) }
    if asgHas cons.asg t || !Gen.Groups.removeRebalanceIfAssigned then balance parts t g1 else g1

/-- `removeConsumer`. -/
def removeConsumer (parts : String → Nat) (cons : Cons) (g : Group) : Group :=
  cons.streams.foldl (removeStep parts cons) g

inductive Op where
  | join (id : String) (streams : List String) (epoch : Nat)
  | leave (id : String) (epoch : Nat)
  | deleted (stream : String) (epoch : Nat)
  deriving Repr, DecidableEq

/-- `AddMember`. -/
def join (parts : String → Nat) (g : Group) (id : String) (streams : List String) (epoch : Nat) :
    Res Group :=
  if Gen.Groups.epochAddCmp.evalNat epoch g.epoch then .err "epoch"
  else if g.members.any (·.id = id) then .err "already-member"   -- precondition, see header
  else .ok { addMember parts id streams g with epoch := epoch }

/-- `RemoveMember`. -/
def leave (parts : String → Nat) (g : Group) (id : String) (epoch : Nat) : Res Group :=
  if Gen.Groups.epochRemoveCmp.evalNat epoch g.epoch then .err "epoch"
  else match g.members.find? (·.id = id) with
    | none => .err "not-member"
    | some cons =>
      let g1 := removeConsumer parts cons g
      .ok { g1 with members := g1.members.filter (·.id ≠ id), epoch := epoch }

/-- `StreamDeleted`. Note the early `return nil` that leaves the epoch untouched when the stream
has no heap. -/
def streamDeleted (parts : String → Nat) (g : Group) (s : String) (epoch : Nat) : Res Group :=
  if Gen.Groups.epochDeletedCmp.evalNat epoch g.epoch then .err "epoch"
  else match sget g.subs s with
    | none => .ok g
    | some ids =>
      -- a heap emptied by departed members: nothing changes for the group, the (empty) heap is
      -- dropped and the epoch is left alone (fix abd9059, `Gen.Groups.emptyHeapKeepsEpoch`)
      if Gen.Groups.emptyHeapKeepsEpoch && ids.isEmpty then .ok { g with subs := sdel g.subs s } else
      let ms := g.members.map fun c =>
        if c.id ∈ ids then c.dropStream s else c
      let rebalance := sortDedup ((ms.filter (fun c => c.id ∈ ids)).flatMap (·.streams))
      let g1 : Group := { g with members := ms, subs := sdel g.subs s }
      let g2 := rebalance.foldl (fun g t => balance parts t g) g1
      .ok { g2 with epoch := epoch }

def step (parts : String → Nat) (g : Group) : Op → Res Group
  | .join id streams e => join parts g id streams e
  | .leave id e => leave parts g id e
  | .deleted s e => streamDeleted parts g s e

/-- Apply an op; a refused op leaves the group as it was. -/
def applyOp (parts : String → Nat) (g : Group) (op : Op) : Group :=
  match step parts g op with
  | .ok g' => g'
  | _ => g

/-- The group after a history. -/
def run (parts : String → Nat) (g : Group) (ops : List Op) : Group :=
  ops.foldl (applyOp parts) g

/-- `newConsumerGroup` without members. -/
def Group.new (epoch : Nat) : Group := { epoch := epoch }

/-- `GetAssignments` on the coordinator. -/
def getAssignments (g : Group) (id : String) (epoch : Nat) : Res Asg :=
  if epoch ≠ g.epoch then .err "group-epoch"
  else match g.members.find? (·.id = id) with
    | none => .err "not-member"
    | some m => .ok m.asg

end Liftbridge.Groups
