/-
Small-step model of the consumer-group hand-over on ONE partition (server/partition.go):
`partition.Subscribe` (group section under `consumersMu`), `subscription.Close`,
`newSubscribeLoop` (the subscribe-loop goroutine and its deferred clean-up) and
`removeGroupSubscriber`.

State
* `consumers` — `p.consumers : map[string]*groupMember`, as an association list read through
  `lookup` (the first binding of a key; `put` and `del` remove every older binding);
  `Member.subId` stands for the pointer `groupMember.sub`.
* `loops` — one record per subscription handed out so far (newest first; the id of a
  subscription is its creation index). A subscribe-loop goroutine exists from the successful
  `Subscribe` until it returns; `cancelled` = the subscription's `closed` channel is closed
  (`subscription.Close()`: by the client, or by a replacing subscriber); `exited` = the
  goroutine has returned, i.e. its deferred `removeGroupSubscriber` has run. A loop that is
  parked in `ReadMessage` only notices the cancellation when the next message arrives or its
  context ends, so "cancelled but not yet exited" is a real state — and a loop may also exit
  without ever being cancelled (error / stop offset / context).

Steps (each one is atomic in the code: `Subscribe` holds `consumersMu` from the look-up until it
returns — deferred unlock —, the clean-up runs under the same mutex, `Close` under the
subscription's own mutex); goroutine interleavings are arbitrary step lists.
* `subscribe g c e o` — `o` is a parameter for what the model does not compute: the request is
  valid and a reader can be created (`ok`), start/stop validation fails (`early`, before the
  previous subscriber is touched), reader creation fails (`late`, AFTER
  `previousSubscriber.sub.Close()`: the code then returns without registering anybody).
* `cancel id` — `subscription.Close()` by the client.
* `loopExit id` — the goroutine returns; deferred clean-up.

Decision points are evaluated through `Gen.GroupSub` (regenerated from the source on every
run): the refusal comparison and WHAT `removeGroupSubscriber` compares.
-/
import Liftbridge.Cmp
import Liftbridge.Gen.GroupSub

namespace Liftbridge.GroupSub
open Liftbridge

/-- The two decision points of the hand-over. -/
structure Cfg where
  /-- `existing.groupEpoch ? groupEpoch` ⇒ the new subscriber is refused. -/
  refuse : Cmp
  /-- `removeGroupSubscriber` compares the subscription (`true`) or the consumer id (`false`). -/
  bySub : Bool
  deriving Repr, DecidableEq

/-- The code as it is now. -/
def Cfg.current : Cfg := ⟨Gen.GroupSub.refuseCmp, Gen.GroupSub.cleanupBySubscription⟩

/-- The code before fixes/C13-cleanup-by-subscription.diff (frozen; independent of `Gen`). -/
def Cfg.preFix : Cfg := ⟨.gt, false⟩

/-- `groupMember{consumerID, groupEpoch, sub}`. -/
structure Member where
  consumer : String
  epoch : Nat
  subId : Nat
  deriving Repr, DecidableEq

/-- A subscription handed out by `Subscribe`, with its loop goroutine. `group = ""`: not a group
subscription. `group`, `consumer`, `epoch` are what the subscriber sent; they never change. -/
structure Loop where
  subId : Nat
  group : String
  consumer : String
  epoch : Nat
  cancelled : Bool
  exited : Bool
  deriving Repr, DecidableEq

structure State where
  consumers : List (String × Member) := []
  loops : List Loop := []
  deriving Repr, DecidableEq

def State.empty : State := {}

/-- `p.consumers[g]`. -/
def lookup (g : String) : List (String × Member) → Option Member
  | [] => none
  | (k, m) :: rest => if k = g then some m else lookup g rest

/-- `delete(p.consumers, g)`. -/
def del (g : String) (cs : List (String × Member)) : List (String × Member) :=
  cs.filter fun kv => kv.1 ≠ g

/-- `p.consumers[g] = m`. -/
def put (g : String) (m : Member) (cs : List (String × Member)) : List (String × Member) :=
  (g, m) :: del g cs

/-- `sub.Close()` of subscription `id`. -/
def cancelLoops (id : Nat) (ls : List Loop) : List Loop :=
  ls.map fun l => if l.subId = id then { l with cancelled := true } else l

def exitLoops (id : Nat) (ls : List Loop) : List Loop :=
  ls.map fun l => if l.subId = id then { l with exited := true } else l

def findLoop (id : Nat) (ls : List Loop) : Option Loop := ls.find? fun l => l.subId = id

/-- A subscription consumes: not closed, loop still running. -/
def Loop.active (l : Loop) : Bool := !l.cancelled && !l.exited

/-- The active subscriptions of group `g`. -/
def activeOf (s : State) (g : String) : List Loop :=
  s.loops.filter fun l => l.group = g && l.active

inductive Outcome where
  | ok | early | late
  deriving Repr, DecidableEq

inductive Reply where
  | sub (id : Nat)      -- Subscribe returned a subscription
  | refused             -- FailedPrecondition "Consumer is not currently assigned this partition"
  | invalid             -- start/stop validation failed (before anything was touched)
  | readerFailed        -- Internal "Failed to create stream reader" (after Close(previous))
  | done                -- cancel / loopExit carried out
  | noSuch              -- cancel of an unknown id, loopExit of an unknown or exited loop
  deriving Repr, DecidableEq

inductive Step where
  | subscribe (g c : String) (e : Nat) (o : Outcome)
  | cancel (id : Nat)
  | loopExit (id : Nat)
  deriving Repr, DecidableEq

/-- State after `previousSubscriber.sub.Close()` (`prev = none`: there was nobody). -/
def closePrev (s : State) (prev : Option Member) : State :=
  match prev with
  | some ex => { s with loops := cancelLoops ex.subId s.loops }
  | none => s

/-- Start of the loop goroutine and `if groupID != "" { p.consumers[groupID] = &groupMember{…} }`.
The new subscription's id is the number of subscriptions handed out before. -/
def register (s : State) (g c : String) (e : Nat) : State :=
  let id := s.loops.length
  { consumers := if g = "" then s.consumers else put g ⟨c, e, id⟩ s.consumers,
    loops := { subId := id, group := g, consumer := c, epoch := e, cancelled := false, exited := false } :: s.loops }

/-- What `existing, ok := p.consumers[groupID]` yields inside `if groupID != ""`. -/
def existing (s : State) (g : String) : Option Member :=
  if g = "" then none else lookup g s.consumers

/-- `if ok { if existing.groupEpoch > groupEpoch { return refused } … }`. -/
def refusedBy (cfg : Cfg) (prev : Option Member) (e : Nat) : Bool :=
  match prev with
  | some ex => cfg.refuse.evalNat ex.epoch e
  | none => false

/-- `partition.Subscribe`, statement order as in the code:
```go
if groupID != "" { lock; defer unlock
    existing, ok := p.consumers[groupID]
    if ok { if existing.groupEpoch > groupEpoch { return refused }; previousSubscriber = existing } }
startOffset/stopOffset validation                      // `early` returns here
if previousSubscriber != nil { previousSubscriber.sub.Close() }
reader creation                                         // `late` returns here
start loop goroutine; sub := …
if groupID != "" { p.consumers[groupID] = &groupMember{consumerID, groupEpoch, sub} }
``` -/
def subscribe (cfg : Cfg) (s : State) (g c : String) (e : Nat) (o : Outcome) : State × Reply :=
  let prev := existing s g
  if refusedBy cfg prev e then (s, .refused) else
  match o with
  | .early => (s, .invalid)
  | .late => (closePrev s prev, .readerFailed)
  | .ok => (register (closePrev s prev) g c e, .sub s.loops.length)

/-- `subscription.Close()`; idempotent, possible at any time (also after the loop exited). -/
def cancel (s : State) (id : Nat) : State × Reply :=
  match findLoop id s.loops with
  | some _ => ({ s with loops := cancelLoops id s.loops }, .done)
  | none => (s, .noSuch)

/-- The comparison of `removeGroupSubscriber`. -/
def cleanupMatches (cfg : Cfg) (m : Member) (l : Loop) : Bool :=
  if cfg.bySub then m.subId = l.subId else m.consumer = l.consumer

/-- `removeGroupSubscriber(groupID, …)` as deferred by loop `l` (`if groupID != ""`). -/
def cleanup (cfg : Cfg) (cs : List (String × Member)) (l : Loop) : List (String × Member) :=
  if l.group = "" then cs else
  match lookup l.group cs with
  | some m => if cleanupMatches cfg m l then del l.group cs else cs
  | none => cs

/-- The loop goroutine of subscription `id` returns. -/
def loopExit (cfg : Cfg) (s : State) (id : Nat) : State × Reply :=
  match findLoop id s.loops with
  | some l =>
    if l.exited then (s, .noSuch)
    else ({ consumers := cleanup cfg s.consumers l, loops := exitLoops id s.loops }, .done)
  | none => (s, .noSuch)

def step (cfg : Cfg) (s : State) : Step → State × Reply
  | .subscribe g c e o => subscribe cfg s g c e o
  | .cancel id => cancel s id
  | .loopExit id => loopExit cfg s id

/-- Arbitrary interleavings = arbitrary step lists. -/
def run (cfg : Cfg) (s : State) (steps : List Step) : State :=
  steps.foldl (fun s st => (step cfg s st).1) s

/-- What `NoLiveReuse` asks of one step. -/
def FreshStep (s : State) : Step → Prop
  | .subscribe g c _ _ => ∀ l ∈ s.loops, l.group = g → l.consumer = c → l.exited = true
  | _ => True

instance (s : State) (st : Step) : Decidable (FreshStep s st) := by
  cases st <;> unfold FreshStep <;> exact inferInstance

/-- Hypothesis of the `_partial` theorems about the pre-fix code: a consumer id never subscribes
again in a group while a loop of an earlier subscription of that (group, consumer id) is still
running. (Implied by "the consumer ids of the subscriptions of a group are pairwise distinct".) -/
def NoLiveReuse (cfg : Cfg) : State → List Step → Prop
  | _, [] => True
  | s, st :: rest =>
    FreshStep s st ∧ NoLiveReuse cfg (step cfg s st).1 rest

instance decNoLiveReuse (cfg : Cfg) : (s : State) → (steps : List Step) →
    Decidable (NoLiveReuse cfg s steps)
  | _, [] => isTrue trivial
  | s, st :: rest =>
    have := decNoLiveReuse cfg (step cfg s st).1 rest
    by unfold NoLiveReuse; exact inferInstance

/-- The (group, consumer id) pairs of the subscribe steps. -/
def subscribers : List Step → List (String × String)
  | [] => []
  | .subscribe g c _ _ :: rest => (g, c) :: subscribers rest
  | _ :: rest => subscribers rest

end Liftbridge.GroupSub
