/-
Model of server/commitlog/compact_cleaner.go (log compaction) and of `commitLog.Clean`
(retention, then compaction, then epoch-cache maintenance).
-/
import Liftbridge.Model.Log
import Liftbridge.Model.Retention
import Liftbridge.Gen.Compact

namespace Liftbridge.Compact
open Liftbridge Liftbridge.Log

/-- `scanKeys`: the newest offset `<= hw` per key. Each worker scans its segments in order and
stops at the first offset above the HW (`break LOOP`); `LoadOrStore` + `set` keep the maximum,
so the result does not depend on how segments are distributed over workers. Messages without
a key do not take part (they are always retained). -/
def scanned (hw : Int) (segs : List Seg) : List Rec :=
  segs.flatMap fun s => s.recs.takeWhile (fun r => !(Gen.Compact.scanStopCmp.evalInt r.offset hw))

def latestFor (hw : Int) (segs : List Seg) (k : Bytes) : Option Int :=
  ((scanned hw segs).filter (fun r => r.body.key = some k)).foldl
    (fun acc r => match acc with
      | none => some r.offset
      | some o => if r.offset > o then some r.offset else some o) none

/-- The retain test of `cleanSegment`: `key == nil || offset == latestOffset || offset >= hw`
(`latestOffset` is 0 when the key was never scanned). -/
def retain (hw : Int) (segs : List Seg) (r : Rec) : Bool :=
  match r.body.key with
  | none => true
  | some k => Gen.Compact.retainLatestCmp.evalInt r.offset ((latestFor hw segs k).getD 0) ||
              Gen.Compact.retainHWCmp.evalInt r.offset hw

/-- Epoch cache rebuilt from the surviving messages, in log order. -/
def rebuildEpochs : List Rec → Epochs → Epochs
  | [], c => c
  | r :: rs, c => if r.epoch > c.latestEpoch then rebuildEpochs rs (c.assign r.epoch r.offset) else rebuildEpochs rs c

/-- `Compact(hw, segments)`: every segment but the last is rewritten keeping the retained
messages; segments that become empty are removed. `none` = compaction did not run. -/
def compact (hw : Int) (segs : List Seg) : List Seg × Option Epochs :=
  if Gen.Compact.skipCmp.evalNat segs.length 1 then (segs, none) else
  match segs.getLast? with
  | none => (segs, none)
  | some last =>
    let cleaned := (segs.dropLast.map fun s => { s with recs := s.recs.filter (retain hw segs) }).filter
      (fun s => !s.recs.isEmpty)
    let out := cleaned ++ [last]
    (out, some (rebuildEpochs (out.flatMap Seg.recs) []))

/-- `commitLog.Clean()`: retention, then (if enabled) compaction with the current HW; the epoch
cache is replaced by the rebuilt one when compaction ran, else moved forward. -/
def cleanLog (lim : Retention.Limits) (ttl : Int) (compactOn : Bool) (l : CLog) : CLog :=
  let segs := Retention.clean lim ttl l.segs
  if compactOn then
    match compact l.hw segs with
    | (out, some ep) => { l with segs := out, epochs := ep }
    | (out, none) =>
      match out.head? with
      | none => l
      | some s0 => { l with segs := out, epochs := l.epochs.clearEarliest s0.base }
  else
    match segs.head? with
    | none => l
    | some s0 => { l with segs := segs, epochs := l.epochs.clearEarliest s0.base }

/-- `commitLog.Clean()` racing with the writer: `l` is the log when `Clean` took its snapshot
of the segment list (`n` segments), `l1` the log after the appends that happened while it ran
(they extend the last of those segments and may roll new ones). The clean works on the first
`n` segments; segments rolled meanwhile are rebased onto the result, and the epoch cache is
rebuilt from the survivors plus the live cache's newer epochs (`Rebase`), or moved forward. -/
def cleanLogDuring (lim : Retention.Limits) (ttl : Int) (compactOn : Bool) (n : Nat) (l1 : CLog) : CLog :=
  let old := l1.segs.take n
  let added := l1.segs.drop n
  let segs := Retention.clean lim ttl old
  let rebase (ep : Epochs) : Epochs :=
    match added.head? with
    | none => ep
    | some s0 =>
      (l1.epochs.filter (fun e => e.2 ≥ s0.base)).foldl
        (fun acc e => if e.1 > acc.latestEpoch then acc.assign e.1 e.2 else acc) ep
  if compactOn then
    match compact l1.hw segs with
    | (out, some ep) => { l1 with segs := out ++ added, epochs := rebase ep }
    | (out, none) =>
      match (out ++ added).head? with
      | none => l1
      | some s0 => { l1 with segs := out ++ added, epochs := l1.epochs.clearEarliest s0.base }
  else
    match (segs ++ added).head? with
    | none => l1
    | some s0 => { l1 with segs := segs ++ added, epochs := l1.epochs.clearEarliest s0.base }

end Liftbridge.Compact
