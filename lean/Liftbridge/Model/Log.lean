/-
Model of server/commitlog: segments, index lookups, epoch cache, append / appendMessageSet /
truncate / reopen / split, and the (non-blocking) uncommitted and committed readers.

Abstraction level (DESIGN.md §2.4, §3): a stored message is a `Rec`; a segment's log file is
the list of its records in write order; byte positions are prefix sums of `Rec.size`; the
index of a segment is *derived* from its records (one slot per record, in order) — which is
what `WriteMessageSet` maintains in every crash-free execution (crash states are the subject
of the separate `Recover` model, C05). Lookups mirror the Go code literally through
`goSearch` (Go's `sort.Search`), so they are only *proved* to find the right thing under the
sortedness invariants, exactly as in the implementation.
-/
import Liftbridge.Base
import Liftbridge.Gen.Log

namespace Liftbridge.Log
open Liftbridge

/-- Key, value and headers of a message. `none` = Go `nil`, `some []` = empty. Headers are kept
sorted by key (a Go map has no order). -/
structure Payload where
  key : Option Bytes
  val : Option Bytes
  hdrs : List (String × Option Bytes)
  deriving DecidableEq, Repr, Inhabited

def bytesLen : Option Bytes → Nat
  | none => 0
  | some b => b.length

/-- Length of `encode(m)`: crc 4, magic 1, attributes 1, key 4+n, value 4+n, header count 2,
each header 2+|k|+4+|v| (message.go `Encode`). -/
def Payload.encLen (p : Payload) : Nat :=
  4 + 1 + 1 + (4 + bytesLen p.key) + (4 + bytesLen p.val) + 2 +
    (p.hdrs.map fun kv => 2 + kv.1.utf8ByteSize + 4 + bytesLen kv.2).sum

/-- `encode(m)` succeeds: every header key fits the 16-bit length prefix of `PutString`
(`len(in) > math.MaxInt16` is refused). Keys and values have 32-bit prefixes and cannot exceed
them within the NATS payload limit. -/
def Payload.encodable (p : Payload) : Bool :=
  !(p.hdrs.any (fun kv => Gen.Log.putStringLenCmp.evalNat kv.1.utf8ByteSize 32767)) &&
  -- the header count is stored in 16 bits (`PutInt16(int16(len))`, read back with `Uint16`)
  !(Gen.Log.headerCountCmp.evalNat p.hdrs.length 65535)

/-- One message as stored: the 28-byte message-set header fields plus the payload. -/
structure Rec where
  offset : Int
  ts : Int
  epoch : Nat
  body : Payload
  deriving DecidableEq, Repr, Inhabited

def msgSetHeaderLen : Nat := Gen.Log.msgSetHeaderLen

/-- Bytes the record occupies in the segment file. -/
def Rec.size (r : Rec) : Nat := msgSetHeaderLen + r.body.encLen

/-- Index slot. -/
structure Entry where
  offset : Int
  ts : Int
  pos : Nat
  size : Nat
  deriving DecidableEq, Repr, Inhabited

structure Seg where
  base : Int
  recs : List Rec
  deriving DecidableEq, Repr, Inhabited

namespace Seg
def position (s : Seg) : Nat := (s.recs.map Rec.size).sum
def lastOffset (s : Seg) : Int := match s.recs.getLast? with | some r => r.offset | none => -1
def firstOffset (s : Seg) : Int := match s.recs.head? with | some r => r.offset | none => -1
def lastTs (s : Seg) : Int := match s.recs.getLast? with | some r => r.ts | none => 0
def firstTs (s : Seg) : Int := match s.recs.head? with | some r => r.ts | none => 0
/-- `NextOffset`: `if s.lastOffset == -1 { return s.BaseOffset }; return s.lastOffset + 1`. -/
def nextOffset (s : Seg) : Int := if s.lastOffset = -1 then s.base else s.lastOffset + 1
def isEmpty (s : Seg) : Bool := s.firstOffset = -1
def count (s : Seg) : Nat := s.recs.length

def entriesFrom (pos : Nat) : List Rec → List Entry
  | [] => []
  | r :: rs => { offset := r.offset, ts := r.ts, pos := pos, size := r.size } :: entriesFrom (pos + r.size) rs
/-- The index file: one slot per record, positions are prefix sums. -/
def entries (s : Seg) : List Entry := entriesFrom 0 s.recs

/-- `findEntry`: first slot whose offset is `>= offset` (literal `sort.Search`), as a slot number. -/
def findEntryIdx (s : Seg) (offset : Int) : Option Nat :=
  let n := s.recs.length
  let i := goSearch n (fun i => match s.recs[i]? with
    | some r => Gen.Log.findEntryCmp.evalInt r.offset offset
    | none => true)
  if i = n then none else some i
end Seg

/-- Leader-epoch cache: (epoch, start offset), in insertion order. -/
abbrev Epochs := List (Nat × Int)

namespace Epochs
def latestEpoch (c : Epochs) : Nat := match c.getLast? with | some e => e.1 | none => 0
def latestOffset (c : Epochs) : Int := match c.getLast? with | some e => e.2 | none => -1
def earliestOffset (c : Epochs) : Int := match c.head? with | some e => e.2 | none => -1

/-- `assign`: `if epoch > latestEpoch && offset >= latestOffset { append }` (else only a warning). -/
def assign (c : Epochs) (epoch : Nat) (offset : Int) : Epochs :=
  if Gen.Log.assignEpochCmp.evalNat epoch c.latestEpoch && Gen.Log.assignOffsetCmp.evalInt offset c.latestOffset
  then c ++ [(epoch, offset)] else c

/-- `findEpoch(epoch)`: first entry with `leaderEpoch >= epoch`. -/
def findEpoch (c : Epochs) (epoch : Nat) : Option (Nat × Int) :=
  let i := goSearch c.length (fun i => match c[i]? with | some e => Gen.Log.findEpochCmp.evalNat e.1 epoch | none => true)
  c[i]?

/-- `LastOffsetForLeaderEpoch` of the cache: start offset of the first epoch `> epoch`, else -1. -/
def lastOffsetFor (c : Epochs) (epoch : Nat) : Int :=
  match c.findEpoch (epoch + 1) with
  | some e => e.2
  | none => -1

/-- `ClearLatest(offset)`. -/
def clearLatest (c : Epochs) (offset : Int) : Epochs :=
  if Gen.Log.clearLatestSkipCmp.evalInt offset c.latestOffset then c
  else c.filter (fun e => Gen.Log.clearLatestKeepCmp.evalInt e.2 offset)

/-- `ClearEarliest(offset)`. -/
def clearEarliest (c : Epochs) (offset : Int) : Epochs :=
  if Gen.Log.clearEarliestSkipCmp.evalInt c.earliestOffset offset then c else
  let earliest := c.filter (fun e => e.2 < offset)
  match earliest.getLast? with
  | none => c
  | some lastE =>
    let rest := c.drop earliest.length
    if offset < (Epochs.earliestOffset rest) || rest.isEmpty then (lastE.1, offset) :: rest else rest
end Epochs

structure CLog where
  segs : List Seg          -- never empty in reachable states
  maxSegBytes : Int
  hw : Int
  epochs : Epochs
  readonly : Bool
  occ : Bool
  deriving Repr, Inhabited

namespace CLog

def init (maxSegBytes : Int) (occ : Bool) : CLog :=
  { segs := [{ base := 0, recs := [] }], maxSegBytes := maxSegBytes, hw := -1, epochs := [],
    readonly := false, occ := occ }

/-- All retained records in log order: the abstraction every log property is stated on. -/
def abs (l : CLog) : List Rec := l.segs.flatMap Seg.recs

def active (l : CLog) : Seg := l.segs.getLast?.getD { base := 0, recs := [] }
def nextOffset (l : CLog) : Int := l.active.nextOffset
def newest (l : CLog) : Int := l.nextOffset - 1
def oldest (l : CLog) : Int := match l.segs.head? with | some s => s.firstOffset | none => -1

/-- `findSegment`: first segment whose `NextOffset() > offset` (index, literal `sort.Search`). -/
def findSegmentIdx (segs : List Seg) (offset : Int) : Option Nat :=
  let n := segs.length
  let i := goSearch n (fun i => match segs[i]? with
    | some s => Gen.Log.findSegmentCmp.evalInt s.nextOffset offset
    | none => true)
  if i = n then none else some i

/-- `findSegmentByBaseOffset`: first segment whose base is `>= offset`. -/
def findSegmentByBaseIdx (segs : List Seg) (offset : Int) : Option Nat :=
  let n := segs.length
  let i := goSearch n (fun i => match segs[i]? with
    | some s => Gen.Log.findSegmentByBaseCmp.evalInt s.base offset
    | none => true)
  if i = n then none else some i

/-- `checkAndPerformSplit` (size-based roll): `if s.position >= s.maxBytes` roll a segment whose
base is `NewestOffset()+1`. The age-based roll is the explicit `roll` operation. -/
def needSplit (l : CLog) : Bool := Gen.Log.splitCmp.evalInt (l.active.position : Int) l.maxSegBytes

def roll (l : CLog) : CLog := { l with segs := l.segs ++ [{ base := l.newest + 1, recs := [] }] }

def checkSplit (l : CLog) : CLog := if l.needSplit then l.roll else l

def setActive (l : CLog) (s : Seg) : CLog := { l with segs := l.segs.dropLast ++ [s] }

/-- `commitLog.append`'s epoch bookkeeping over the written entries:
`if entry.LeaderEpoch > lastLeaderEpoch { Assign(entry.LeaderEpoch, entry.Offset); lastLeaderEpoch = entry.LeaderEpoch }`. -/
def assignEpochs (c : Epochs) (last : Nat) : List Rec → Epochs
  | [] => c
  | r :: rs =>
    if Gen.Log.appendEpochCmp.evalNat r.epoch last then assignEpochs (c.assign r.epoch r.offset) r.epoch rs
    else assignEpochs c last rs

/-- Write records to the active segment and update the epoch cache (`commitLog.append`).
Writing an empty entry list indexes `entries[0]` in `segment.write`: a panic. -/
def write (l : CLog) (rs : List Rec) : Res (CLog × List Int) :=
  if rs.isEmpty then .panic else
  let a := l.active
  let l' := l.setActive { a with recs := a.recs ++ rs }
  .ok ({ l' with epochs := assignEpochs l.epochs l.epochs.latestEpoch rs }, rs.map Rec.offset)

/-- A message handed to `Append`: timestamp and leader epoch are set by the caller,
`expected` is the `Offset` field consulted by optimistic concurrency control. -/
structure Msg where
  ts : Int
  epoch : Nat
  body : Payload
  expected : Int := -1
  deriving Repr, Inhabited

/-- `newMessageSetFromProto`: offsets `baseOffset + i`; with concurrency control a batch of more
than one message panics and an expected offset other than -1 must equal the assigned one. -/
def stamp (occ : Bool) (base : Int) : Nat → List Msg → Res (List Rec)
  | _, [] => .ok []
  | i, m :: ms =>
    let offset := base + i
    -- `encode(m)` fails for a header key longer than math.MaxInt16 bytes (PutString)
    if !m.body.encodable then
      (if Gen.Log.encodeErrPanics then .panic else .err "encode")
    else
    if occ && Gen.Log.occWaiveCmp.evalInt m.expected (-1) && Gen.Log.occExpectedCmp.evalInt offset m.expected then .err "incorrect-offset"
    else do
      let rest ← stamp occ base (i + 1) ms
      .ok ({ offset := offset, ts := m.ts, epoch := m.epoch, body := m.body } :: rest)

/-- `Append`. -/
def append (l : CLog) (ms : List Msg) : Res (CLog × List Int) :=
  if l.readonly then .err "readonly" else
  let l := l.checkSplit
  if l.occ && Gen.Log.occBatchCmp.evalNat ms.length 1 then .panic else do
    let rs ← stamp l.occ l.nextOffset 0 ms
    l.write rs

/-- State left behind by an `Append` that returned an error: the readonly check precedes the
split, the concurrency-control check follows it (the rolled segment stays). -/
def checkSplitIfWritable (l : CLog) : CLog := if l.readonly then l else l.checkSplit

/-- `AppendMessageSet`: the records carry their own offsets (replication); allowed when readonly. -/
def appendSet (l : CLog) (rs : List Rec) : Res (CLog × List Int) :=
  let l := l.checkSplit
  l.write rs

/-- `Truncate(offset)`. -/
def truncate (l : CLog) (offset : Int) : CLog :=
  match findSegmentIdx l.segs offset with
  | none => l
  | some idx =>
    match l.segs[idx]? with
    | none => l
    | some seg =>
      let keep := l.segs.take idx
      let segs :=
        if Gen.Log.truncateBaseCmp.evalInt seg.base offset ∧ idx ≠ 0 then keep
        else keep ++ [{ seg with recs := seg.recs.takeWhile (fun r => Gen.Log.truncateKeepCmp.evalInt r.offset offset) }]
      { l with segs := segs, epochs := l.epochs.clearLatest offset }

/-- `SetHighWatermark`: `if hw > l.hw`. -/
def setHW (l : CLog) (hw : Int) : CLog := if Gen.Log.setHWCmp.evalInt hw l.hw then { l with hw := hw } else l

def newLeaderEpoch (l : CLog) (epoch : Nat) : CLog := { l with epochs := l.epochs.assign epoch l.newest }

/-- `LastOffsetForLeaderEpoch`. -/
def lastOffsetForLeaderEpoch (l : CLog) (epoch : Nat) : Int :=
  let o := l.epochs.lastOffsetFor epoch
  if o = -1 then l.nextOffset - 1 else o

/-- Clean `Close` followed by `New` on the same directory: segments and the checkpointed HW
come back as they were, the readonly flag is not persistent, and the epoch cache is trimmed
to the log (`ClearLatest(NextOffset)`, `ClearEarliest(OldestOffset)`). -/
def reopen (l : CLog) : CLog :=
  { l with readonly := false,
           epochs := (l.epochs.clearLatest l.nextOffset).clearEarliest l.oldest }

/-! ### Readers (non-blocking: read until the reader would wait) -/

/-- Sequential byte-walk from slot `k` of segment `i`, hopping with
`findSegmentByBaseOffset(segments, seg.BaseOffset+1)` at the end of each segment. -/
def drainFrom (segs : List Seg) (i k : Nat) : (fuel : Nat) → List Rec
  | 0 => []
  | fuel + 1 =>
    match segs[i]? with
    | none => []
    | some s =>
      s.recs.drop k ++
        (match findSegmentByBaseIdx segs (s.base + 1) with
         | none => []
         | some j => drainFrom segs j 0 fuel)

/-- `newReaderUncommitted(offset)` + reading to the end of the log. -/
def readUncommitted (l : CLog) (offset : Int) : Res (List Rec) :=
  match findSegmentIdx l.segs offset with
  | none => .err "segment-not-found"
  | some i =>
    match l.segs[i]? with
    | none => .err "segment-not-found"
    | some s =>
      if Gen.Log.containsCmp.evalInt s.base offset then
        match s.findEntryIdx offset with
        | none => .err "entry-not-found"
        | some k => .ok (drainFrom l.segs i k (l.segs.length + 1))
      else .ok (drainFrom l.segs i 0 (l.segs.length + 1))

/-- `getHWPos`: (segment index, slot *after* the HW entry). -/
def hwPos (segs : List Seg) (hw : Int) : Res (Nat × Nat) :=
  match findSegmentIdx segs hw with
  | none => .err "segment-not-found"
  | some i =>
    match segs[i]? with
    | none => .err "segment-not-found"
    | some s =>
      match s.findEntryIdx hw with
      | none => .err "entry-not-found"
      | some k =>
        -- the found entry is the first with offset >= hw; if the HW message itself is gone
        -- (retention), that entry is above the HW and not committed
        match s.recs[k]? with
        | some r => if Gen.Log.hwGoneCheck && r.offset > hw then .ok (i, k) else .ok (i, k + 1)
        | none => .ok (i, k + 1)

/-- Committed byte-walk: like `drainFrom`, but on the HW segment only up to the HW position, and
it stops there (the reader would wait for the HW). -/
def drainCommitted (segs : List Seg) (hwSeg hwSlot : Nat) (i k : Nat) : (fuel : Nat) → Res (List Rec)
  | 0 => .ok []
  | fuel + 1 =>
    match segs[i]? with
    | none => .ok []
    | some s =>
      if i = hwSeg then .ok ((s.recs.take hwSlot).drop k)
      else
        match findSegmentByBaseIdx segs (s.base + 1) with
        | none => .err "no-segment-to-consume"
        | some j => do
          let rest ← drainCommitted segs hwSeg hwSlot j 0 fuel
          .ok (s.recs.drop k ++ rest)

/-- `newReaderCommitted(offset)` + reading until the reader would wait, for `offset <= hw` on a
non-empty log (the parking branch is modelled in `Subscribe`). -/
def readCommitted (l : CLog) (offset : Int) : Res (List Rec) :=
  if Gen.Log.readerBeyondHWCmp.evalInt offset l.hw || l.oldest = -1 then .ok []      -- parks immediately
  else do
    let (hs, hk) ← (if l.hw ≠ -1 then hwPos l.segs l.hw else .ok (l.segs.length, 0))
    match findSegmentIdx l.segs offset with
    | none => .err "nil-segment"       -- Go: nil *segment deref in Read ⇒ modelled as error
    | some i =>
      match l.segs[i]? with
      | none => .err "nil-segment"
      | some s =>
        if Gen.Log.containsCmp.evalInt s.base offset then
          match s.findEntryIdx offset with
          | none => .err "entry-not-found"
          | some k => drainCommitted l.segs hs hk i k (l.segs.length + 1)
        else drainCommitted l.segs hs hk i 0 (l.segs.length + 1)

end CLog
end Liftbridge.Log
