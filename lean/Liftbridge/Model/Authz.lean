/-
C15 — authorisation skeletons of the gRPC handlers (server/api.go).

The handler bodies themselves are NOT written here: `Gen/Handlers.lean` is regenerated
from the syntax tree of api.go on every run and contains one `Stmt` per RPC method.
This file is the (small, fixed) semantics of those skeletons:

* `check res act onDeny` is `x := a.ensureAuthorizationPermission(ctx, res, act)` followed
  by `if x != nil { onDeny }`. When the policy allows, nothing happens. When it denies,
  `onDeny` runs and — exactly as in Go — execution CONTINUES after it unless `onDeny`
  itself returns / continues. A check whose result is not tested is `check r a skip`.
* `effect k` is a call that reaches one of the effect sinks (metadata mutation, NATS
  publish, subscription set-up/close, cursor access, delivery on the response stream);
  which calls were classified so is listed in `Gen.Handlers.effectCalls`.
* `report` is a refusal sent on the response stream (`sendPublishAsyncError`).
* conditions the model knows nothing about are nondeterministic: `ite t e` may take
  either branch, so `paths` enumerates every syntactic path (a may-analysis: an effect
  that is executed on SOME path is in `Outcome.effects`; `denied` needs EVERY path to
  end in a refusal).
* `loop forever body` stands for one generic iteration (every iteration of the
  publish loop handles one request and authorises it separately).
* `call body` is a call of another skeleton (PublishAsync → publishLoop): a `return`
  of the callee continues the caller.

The policy is an arbitrary predicate (casbin's `Enforce` is a parameter).
-/
namespace Liftbridge.Authz

abbrev Client := String
abbrev Res := String
abbrev Act := String
abbrev Policy := Client → Res → Act → Bool

/-- What a `return` hands back: the authorisation error, some other error, success, or
"the request stream ended" (`Recv` failed: there is no request to authorise). -/
inductive Ret where
  | auth | err | ok | noreq
  deriving DecidableEq, Repr

inductive Stmt where
  | skip
  | check (res : Res) (act : Act) (onDeny : Stmt)
  | effect (kind : String)
  | report
  | ret (r : Ret)
  | cont
  | seq (a b : Stmt)
  | ite (t e : Stmt)
  | loop (forever : Bool) (body : Stmt)
  | call (body : Stmt)
  deriving Repr

inductive Exit where
  | fall | cont | iterEnd | ret (r : Ret)
  deriving DecidableEq, Repr

/-- One syntactic path: the effects executed in order, whether a refusal was
communicated (an error returned or reported on the stream), whether the path is the
"no request arrived" exit of a streaming handler, and how the path left the statement. -/
structure Path where
  effects : List String
  refused : Bool
  noreq : Bool
  exit : Exit
  deriving DecidableEq, Repr

def Path.andThen (p q : Path) : Path :=
  ⟨p.effects ++ q.effects, p.refused || q.refused, p.noreq || q.noreq, q.exit⟩

def Path.pure (x : Exit) : Path := ⟨[], false, false, x⟩

/-- Exit of a loop iteration: falling off the end or `continue` ends the iteration. -/
def Path.endIter (forever : Bool) (p : Path) : Path :=
  match p.exit with
  | .fall | .cont => { p with exit := if forever then .iterEnd else .fall }
  | _ => p

/-- A `return` inside a called skeleton continues the caller. -/
def Path.endCall (p : Path) : Path :=
  match p.exit with
  | .ret _ => { p with exit := .fall }
  | _ => p

/-- All syntactic paths of a skeleton when `allow res act` answers the checks. -/
def paths (allow : Res → Act → Bool) : Stmt → List Path
  | .skip => [Path.pure .fall]
  | .check r a d => if allow r a then [Path.pure .fall] else paths allow d
  | .effect k => [⟨[k], false, false, .fall⟩]
  | .report => [⟨[], true, false, .fall⟩]
  | .ret r => [⟨[], r == .auth || r == .err, r == .noreq, .ret r⟩]
  | .cont => [Path.pure .cont]
  | .seq a b =>
    (paths allow a).flatMap fun p =>
      if p.exit = .fall then (paths allow b).map p.andThen else [p]
  | .ite t e => paths allow t ++ paths allow e
  | .loop forever b =>
    let it := (paths allow b).map (Path.endIter forever)
    if forever then it else Path.pure .fall :: it
  | .call b => (paths allow b).map Path.endCall

/-- Result of running a handler for one request: every effect that may have been
executed, and whether the request was refused on every path. -/
structure Outcome where
  effects : List String
  denied : Bool
  deriving DecidableEq, Repr

/-- A path is acceptable for a denied request iff it refused (or there was no request). -/
def Path.refusal (p : Path) : Bool := p.refused || p.noreq

def run (pol : Policy) (cl : Client) (s : Stmt) : Outcome :=
  let ps := paths (pol cl) s
  ⟨ps.flatMap (·.effects), ps.all Path.refusal⟩

/-- One RPC method. `act` is the action the documentation names for the method (the method
name; `Publish` for the async publish loop), `res` the resource expression of the first
check for that action, `"<none>"` if the body has no such check. -/
structure Handler where
  name : String
  res : Res
  act : Act
  body : Stmt
  deriving Repr

-- ---------------------------------------------------------------- decision procedure

/-- The (resource, action) pairs the skeleton asks the policy about. -/
def keys : Stmt → List (Res × Act)
  | .check r a d => (r, a) :: keys d
  | .seq a b => keys a ++ keys b
  | .ite t e => keys t ++ keys e
  | .loop _ b => keys b
  | .call b => keys b
  | _ => []

def denyAll : Res → Act → Bool := fun _ _ => false

/-- No effect and a refusal on every path. -/
def safeUnder (allow : Res → Act → Bool) (s : Stmt) : Bool :=
  (paths allow s).all fun p => p.effects.isEmpty && p.refusal

/-- Every check of the body asks about the handler's own (resource, action). -/
def Handler.onlyOwnKey (h : Handler) : Bool :=
  (keys h.body).all fun k => k.1 == h.res && k.2 == h.act

/-- The handler checks its own permission before anything else happens and stops on a
denial (decided syntactically: all checks are its own and the deny-all run is clean). -/
def Handler.checkedFirst (h : Handler) : Bool :=
  h.onlyOwnKey && safeUnder denyAll h.body

/-- The deny-all policy exhibits an effect or a non-refusal. -/
def Handler.violates (h : Handler) : Bool := !safeUnder denyAll h.body

-- ---------------------------------------------------------------- printing (driver)

def Ret.str : Ret → String
  | .auth => "auth" | .err => "err" | .ok => "ok" | .noreq => "noreq"

def Exit.str : Exit → String
  | .fall => "fall" | .cont => "cont" | .iterEnd => "iter" | .ret r => "ret-" ++ r.str

end Liftbridge.Authz
