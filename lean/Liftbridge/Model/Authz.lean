import Liftbridge.Cmp
/-
C15 — authorisation skeletons of the gRPC handlers (server/api.go).

The handler bodies themselves are NOT written here: `Gen/Handlers.lean` is regenerated
from the syntax tree of api.go on every run and contains one `Stmt` per RPC method.
This file is the (small, fixed) semantics of those skeletons:

* `check res act onDeny` is `x := a.ensureAuthorizationPermission(ctx, res, act)` followed
  by `if x != nil { onDeny }`. When the policy allows, nothing happens. When it denies,
  `onDeny` runs and — exactly as in Go — execution CONTINUES after it unless `onDeny`
  itself returns / continues. A check whose result is not tested is `check r a skip`.
* `effect k` is a call that reaches one of the effect sinks (metadata mutation, NATS
  publish, subscription set-up/close, cursor access, delivery on the response stream);
  which calls were classified so is listed in `Gen.Handlers.effectCalls`.
* `report` is a refusal sent on the response stream (`sendPublishAsyncError`).
* conditions the model knows nothing about are nondeterministic: `ite t e` may take
  either branch, so `paths` enumerates every syntactic path (a may-analysis: an effect
  that is executed on SOME path is in `Outcome.effects`; `denied` needs EVERY path to
  end in a refusal).
* `loop forever body` stands for one generic iteration (every iteration of the
  publish loop handles one request and authorises it separately).
* `call body` is a call of another skeleton (PublishAsync → publishLoop): a `return`
  of the callee continues the caller.

The policy is an arbitrary predicate (casbin's `Enforce` is a parameter).
-/
namespace Liftbridge.Authz

abbrev Client := String
abbrev Res := String
abbrev Act := String
abbrev Policy := Client → Res → Act → Bool

/-- What a `return` hands back: the authorisation error, some other error, success, or
"the request stream ended" (`Recv` failed: there is no request to authorise). -/
inductive Ret where
  | auth | err | ok | noreq
  deriving DecidableEq, Repr

inductive Stmt where
  | skip
  | check (res : Res) (act : Act) (onDeny : Stmt)
  | effect (kind : String)
  | report
  | ret (r : Ret)
  | cont
  | seq (a b : Stmt)
  | ite (t e : Stmt)
  | loop (forever : Bool) (body : Stmt)
  | call (body : Stmt)
  deriving Repr

inductive Exit where
  | fall | cont | iterEnd | ret (r : Ret)
  deriving DecidableEq, Repr

/-- One syntactic path: the effects executed in order, whether a refusal was
communicated (an error returned or reported on the stream), whether the path is the
"no request arrived" exit of a streaming handler, and how the path left the statement. -/
structure Path where
  effects : List String
  refused : Bool
  noreq : Bool
  exit : Exit
  deriving DecidableEq, Repr

def Path.andThen (p q : Path) : Path :=
  ⟨p.effects ++ q.effects, p.refused || q.refused, p.noreq || q.noreq, q.exit⟩

def Path.pure (x : Exit) : Path := ⟨[], false, false, x⟩

/-- Exit of a loop iteration: falling off the end or `continue` ends the iteration. -/
def Path.endIter (forever : Bool) (p : Path) : Path :=
  match p.exit with
  | .fall | .cont => { p with exit := if forever then .iterEnd else .fall }
  | _ => p

/-- A `return` inside a called skeleton continues the caller. -/
def Path.endCall (p : Path) : Path :=
  match p.exit with
  | .ret _ => { p with exit := .fall }
  | _ => p

/-- All syntactic paths of a skeleton when `allow res act` answers the checks. -/
def paths (allow : Res → Act → Bool) : Stmt → List Path
  | .skip => [Path.pure .fall]
  | .check r a d => if allow r a then [Path.pure .fall] else paths allow d
  | .effect k => [⟨[k], false, false, .fall⟩]
  | .report => [⟨[], true, false, .fall⟩]
  | .ret r => [⟨[], r == .auth || r == .err, r == .noreq, .ret r⟩]
  | .cont => [Path.pure .cont]
  | .seq a b =>
    (paths allow a).flatMap fun p =>
      if p.exit = .fall then (paths allow b).map p.andThen else [p]
  | .ite t e => paths allow t ++ paths allow e
  | .loop forever b =>
    let it := (paths allow b).map (Path.endIter forever)
    if forever then it else Path.pure .fall :: it
  | .call b => (paths allow b).map Path.endCall

/-- Result of running a handler for one request: every effect that may have been
executed, and whether the request was refused on every path. -/
structure Outcome where
  effects : List String
  denied : Bool
  deriving DecidableEq, Repr

/-- A path is acceptable for a denied request iff it refused (or there was no request). -/
def Path.refusal (p : Path) : Bool := p.refused || p.noreq

/-- Run a skeleton when the checks are answered by `allow` (whatever produces the answer:
the policy alone, or the whole of `ensureAuthorizationPermission`, see `DTree`). -/
def runWith (allow : Res → Act → Bool) (s : Stmt) : Outcome :=
  let ps := paths allow s
  ⟨ps.flatMap (·.effects), ps.all Path.refusal⟩

def run (pol : Policy) (cl : Client) (s : Stmt) : Outcome := runWith (pol cl) s

/-- One RPC method. `act` is the action the documentation names for the method (the method
name; `Publish` for the async publish loop), `res` the resource expression of the first
check for that action, `"<none>"` if the body has no such check. -/
structure Handler where
  name : String
  res : Res
  act : Act
  body : Stmt
  deriving Repr

-- ---------------------------------------------------------------- decision procedure

/-- The (resource, action) pairs the skeleton asks the policy about. -/
def keys : Stmt → List (Res × Act)
  | .check r a d => (r, a) :: keys d
  | .seq a b => keys a ++ keys b
  | .ite t e => keys t ++ keys e
  | .loop _ b => keys b
  | .call b => keys b
  | _ => []

def denyAll : Res → Act → Bool := fun _ _ => false

/-- No effect and a refusal on every path. -/
def safeUnder (allow : Res → Act → Bool) (s : Stmt) : Bool :=
  (paths allow s).all fun p => p.effects.isEmpty && p.refusal

/-- Every check of the body asks about the handler's own (resource, action). -/
def Handler.onlyOwnKey (h : Handler) : Bool :=
  (keys h.body).all fun k => k.1 == h.res && k.2 == h.act

/-- The handler checks its own permission before anything else happens and stops on a
denial (decided syntactically: all checks are its own and the deny-all run is clean). -/
def Handler.checkedFirst (h : Handler) : Bool :=
  h.onlyOwnKey && safeUnder denyAll h.body

/-- The deny-all policy exhibits an effect or a non-refusal. -/
def Handler.violates (h : Handler) : Bool := !safeUnder denyAll h.body

-- ---------------------------------------------------------------- the check itself

/-
`ensureAuthorizationPermission` as a decision tree, REGENERATED from its syntax tree
(`Gen.Handlers.ensureDecision`): every `if` of the function is an `ite` over one of the
conditions below, every `return` a leaf. Nothing of the tree is written by hand; a
flipped, added or removed early `return nil` changes the tree and with it the theorems
`no_identity_never_allowed` / `allowed_iff_policy_entry` of Props/C15.lean.
-/

/-- What the function sees: the configuration switch, the value stored in the context
under the client-id key (`none`: no value at all, or not a string — the `, ok` of the type
assertion is false), and what `enforcePolicy` answers for (that id, resource, action). -/
structure DIn where
  enabled : Bool
  ident : Option String
  enfErr : Bool
  enfOk : Bool
  deriving Repr

inductive DCond where
  /-- `a.config.TLSClientAuthz` -/
  | enabled
  /-- the `ok` of `ctx.Value(key).(string)` -/
  | hasID
  /-- `clientID <op> ""` (equivalently `len(clientID) <op> 0`); an absent value reads as "" -/
  | idVsEmpty (c : Cmp)
  /-- `err != nil` for the error of `enforcePolicy` -/
  | enfErr
  /-- the boolean of `enforcePolicy` -/
  | enfOk
  deriving DecidableEq, Repr

inductive DOut where
  | allow
  | refuse (why : String)
  deriving DecidableEq, Repr

inductive DTree where
  | ret (o : DOut)
  | ite (c : DCond) (t e : DTree)
  /-- a statement the extractor could not classify (also reported as a lost decision point);
  evaluates to `allow` so that no theorem can rest on it -/
  | lost
  deriving Repr

def DCond.eval (i : DIn) : DCond → Bool
  | .enabled => i.enabled
  | .hasID => i.ident.isSome
  | .idVsEmpty c => c.evalNat (i.ident.getD "").length 0
  | .enfErr => i.enfErr
  | .enfOk => i.enfOk

def DTree.eval (i : DIn) : DTree → DOut
  | .ret o => o
  | .ite c t e => if c.eval i then t.eval i else e.eval i
  | .lost => .allow

def DOut.isAllow : DOut → Bool
  | .allow => true
  | .refuse _ => false

/-- The same evaluation over the five bits the tree can depend on (the identity only
matters through "is there one" and "is it non-empty"); `DTree.eval_bits` in
Proofs/Authz.lean shows the two agree, which makes statements about ALL identities
decidable by enumeration of 32 cases. -/
def DCond.evalB (en hasId nonEmpty ee eo : Bool) : DCond → Bool
  | .enabled => en
  | .hasID => hasId
  | .idVsEmpty c => c.evalNat (if hasId && nonEmpty then 1 else 0) 0
  | .enfErr => ee
  | .enfOk => eo

def DTree.evalB (en hasId nonEmpty ee eo : Bool) : DTree → DOut
  | .ret o => o
  | .ite c t e => if c.evalB en hasId nonEmpty ee eo then t.evalB en hasId nonEmpty ee eo
                  else e.evalB en hasId nonEmpty ee eo
  | .lost => .allow

-- ---------------------------------------------------------------- sessions (per-message loops)

/-- One request of a streaming session: the stream it names and the policy in force at the
moment the loop processes it (a reload between two messages gives them different policies). -/
structure Msg where
  stream : Res
  pol : Policy

/-- The answers the checks of ONE iteration get: the loop's resource expression
(`req.Stream`) denotes the stream of the message of that iteration. -/
def Msg.allow (resExpr : Res) (cl : Client) (m : Msg) : Res → Act → Bool :=
  fun r a => m.pol cl (if r == resExpr then m.stream else r) a

/-- What the loop did for one message: its position in the session, the effects executed
for it and whether it was answered by a refusal. -/
structure Did where
  idx : Nat
  effects : List String
  refused : Bool
  deriving DecidableEq, Repr

/-- Every execution of a per-message loop with body `body` over the messages of ONE session
(unbounded list): each message runs one syntactic path of the body under the policy in
force for it; a `return` ends the session, anything else goes on with the next message. -/
def sessions (resExpr : Res) (cl : Client) (body : Stmt) : Nat → List Msg → List (List Did)
  | _, [] => [[]]
  | i, m :: ms =>
    (paths (m.allow resExpr cl) body).flatMap fun p =>
      let d : Did := ⟨i, p.effects, p.refusal⟩
      match p.exit with
      | .ret _ => [[d]]
      | _ => (sessions resExpr cl body (i + 1) ms).map (d :: ·)

-- ---------------------------------------------------------------- shape of a per-message loop

/-- no effect anywhere inside -/
def effectFree : Stmt → Bool
  | .effect _ => false
  | .check _ _ d => effectFree d
  | .seq a b => effectFree a && effectFree b
  | .ite t e => effectFree t && effectFree e
  | .loop _ b => effectFree b
  | .call b => effectFree b
  | _ => true

/-- no check anywhere inside -/
def checkFree (s : Stmt) : Bool := (keys s).isEmpty

/-- The authorisation call of a loop body is executed UNCONDITIONALLY for every received
message before any effect: walking the statement sequence of the body, everything before
the first statement-level `check res act` is free of effects and of checks (so the check is
not nested under any condition and nothing precedes it but the `Recv` error test), and its
denial branch has no effect and never falls through to the rest of the body (`continue` /
`return` on every path). -/
def spineGuard (res : Res) (act : Act) : Stmt → Bool
  | .check r a d =>
    r == res && a == act && effectFree d && (paths denyAll d).all (fun p => p.exit != .fall && p.refusal)
  | .seq (.check r a d) _ =>
    r == res && a == act && effectFree d && (paths denyAll d).all (fun p => p.exit != .fall && p.refusal)
  | .seq a b => effectFree a && checkFree a && spineGuard res act b
  | _ => false

-- ---------------------------------------------------------------- printing (driver)

def Ret.str : Ret → String
  | .auth => "auth" | .err => "err" | .ok => "ok" | .noreq => "noreq"

def Exit.str : Exit → String
  | .fall => "fall" | .cont => "cont" | .iterEnd => "iter" | .ret r => "ret-" ++ r.str

end Liftbridge.Authz
