/-
Model of the cluster-metadata state machine (C06): server/fsm.go (`Server.apply`, `Snapshot`,
`Restore`, `finishedRecovery`), the mutators of server/metadata.go they call, and the metadata-level
part of server/stream.go, server/partition.go and server/groups.go — AS THE CODE IS.

Go state                                           model
----------------------------------------------------------------------------------------------------
metadataAPI.streams (name ↦ *stream)               `State.streams : List Stream` — a Go map; the list
                                                     order is a GHOST (insertion order): nothing in
                                                     the model depends on it except list equality,
                                                     the driver prints sorted by name
stream.{name,subject,creationTime,tombstone,       `Stream` (config is immutable and not modelled)
        resumeAll,partitions}
partition.replicas / proto Replicas                `Part.replicas` (never mutated after creation)
partition.isr (map) / proto Isr (list)             `Part.isr` (RemoveFromISR/AddToISR rewrite the
                                                     protobuf list from the map in the same critical
                                                     section; newPartition builds the map from the
                                                     list; the harness checks they agree as sets)
proto Leader / LeaderEpoch / Epoch                 `Part.leader/leaderEpoch/epoch` (only on the proto)
partition.paused  (run-time flag)                  `Part.paused`
proto Paused      (what Snapshot marshals and      `Part.protoPaused`
                   FetchMetadata reports)
commitLog.readonly (run-time flag, `IsReadonly`)   `Part.readonly`
proto Readonly    (snapshot / FetchMetadata)       `Part.protoReadonly`
partition.recovered                                `Part.recovered`
metadataAPI.consumerGroups                         `State.groups : List Group`
consumerGroup.{id,coordinator,epoch,recovered}     `Group.*`
consumerGroup.members[id].streams                  `Group.members : List (id × sorted stream set)`
keys of consumerGroup.subscribers                  `Group.subKeys` — `StreamDeleted` bumps the epoch
                                                     iff the stream HAS A HEAP, also an empty one
<data>/streams/<name> directories                  `State.disk`
activityManager.lastPublishedRaftIndex             `State.lastPublished` (not in the snapshot: C18)

The partition ASSIGNMENTS of a consumer group (Model/Groups.lean, property C12) do not influence any
of these fields and are not part of this model; `Proofs/MetadataGroups.lean` shows that the group
component used here is the projection of the C12 model.

`group.StreamDeleted` is called from a goroutine (`removeStream`); the model delivers it in log order
(the harness waits for the server's goroutines after every op).  The racing schedule is the known
finding `group-streamdeleted-dropped` of C12.

Four behavioural switches are read off the source by the extractor (`Cfg.current`), so that the model
follows the code before and after the proposed repairs:
  * `clearPaused`       — does `ResumePartition` clear the protobuf `Paused` flag?
  * `restoreReadonly`   — does `newPartition` put the commit log in read-only mode when the protobuf
                          `Readonly` flag is set?
  * `notifyOnTombstone` — does `RemoveStream` tell the consumer groups also when it only tombstones
                          (fixes/C12-streamdeleted-sync.diff)?
  * `emptyHeapNoEpoch`  — does `StreamDeleted` leave the epoch alone when the stream's subscriber heap
                          is empty (fixes/C06-group-epoch-empty-heap.diff)?
-/
import Liftbridge.Base
import Liftbridge.Cmp
import Liftbridge.Model.Groups
import Liftbridge.Gen.Metadata
import Liftbridge.Gen.Groups

namespace Liftbridge.Metadata
open Liftbridge

structure Cfg where
  clearPaused : Bool
  restoreReadonly : Bool
  notifyOnTombstone : Bool
  emptyHeapNoEpoch : Bool
  deriving DecidableEq, Repr

/-- The code as found (commit c0b4142). -/
def Cfg.asFound : Cfg := ⟨false, false, false, false⟩
/-- The code with fixes/C06-clear-paused.diff and fixes/C06-restore-readonly.diff. -/
def Cfg.repaired : Cfg := ⟨true, true, false, false⟩
/-- … and with fixes/C12-streamdeleted-sync.diff and fixes/C06-group-epoch-empty-heap.diff. -/
def Cfg.allRepaired : Cfg := ⟨true, true, true, true⟩
/-- What the working tree does now (regenerated). -/
def Cfg.current : Cfg :=
  ⟨Gen.Metadata.resumeClearsProtoPaused, Gen.Metadata.newPartitionRestoresReadonly,
   Gen.Metadata.tombstoneNotifiesGroups, Gen.Metadata.emptyHeapKeepsEpoch⟩

/-! ### protobuf messages (the modelled fields) -/

/-- `proto.Partition`. -/
structure PartP where
  id : Nat
  replicas : List String
  isr : List String
  leader : String
  leaderEpoch : Nat := 0
  epoch : Nat := 0
  paused : Bool := false
  readonly : Bool := false
  deriving DecidableEq, Repr

/-- `proto.Stream`. -/
structure StreamP where
  name : String
  subject : String
  ctime : Nat
  parts : List PartP
  deriving DecidableEq, Repr

/-- `proto.ConsumerGroup` with its `proto.Consumer`s. -/
structure GroupP where
  id : String
  coordinator : String
  epoch : Nat
  members : List (String × List String)
  deriving DecidableEq, Repr

/-- `proto.MetadataSnapshot`. -/
structure Snap where
  streams : List StreamP
  groups : List GroupP
  deriving DecidableEq, Repr

/-! ### run-time state -/

structure Part where
  id : Nat
  replicas : List String
  isr : List String
  leader : String
  leaderEpoch : Nat
  epoch : Nat
  paused : Bool
  protoPaused : Bool
  readonly : Bool
  protoReadonly : Bool
  recovered : Bool
  deriving DecidableEq, Repr

structure Stream where
  name : String
  subject : String
  ctime : Nat
  tombstone : Bool
  resumeAll : Bool
  parts : List Part
  deriving DecidableEq, Repr

abbrev Member := String × List String

structure Group where
  id : String
  coordinator : String
  epoch : Nat
  members : List Member
  subKeys : List String
  recovered : Bool
  deriving DecidableEq, Repr

structure State where
  streams : List Stream := []
  groups : List Group := []
  disk : List String := []
  lastPublished : Nat := 0
  deriving DecidableEq, Repr

def init : State := {}

inductive Op where
  | create (sp : StreamP)
  | delete (name : String)
  | pause (name : String) (ids : List Nat) (resumeAll : Bool)
  | resume (name : String) (ids : List Nat)
  | readonly (name : String) (ids : List Nat) (ro : Bool)
  | shrink (name : String) (pid : Nat) (replica : String)
  | expand (name : String) (pid : Nat) (replica : String)
  | leader (name : String) (pid : Nat) (leader : String)
  | group (gp : GroupP)
  | join (gid cid : String) (streams : List String)
  | leave (gid cid : String)
  | coord (gid coordinator : String)
  | activity (n : Nat)
  | unknown
  deriving DecidableEq, Repr

/-! ### lookups -/

def findStream (ss : List Stream) (n : String) : Option Stream := ss.find? (·.name = n)
def hasStream (s : State) (n : String) : Bool := s.streams.any (·.name = n)
def findPart (ps : List Part) (id : Nat) : Option Part := ps.find? (·.id = id)
def findGroup (gs : List Group) (id : String) : Option Group := gs.find? (·.id = id)
def hasGroup (s : State) (id : String) : Bool := s.groups.any (·.id = id)
def isMember (g : Group) (cid : String) : Bool := g.members.any (·.1 = cid)

def hasPart (s : State) (n : String) (id : Nat) : Bool :=
  match findStream s.streams n with
  | some st => st.parts.any (·.id = id)
  | none => false

/-- `m.GetPartition(stream, id)`. -/
def getPart (s : State) (n : String) (id : Nat) : Option Part :=
  match findStream s.streams n with
  | some st => findPart st.parts id
  | none => none

def updStream (ss : List Stream) (n : String) (f : Stream → Stream) : List Stream :=
  ss.map fun st => if st.name = n then f st else st

def updParts (ps : List Part) (sel : Part → Bool) (f : Part → Part) : List Part :=
  ps.map fun p => if sel p then f p else p

def updGroup (gs : List Group) (id : String) (f : Group → Group) : List Group :=
  gs.map fun g => if g.id = id then f g else g

/-- `len(partitions) == 0` means all partitions (`stream.Pause`, `stream.SetReadonly`). -/
def selIds (ids : List Nat) (p : Part) : Bool := ids.isEmpty || ids.contains p.id

/-! ### partitions -/

/-- `newPartition` followed by the re-pause of `addPartition` (`if protoPartition.Paused`) and the
`SetLeader(leader, epoch)` with the partition's own values (which changes nothing). -/
def mkPart (cfg : Cfg) (pp : PartP) (recovered : Bool) : Part :=
  { id := pp.id, replicas := pp.replicas, isr := pp.isr, leader := pp.leader,
    leaderEpoch := pp.leaderEpoch, epoch := pp.epoch,
    paused := pp.paused, protoPaused := pp.paused,
    readonly := cfg.restoreReadonly && pp.readonly, protoReadonly := pp.readonly,
    recovered := recovered }

def mkStream (cfg : Cfg) (sp : StreamP) (recovered : Bool) : Stream :=
  { name := sp.name, subject := sp.subject, ctime := sp.ctime, tombstone := false, resumeAll := false,
    parts := sp.parts.map (mkPart cfg · recovered) }

/-- `partition.Pause`. -/
def pausePart (p : Part) : Part := { p with paused := true, protoPaused := true }

/-- `ResumePartition` on a paused partition: `replacePartition` builds a new partition (new commit
log) around the SAME protobuf object. -/
def resumePart (cfg : Cfg) (recovered : Bool) (p : Part) : Part :=
  { p with paused := false,
           protoPaused := if cfg.clearPaused then false else p.protoPaused,
           readonly := cfg.restoreReadonly && p.protoReadonly,
           recovered := recovered }

/-- `partition.SetReadonly`. -/
def roPart (ro : Bool) (p : Part) : Part := { p with readonly := ro, protoReadonly := ro }

/-- Idempotency checks `partition.GetEpoch() >= epoch` of RemoveFromISR / AddToISR / ChangeLeader. -/
def staleShrink (p : Part) (idx : Nat) : Bool := Gen.Metadata.shrinkEpochGuard.evalNat p.epoch idx
def staleExpand (p : Part) (idx : Nat) : Bool := Gen.Metadata.expandEpochGuard.evalNat p.epoch idx
def staleLeader (p : Part) (idx : Nat) : Bool := Gen.Metadata.leaderEpochGuard.evalNat p.epoch idx
/-- `epoch < p.LeaderEpoch` of `partition.SetLeader`. -/
def leaderRefused (p : Part) (idx : Nat) : Bool := Gen.Metadata.setLeaderGuard.evalNat idx p.leaderEpoch

def shrinkPart (r : String) (idx : Nat) (p : Part) : Part :=
  if staleShrink p idx then p else { p with isr := p.isr.filter (· ≠ r), epoch := idx }

def expandPart (r : String) (idx : Nat) (p : Part) : Part :=
  if staleExpand p idx then p else { p with isr := if p.isr.contains r then p.isr else p.isr ++ [r], epoch := idx }

def leaderPart (l : String) (idx : Nat) (p : Part) : Part :=
  if staleLeader p idx then p else { p with leader := l, leaderEpoch := idx, epoch := idx }

/-! ### consumer groups -/

/-- Does any member subscribe to the stream (is its subscriber heap non-empty)? -/
def subscribed (g : Group) (name : String) : Bool := g.members.any (fun m => m.2.contains name)

/-- `group.StreamDeleted(stream, epoch)`; its error (stale epoch) is dropped by the caller. -/
def notifyGroup (cfg : Cfg) (name : String) (e : Nat) (g : Group) : Group :=
  if Gen.Groups.epochDeletedCmp.evalNat e g.epoch then g
  else if g.subKeys.contains name then
    if cfg.emptyHeapNoEpoch && !subscribed g name then { g with subKeys := g.subKeys.filter (· ≠ name) }
    else
      { g with members := g.members.map (fun m => (m.1, m.2.filter (· ≠ name))),
               subKeys := g.subKeys.filter (· ≠ name), epoch := e }
  else g

/-- The body of the goroutine of `removeStream`. -/
def notifyDeleted (cfg : Cfg) (gs : List Group) (name : String) (e : Nat) : List Group :=
  gs.map (notifyGroup cfg name e)

def unionKeys (keys ss : List String) : List String :=
  ss.foldl (fun k x => if k.contains x then k else k ++ [x]) keys

/-- `c.members[consumerID] = cons` (a Go map assignment). -/
def upsertMember (ms : List Member) (id : String) (ss : List String) : List Member :=
  if ms.any (·.1 = id) then ms.map (fun m => if m.1 = id then (id, ss) else m) else ms ++ [(id, ss)]

/-- `consumerGroup.addMember` without the assignments. -/
def addMember (g : Group) (m : Member) : Group :=
  let ss := Groups.sortDedup m.2
  { g with members := upsertMember g.members m.1 ss, subKeys := unionKeys g.subKeys ss }

/-- `newConsumerGroup`. -/
def mkGroup (gp : GroupP) (recovered : Bool) : Group :=
  gp.members.foldl addMember
    { id := gp.id, coordinator := gp.coordinator, epoch := gp.epoch, members := [], subKeys := [], recovered := recovered }

/-! ### the operations -/

/-- `apply` for CREATE_STREAM: "Make sure to set the leader epoch on the partitions". -/
def stamp (sp : StreamP) (idx : Nat) : StreamP :=
  { sp with parts := sp.parts.map fun p => { p with leaderEpoch := idx, epoch := idx } }

/-- `AddStream`: the error cases. -/
def addStreamErr (s : State) (sp : StreamP) (recovered : Bool) : Option String :=
  if sp.parts.isEmpty then some "no-partitions"
  else
    let dup : Option String := if (sp.parts.map (·.id)).Nodup then none else some "partition-exists"
    match findStream s.streams sp.name with
    | some ex => if !recovered || !ex.tombstone then some "stream-exists" else dup
    | none => dup

/-- `AddStream` when it succeeds: an existing (tombstoned) stream of that name is closed and removed
from the store (`removeStream` → the groups are told, the data stays), the new stream is built
(`commitlog.New` creates the directories). -/
def addStream (cfg : Cfg) (s : State) (sp : StreamP) (recovered : Bool) (epoch : Nat) : State :=
  let existed := hasStream s sp.name
  { s with
    streams := s.streams.filter (·.name ≠ sp.name) ++ [mkStream cfg sp recovered],
    groups := if existed then notifyDeleted cfg s.groups sp.name epoch else s.groups,
    disk := if s.disk.contains sp.name then s.disk else s.disk ++ [sp.name] }

/-- `AddConsumerGroup`. -/
def addGroup (s : State) (gp : GroupP) (recovered : Bool) : State :=
  { s with groups := s.groups ++ [mkGroup gp recovered] }

/-- The error (if any) `Server.apply` returns; `Server.Apply` panics on it. -/
def applyErr (s : State) (op : Op) (idx : Nat) (recovered : Bool) : Option String :=
  match op with
  | .create sp => addStreamErr s sp recovered
  | .delete n => if hasStream s n then none else some "stream-not-found"
  | .pause n ids _ | .readonly n ids _ | .resume n ids =>
    if !hasStream s n then some "stream-not-found"
    else if ids.all (hasPart s n) then none else some "partition-not-found"
  | .shrink n pid r =>
    match getPart s n pid with
    | none => some "no-partition"
    | some p => if staleShrink p idx then none else if p.replicas.contains r then none else some "not-replica"
  | .expand n pid r =>
    match getPart s n pid with
    | none => some "no-partition"
    | some p => if staleExpand p idx then none else if p.replicas.contains r then none else some "not-replica"
  | .leader n pid _ =>
    match getPart s n pid with
    | none => some "no-partition"
    | some p => if staleLeader p idx then none else if leaderRefused p idx then some "leader-epoch" else none
  | .group gp => if hasGroup s gp.id then some "group-exists" else none
  | .join gid _ _ =>
    match findGroup s.groups gid with
    | none => some "group-not-found"
    | some g => if Gen.Groups.epochAddCmp.evalNat idx g.epoch then some "group-epoch" else none
  | .leave gid cid =>
    match findGroup s.groups gid with
    | none => some "group-not-found"
    | some g =>
      if Gen.Groups.epochRemoveCmp.evalNat idx g.epoch then some "group-epoch"
      else if isMember g cid then none else some "not-member"
  | .coord gid _ =>
    match findGroup s.groups gid with
    | none => some "no-group"
    | some g =>
      if Gen.Metadata.coordEpochGuard.evalNat g.epoch idx then none
      else if Gen.Metadata.setCoordinatorGuard.evalNat idx g.epoch then some "group-epoch" else none
  | .activity _ => none
  | .unknown => some "unknown-op"

/-- `RemoveConsumerFromGroup`: the group is deleted with its last member. -/
def leaveGroup (gs : List Group) (gid cid : String) (idx : Nat) : List Group :=
  (updGroup gs gid fun g => { g with members := g.members.filter (·.1 ≠ cid), epoch := idx }).filter
    fun g => !(g.id = gid && g.members.isEmpty)

/-- The state after `Server.apply(log, idx, recovered)` when it returns no error. -/
def applyOp (cfg : Cfg) (s : State) (op : Op) (idx : Nat) (recovered : Bool) : State :=
  match op with
  | .create sp => addStream cfg s (stamp sp idx) recovered idx
  | .delete n =>
    if recovered then
      { s with streams := updStream s.streams n fun st => { st with tombstone := true },
               groups := if cfg.notifyOnTombstone then notifyDeleted cfg s.groups n idx else s.groups }
    else { s with streams := s.streams.filter (·.name ≠ n),
                  disk := s.disk.filter (· ≠ n),
                  groups := notifyDeleted cfg s.groups n idx }
  | .pause n ids ra =>
    { s with streams := updStream s.streams n fun st =>
        { st with parts := updParts st.parts (selIds ids) pausePart, resumeAll := ra } }
  | .resume n ids =>
    { s with streams := updStream s.streams n fun st =>
        { st with parts := updParts st.parts (fun p => ids.contains p.id && p.paused) (resumePart cfg recovered) } }
  | .readonly n ids ro =>
    { s with streams := updStream s.streams n fun st =>
        { st with parts := updParts st.parts (selIds ids) (roPart ro) } }
  | .shrink n pid r =>
    { s with streams := updStream s.streams n fun st =>
        { st with parts := updParts st.parts (·.id = pid) (shrinkPart r idx) } }
  | .expand n pid r =>
    { s with streams := updStream s.streams n fun st =>
        { st with parts := updParts st.parts (·.id = pid) (expandPart r idx) } }
  | .leader n pid l =>
    { s with streams := updStream s.streams n fun st =>
        { st with parts := updParts st.parts (·.id = pid) (leaderPart l idx) } }
  | .group gp => addGroup s gp recovered
  | .join gid cid ss =>
    { s with groups := updGroup s.groups gid fun g => { addMember g (cid, ss) with epoch := idx } }
  | .leave gid cid => { s with groups := leaveGroup s.groups gid cid idx }
  | .coord gid c =>
    { s with groups := updGroup s.groups gid fun g =>
        if Gen.Metadata.coordEpochGuard.evalNat g.epoch idx then g else { g with coordinator := c, epoch := idx } }
  | .activity n => { s with lastPublished := n }
  | .unknown => s

/-- `Server.apply`. -/
def apply (cfg : Cfg) (s : State) (op : Op) (idx : Nat) (recovered : Bool) : Res State :=
  match applyErr s op idx recovered with
  | some e => .err e
  | none => .ok (applyOp cfg s op idx recovered)

/-! ### snapshot / restore / end of recovery -/

/-- What `Snapshot` puts into the protobuf of a partition: `partition.Partition` itself. -/
def snapPart (p : Part) : PartP :=
  { id := p.id, replicas := p.replicas, isr := p.isr, leader := p.leader, leaderEpoch := p.leaderEpoch,
    epoch := p.epoch, paused := p.protoPaused, readonly := p.protoReadonly }

def snapStream (st : Stream) : StreamP :=
  { name := st.name, subject := st.subject, ctime := st.ctime, parts := st.parts.map snapPart }

def snapGroup (g : Group) : GroupP :=
  { id := g.id, coordinator := g.coordinator, epoch := g.epoch, members := g.members }

/-- `Server.Snapshot` (+ `Persist`, `Unmarshal`: protobuf round trip assumed exact). -/
def snapshot (s : State) : Snap :=
  { streams := s.streams.map snapStream, groups := s.groups.map snapGroup }

/-- `Server.Restore` on a server whose disk is `s.disk`: `metadata.Reset()`, then every stream of the
snapshot through `applyCreateStream(stream, recovered = true, epoch 0)`, every group through
`applyCreateConsumerGroup(group, recovered = true)`. -/
def restore (cfg : Cfg) (s : State) (snap : Snap) : State :=
  let s0 : State := { s with streams := [], groups := [] }
  let s1 := snap.streams.foldl (fun s sp => addStream cfg s sp true 0) s0
  snap.groups.foldl (fun s gp => addGroup s gp true) s1

/-- `metadataAPI.Reset` as the code has it: a field of the store is emptied iff Reset re-makes it
(regenerated list `Gen.Metadata.resetClears`); a consumer group that stays registered has been
`Close()`d, which empties its member set. -/
def resetState (s : State) : State :=
  { s with
    streams := if "m.streams" ∈ Gen.Metadata.resetClears then [] else s.streams,
    groups := if "m.consumerGroups" ∈ Gen.Metadata.resetClears then [] else s.groups.map ({ · with members := [] }) }

/-- `Server.Restore` on a RUNNING server in state `s` (a snapshot installed on a lagging follower):
`Reset()` as the code has it, then the snapshot's streams and groups are re-added. -/
def install (cfg : Cfg) (s : State) (snap : Snap) : State :=
  let s1 := snap.streams.foldl (fun s sp => addStream cfg s sp true 0) (resetState s)
  snap.groups.foldl (fun s gp => addGroup s gp true) s1

/-- `applyCreateConsumerGroup` refuses an id that is still registered: the first error of an install. -/
def installErr (s : State) (snap : Snap) : Option String :=
  if snap.groups.any (fun gp => (resetState s).groups.any (·.id == gp.id)) then some "group-exists" else none

/-- The first error `Restore` would return. -/
def restoreErr (snap : Snap) : Option String :=
  let go := snap.streams.foldl (fun (acc : State × Option String) sp =>
    match acc.2 with
    | some e => (acc.1, some e)
    | none => match addStreamErr acc.1 sp true with
      | some e => (acc.1, some e)
      | none => (addStream Cfg.asFound acc.1 sp true 0, none)) (({} : State), none)
  match go.2 with
  | some e => some e
  | none => if (snap.groups.map (·.id)).Nodup then none else some "group-exists"

/-- `partition.StartRecovered` (a paused partition stays in recovery mode). -/
def finishPart (p : Part) : Part := if p.recovered && !p.paused then { p with recovered := false } else p

def tombNames (s : State) : List String := (s.streams.filter (·.tombstone)).map (·.name)

/-- `finishedRecovery(epoch)`: tombstoned streams are deleted (data directory included, groups told
with `epoch`), recovered partitions and groups are started. -/
def finish (cfg : Cfg) (s : State) (epoch : Nat) : State :=
  let tomb := tombNames s
  { s with
    streams := (s.streams.filter (!·.tombstone)).map fun st => { st with parts := st.parts.map finishPart },
    groups := (tomb.foldl (fun gs n => notifyDeleted cfg gs n epoch) s.groups).map ({ · with recovered := false }),
    disk := s.disk.filter (!tomb.contains ·) }

/-! ### propose-time checks -/

/-- What the metadata leader checks under the Raft barrier before it proposes an op
(`checkXxxPreconditions` in metadata.go) together with what the proposers guarantee by construction:
partition ids of a new stream are distinct and not flagged (api.go numbers them 0..n-1), the replica
of an ISR change is a replica (the partition leader takes it from its replicator set), a new group
has distinct members and epoch 0 (`createConsumerGroup`). -/
def pre (s : State) : Op → Bool
  | .create sp =>
    !sp.parts.isEmpty && decide (sp.parts.map (·.id)).Nodup && sp.parts.all (fun p => !p.paused && !p.readonly) &&
      !hasStream s sp.name
  | .delete n => hasStream s n
  | .pause n ids _ => hasStream s n && ids.all (hasPart s n)
  | .resume n ids => hasStream s n && ids.all (hasPart s n)
  | .readonly n ids _ => hasStream s n && ids.all (hasPart s n)
  | .shrink n pid r => match getPart s n pid with | some p => p.replicas.contains r | none => false
  | .expand n pid r => match getPart s n pid with | some p => p.replicas.contains r | none => false
  | .leader n pid _ => hasPart s n pid
  | .group gp =>
    !hasGroup s gp.id && gp.epoch == 0 && decide (gp.members.map (·.1)).Nodup &&
      gp.members.all (fun m => m.2.all (hasStream s))
  | .join gid cid ss =>
    match findGroup s.groups gid with
    | some g => !isMember g cid && ss.all (hasStream s)
    | none => false
  | .leave gid cid => match findGroup s.groups gid with | some g => isMember g cid | none => false
  | .coord gid _ => hasGroup s gid
  | .activity _ => true
  | .unknown => false

/-! ### histories -/

/-- Apply `ops` with the Raft indices `i+1, i+2, …`. -/
def runFrom (cfg : Cfg) (recovered : Bool) : State → Nat → List Op → State
  | s, _, [] => s
  | s, i, op :: ops => runFrom cfg recovered (applyOp cfg s op (i + 1) recovered) (i + 1) ops

/-- The live server: every op applied as a newly committed entry. -/
def run (cfg : Cfg) (ops : List Op) : State := runFrom cfg false init 0 ops

/-- Every op passes the propose-time checks in the state of the live server it is proposed in. -/
def ValidFrom (cfg : Cfg) : State → Nat → List Op → Prop
  | _, _, [] => True
  | s, i, op :: ops => pre s op = true ∧ ValidFrom cfg (applyOp cfg s op (i + 1) false) (i + 1) ops

def Valid (cfg : Cfg) (ops : List Op) : Prop := ValidFrom cfg init 0 ops

def decValidFrom (cfg : Cfg) : (ops : List Op) → (s : State) → (i : Nat) → Decidable (ValidFrom cfg s i ops)
  | [], _, _ => isTrue trivial
  | op :: ops, s, i =>
    match decEq (pre s op) true, decValidFrom cfg ops (applyOp cfg s op (i + 1) false) (i + 1) with
    | isTrue h1, isTrue h2 => isTrue ⟨h1, h2⟩
    | isFalse h1, _ => isFalse fun h => h1 h.1
    | _, isFalse h2 => isFalse fun h => h2 h.2

instance (cfg : Cfg) (s : State) (i : Nat) (ops : List Op) : Decidable (ValidFrom cfg s i ops) := decValidFrom cfg ops s i
instance (cfg : Cfg) (ops : List Op) : Decidable (Valid cfg ops) := decValidFrom cfg ops init 0

/-- A server that crashed with `disk` on disk, restarts from the snapshot of `snapAt` (taken after
`k` ops), replays `suffix` (indices `k+1 …`) in recovery mode and finishes recovery at the last index. -/
def replay (cfg : Cfg) (snapAt : State) (disk : List String) (k : Nat) (suffix : List Op) : State :=
  finish cfg (runFrom cfg true (restore cfg { disk := disk } (snapshot snapAt)) k suffix) (k + suffix.length)

/-! ### observable metadata -/

structure PartObs where
  id : Nat
  replicas : List String
  isr : List String
  leader : String
  leaderEpoch : Nat
  epoch : Nat
  paused : Bool          -- `IsPaused()`
  reportedPaused : Bool  -- what FetchMetadata says
  readonly : Bool        -- `IsReadonly()`
  reportedReadonly : Bool
  deriving DecidableEq, Repr

structure StreamObs where
  name : String
  subject : String
  ctime : Nat
  parts : List PartObs
  deriving DecidableEq, Repr

structure GroupObs where
  id : String
  coordinator : String
  epoch : Nat
  members : List Member
  deriving DecidableEq, Repr

structure Obs where
  streams : List StreamObs
  groups : List GroupObs
  deriving DecidableEq, Repr

def obsPart (p : Part) : PartObs :=
  { id := p.id, replicas := p.replicas, isr := p.isr, leader := p.leader, leaderEpoch := p.leaderEpoch,
    epoch := p.epoch, paused := p.paused, reportedPaused := p.protoPaused, readonly := p.readonly,
    reportedReadonly := p.protoReadonly }

def obsStream (st : Stream) : StreamObs :=
  { name := st.name, subject := st.subject, ctime := st.ctime, parts := st.parts.map obsPart }

def obsGroup (g : Group) : GroupObs :=
  { id := g.id, coordinator := g.coordinator, epoch := g.epoch, members := g.members }

/-- Streams (tombstoned ones are on their way out and invisible), partitions, replicas, leaders, ISRs,
epochs, paused and read-only flags, consumer groups and their members. -/
def obs (s : State) : Obs :=
  { streams := (s.streams.filter (!·.tombstone)).map obsStream, groups := s.groups.map obsGroup }

/-- `obs` without the consumer-group epochs. -/
def obsNoGroupEpoch (s : State) : Obs :=
  { streams := (obs s).streams, groups := (obs s).groups.map ({ · with epoch := 0 }) }

def names (s : State) : List String := (s.streams.filter (!·.tombstone)).map (·.name)

end Liftbridge.Metadata
