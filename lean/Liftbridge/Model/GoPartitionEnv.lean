/-
The environment in which the translated `partition.truncateUncommitted` / `truncateToHW` run: what
the un-modelled callees answer (the leader-offset request, the commit log's accessors), shared by
the theorems (Props/GoPartition.lean) and by the driver (`gomini reconcile`, run against the real
function by the C02 harness). Core Lean only.
-/
import Liftbridge.GoMini
import Liftbridge.Gen.GoPartition

namespace Liftbridge.GoPartitionEnv
open Liftbridge.GoMini

/-- what the leader-offset request of a follower may come back with -/
inductive Reply where
  | ok (offset : Int)
  | timeout
  | fail
  deriving Repr, DecidableEq

def errTimeout : Val := .str "nats: timeout"
def encReply : Reply → Val
  | .ok o => .tup [.int o, .nil]
  | .timeout => .tup [.int 0, errTimeout]
  | .fail => .tup [.int 0, .str "nats: no responders available for request"]

/-- the k-th `sendLeaderOffsetRequest` of the call is answered by `reply k` -/
def reqExt (reply : Nat → Reply) : Ext := fun f _ eff =>
  if f = "sendLeaderOffsetRequest" then some (encReply (reply (eff.filter (fun e => e.1 = "sendLeaderOffsetRequest")).length)) else none

def encP (le newest hw : Int) : Val :=
  .struct [("log", .struct [("LastLeaderEpoch", .int le), ("NewestOffset", .int newest), ("HighWatermark", .int hw)])]

def globals : List (String × Val) := [("nats.ErrTimeout", errTimeout), ("time.Millisecond", .int 1000000)]

/-- the decision of the retry loop: the first answer that is not a timeout among at most three
requests; `none` = fall back to the high watermark -/
def decision (reply : Nat → Reply) : Option Int :=
  match reply 0 with
  | .ok o => some o
  | .fail => none
  | .timeout => match reply 1 with
    | .ok o => some o
    | .fail => none
    | .timeout => match reply 2 with
      | .ok o => some o
      | _ => none

def truncations (eff : List (String × List Val)) : List (List Val) :=
  (eff.filter (fun e => e.1 = "Truncate")).map (·.2)


def truncationsOf : R Out → Option (List (List Val))
  | .ok out => some (truncations out.eff)
  | _ => none

/-- run the translated `truncateUncommitted` and report the `Truncate` calls it made -/
def reconcile (reply : Nat → Reply) (le newest hw : Int) : Option (List (List Val)) :=
  truncationsOf (runG Liftbridge.Gen.GoPartition.prog (reqExt reply) 30 "truncateUncommitted" (some (encP le newest hw)) [] globals)

end Liftbridge.GoPartitionEnv
