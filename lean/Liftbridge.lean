import Liftbridge.Base
import Liftbridge.Cmp
import Liftbridge.Model.Envelope
import Liftbridge.Model.Log
import Liftbridge.Model.Retention
import Liftbridge.Model.Compact
import Liftbridge.Model.Subscribe
import Liftbridge.Model.TelemetryCfg
