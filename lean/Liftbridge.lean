import Liftbridge.Base
import Liftbridge.Cmp
import Liftbridge.Model.Envelope
import Liftbridge.Model.Log
