# Per-property configuration of /verif/check.
# harness dir -> (package path under /repo, package clause)
HARNESS_PKGS = {
    "protocol": ("server/protocol", "protocol"),
    "commitlog": ("server/commitlog", "commitlog"),
    "server": ("server", "server"),
    "encryption": ("server/encryption", "encryption"),
    "telemetry": ("server/telemetry", "telemetry"),
}

PROPS = {
    "C14": dict(
        lean_modules=["Liftbridge.Props.C14"],
        gen_sources=["server/protocol/envelope.go"],
        go_pkg="./server/protocol", test="TestVerifC14",
        level="proof",
        assumptions=[
            "protobuf codec is a parameter: Unmarshal(Marshal m) = m is a hypothesis of unmarshal_marshal (validated by the round-trip oracle on the real codec)",
            "CRC-32C is an uninterpreted function in the theorems (the driver computes the real one)",
            "Go slicing semantics as modelled in Liftbridge/Base.lean (panic iff bounds violated)",
        ],
        trusted=["Go runtime below the modelled slicing semantics"],
    ),
}
