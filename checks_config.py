# Per-property configuration of /verif/check.
# harness dir -> (package path under /repo, package clause)
HARNESS_PKGS = {
    "protocol": ("server/protocol", "protocol"),
    "commitlog": ("server/commitlog", "commitlog"),
    "server": ("server", "server"),
    "encryption": ("server/encryption", "encryption"),
    "telemetry": ("server/telemetry", "telemetry"),
}

LOG_SOURCES = ["server/commitlog/" + f for f in ("commitlog.go", "segment.go", "index.go", "util.go", "reader.go",
                                                   "message_set.go", "message.go", "leader_epoch_cache.go")]
LOG_ASSUME = [
    "index derived from the records (one slot per record): exact for crash-free executions; crash states are C05's model",
    "message timestamps are non-zero (segment.write treats firstWriteTime == 0 as 'no write yet'); time.Now().UnixNano() never is",
    "32-bit relative offsets/positions of the index do not overflow (segments < 2 GiB, < 2^31 offsets apart)",
    "single writer (the partition serialises Append/AppendMessageSet/Truncate); concurrency of readers and HW is C03",
]

PROPS = {
    "C01": dict(
        lean_modules=["Liftbridge.Props.C01"],
        gen_sources=LOG_SOURCES,
        go_pkg="./server/commitlog", test="TestVerifC01",
        level="proof",
        assumptions=LOG_ASSUME,
        trusted=["OS file system and mmap below the modelled append/rename semantics"],
    ),
    "C08": dict(
        lean_modules=["Liftbridge.Props.C08"],
        gen_sources=["server/commitlog/compact_cleaner.go"],
        go_pkg="./server/commitlog", test="TestVerifC08",
        level="proof",
        assumptions=LOG_ASSUME,
        trusted=["OS file system below the modelled rename/delete semantics"],
    ),
    "C09": dict(
        lean_modules=["Liftbridge.Props.C09"],
        gen_sources=["server/commitlog/delete_cleaner.go"],
        go_pkg="./server/commitlog", test="TestVerifC09",
        level="proof",
        assumptions=LOG_ASSUME + ["the clock is an explicit input: computeTTL is mocked to return the ttl of each clean"],
        trusted=["OS file system below the modelled delete semantics"],
    ),
    "C10": dict(
        lean_modules=["Liftbridge.Props.C10"],
        gen_sources=LOG_SOURCES + ["server/partition.go:partition.getStopOffset", "server/partition.go:partition.Subscribe",
                                   "server/partition.go:partition.newSubscribeLoop", "server/commitlog/commitlog.go:commitLog.EarliestOffsetAfterTimestamp"],
        runs=[dict(go_pkg="./server/commitlog", test="TestVerifC10Log"), dict(go_pkg="./server", test="TestVerifC10")],
        level="proof",
        assumptions=LOG_ASSUME,
        trusted=[],
    ),
    "C14": dict(
        lean_modules=["Liftbridge.Props.C14"],
        gen_sources=["server/protocol/envelope.go"],
        runs=[dict(go_pkg="./server/protocol", test="TestVerifC14"), dict(go_pkg="./server", test="TestVerifC14Server")],
        level="proof",
        assumptions=[
            "protobuf codec is a parameter: Unmarshal(Marshal m) = m is a hypothesis of unmarshal_marshal (validated by the round-trip oracle on the real codec)",
            "CRC-32C is an uninterpreted function in the theorems (the driver computes the real one)",
            "Go slicing semantics as modelled in Liftbridge/Base.lean (panic iff bounds violated)",
        ],
        trusted=["Go runtime below the modelled slicing semantics"],
    ),
    "C16": dict(
        lean_modules=["Liftbridge.Props.C16"],
        gen_sources=LOG_SOURCES + ["server/partition.go:partition.messageProcessingLoop", "server/api.go:apiServer.ensurePublishPreconditions"],
        go_pkg="./server/commitlog", test="TestVerifC16",
        level="proof",
        assumptions=LOG_ASSUME + ["concurrent publishers are serialised by the partition leader's single message-processing loop with batch size 1 (extracted fact); their interleavings are the arrival orders"],
        trusted=["NATS delivery order to the leader = arrival order (any order is covered by the theorems)"],
    ),
    "C19": dict(
        lean_modules=["Liftbridge.Props.C19"],
        gen_sources=["server/telemetry/telemetry.go", "server/config.go", "server/server.go"],
        go_pkg="./server", test="TestVerifC19",
        level="proof",
        assumptions=[
            "viper v1.21 lookup order for an AutomaticEnv key: os.LookupEnv(replacer(upper(prefix_key))) (non-empty) before the config file; GetBool = cast.ToBool (strconv.ParseBool, error => false) — modelled, validated by the configuration grid and the env-var-name probe on the real NewConfig",
            "sources/requestSources/idSources are syntactic (go/ast, no type information): a local variable shadowing a package-level name, or data smuggled through the instance-id file under the data dir, is outside the table; the recorded requests of a server with planted user data are the behavioural cross-check",
            "the only creation/start site of a collector is Server.Start (regenerated counts over all non-test files); other outbound HTTP of the process is not telemetry and not in scope",
            "documented field list = /repo/CHANGELOG.md:69-75 (documentation/*.md does not mention telemetry; the external page it links is not available offline)",
        ],
        trusted=["net/http below http.DefaultTransport (the recorder replaces it; Collector.client has a nil Transport)", "Go runtime, encoding/json"],
        timeout={"quick": 900, "thorough": 3600},
    ),
    "C15": dict(
        lean_modules=["Liftbridge.Props.C15"],
        gen_sources=["server/api.go", "server/authz.go", "server/signal.go"],
        go_pkg="./server", test="TestVerifC15",
        level="proof",
        assumptions=[
            "casbin's Enforce is an arbitrary predicate (client, resource, action) -> Bool; the theorems quantify over all of them",
            "a call is an `effect` iff its callee text matches the hand-written sink table of extract/gen_handlers.go or is an api.go method that syntactically reaches one (no go/types); the classification is printed in Gen/Handlers.lean (effectCalls, otherCalls, helperReach, skippedFuncLits) for audit",
            "conditions other than the authorisation test are nondeterministic (may-analysis over every syntactic path); one generic iteration stands for every iteration of the publish loop",
            "the client id in the context is the one authz.go took from the verified TLS certificate (the interceptors are not exercised: handlers are called in-process with the context key set)",
        ],
        trusted=["casbin (policy file parsing and matching)", "NATS per-connection per-subject FIFO delivery (used by the sentinel that flushes asynchronous publishes)"],
        timeout={"quick": 900, "thorough": 3600},
    ),
    "C12": dict(
        lean_modules=["Liftbridge.Props.C12"],
        gen_sources=["server/groups.go", "server/metadata.go"],
        go_pkg="./server", test="TestVerifC12",
        level="proof",
        assumptions=[
            "a join of an id that already is a member never reaches the group: checkJoinConsumerGroupPreconditions (ErrConsumerAlreadyMember) runs on the metadata leader under the Raft barrier and apply lock before the op is proposed; AddMember itself does not check (harness probe documents what it does)",
            "the subscriber heaps are abstracted to 'the minimum by (assignedCount, id) among the consumers in the heap': every Peek follows a heap.Init with no counter change in between and Less is a strict total order on distinct ids (lemmas less_*, peek_perm); validated against container/heap by the correspondence on every history",
            "the partition count of a stream is a parameter that does not change while the stream has subscribers (streams are only deleted and re-created; deletion unsubscribes everybody when StreamDeleted is delivered in order)",
            "a consumer's liveness expiry is a LeaveConsumerGroup op (removeConsumerGroupMember) and is covered as a leave",
            "one group; the group mutex makes every op atomic",
        ],
        trusted=["container/heap and Go map semantics below the modelled set/minimum abstraction", "hashicorp/raft: one totally ordered log applied in order on every server"],
    ),
    "C17": dict(
        lean_modules=["Liftbridge.Props.C17"],
        gen_sources=["server/encryption/localkey_handler.go"],
        go_pkg="./server/encryption", test="TestVerifC17",
        timeout={"quick": 600, "thorough": 5400},
        level="proof",
        assumptions=[
            "cryptography is a parameter: KWP wrap/unwrap, AES key setup and AES-GCM seal/open are uninterpreted functions; read_seal assumes Sound (unwrap(wrap k) = k, open(seal p) = p, |wrap k| < 256), the tamper / wrong-key theorems assume Authentic (idealised INT-CTXT: everything not produced under the keys is rejected) - hypotheses of the theorems, not axioms",
            "confidentiality (stored bytes never contain the value) and the real tamper evidence of AES-GCM / RFC 5649 are NOT proved: covered empirically by the harness on the real primitives (every single-byte change, every truncation, different master key, containment of value and data key)",
            "the model `read` is the REPAIRED Read (fixes/C17-read-bounds.diff); on a tree without the three length checks the extractor reports them lost and the harness reports the panics",
            "Go slicing semantics as modelled in Liftbridge/Base.lean; s[a:b] bounded by cap and s[a:] by len give the same panic condition for the two consecutive slices of Read/decryptData (exercised with spare-capacity slices)",
        ],
        trusted=["Go crypto/aes, crypto/cipher and tink kwp/subtle", "wrapped-key size formula copied from tink (compared with wrapDEK on every run)"],
    ),
}
