# Per-property configuration of /verif/check.
# harness dir -> (package path under /repo, package clause)
HARNESS_PKGS = {
    "protocol": ("server/protocol", "protocol"),
    "commitlog": ("server/commitlog", "commitlog"),
    "server": ("server", "server"),
    "encryption": ("server/encryption", "encryption"),
    "telemetry": ("server/telemetry", "telemetry"),
}

LOG_SOURCES = ["server/commitlog/" + f for f in ("commitlog.go", "segment.go", "index.go", "util.go", "reader.go",
                                                   "message_set.go", "message.go", "leader_epoch_cache.go")]
LOG_ASSUME = [
    "index derived from the records (one slot per record): exact for crash-free executions; crash states are C05's model",
    "message timestamps are non-zero (segment.write treats firstWriteTime == 0 as 'no write yet'); time.Now().UnixNano() never is",
    "32-bit relative offsets/positions of the index do not overflow (segments < 2 GiB, < 2^31 offsets apart)",
    "single writer (the partition serialises Append/AppendMessageSet/Truncate); concurrency of readers and HW is C03",
]

PROTO_ASSUME = [
    "hashicorp/raft: one totally ordered committed log of metadata ops, applied in order by every server at its own pace; the leader epoch of a partition is the Raft index of the op that set its leader (fsm.go)",
    "NATS request/reply: a reply is only accepted by the request it answers (per-request inbox); requests and replies may be delayed or lost; a restarted process receives none of the replies addressed to its previous incarnation",
    "one mutex-protected region / one loop iteration of partition.go, replicator.go is one atomic step; finer races (handleReplicationResponse releases the partition lock before SetHighWatermark/AppendMessageSet) are not modelled",
    "wall-clock time is abstracted: 'caught up within max lag time' is a flag set when req.Offset >= newest and cleared at any time; leader-failure reports and ISR shrink decisions may happen at any time",
    "crash = process stop that keeps the commit log, its HW checkpoint and epoch cache as of the last completed call (torn writes are C05's model); Raft snapshots (restore instead of replay) are not modelled",
    "one partition, every server is a replica; compaction/retention on replicated partitions are outside C02's quantifier",
]
PROTO_TRUSTED = ["hashicorp/raft", "NATS delivery semantics as assumed", "Go scheduler below the step granularity"]

PROPS = {
    "C01": dict(
        # Props.GoSegments: the model's segment lookups = the translated bodies of findSegment / findSegmentContains / findSegmentByBaseOffset
        lean_modules=["Liftbridge.Props.C01", "Liftbridge.Props.Codec", "Liftbridge.Props.GoSegments", "Liftbridge.Props.GoAppend", "Liftbridge.Props.GoSplit", "Liftbridge.Props.GoTruncate", "Liftbridge.Props.GoAppendTop", "Liftbridge.Props.GoReaderNew"],
        gen_sources=LOG_SOURCES,
        runs=[dict(go_pkg="./server/commitlog", test="TestVerifC01"), dict(go_pkg="./server/commitlog", test="TestVerifC01Codec")],
        level="proof",
        assumptions=LOG_ASSUME,
        trusted=["OS file system and mmap below the modelled append/rename semantics"],
    ),
    "C08": dict(
        lean_modules=["Liftbridge.Props.C08", "Liftbridge.Props.CleanRace", "Liftbridge.Props.GoCompact", "Liftbridge.Props.GoCompactAux", "Liftbridge.Props.GoRevScan"],
        gen_sources=["server/commitlog/compact_cleaner.go"],
        go_pkg="./server/commitlog", test="TestVerifC08",
        level="proof",
        assumptions=LOG_ASSUME,
        trusted=["OS file system below the modelled rename/delete semantics"],
    ),
    "C09": dict(
        # Props.GoRetention: the model's Retention.clean = the translated body of deleteCleaner.Clean (all passes, all loops), with its effect trace
        lean_modules=["Liftbridge.Props.C09", "Liftbridge.Props.CleanRace", "Liftbridge.Props.GoRetention"],
        gen_sources=["server/commitlog/delete_cleaner.go", "server/commitlog/delete_cleaner.go:gomini:deleteCleaner.Clean"],
        go_pkg="./server/commitlog", test="TestVerifC09",
        level="proof",
        assumptions=LOG_ASSUME + ["the clock is an explicit input: computeTTL is mocked to return the ttl of each clean"],
        trusted=["OS file system below the modelled delete semantics"],
    ),
    "C10": dict(
        # Props.GoSubscribe: the model's stop-position table = the translated body of partition.getStopOffset
        # Props.GoTimestamps: the model's timestamp look-ups = the translated bodies of EarliestOffsetAfterTimestamp / LatestOffsetBeforeTimestamp
        lean_modules=["Liftbridge.Props.C10", "Liftbridge.Props.GoSubscribe", "Liftbridge.Props.GoTimestamps", "Liftbridge.Props.GoRevScan", "Liftbridge.Props.GoReaderNew"],
        gen_sources=LOG_SOURCES + ["server/partition.go:partition.getStopOffset", "server/partition.go:gomini:partition.getStopOffset", "server/partition.go:partition.Subscribe",
                                   "server/partition.go:partition.newSubscribeLoop", "server/commitlog/commitlog.go:commitLog.EarliestOffsetAfterTimestamp", "server/commitlog/commitlog.go:gomini:commitLog.EarliestOffsetAfterTimestamp",
                                   "server/commitlog/commitlog.go:gomini:commitLog.LatestOffsetBeforeTimestamp"],
        runs=[dict(go_pkg="./server/commitlog", test="TestVerifC10Log"), dict(go_pkg="./server", test="TestVerifC10")],
        level="proof",
        assumptions=LOG_ASSUME,
        trusted=[],
    ),
    "C14": dict(
        # Props.GoEnvelope: the model's Envelope.check = the translated body of checkEnvelope, for every byte string
        # Props.GoReplication: the replication handlers never panic on a payload (request side) / panic only on a failing append (response side)
        lean_modules=["Liftbridge.Props.C14", "Liftbridge.Props.GoEnvelope", "Liftbridge.Props.GoReplication", "Liftbridge.Props.GoNatsMsg"],
        gen_sources=["server/protocol/envelope.go", "server/protocol/envelope.go:gomini:checkEnvelope", "server/partition.go:gomini:partition.handleReplicationRequest", "server/partition.go:gomini:partition.handleReplicationResponse", "server/partition.go:gomini:natsToProtoMessage"],
        runs=[dict(go_pkg="./server/protocol", test="TestVerifC14"), dict(go_pkg="./server", test="TestVerifC14Server"), dict(go_pkg="./server", test="TestVerifC14ServerSmallLimit"), dict(go_pkg="./server", test="TestVerifC14BatchWait")],
        level="proof",
        assumptions=[
            "protobuf codec is a parameter: Unmarshal(Marshal m) = m is a hypothesis of unmarshal_marshal (validated by the round-trip oracle on the real codec)",
            "CRC-32C is an uninterpreted function in the theorems (the driver computes the real one)",
            "Go slicing semantics as modelled in Liftbridge/Base.lean (panic iff bounds violated)",
        ],
        trusted=["Go runtime below the modelled slicing semantics"],
    ),
    "C16": dict(
        # Props.GoMessageSet: the model's batch check + stamp (offsets, concurrency-control decision) = the translated body of newMessageSetFromProto
        lean_modules=["Liftbridge.Props.C16", "Liftbridge.Props.C16Seq", "Liftbridge.Props.GoMessageSet", "Liftbridge.Props.GoAck", "Liftbridge.Props.GoAppendTop", "Liftbridge.Props.GoNatsMsg", "Liftbridge.Props.GoStreamConfig"],
        gen_sources=LOG_SOURCES + ["server/partition.go:partition.messageProcessingLoop", "server/api.go:apiServer.ensurePublishPreconditions"],
        runs=[dict(go_pkg="./server/commitlog", test="TestVerifC16"), dict(go_pkg="./server", test="TestVerifC16Server"), dict(go_pkg="./server", test="TestVerifC16Restore"), dict(go_pkg="./server", test="TestVerifC16Subjects")],
        level="proof",
        assumptions=LOG_ASSUME + ["concurrent publishers are serialised by the partition leader's single message-processing loop with batch size 1 (extracted fact); their interleavings are the arrival orders",
                                  "Model/Sequencer.lean: the loop may cut the arrival sequence into any non-empty batches of at most batchLimit messages (timing is not modelled: every cut is covered); a failed Append is answered to msgBatch[0] only; the server-level run checks this against the Append calls recorded on a running server with a batching window",
                                  "writable log and encodable messages for 'every publisher is answered' (a publish racing with SetReadonly, or failing to encode, is only logged by the loop)"],
        trusted=["NATS delivery order to the leader = arrival order (any order is covered by the theorems)",
                 "server-level harness: the recording CommitLog wrapper put around partition.log (pure delegation; it turns a panic of Append into an error so that the test process survives)"],
        timeout={"quick": 900, "thorough": 3600},
    ),
    "C19": dict(
        lean_modules=["Liftbridge.Props.C19", "Liftbridge.Props.GoTelemetry"],
        gen_sources=["server/telemetry/telemetry.go", "server/config.go", "server/server.go"],
        runs=[dict(go_pkg="./server", test="TestVerifC19"), dict(go_pkg="./server", test="TestVerifC19LateSwitch")],
        level="proof",
        assumptions=[
            "viper v1.21 lookup order for an AutomaticEnv key: os.LookupEnv(replacer(upper(prefix_key))) (non-empty) before the config file; GetBool = cast.ToBool (strconv.ParseBool, error => false) — modelled, validated by the configuration grid and the env-var-name probe on the real NewConfig",
            "sources/requestSources/idSources are syntactic (go/ast, no type information): a local variable shadowing a package-level name, or data smuggled through the instance-id file under the data dir, is outside the table; the recorded requests of a server with planted user data are the behavioural cross-check",
            "the only creation/start site of a collector is Server.Start (regenerated counts over all non-test files); other outbound HTTP of the process is not telemetry and not in scope",
            "telemetry.New is modelled as the ordered list of its guarded blocks that write to the *Config parameter (net effect per field: keep / DefaultConfig() value / constant), regenerated from the go/ast; anything else New does to the parameter (nested ifs, passing it on, early returns inside such a block) is reported lost and evaluated as the worst case (Enabled := true). The collector's config is that parameter: no assignment to or through a `config` field anywhere in package telemetry (regenerated list, pinned empty)",
            "loadOrCreateInstanceID is modelled as the regenerated list of its syntactic paths (conditions: os.MkdirAll / os.ReadFile+len(data) guard / generateUUID / os.WriteFile succeed or fail; any other condition is an opaque boolean) with first-match semantics; the file system is a parameter (function from data directory to its state). bytes.TrimSpace and the UUID formatting are not modelled (the harness compares the reported id with the trimmed file content / the v4 pattern)",
            "time.NewTicker panics for a non-positive interval (Go runtime): an ENABLED collector with interval <= 0 sends one beacon and the process dies; the harness never starts such a collector (model and configuration level only); int-seconds * time.Second wrap-around is not modelled",
            "documented field list = /repo/CHANGELOG.md:69-75 (documentation/*.md does not mention telemetry; the external page it links is not available offline)",
        ],
        trusted=["net/http below http.DefaultTransport (the recorder replaces it; Collector.client has a nil Transport)", "Go runtime, encoding/json"],
        timeout={"quick": 900, "thorough": 3600},
    ),
    "C15": dict(
        lean_modules=["Liftbridge.Props.C15", "Liftbridge.Props.GoAuthz"],
        gen_sources=["server/api.go", "server/authz.go", "server/signal.go"],
        go_pkg="./server", test="TestVerifC15",
        level="proof",
        assumptions=[
            "casbin's Enforce is an arbitrary predicate (client, resource, action) -> Bool; the theorems quantify over all of them",
            "a call is an `effect` iff its callee text matches the hand-written sink table of extract/gen_handlers.go or is an api.go method that syntactically reaches one (no go/types); the classification is printed in Gen/Handlers.lean (effectCalls, otherCalls, helperReach, skippedFuncLits) for audit",
            "conditions other than the authorisation test are nondeterministic (may-analysis over every syntactic path); a per-message loop (a `for` whose body starts with <stream>.Recv()) is run over an unbounded list of messages, every iteration under the policy in force for its message (Authz.sessions); session state other than the policy is not modelled - a check nested under ANY condition has a path that skips it",
            "ensureAuthorizationPermission is the regenerated decision tree Gen.Handlers.ensureDecision over (config switch, context value present, id vs \"\", enforce error, enforce boolean); statements outside that vocabulary are reported lost",
            "the client id in the context is the one authz.go took from the verified TLS certificate: handlers are called in-process; addUserContext is exercised on synthetic gRPC peers (no / unverified / empty-CN / verified certificate), the gRPC interceptor registration itself is tied syntactically only (same context key)",
        ],
        trusted=["casbin (policy file parsing and matching)", "NATS per-connection per-subject FIFO delivery (used by the sentinel that flushes asynchronous publishes)"],
        timeout={"quick": 900, "thorough": 3600},
    ),
    "C12": dict(
        lean_modules=["Liftbridge.Props.C12", "Liftbridge.Props.GoGroups"],
        gen_sources=["server/groups.go", "server/metadata.go"],
        go_pkg="./server", test="TestVerifC12",
        level="proof",
        assumptions=[
            "a join of an id that already is a member never reaches the group: checkJoinConsumerGroupPreconditions (ErrConsumerAlreadyMember) runs on the metadata leader under the Raft barrier and apply lock before the op is proposed; AddMember itself does not check (harness probe documents what it does)",
            "the subscriber heaps are abstracted to 'the minimum by (assignedCount, id) among the consumers in the heap': every Peek follows a heap.Init with no counter change in between and Less is a strict total order on distinct ids (lemmas less_*, peek_perm); validated against container/heap by the correspondence on every history",
            "the partition count of a stream is a parameter that does not change while the stream has subscribers (streams are only deleted and re-created; deletion unsubscribes everybody when StreamDeleted is delivered in order)",
            "a consumer's liveness expiry is a LeaveConsumerGroup op (removeConsumerGroupMember) and is covered as a leave",
            "one group; the group mutex makes every op atomic",
            "balance clause: 'a group consuming a single stream' is read as 'the streams the current members are subscribed to are exactly one stream'; the counts compared are those of its subscribers (a member left without any subscription by a stream deletion can hold nothing by the second clause and is not counted); theorem balanced_when_single_stream and the harness oracle use this reading, for every way of getting there",
        ],
        trusted=["container/heap and Go map semantics below the modelled set/minimum abstraction", "hashicorp/raft: one totally ordered log applied in order on every server"],
    ),
    "C17": dict(
        lean_modules=["Liftbridge.Props.C17", "Liftbridge.Props.C17Pipe", "Liftbridge.Props.GoSeal"],
        # Props.C17 = the codec (Seal/Read framing); Props.C17Pipe = what partition.go does with it (every ingest / deliver site, regenerated)
        gen_sources=["server/encryption/localkey_handler.go", "server/partition.go#seal-pipeline"],
        runs=[dict(go_pkg="./server/encryption", test="TestVerifC17"), dict(go_pkg="./server", test="TestVerifC17Pipe"), dict(go_pkg="./server", test="TestVerifC17Overrides"), dict(go_pkg="./server", test="TestVerifC17Lifecycle")],
        timeout={"quick": 600, "thorough": 5400},
        level="proof",
        assumptions=[
            "cryptography is a parameter: KWP wrap/unwrap, AES key setup and AES-GCM seal/open are uninterpreted functions; read_seal assumes Sound (unwrap(wrap k) = k, open(seal p) = p, |wrap k| < 256), the tamper / wrong-key theorems assume Authentic (idealised INT-CTXT: everything not produced under the keys is rejected) - hypotheses of the theorems, not axioms",
            "confidentiality (stored bytes never contain the value) and the real tamper evidence of AES-GCM / RFC 5649 are NOT proved: covered empirically by the harness on the real primitives (every single-byte change, every truncation, different master key, containment of value and data key)",
            "the model `read` is the REPAIRED Read (fixes/C17-read-bounds.diff); on a tree without the three length checks the extractor reports them lost and the harness reports the panics",
            "Go slicing semantics as modelled in Liftbridge/Base.lean; s[a:b] bounded by cap and s[a:] by len give the same panic condition for the two consecutive slices of Read/decryptData (exercised with spare-capacity slices)",
            "pipeline (Props/C17Pipe): the ingest / deliver site tables are syntactic (go/ast over every non-test file of package server, no type information); a site is 'sealing' only in the literal shape `m := natsToProtoMessage(..); if h != nil { c, err := h.Seal(m.Value); if err != nil { ..; continue|return }; m.Value = c }; B = append(B, m)`, anything else is reported lost or unsealed; the commit log keeps what Append is given (C01) and replication copies stored bytes verbatim (AppendMessageSet / replicator reads are listed in the table, not modelled); one partition leader; the codec is a parameter of the pipeline theorems (CodecSound, Sound, Authentic are explicit hypotheses)",
        ],
        trusted=["Go crypto/aes, crypto/cipher and tink kwp/subtle", "wrapped-key size formula copied from tink (compared with wrapDEK on every run)",
                 "NATS / Go channel FIFO order between the harness-owned channel and partition.messageProcessingLoop (site labels of the directly driven runs)"],
    ),
    "C13": dict(
        # Props.GoGroupSub: the model's subscribe step / clean-up = the translated bodies of partition.Subscribe / removeGroupSubscriber
        lean_modules=["Liftbridge.Props.C13", "Liftbridge.Props.GoGroupSub", "Liftbridge.Props.GoSubEntry"],
        gen_sources=["server/partition.go:partition.Subscribe", "server/partition.go:partition.newSubscribeLoop",
                     "server/partition.go:partition.removeGroupSubscriber"],
        runs=[dict(go_pkg="./server", test="TestVerifC13"), dict(go_pkg="./server", test="TestVerifC13Shapes")],
        level="proof",
        assumptions=[
            "granularity: Subscribe's group section (look-up .. registration) and removeGroupSubscriber are atomic steps because both run under consumersMu, held by Subscribe until it returns (regenerated facts subscribeLocked / cleanupLocked); subscription.Close is atomic under the subscription's mutex; goroutine interleavings = arbitrary step lists",
            "what Subscribe does outside the hand-over (start/stop resolution, reader creation) is a parameter of the subscribe step with the three outcomes the code can take: accepted, failed before the previous subscriber is touched, failed after it was closed (statement order regenerated: orderOk)",
            "a closed subscription stops consuming: the loop's sends select on the closed channel and the API handler returns on Closed(); 'active' = Closed() still open and loop not returned",
            "the server is not shutting down (startGoroutine then does not start the loop) and one partition is considered (p.consumers is per partition)",
            "the subscription pointer groupMember.sub is modelled by the creation index of the subscription",
        ],
        trusted=["Go runtime: mutexes, channel close/select semantics, goroutine scheduling (any interleaving of the atomic steps is covered by the theorems)"],
        timeout={"quick": 900, "thorough": 3600},
    ),
    "C18": dict(
        lean_modules=["Liftbridge.Props.C18", "Liftbridge.Props.GoActivity"],
        gen_sources=["server/activity.go", "server/fsm.go", "server/server.go:Server.leadership", "server/config.go:parseAckPolicy", "server/protocol/internal.pb.go"],
        runs=[dict(go_pkg="./server", test="TestVerifC18"), dict(go_pkg="./server", test="TestVerifC18WithAuthz"), dict(go_pkg="./server", test="TestVerifC18Promotion")],
        level="proof",
        assumptions=[
            "hashicorp/raft: one totally ordered committed log, applied in order; entry k of the model has Raft index k; log truncation only removes a prefix (floor) and never beyond snapshot index + 1",
            "activity.stream.publish.ack.policy is leader or all (default all, regenerated): a nil error from api.Publish means the event was appended; with `none` (accepted by the parser, regenerated) the index is recorded without confirmation and an operation can be lost (Lean: ack_none_can_lose) - not reproduced on the implementation",
            "one iteration of the dispatch loop per entry is one atomic model step with the outcome of api.Publish / Raft applyOperation as input (publish failed; appended but error reported; appended+recorded but error reported; ok); back-off durations are not modelled (no temporal logic: 'at least once' is proved as enabledness + progress of successful iterations)",
            "controller changes are abstracted to: the new dispatcher starts at (view of lastPublishedRaftIndex) + 1 where the view is the running FSM's value or what a restore from ANY snapshot index + replay yields; stale dispatch goroutines of earlier terms may keep taking full steps (covers the goroutine that misses its stop signal)",
            "the harness observes the dispatcher through the two logs it writes (Raft log store, __activity) and rebuilds the model trace from them; failed publishes that leave no trace are not observable and not compared",
            "the resume point of a restarted controller is observed as LastPublishedRaftIndex sampled by a Raft log listener while the FSM replays the log (leadershipAcquired runs a barrier before BecomeLeader, so no dispatcher exists yet); the in-memory hold used to stop the dispatcher inside a backlog is the commit log's read-only flag (what api.Publish checks) set from that listener during the FSM apply of a PUBLISH_ACTIVITY entry",
        ],
        trusted=["hashicorp/raft and raft-boltdb (log store, snapshot, compactLogs)", "NATS request/ack delivery used by api.Publish", "the child process used to observe a panic of the dispatch goroutine (os/exec of the test binary)"],
        timeout={"quick": 900, "thorough": 5400},
    ),
    "C07": dict(
        # Props.GoPartition (go_RemoveFromISR / go_AddToISR): the persisted in-sync list, which a controller restored from a snapshot elects from, is exactly the in-sync set
        lean_modules=["Liftbridge.Props.C07", "Liftbridge.Props.GoFailover", "Liftbridge.Props.GoPartition", "Liftbridge.Props.GoElect", "Liftbridge.Props.GoFence", "Liftbridge.Props.GoAck", "Liftbridge.Props.GoMetaApply"],
        gen_sources=["server/metadata.go", "server/failover.go", "server/fsm.go", "server/raft.go",
                     "server/partition.go:partition.SetLeader", "server/partition.go:partition.RemoveFromISR", "server/partition.go:partition.AddToISR",
                     "server/partition.go:gomini:partition.inISR", "server/partition.go:gomini:partition.ISRSize", "server/partition.go:gomini:partition.GetLeader"],
        go_pkg="./server", test="TestVerifC07",
        level="proof",
        assumptions=[
            "hashicorp/raft: one totally ordered log, entries applied in order at strictly increasing indices on every server; raftNode.applyOperation holds the Raft lock from the barrier to Apply and every proposal of the controller goes through it (call sites regenerated), so precondition + apply is one atomic step and the FSM is up to date when the precondition runs",
            "ReportLeader's (leader, epoch) check and its witness insertion are one atomic step (in-memory, no blocking call in between); a leader change committed exactly between the two statements is not modelled",
            "time is abstracted to events: `expire p` = ReplicaMaxLeaderTimeout elapsed since the last report that did not trigger; that the Go timer fires then (and only on an armed timer) is validated by the harness (forced firing through the real timer + real-time scenarios), not proved; a timer callback that was already running when the entry was replaced deletes the newer entry (loses witnesses: the safe direction)",
            "candidate selection (map iteration order + stable sort by broker leader load) is an arbitrary choice among the in-sync replicas other than the leader",
            "one controller: requests forwarded by other brokers arrive through the same metadataAPI methods; a change of the metadata leader is LostLeadership here and an empty failover table on the new controller",
            "stream creation gives ISR = replicas, duplicate-free, leader among them (what CreateStream builds)",
        ],
        trusted=["hashicorp/raft and raft-boltdb", "time.Timer (AfterFunc/Stop/Reset)", "Go map and mutex semantics below the modelled atomic steps"],
        timeout={"quick": 900, "thorough": 3600},
    ),
    "C06": dict(
        lean_modules=["Liftbridge.Props.C06", "Liftbridge.Props.GoFSM", "Liftbridge.Props.GoMetaApply"],
        gen_sources=["server/fsm.go", "server/metadata.go", "server/partition.go", "server/groups.go", "server/protocol/internal.proto"],
        runs=[dict(go_pkg="./server", test="TestVerifC06"),
              dict(go_pkg="./server", test="TestVerifC06Race", go_flags=["-race"])],
        level="proof",
        assumptions=[
            "hashicorp/raft: one totally ordered committed log, applied in order on every server; a restart = Restore(latest snapshot) followed by Apply of every later entry (entry j carries index j+1), finishedRecovery at the last replayed index",
            "protobuf: Unmarshal(Marshal m) = m for MetadataSnapshot (the harness goes through the real Persist/Restore byte stream)",
            "Valid = the propose-time checks of metadata.go (checkXxxPreconditions, evaluated by the harness on the real server for every generated op) plus what the proposers guarantee by construction: partition ids of a new stream distinct and unflagged, the replica of an ISR change is a replica of the partition, a new group has distinct members and epoch 0",
            "group.StreamDeleted is delivered in log order (the harness waits for the server's goroutines after every op); the racing schedule is C12's known finding group-streamdeleted-dropped",
            "stream config is immutable and not modelled; Go map iteration order is modelled as a ghost list order that no definition observes (the driver prints sorted)",
            "the server under test is in no replica set and coordinates no group: partitions never lead/follow, no liveness timers (leader/follower start-up is C05/C07, timers C12)",
            "the partition ASSIGNMENTS of consumer groups are not metadata in the sense of the statement (it lists 'consumer groups and their members') and not part of the Lean metadata model: the stand-by scenarios compare members, subscriptions (read from the group, not through GetMembers), load counters and epochs of the restored group with the live one and judge each server's assignments by C12's statement-level oracles; that the restored ASSIGNMENTS differ from the live ones (Restore re-adds the members in the snapshot's Go-map order) is measured and shown as an observation (DESIGN.md section 6), judged only with C06_STRICT_ASSIGNMENTS=1; in these scenarios the harness fixes the order of the snapshot's member list (ascending / descending) - every order is one Snapshot() can produce",
            "in the MODEL a snapshot is persisted at the index it was taken; late persists (Snapshot() after k ops, Persist() after j > k) are run on the real server only (the replay must still converge), and Persist concurrent with Apply runs under the Go race detector (TestVerifC06Race)",
        ],
        trusted=["commitlog.New/Delete and os.RemoveAll below the modelled 'directory exists' semantics", "hashicorp/raft, protobuf"],
    ),
    "C05": dict(
        lean_modules=["Liftbridge.Props.C05", "Liftbridge.Props.GoEpochCache", "Liftbridge.Props.GoRecover", "Liftbridge.Props.GoSegFiles"],
        gen_sources=["server/commitlog/" + f for f in ("segment.go", "index.go", "commitlog.go", "leader_epoch_cache.go",
                                                         "compact_cleaner.go", "delete_cleaner.go",
                                                         "util.go:findSegment:", "util.go:findSegmentByBaseOffset:")],
        go_pkg="./server/commitlog", test="TestVerifC05",
        level="proof",
        assumptions=[
            "process-crash model: a kill stops the process between two primitive steps (file-system effect or crashPoint hook); the OS keeps exactly what the executed effects wrote (no torn sectors, no lost page cache, mmap stores are in the file); a torn write(2) is outside the property's quantifier and only simulated (tag crash-torn-write)",
            "atomic_file.WriteFile (temp file + rename, vendored library) is ONE atomic effect; its temporary files are ignored by open() and by the model",
            "single writer: one goroutine issues all operations of a workload (the partition serialises them); the background cleaner / HW tickers are idle (1 h) and their work is issued as explicit clean / hw operations",
            "compaction runs with one scan worker (CompactMaxGoroutines = 1)",
            "message timestamps are non-zero; 32-bit relative offsets/positions of the index do not overflow; an index never needs more than the 10 MiB it is pre-allocated with",
            "leader epochs of a workload are non-decreasing and are learned from appended data (no NewLeaderEpoch call: its epoch-boundary convention is C02's subject)",
        ],
        trusted=["OS file system below create / append-write / ftruncate / rename / unlink; the kernel delivering SIGKILL at the hook", "github.com/natefinch/atomic"],
        timeout={"quick": 1200, "thorough": 7200},
    ),
    "C02": dict(
        # Props.GoEpochCache: the epoch-cache functions of the model = the translated bodies of leader_epoch_cache.go (GoMini)
        # Props.GoPartition: the reconciliation branches of the protocol model = the translated bodies of truncateUncommitted / truncateToHW
        lean_modules=["Liftbridge.Props.C02", "Liftbridge.Props.GoEpochCache", "Liftbridge.Props.GoPartition", "Liftbridge.Props.GoCommit", "Liftbridge.Props.GoReplication", "Liftbridge.Props.GoTruncate", "Liftbridge.Props.GoLogEpoch"],
        gen_sources=["server/partition.go", "server/replicator.go", "server/metadata.go", "server/commitlog/commitlog.go", "server/commitlog/leader_epoch_cache.go"],
        runs=[dict(go_pkg="./server/commitlog", test="TestVerifC02"), dict(go_pkg="./server", test="TestVerifC02ISR"), dict(go_pkg="./server", test="TestVerifC02Terms"),
              dict(go_pkg="./server", test="TestVerifC02Cluster"), dict(go_pkg="./server", test="TestVerifC02Reconcile"), dict(go_pkg="./server", test="TestVerifC02IsrPersist"),
              dict(go_pkg="./server", test="TestVerifC02LateResponse")],
        level="proof",
        assumptions=LOG_ASSUME + PROTO_ASSUME + [
            "ISR membership: the two timers of a replicator are two flags per replica on the leader ('seen' / 'caught up' within max lag time: elapsed time below the bound while set, above it once "
            "cleared; equality with the bound is not modelled), cleared nondeterministically, 'seen' only after 'caught up' (lastCaughtUp <= lastSeen in the code); replicator.tick is the regenerated "
            "decision outOfSync (connectives and comparison operators) plus the regenerated (outOfSync, inISR) -> shrinkISR/expandISR table; a fresh leader starts with both flags cleared (the code "
            "starts both timers at 'now': its first tick comes one max-lag-time later)",
            "term fence: the model's fetch carries (Offset, LeaderEpoch) as the regenerated struct literal of sendReplicationRequest says (a missing key is the zero value) and the leader drops it by "
            "the regenerated condition of handleReplicationRequest; 'a follower's epoch is never 0' is proved for the model (follower_epoch_pos), for the code it is fsm.go's use of the Raft index",
            "TestVerifC02ISR: the follower's truthful fetches are sent by the harness on its behalf (its replication loop is stopped), the stale-term fetch is ONE call of sendReplicationRequest with "
            "the old epoch on hand-built partition objects of two running servers; ReplicaMaxLagTime is 1 s and the real ticker runs (tick is not called directly)",
        ],
        trusted=PROTO_TRUSTED,
        timeout={"quick": 1500, "thorough": 7200},
    ),
    "C04": dict(
        # Props.GoPartition: a replica (re-)added to the ISR starts with recorded offset -1 (go_AddToISR), the persisted set = the runtime set
        # Props.GoCommit: the minimum the commit loop sets the HW to (min, updateLatestOffset, updateISRLatestOffset) = the model's goMin / updateOffset
        lean_modules=["Liftbridge.Props.C04", "Liftbridge.Props.C04Pipeline", "Liftbridge.Props.GoPartition", "Liftbridge.Props.GoCommit", "Liftbridge.Props.GoAck", "Liftbridge.Props.GoStreamConfig"],
        gen_sources=["server/partition.go", "server/replicator.go", "server/metadata.go", "server/commitlog/commitlog.go", "server/commitlog/leader_epoch_cache.go"],
        runs=[dict(go_pkg="./server", test="TestVerifC04Pipeline"),
              dict(go_pkg="./server/commitlog", test="TestVerifC04"), dict(go_pkg="./server", test="TestVerifC04Cluster"),
              # which fetches count as progress of an in-sync replica: the stale-term fetch scenarios of the two-server harness
              dict(go_pkg="./server", test="TestVerifC02ISR", env={"C02ISR_ONLY": "stale-term-fetch"})],
        level="proof",
        assumptions=LOG_ASSUME + PROTO_ASSUME + [
            "publish pipeline (Props/C04Pipeline.lean): one leadership term of one leader; the leader's log is a list (offset = index): that Append assigns contiguous offsets and stores NOTHING when it returns "
            "ErrIncorrectOffset is C01 / C16's theorem about the commit-log model, assumed here; the real Append panics for an OCC batch of more than one message, the model checks expected offsets one by one "
            "(unreachable while batchSize = 1 under OCC, regenerated fact occBatchOne)",
            "the receive site of a message is an INPUT of the pipeline model (timing decides it), constrained only by the control state (a batch-opening site needs an empty batch, the others an open batch "
            "with room); one receive / one dispatch of a batch / one commit-loop iteration / one ISR change is an atomic step",
            "'every ISR member stored it' is proved as 'the offset the leader RECORDED for every current ISR member is at least the ack's offset'; that a recorded offset means a stored prefix is the cross-term "
            "business of Props/C04.lean (C04_partial, isrOff_sound_within_term) and of the known findings",
            "harness: which receive site a publish hit over NATS is estimated from the timing (distribution site-est:*), not observed; Seal failures are produced by a test codec on hand-started partitions "
            "(the real codec only fails on crypto errors); followers are simulated through updateISRLatestOffset / RemoveFromISR / AddToISR on the leader's partition object (real followers: TestVerifC04Cluster)",
        ],
        trusted=PROTO_TRUSTED,
        timeout={"quick": 1500, "thorough": 7200},
    ),
    "C11": dict(
        # Props.GoCursors: SetCursor publishes first and writes the cache only after a successful publish (translated body)
        lean_modules=["Liftbridge.Props.C11", "Liftbridge.Props.GoCursors", "Liftbridge.Props.C11Keys"],
        gen_sources=["server/cursors.go", "server/stream.go", "server/partition.go:partition.becomeLeader", "server/partition.go:partition.getStopOffset",
                     "server/partition.go:partition.Subscribe", "server/partition.go:partition.newSubscribeLoop", "server/commitlog/compact_cleaner.go"] + LOG_SOURCES,
        runs=[dict(go_pkg="./server", test="TestVerifC11"), dict(go_pkg="./server", test="TestVerifC11FailedSet"), dict(go_pkg="./server", test="TestVerifC11ConcurrentSets"), dict(go_pkg="./server", test="TestVerifC11Keys"), dict(go_pkg="./server", test="TestVerifC11LeaderBack"), dict(go_pkg="./server", test="TestVerifC11Impatient")],
        level="proof",
        assumptions=LOG_ASSUME + [
            "SetCursor is one atomic step: it holds c.mu across publish + cache.Add (regenerated shape), and an AckPolicy-ALL publish on the replication-factor-1 cursors partition is committed (HW = its offset) before the ack; replicated cursors partitions (HW behind the newest offset between commits, follower logs after a leader change) are not modelled",
            "GetCursor is five atomic steps per caller (cache lookup under RLock, HighWatermark(), OldestOffset(), subscription creation = reader snapshot, scan + cache.Add); the scan over the snapshot is deterministic; a fetch that FAILS (error to the client) is the `abort` step and caches nothing",
            "the protobuf codec is a parameter: a SetCursor value unmarshals to its offset (hypothesis ValidOp; the driver uses a Lean re-implementation of the proto.Cursor encoding whose bytes are compared with the real ones after every set)",
            "cursor keys are non-empty byte strings (keyOf_ne_nil); distinct (id, stream, partition) triples have distinct keys only if ids and stream names contain no comma (key_injective; see finding cursor-key-collision)",
            "retention by age on the cursors stream (default 7 days) is the same code path as retention by count/bytes but is not modelled (message timestamps are not part of the cursor model) nor driven by the harness (computeTTL cannot be mocked from package server)",
            "Clean() is atomic with respect to the other ops (its interplay with concurrent appends is C08's); leader changes are the cache purge on a single node (a real change of the cursors-partition leader in a cluster is not driven)",
        ],
        trusted=["hashicorp/golang-lru (modelled as move-to-front list with eviction of the oldest entry; validated by the correspondence on the cache content in LRU order after every op)",
                 "NATS request/ack delivery for the internal publish of SetCursor", "hashicorp/raft for create/delete/pause/resume of the cursors stream"],
        timeout={"quick": 900, "thorough": 5400},
    ),
    "C03": dict(
        lean_modules=["Liftbridge.Props.C03", "Liftbridge.Props.GoHW", "Liftbridge.Props.GoHWPos", "Liftbridge.Props.GoReaderNew"],
        gen_sources=["server/commitlog/commitlog.go", "server/commitlog/reader.go", "server/commitlog/segment.go",
                     "server/commitlog/util.go:findSegment:", "server/commitlog/util.go:findSegmentByBaseOffset:", "server/commitlog/util.go:findSegmentContains:",
                     "server/partition.go:partition.handleReplicationResponse", "server/ (cannot list)"],
        runs=[dict(go_pkg="./server/commitlog", test="TestVerifC03", go_flags=["-race"]),
              dict(go_pkg="./server", test="TestVerifC03Follower", go_flags=["-race"])],
        level="proof",
        assumptions=LOG_ASSUME + [
            "PARTIAL w.r.t. the Go runtime: the Go memory model, sync.RWMutex, sync/atomic and channel semantics are ASSUMED to implement the atomic steps of Model/HWReader.lean (one Op = one critical section); data races are the race detector's job (the harness runs with -race), not a theorem",
            "granularity: a record's bytes become visible atomically (written and indexed under the segment write lock, read under its read lock); one ReadMessage (header Read + body Read) is one step because the limit hwPos is a record boundary; the lookups of one getHWPos/findSegment/findEntry sequence (several short read locks) are one step because every record at or below a sampled HW is immutable",
            "scope of the step relation: append, replicated append, size/age-based roll, SetHighWatermark (any value), follower HW adoption, SetReadonly, NewReader, ReadMessage, context cancellation. Truncation, retention and compaction WHILE readers run are not steps (segments are identified by index): the initial log may be any log satisfying Inv (trimmed, compacted)",
            "'eventually receives' is proved as enabledness/no-lost-wake-up invariants (progress_partial, no_lost_wakeup, parked_complete), not as temporal liveness; fair scheduling of the reader goroutine is assumed",
            "progress needs disciplined HW writers (never a HW beyond the log end): the leader's two call sites pass offsets of messages it has (offsets[len-1], min over the ISR including itself — that these are <= newest is C02/C04's business); the follower's call is checked syntactically (Gen.HWReader.followerHWCapped) and behaviourally (TestVerifC03Follower)",
            "stepped schedules (harness part e): the reader's steps are executed by the harness thread calling what the reader goroutine calls (ReadMessage, HighWatermark, commitLog.waitForHW, removeHWWaiter) in the reader's order; the loop `for hw == r.hw { waitForHW }` itself is mirrored by the harness (its comparison is the regenerated Gen.HWReader.readerHWSameCmp), and when the HW moved between the sample and the re-sync the re-sync statements are mirrored with the real helpers (getHWPos, findSegment, findEntry) on the real reader's fields. The real loop as a whole is exercised by the free-running parts and the wake-up race, whose schedules are not reproducible",
            "NewReader is called with offset >= 0 (partition.getStartOffset clamps); with a negative offset and HW = -1 the reader is handed uncommitted data (harness probe, note only)",
        ],
        trusted=["Go runtime (scheduler, memory model, mutexes, channels)", "OS file system: bytes written by WriteMessageSet are visible to ReadAt on the same file"],
        timeout={"quick": 900, "thorough": 5400},
    ),
}
