//go:build verif

package commitlog

// C03, the wake-up window — deterministic small-step schedules on the REAL log, and a race stress.
//
// Parts (1) and (2) of zz_verif_c03_test.go let the reader goroutines run freely, so the window
// between a reader's HW sample (`hw := r.cl.HighWatermark()`, read lock released) and its
// registration (`commitLog.waitForHW`, write lock) is hit only by luck. Here the window is driven:
//
//  (3) STEPPED schedules. A committed reader is taken apart into the steps of the Lean model
//      (Model/HWReader.lean: advance = beginRead/readStep…, checkHW, registerWait, resync, cancel)
//      and the harness — single-threaded, no goroutine — executes ONE step at a time, interleaved
//      with the writer's steps (append, SetHighWatermark, SetReadonly, roll), calling the same
//      functions on the same objects the reader goroutine would call, in the same order:
//        advance   the real Reader.ReadMessage on the real *committedReader (only when the reader's
//                  own fields say it does not stand at its limit, i.e. the call cannot park)
//        check     seen := l.HighWatermark(); compared with the real field cr.hw
//        wait      ch := l.waitForHW(cr, seen) — the real registration, then a non-blocking poll
//        resync    HW unchanged since the sample: the real ReadMessage (samples the same HW,
//                  re-syncs and reads with the real code); HW moved on since the sample: the
//                  statements of the re-sync block with the real helpers (getHWPos, findSegment,
//                  findEntry) on the real reader's fields, so that the sampled value is used
//        cancel    l.removeHWWaiter(cr)
//      A parked reader is "woken" when its channel is ready (polled after every step).
//      Schedules: corpus, every word of length <= 5 (quick) / 6 (thorough) over the alphabet
//      {reader step, append 1, sethw +1, read-only toggle} after each of four prefixes (a
//      positioned reader, a reader parked at creation, both, a reader inside the window), and seeded random longer ones with up
//      to three readers, rolls, cancellations and HW jumps. After EVERY step the reader's line and
//      the log summary (newest, HW, read-only, segments, len(hwWaiters)) are compared with the
//      model, and the property's own oracle is evaluated (below).
//  (4) wake-up race: real reader goroutines (NewReader/ReadMessage) that have caught up race a
//      writer which advances the HW by exactly one message and then does NOTHING until every
//      reader has delivered it (per-message deadline). Schedules are not reproducible; a failure
//      is: the stuck state is recorded and the replay re-runs the race with the same parameters.
//
// Spec oracle of (3)/(4), from the property statement only ("once the HW covers a message, every
// subscriber positioned at or before it eventually receives it"): a reader that is parked in
// hwWaiters with an empty channel while a retained message at or after its position is at or
// below HighWatermark() will not be woken by anything but a FURTHER HW change — a lost wake-up
// (tag committed-reader-lost-wakeup); a reader ended with the read-only verdict while such a
// message is pending (committed-reader-readonly-incomplete); plus the per-delivery checks of part
// (1) (never above the HW, increasing, content) and completeness after running every live reader
// to quiescence at the end of the schedule (committed-reader-stuck).

import (
	"context"
	"fmt"
	"os"
	"runtime"
	"strconv"
	"strings"
	"sync"
	"sync/atomic"
	"testing"
	"time"

	pkgErrors "github.com/pkg/errors"
)

// ---------- the stepped real reader ----------

type vC03SReader struct {
	id    int
	start int64
	rd    *Reader
	cr    *committedReader
	phase string // idle | reading | atlimit | mustwait | waiting | resync | failed
	seen  int64  // the HW sample (mustwait, waiting, resync)
	ch    <-chan bool
	end   string
	offs  []int64
	eff   int64 // effective start: start, or creation-HW + 1 for a reader that parked at creation
}

func (r *vC03SReader) line() string {
	ph := r.phase
	switch ph {
	case "resync":
		ph = fmt.Sprintf("resync(%d)", r.seen)
	case "failed":
		ph = "failed(" + r.end + ")"
	}
	return fmt.Sprintf("%d:%s:n=%d:[%s]", r.id, ph, len(r.offs), vC03Ranges(r.offs))
}

// next offset the reader is positioned at
func (r *vC03SReader) pos() int64 {
	if len(r.offs) > 0 {
		return r.offs[len(r.offs)-1] + 1
	}
	return r.eff
}

type vC03Steps struct {
	v       *vC03Impl
	readers []*vC03SReader
	spec    []vFailure
	window  int // registrations attempted on a stale sample (the window was hit)
	woken   int // parked readers released by a notification
}

// begin opens a fresh real log. Thousands of short schedules each need one: the directory is put
// on a memory file system when there is one (nothing here is about durability).
func (s *vC03Steps) begin(maxSeg string) string {
	lg := s.v.log
	lg.close()
	base := ""
	if st, err := os.Stat("/dev/shm"); err == nil && st.IsDir() {
		base = "/dev/shm"
	}
	dir, err := os.MkdirTemp(base, "verif-c03-steps-")
	if err != nil {
		dir, err = os.MkdirTemp("", "verif-c03-steps-")
		if err != nil {
			lg.t.Fatal(err)
		}
	}
	max, _ := strconv.ParseInt(maxSeg, 10, 64)
	lg.dir = dir
	lg.hook = &vHookLogger{}
	lg.readers = map[string]*vLiveReader{}
	lg.opts = Options{Path: dir, MaxSegmentBytes: max, HWCheckpointInterval: time.Hour, CleanerInterval: time.Hour, Logger: lg.hook}
	lg.open()
	s.v.offsets = map[int64]bool{}
	s.v.newest = -1
	return "ok | " + s.v.brief()
}

func (s *vC03Steps) byID(id int) *vC03SReader {
	for _, r := range s.readers {
		if r.id == id {
			return r
		}
	}
	return nil
}

func (s *vC03Steps) fail(tag, detail string) {
	s.spec = append(s.spec, vFailure{Kind: "spec", Tag: tag, Detail: detail})
}

// pending: the smallest retained offset at or after the reader's position that is committed.
func (s *vC03Steps) pending(r *vC03SReader) (int64, bool) {
	hw := s.v.log.l.HighWatermark()
	for o := r.pos(); o <= hw; o++ {
		if o >= 0 && s.v.offsets[o] {
			return o, true
		}
	}
	return 0, false
}

// poll: a parked reader whose channel is ready has been woken (the `case readonly := <-wait` of
// committedReader.waitForHW).
func (s *vC03Steps) poll() {
	for _, r := range s.readers {
		if r.phase != "waiting" {
			continue
		}
		select {
		case ro := <-r.ch:
			s.woken++
			s.released(r, ro)
		default:
		}
	}
}

func (s *vC03Steps) released(r *vC03SReader, readonly bool) {
	r.ch = nil
	if !readonly {
		r.phase = "atlimit"
		return
	}
	r.phase, r.end = "failed", "readonly"
	// "end of the read-only log" is a final verdict: the subscriber goes away. It may only be given
	// when nothing is left above the HW - messages stored but not yet committed will be covered by a
	// later HW advance and this subscriber, positioned before them, would never receive them.
	if l := s.v.log.l; l.HighWatermark() < l.NewestOffset() {
		s.fail("committed-reader-readonly-incomplete", fmt.Sprintf("reader %d (start %d, delivered %s) was ended with the read-only verdict while the log holds messages above the HW (HighWatermark() = %d, newest offset %d): they are not lost, a later HW advance commits them, and this subscriber never receives them",
			r.id, r.start, vC03Ranges(r.offs), l.HighWatermark(), l.NewestOffset()))
	}
	if o, ok := s.pending(r); ok {
		s.fail("committed-reader-readonly-incomplete", fmt.Sprintf("reader %d (start %d, delivered %s) was ended with the read-only verdict although offset %d is retained and committed (HighWatermark() = %d)",
			r.id, r.start, vC03Ranges(r.offs), o, s.v.log.l.HighWatermark()))
	}
}

// oracle, after every step: nobody sleeps over a committed message.
func (s *vC03Steps) oracle(op string) {
	l := s.v.log.l
	for _, r := range s.readers {
		if r.phase != "waiting" {
			continue
		}
		if o, ok := s.pending(r); ok {
			l.mu.RLock()
			_, reg := l.hwWaiters[r.cr]
			nw := len(l.hwWaiters)
			l.mu.RUnlock()
			s.fail("committed-reader-lost-wakeup", fmt.Sprintf("after %q: reader %d (start %d, delivered %s) is parked on the HW sample %d (registered in hwWaiters: %v, %d waiter(s), channel empty) although HighWatermark() = %d and offset %d, at or after its position, is retained and committed: only a FURTHER HW change would wake it",
				op, r.id, r.start, vC03Ranges(r.offs), r.seen, reg, nw, l.HighWatermark(), o))
		}
	}
}

func (s *vC03Steps) newReader(id int, start int64) string {
	l := s.v.log.l
	r := &vC03SReader{id: id, start: start, eff: start, phase: "idle"}
	s.readers = append(s.readers, r)
	rd, err := l.NewReader(start, false)
	if err != nil {
		r.phase, r.end = "failed", vErrEnum(pkgErrors.Cause(err))
		return "ok " + r.line()
	}
	r.rd = rd
	r.cr = rd.ctxReader.(*committedReader)
	if r.cr.seg == nil {
		r.eff = r.cr.hw + 1
	}
	return "ok " + r.line()
}

// readOne: the real ReadMessage, synchronously. The caller has established from the real reader's
// fields that the call does not park; the deadline is only a guard.
func (s *vC03Steps) readOne(r *vC03SReader) {
	l := s.v.log.l
	ctx, cancel := context.WithTimeout(context.Background(), 5*time.Second)
	defer cancel()
	var (
		m    SerializedMessage
		off  int64
		rerr error
	)
	buf := make([]byte, 28)
	panicked, pv := vCatch(func() { m, off, _, _, rerr = r.rd.ReadMessage(ctx, buf) })
	if panicked {
		r.phase, r.end = "failed", "panic"
		s.fail("committed-reader-panic", fmt.Sprintf("reader %d (start %d): ReadMessage panicked: %v", r.id, r.start, pv))
		return
	}
	if rerr != nil {
		r.phase = "failed"
		if ctx.Err() != nil {
			r.end = "blocked"
		} else {
			r.end = vErrEnum(pkgErrors.Cause(rerr))
		}
		return
	}
	hw := l.HighWatermark()
	if off > hw {
		s.fail("committed-reader-above-hw", fmt.Sprintf("reader %d (start %d) was handed offset %d while HighWatermark() = %d", r.id, r.start, off, hw))
	}
	if n := len(r.offs); n > 0 && off <= r.offs[n-1] {
		s.fail("committed-reader-duplicate", fmt.Sprintf("reader %d (start %d) received offset %d after %d", r.id, r.start, off, r.offs[n-1]))
	}
	if !vC03ValOK(off, append([]byte(nil), m.Value()...)) {
		s.fail("committed-reader-content", fmt.Sprintf("reader %d: message at offset %d has a value that was never appended at that offset", r.id, off))
	}
	for o := r.pos(); o < off; o++ {
		if o >= 0 && s.v.offsets[o] {
			s.fail("committed-reader-skipped", fmt.Sprintf("reader %d (start %d) positioned at %d received %d: offset %d is retained and was skipped", r.id, r.start, r.pos(), off, o))
			break
		}
	}
	r.offs = append(r.offs, off)
	r.phase = "idle"
}

// step performs the reader's next step and returns the names of the model steps it corresponds to.
func (s *vC03Steps) step(r *vC03SReader, cancel bool) []string {
	l := s.v.log.l
	cr := r.cr
	switch r.phase {
	case "idle", "reading":
		if cancel {
			return []string{"none"}
		}
		// `lim = min(lim, r.hwPos-r.pos)` on the HW segment is 0: "we hit the HW"
		if cr.seg == nil || (cr.seg == cr.hwSeg && cr.hwPos-cr.pos == 0) {
			r.phase = "atlimit"
		} else {
			s.readOne(r)
		}
		return []string{"advance"}
	case "atlimit":
		if cancel {
			return []string{"none"}
		}
		r.seen = l.HighWatermark()
		if r.seen == cr.hw {
			r.phase = "mustwait"
		} else {
			r.phase = "resync"
		}
		return []string{"check"}
	case "mustwait":
		if cancel {
			return []string{"none"}
		}
		if l.HighWatermark() != r.seen {
			s.window++
		}
		r.ch = l.waitForHW(cr, r.seen)
		r.phase = "waiting"
		select {
		case ro := <-r.ch:
			s.released(r, ro)
		default:
		}
		return []string{"wait"}
	case "waiting":
		if !cancel {
			return []string{"none"}
		}
		l.removeHWWaiter(cr)
		r.phase, r.end, r.ch = "failed", "eof", nil
		return []string{"cancel"}
	case "resync":
		if cancel {
			return []string{"none"}
		}
		if l.HighWatermark() == r.seen {
			// the real code: Read samples the same HW, re-syncs and reads
			s.readOne(r)
			return []string{"resync", "advance"}
		}
		// the HW moved on after the sample: the statements of the re-sync block on the sampled value
		offset := cr.hw + 1
		cr.hw = r.seen
		segments := l.Segments()
		hwIdx, hwPos, err := getHWPos(segments, cr.hw)
		if err != nil {
			r.phase, r.end = "failed", vErrEnum(err)
			return []string{"resync"}
		}
		cr.hwSeg, cr.hwPos = segments[hwIdx], hwPos
		if cr.seg == nil {
			seg, _ := findSegment(segments, offset)
			if seg == nil {
				r.phase, r.end = "failed", "segment-not-found"
				return []string{"resync"}
			}
			entry, err := seg.findEntry(offset)
			if err != nil {
				r.phase, r.end = "failed", vErrEnum(err)
				return []string{"resync"}
			}
			cr.seg, cr.pos = seg, entry.Position
		}
		r.phase = "reading"
		return []string{"resync"}
	}
	return []string{"none"} // failed
}

type vC03StepRun struct {
	impl, model []string
	spec        []vFailure
	delivered   int
	window      int
	woken       int
	hwMoves     int
	badOp       string
}

// vC03RunSteps executes one stepped schedule on the implementation and on the model in lockstep.
// Ops: `steps <maxSegBytes>` | append/appendset/sethw/readonly/roll (as in part 1) |
// `reader <id> <start>` | `r <id>` (the reader's next step) | `x <id>` (its context is cancelled) |
// `drain` (every live reader runs until it is parked or dead).
func vC03RunSteps(t testing.TB, model *vModel, prog []string) vC03StepRun {
	var res vC03StepRun
	if len(prog) == 0 || !strings.HasPrefix(prog[0], "steps ") {
		res.badOp = "schedule does not start with `steps <maxSegBytes>`"
		return res
	}
	s := &vC03Steps{v: &vC03Impl{t: t, log: &vLogImpl{t: t}}}
	defer func() {
		for _, r := range s.readers {
			if r.phase == "waiting" {
				s.v.log.l.removeHWWaiter(r.cr)
			}
		}
		s.v.close()
	}()
	var mnext int64
	next := func() int64 { return mnext }
	ask := func(line string) string {
		out := model.Ask1(line)
		if n := vC03StateInt(out, "new"); n != -999 {
			mnext = n + 1
		}
		return out
	}
	record := func(op, impl, mod string) {
		res.impl = append(res.impl, op+" => "+impl)
		res.model = append(res.model, op+" => "+mod)
	}
	readerStep := func(op string, r *vC03SReader, cancel bool) {
		names := s.step(r, cancel)
		var mod string
		for _, n := range names {
			mod = ask(fmt.Sprintf("c03 rstep %s %d", n, r.id))
		}
		s.poll()
		record(op, "ok "+r.line()+" | "+s.v.brief(), mod)
		s.oracle(op)
	}
	lastHW := int64(-1)
	for _, op := range prog {
		if len(s.spec) > 8 {
			break
		}
		f := strings.Fields(op)
		switch {
		case f[0] == "steps" && len(f) == 2:
			record(op, s.begin(f[1]), ask("c03 begin "+f[1]))
		case f[0] == "reader" && len(f) == 3:
			id, _ := strconv.Atoi(f[1])
			start, _ := strconv.ParseInt(f[2], 10, 64)
			if s.byID(id) != nil || start < 0 {
				res.badOp = op
				return res
			}
			record(op, s.newReader(id, start), ask("c03 "+op))
		case (f[0] == "r" || f[0] == "x") && len(f) == 2:
			id, _ := strconv.Atoi(f[1])
			r := s.byID(id)
			if r == nil {
				res.badOp = op
				return res
			}
			readerStep(op, r, f[0] == "x")
		case f[0] == "drain" && len(f) == 1:
			for _, r := range s.readers {
				for k := 0; k < 400 && r.phase != "waiting" && r.phase != "failed"; k++ {
					readerStep(fmt.Sprintf("drain: r %d", r.id), r, false)
				}
			}
		case f[0] == "append" || f[0] == "appendset" || f[0] == "sethw" || f[0] == "readonly" || f[0] == "roll":
			mod := ask(vC03ModelLine(op, next)[0])
			out := s.v.exec(op, "", 0)
			s.poll()
			// the log summary is compared in full: nothing runs concurrently, len(hwWaiters) is exact
			if k := strings.Index(out, " | "); k >= 0 {
				out = out[:k] + " | " + s.v.brief() // after the poll
			}
			record(op, out, mod)
			if hw := s.v.log.l.HighWatermark(); hw < lastHW {
				s.fail("hw-went-backwards", fmt.Sprintf("op %q: HighWatermark() = %d after %d", op, hw, lastHW))
			} else {
				if hw > lastHW {
					res.hwMoves++
				}
				lastHW = hw
			}
			s.oracle(op)
		default:
			res.badOp = op
			return res
		}
	}
	// completeness: every live reader is parked now (after `drain`) only if it has everything
	if len(prog) > 0 && prog[len(prog)-1] == "drain" {
		hw := s.v.log.l.HighWatermark()
		for _, r := range s.readers {
			if r.phase != "waiting" {
				continue
			}
			got := map[int64]bool{}
			for _, o := range r.offs {
				got[o] = true
			}
			for o := r.eff; o <= hw; o++ {
				if o >= 0 && s.v.offsets[o] && !got[o] {
					s.fail("committed-reader-stuck", fmt.Sprintf("reader %d (start %d, effective start %d) ran to quiescence and is parked with %s delivered, but offset %d is retained and HighWatermark() = %d", r.id, r.start, r.eff, vC03Ranges(r.offs), o, hw))
					break
				}
			}
		}
	}
	for _, r := range s.readers {
		res.delivered += len(r.offs)
	}
	res.spec, res.window, res.woken = s.spec, s.window, s.woken
	return res
}

// ---------- schedules ----------

// vC03StepGen builds a schedule letter by letter, tracking newest/HW so that `sethw` never names a
// message the log does not have (a leader never does: progress_partial's Disciplined).
type vC03StepGen struct {
	prog       []string
	newest, hw int64
	ro         bool
	ts         int64
	nreaders   int
}

func (g *vC03StepGen) emit(letter string, rnd *vRand) {
	switch letter {
	case "a":
		g.prog = append(g.prog, fmt.Sprintf("append 0 %d 1 0", g.ts))
		g.ts += 10
		if !g.ro {
			g.newest++
		}
	case "h":
		h := g.hw + 1
		if h > g.newest {
			h = g.newest
		}
		g.prog = append(g.prog, fmt.Sprintf("sethw %d", h))
		if h > g.hw {
			g.hw = h
		}
	case "H":
		g.prog = append(g.prog, fmt.Sprintf("sethw %d", g.newest))
		if g.newest > g.hw {
			g.hw = g.newest
		}
	case "o":
		g.ro = !g.ro
		b := 0
		if g.ro {
			b = 1
		}
		g.prog = append(g.prog, fmt.Sprintf("readonly %d", b))
	case "R":
		g.prog = append(g.prog, "roll")
	default:
		g.prog = append(g.prog, letter) // `r <id>` / `x <id>` / `reader ...`
	}
}

var vC03StepPrefixes = [][]string{
	// a positioned reader that has something to read, then reaches the HW
	{"steps 1048576", "append 0 1 2 0", "sethw 0", "reader 0 0"},
	// a reader created beyond the HW: parked at creation (r.seg == nil, the wait loop of Read)
	{"steps 1048576", "append 0 1 2 0", "sethw 0", "reader 0 1"},
	// both, on one-record segments (every append rolls)
	{"steps 1", "append 0 1 2 0", "sethw 0", "reader 0 0", "reader 1 1"},
	// a positioned reader that has ALREADY sampled the HW and decided to wait: every word starts
	// inside the window between checkHW and registerWait (words one letter shorter)
	{"steps 1048576", "append 0 1 2 0", "sethw 0", "reader 0 0", "r 0", "r 0", "r 0"},
	// an uncommitted tail (HW 0, newest 1) behind a freshly rolled, still EMPTY active segment (what the
	// cleaner tick's checkAndPerformSplit leaves) and a reader that has consumed everything up to the
	// HW and is about to park: read-only toggles and HW advances now decide whether it is released
	// with the end-of-log verdict or keeps waiting for offset 1
	{"steps 1048576", "append 0 1 2 0", "sethw 0", "roll", "reader 0 0", "r 0", "r 0", "r 0"},
}

func vC03StepWords(prefix int, maxLen int, visit func(prog []string)) {
	letters := []string{"r 0", "a", "h", "o"}
	if prefix == 2 {
		letters = []string{"r 0", "r 1", "a", "h"}
	}
	var rec func(word []string)
	rec = func(word []string) {
		if len(word) > 0 {
			g := &vC03StepGen{prog: append([]string(nil), vC03StepPrefixes[prefix]...), newest: 1, hw: 0, ts: 100}
			for _, w := range word {
				g.emit(w, nil)
			}
			if g.ro {
				g.emit("o", nil)
			}
			g.prog = append(g.prog, "drain")
			visit(g.prog)
		}
		if len(word) == maxLen {
			return
		}
		for _, l := range letters {
			rec(append(append([]string(nil), word...), l))
		}
	}
	rec(nil)
}

// vC03StepRandom: a longer seeded schedule: up to three readers at assorted offsets, bursts of
// reader steps, HW steps and jumps, rolls, read-only periods, cancellations.
func vC03StepRandom(rnd *vRand) []string {
	maxes := []int{1, 120, 1 << 20}
	g := &vC03StepGen{newest: -1, hw: -1, ts: 10}
	g.prog = []string{fmt.Sprintf("steps %d", maxes[rnd.Intn(len(maxes))])}
	n := 14 + rnd.Intn(36)
	for i := 0; i < n; i++ {
		switch x := rnd.Intn(100); {
		case x < 45 && g.nreaders > 0:
			for k := 1 + rnd.Intn(3); k > 0; k-- {
				g.emit(fmt.Sprintf("r %d", rnd.Intn(g.nreaders)), rnd)
			}
		case x < 60:
			g.emit("a", rnd)
		case x < 76:
			g.emit("h", rnd)
		case x < 80:
			g.emit("H", rnd)
		case x < 84:
			g.emit("R", rnd)
		case x < 88:
			g.emit("o", rnd)
		case x < 91 && g.nreaders > 0:
			g.emit(fmt.Sprintf("x %d", rnd.Intn(g.nreaders)), rnd)
		default:
			if g.nreaders < 3 {
				var st int64
				switch rnd.Intn(4) {
				case 0:
					st = 0
				case 1:
					st = g.hw + 1
				case 2:
					st = g.hw
				default:
					st = int64(rnd.Intn(int(g.newest + 3)))
				}
				if st < 0 {
					st = 0
				}
				g.emit(fmt.Sprintf("reader %d %d", g.nreaders, st), rnd)
				g.nreaders++
			}
		}
	}
	if g.ro {
		g.emit("o", rnd)
	}
	g.prog = append(g.prog, "drain", "append 0 9000 1 0")
	g.newest++
	g.emit("H", rnd)
	g.prog = append(g.prog, "drain")
	return g.prog
}

// ---------- (4) wake-up race ----------

// vC03WakeupRace: nReaders real committed readers that have caught up; the HW advances by exactly
// one message, after a tiny random spin that moves the advance across the reader's check/park
// window, and then NOTHING happens on the log until every reader delivered that message.
func vC03WakeupRace(t testing.TB, res *vResult, seed uint64, numMsgs, nReaders int, deadline time.Duration) (delivered int64, ok bool) {
	caseID := []string{fmt.Sprintf("wakeup-race seed=%d msgs=%d readers=%d deadline=%s", seed, numMsgs, nReaders, deadline)}
	dir, err := os.MkdirTemp("", "verif-c03-race-")
	if err != nil {
		t.Fatal(err)
	}
	defer os.RemoveAll(dir)
	cl, err := New(Options{Path: dir, MaxSegmentBytes: 64 * 1024, HWCheckpointInterval: time.Hour, CleanerInterval: time.Hour})
	if err != nil {
		t.Fatal(err)
	}
	l := cl.(*commitLog)
	defer l.Close()
	for base := 0; base < numMsgs; base += 500 {
		k := 500
		if base+k > numMsgs {
			k = numMsgs - base
		}
		batch := make([]*Message, k)
		for i := range batch {
			batch[i] = &Message{MagicByte: 1, Timestamp: int64(base + i + 1), Value: vC03Val(int64(base+i), 0), Offset: -1}
		}
		if _, err := l.Append(batch); err != nil {
			t.Fatal(err)
		}
	}
	ctx, cancel := context.WithCancel(context.Background())
	defer cancel()
	type rdr struct {
		rd   *Reader
		last int64 // atomic: last offset delivered
		err  atomic.Value
	}
	rs := make([]*rdr, nReaders)
	var wg sync.WaitGroup
	for i := range rs {
		rd, err := l.NewReader(0, false)
		if err != nil {
			t.Fatal(err)
		}
		r := &rdr{rd: rd, last: -1}
		rs[i] = r
		wg.Add(1)
		go func(id int) {
			defer wg.Done()
			buf := make([]byte, 28)
			for want := int64(0); want < int64(numMsgs); want++ {
				m, off, _, _, err := r.rd.ReadMessage(ctx, buf)
				if err != nil {
					if ctx.Err() == nil {
						r.err.Store(fmt.Sprintf("ReadMessage: %v", err))
					}
					return
				}
				if hw := l.HighWatermark(); off != want || off > hw || !vC03ValOK(off, m.Value()) {
					r.err.Store(fmt.Sprintf("expected offset %d, got %d (HighWatermark() = %d, content ok: %v)", want, off, hw, vC03ValOK(off, m.Value())))
					return
				}
				atomic.StoreInt64(&r.last, off)
			}
		}(i)
	}
	defer wg.Wait()
	defer cancel()
	rnd := &vRand{s: seed}
	var sink int64
	for off := int64(0); off < int64(numMsgs); off++ {
		for j, spin := 0, rnd.Intn(500); j < spin; j++ {
			sink += atomic.LoadInt64(&rs[0].last)
		}
		l.SetHighWatermark(off)
		limit := time.Now().Add(deadline)
		for spins := 0; ; spins++ {
			all := true
			for i, r := range rs {
				if e := r.err.Load(); e != nil {
					tag := "committed-reader-died"
					if strings.HasPrefix(e.(string), "expected offset") {
						tag = "committed-reader-skipped"
					}
					res.Fail(vFailure{Kind: "spec", Tag: tag, Case: caseID, Detail: fmt.Sprintf("wake-up race, HW advanced one message at a time, now %d: reader %d: %s", off, i, e)})
					return delivered, false
				}
				if atomic.LoadInt64(&r.last) < off {
					all = false
				}
			}
			if all {
				break
			}
			if spins%256 == 255 {
				runtime.Gosched()
				if time.Now().After(limit) {
					var stuck []string
					l.mu.RLock()
					for i, r := range rs {
						if last := atomic.LoadInt64(&r.last); last < off {
							_, reg := l.hwWaiters[r.rd.ctxReader]
							stuck = append(stuck, fmt.Sprintf("reader %d: delivered up to %d, registered in hwWaiters: %v", i, last, reg))
						}
					}
					nw, hw := len(l.hwWaiters), l.hw
					l.mu.RUnlock()
					res.Fail(vFailure{Kind: "spec", Tag: "committed-reader-lost-wakeup", Case: caseID,
						Detail: fmt.Sprintf("offset %d is committed (HW = %d, newest %d) and nothing else happened on the log for %s, but: %s (len(hwWaiters) = %d): the reader sleeps over a committed message until the next HW change",
							off, hw, l.NewestOffset(), deadline, strings.Join(stuck, "; "), nw)})
					return delivered, false
				}
			}
		}
		delivered += int64(nReaders)
	}
	_ = sink
	return delivered, true
}

// ---------- entry point, called from TestVerifC03 ----------

func vC03StepsCheck(t testing.TB, model *vModel, res *vResult, prog []string, source string) (hitWindow bool) {
	run := vC03RunSteps(t, model, prog)
	if run.badOp != "" {
		res.Fail(vFailure{Kind: "disagreement", Case: prog, Detail: "malformed stepped schedule: " + run.badOp})
		return false
	}
	res.Count(strings.Join(prog, "\n"), run.delivered > 0 && run.hwMoves >= 2)
	res.Dist("stepped-" + source)
	if run.window > 0 {
		res.Dist("stepped:registration-on-stale-sample(window hit)")
	}
	if run.woken > 0 {
		res.Dist("stepped:parked-reader-woken")
	}
	if len(run.spec) > 0 {
		f := run.spec[0]
		f.Case, f.Impl, f.Model = prog, run.impl, run.model
		res.Fail(f)
		return run.window > 0
	}
	for i := range run.impl {
		if run.impl[i] != run.model[i] {
			res.Fail(vFailure{Kind: "disagreement", Case: prog, Impl: run.impl, Model: run.model,
				Detail: fmt.Sprintf("stepped schedule, implementation vs model: first difference at step %d: %q vs %q", i, run.impl[i], run.model[i])})
			break
		}
	}
	return run.window > 0
}

func vC03StepsAll(t testing.TB, model *vModel, res *vResult, rnd *vRand) {
	maxLen, nRandom := 5, 250
	if vThorough() {
		maxLen, nRandom = 6, 6000
	}
	n, hits := 0, 0
	tSteps := time.Now()
	for p := range vC03StepPrefixes {
		ml := maxLen
		if p >= 3 {
			ml--
		}
		vC03StepWords(p, ml, func(prog []string) {
			n++
			if vC03StepsCheck(t, model, res, prog, "exhaustive") {
				hits++
			}
		})
	}
	for i := 0; i < nRandom; i++ {
		n++
		if vC03StepsCheck(t, model, res, vC03StepRandom(rnd), "random") {
			hits++
		}
	}
	res.Note(fmt.Sprintf("stepped schedules: %d (every word of length <= %d over {reader step(s), append 1, sethw +1, read-only toggle} after %d prefixes (one letter less after the last), %d random); %d of them register a reader on a stale HW sample (the window between checkHW and registerWait); %s",
		n, maxLen, len(vC03StepPrefixes), nRandom, hits, time.Since(tSteps).Round(100*time.Millisecond)))

	if runtime.GOMAXPROCS(0) < 2 {
		res.Note("wake-up race skipped: GOMAXPROCS < 2 (the reader cannot race the HW writer)")
		return
	}
	rounds, msgs := 2, 4000
	if vThorough() {
		rounds, msgs = 12, 20000
	}
	var total int64
	t0 := time.Now()
	for i := 0; i < rounds; i++ {
		d, ok := vC03WakeupRace(t, res, rnd.U64(), msgs, 1+i%3, 20*time.Second)
		total += d
		res.Count(fmt.Sprintf("wakeup-race-%d", i), d > 0)
		res.Dist("wakeup-race-round")
		if !ok {
			break
		}
	}
	res.Note(fmt.Sprintf("wake-up race: %d rounds of %d single-message HW advances against 1-3 caught-up readers, %d deliveries awaited with nothing else happening on the log, %s", rounds, msgs, total, time.Since(t0).Round(time.Millisecond)))
}
