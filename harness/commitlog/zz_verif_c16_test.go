//go:build verif

package commitlog

// C16 (commit-log level): conditional appends on a log with ConcurrencyControl, in every
// arrival order of small publisher sets and in random long histories; compared with the Lean
// model and with the property's own oracle (stored iff expected == -1 or == assigned offset;
// rejected => log unchanged; at most one winner per expected offset).

import (
	"fmt"
	"strconv"
	"strings"
	"testing"
)

func vC16Oracle(prog, impl []string) (string, string) {
	next := int64(0)
	winners := map[int64]int{}
	var lastState string
	for i, op := range prog {
		f := strings.Fields(op)
		out := impl[i]
		switch f[0] {
		case "begin":
			next = 0
			winners = map[int64]int{}
		case "append":
			// one Append call = one batch; message i of an accepted batch is assigned next+i
			toks := f[3:]
			exps := make([]int64, len(toks))
			for j, tk := range toks {
				p := strings.Split(tk, "/")
				exps[j], _ = strconv.ParseInt(p[3], 10, 64)
			}
			if out == "panic" && len(toks) > 1 {
				continue // a batch of several messages is refused outright (the sequencer never forms one)
			}
			st := ""
			if k := strings.Index(out, "| "); k >= 0 {
				st = out[k+2:]
			}
			firstWrong := -1
			for j, e := range exps {
				if e != -1 && e != next+int64(j) {
					firstWrong = j
					break
				}
			}
			switch {
			case strings.HasPrefix(out, "ok "):
				if firstWrong >= 0 {
					return fmt.Sprintf("op %d: message %d expecting %d stored although it is assigned %d", i, firstWrong, exps[firstWrong], next+int64(firstWrong)), "occ-stored-wrong-offset"
				}
				want := make([]string, len(exps))
				for j := range exps {
					want[j] = strconv.FormatInt(next+int64(j), 10)
				}
				if got := strings.Fields(out)[1]; got != "["+strings.Join(want, ",")+"]" {
					return fmt.Sprintf("op %d: stored at %s, want [%s]", i, got, strings.Join(want, ",")), "occ-stored-wrong-offset"
				}
				for _, e := range exps {
					if e != -1 {
						winners[e]++
						if winners[e] > 1 {
							return fmt.Sprintf("op %d: second winner for expected offset %d", i, e), "occ-two-winners"
						}
					}
				}
				next += int64(len(exps))
			case strings.HasPrefix(out, "err incorrect-offset"):
				if firstWrong < 0 {
					return fmt.Sprintf("op %d: publish expecting %v rejected although next offset was %d", i, exps, next), "occ-rejected-correct"
				}
				for j, e := range exps {
					if e == -1 {
						return fmt.Sprintf("op %d: message %d waives the check but was rejected with the batch (message %d expected %d, next offset %d)", i, j, firstWrong, exps[firstWrong], next), "occ-waived-publish-rejected"
					}
				}
				if exps[0] == next {
					return fmt.Sprintf("op %d: the first message expects %d = the offset it is assigned, but was rejected with the batch", i, next), "occ-rejected-correct"
				}
				// log unchanged apart from a possible segment roll: same newest, same record count
				if vStateInt(st, "new") != next-1 {
					return fmt.Sprintf("op %d: log changed by a rejected publish", i), "occ-reject-changed-log"
				}
			default:
				return fmt.Sprintf("op %d: unexpected outcome %s", i, out), "occ-unexpected"
			}
			lastState = st
		case "read":
			rs, ok := vParseRead(out)
			if ok && int64(len(rs)) != next {
				return fmt.Sprintf("op %d: log holds %d messages, %d publishes were stored", i, len(rs), next), "occ-log-content"
			}
		}
	}
	_ = lastState
	return "", ""
}

func TestVerifC16(t *testing.T) {
	model := vStartModel(t)
	defer model.Close()
	res := vNewResult("C16", "logs with ConcurrencyControl: (a) every arrival order of every multiset of <= 4 publishes with expected offsets from {-1,-2,0,1,2,7} (exhaustive), "+
		"(b) random histories of up to 40 publishes with expected in {-1, next, next-1, next+1, stale, far} on MaxSegmentBytes in {1,100,1<<20}, with reopen and batches > 1 mixed in; "+
		"each followed by a full read-back; compared with the Lean model and with the property's oracle; non-trivial = at least one accepted and one rejected publish; distinct by program text")
	defer res.Write(t)
	rnd := vNewRand(16)

	seenTag := map[string]bool{}
	nspec := 0
	check := func(prog []string) {
		impl, mod := vRunBoth(t, model, prog)
		acc, rej := false, false
		for _, o := range impl {
			if strings.HasPrefix(o, "ok [") {
				acc = true
			}
			if strings.HasPrefix(o, "err incorrect") {
				rej = true
			}
		}
		res.Count(strings.Join(prog, "\n"), acc && rej)
		if res.Evaluations%700 == 1 {
			res.Sample(map[string]interface{}{"program": prog, "impl": impl})
		}
		if f, tag := vC16Oracle(prog, impl); f != "" {
			nspec++
			if !seenTag[tag] { // one concrete input per tag
				seenTag[tag] = true
				res.Fail(vFailure{Kind: "spec", Case: prog, Impl: impl, Model: mod, Detail: f, Tag: tag})
			}
			return
		}
		if d := vFirstDiff(impl, mod); d >= 0 {
			small := vShrink(prog, func(p []string) bool {
				a, b := vRunBoth(t, model, p)
				return vFirstDiff(a, b) >= 0
			})
			si, sm := vRunBoth(t, model, small)
			res.Fail(vFailure{Kind: "disagreement", Case: small, Impl: si, Model: sm, Detail: fmt.Sprintf("first difference at op %d", vFirstDiff(si, sm))})
		}
	}
	if rc := vReplayCase(t); rc != nil {
		check(rc)
		return
	}

	// (a) exhaustive arrival orders
	exps := []int64{-1, -2, 0, 1, 2, 7}
	var rec func(seq []int64)
	rec = func(seq []int64) {
		if len(seq) > 0 {
			prog := []string{"begin 100 1"}
			for i, e := range seq {
				prog = append(prog, fmt.Sprintf("append 1 %d 61/%02x/_/%d", 1000+10*i, i, e))
				res.Dist(fmt.Sprintf("expected:%d", e))
			}
			prog = append(prog, "read 0 u")
			check(prog)
		}
		if len(seq) == 4 {
			return
		}
		for _, e := range exps {
			rec(append(seq, e))
		}
	}
	rec(nil)

	// (b) random histories
	n := 400
	if vThorough() {
		n = 10000
	}
	for it := 0; it < n; it++ {
		prog := []string{fmt.Sprintf("begin %d 1", []int64{1, 100, 1 << 20}[rnd.Intn(3)])}
		next := int64(0)
		k := 1 + rnd.Intn(40)
		for i := 0; i < k; i++ {
			var e int64
			switch rnd.Intn(7) {
			case 0:
				e = -1
			case 1, 2:
				e = next
			case 3:
				e = next - 1
				if e == -1 {
					e = next
				}
			case 4:
				e = next + 1
			case 5:
				e = int64(rnd.Intn(int(next) + 1))
			case 6:
				e = next + 100
				if rnd.Bool() {
					e = -2 - int64(rnd.Intn(5)) // below the waiver sentinel: never the assigned offset
				}
			}
			if e == -1 || e == next {
				next++
				res.Dist("gen:accept")
			} else {
				res.Dist("gen:reject")
			}
			prog = append(prog, fmt.Sprintf("append 1 %d 61/%02x/_/%d", 1000+10*i, i&0xff, e))
			if rnd.Intn(15) == 0 {
				prog = append(prog, "reopen")
			}
			if rnd.Intn(25) == 0 {
				prog = append(prog, fmt.Sprintf("append 1 %d 61/aa/_/-1 61/bb/_/-1", 5000+i)) // batch: panics
			}
			if rnd.Intn(25) == 0 {
				// batch mixing an unconditional or right message with a wrong one: panics as well
				a := []int64{-1, next}[rnd.Intn(2)]
				b := []int64{next, next + 7, -2}[rnd.Intn(3)]
				prog = append(prog, fmt.Sprintf("append 1 %d 61/cc/_/%d 61/dd/_/%d", 6000+i, a, b))
				res.Dist("gen:mixed-batch")
			}
		}
		prog = append(prog, "read 0 u")
		check(prog)
		if len(res.Failures) >= 10 || nspec >= 10 {
			break
		}
	}
}
