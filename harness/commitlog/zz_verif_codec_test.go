//go:build verif

package commitlog

// Codec correspondence (part of C01): byte-exact comparison of encode(m) with the Lean codec
// (messages with at most one header: Go map order) and of the SerializedMessage accessors with
// the model's decoder on encoded messages, on mutated encodings and on arbitrary bytes
// (accessor panics included), plus the round-trip oracle on the implementation itself.

import (
	"bytes"
	"fmt"
	"hash/crc32"
	"strings"
	"testing"
)

// the stored format's checksum (CRC-32C) with the harness's own table, not the implementation's
var vCodecCastagnoli = crc32.MakeTable(crc32.Castagnoli)

func vCodecDecImpl(b []byte) (out string) {
	defer func() {
		if r := recover(); r != nil {
			out = "panic"
		}
	}()
	m := SerializedMessage(b)
	k := m.Key()
	v := m.Value()
	h := m.Headers()
	return fmt.Sprintf("ok %s %s %s", vShowBytes(k), vShowBytes(v), vShowHdrs(h))
}

func TestVerifC01Codec(t *testing.T) {
	model := vStartModel(t)
	defer model.Close()
	res := vNewResult("C01", "[codec] encode(m) byte-compared with the Lean codec for key/value classes nil/empty/1B/40B/300B x headers none/one (value nil/empty/short, key up to 32767 bytes); 2-4 headers with every combination of nil / empty / short / longer values (round trip on the implementation); "+
		"SerializedMessage accessors vs the model's decoder on those encodings, on every single-byte truncation and on single-byte mutations of them, and on random byte strings (panics included); "+
		"round-trip oracle on the implementation (Key/Value/Headers of encode(m) equal m, CRC matches); non-trivial = decodes without panic; distinct by input")
	defer res.Write(t)
	rnd := vNewRand(101)
	keys := []string{"-", `""`, "61", "*40.7", "*300.3"}
	vals := []string{"-", `""`, "76", "*33.1", "*300.2"}
	hdrs := []string{"_", "68~76", `68~""`, "68~-", "*200.97~*50.3", "*32767.98~31"}
	var encLines, decLines []string
	var encWant []string
	var encs [][]byte
	for _, k := range keys {
		for _, v := range vals {
			for _, h := range hdrs {
				m := &Message{MagicByte: 1, Key: vParseBytes(k), Value: vParseBytes(v), Headers: vParseHdrs(h)}
				b, err := encode(m)
				if err != nil {
					t.Fatalf("encode: %v", err)
				}
				encLines = append(encLines, fmt.Sprintf("codec enc %s %s %s", k, v, h))
				encWant = append(encWant, "ok "+vShowBytes(b))
				encs = append(encs, b)
				// spec oracle on the implementation
				sm := SerializedMessage(b)
				bad := ""
				switch {
				case !bytes.Equal(sm.Key(), m.Key) || (sm.Key() == nil) != (m.Key == nil):
					bad = "key"
				case !bytes.Equal(sm.Value(), m.Value) || (sm.Value() == nil) != (m.Value == nil):
					bad = "value"
				case vShowHdrs(sm.Headers()) != vShowHdrs(m.Headers):
					bad = "headers"
				case crc32.Checksum(b[4:], vCodecCastagnoli) != sm.Crc():
					bad = "crc"
				}
				if bad != "" {
					res.Fail(vFailure{Kind: "spec", Case: []string{encLines[len(encLines)-1]}, Detail: "round trip of " + bad + " fails", Tag: "codec-roundtrip-" + bad})
				}
			}
		}
	}
	// header COUNTS around the limits of the 16-bit count field (round trip on the implementation only: the encodings are
	// several hundred KB): every header that was stored comes back
	for _, n := range []int{255, 256, 32767, 32768, 40000, 65535} {
		hs := make(map[string][]byte, n)
		for i := 0; i < n; i++ {
			hs[fmt.Sprintf("h%d", i)] = []byte{byte(i)}
		}
		m := &Message{MagicByte: 1, Key: []byte("k"), Value: []byte("v"), Headers: hs}
		b, err := encode(m)
		line := fmt.Sprintf("codec roundtrip headers=%d", n)
		res.Count(line, true)
		res.Dist("codec:many-headers")
		if err != nil {
			res.Fail(vFailure{Kind: "spec", Case: []string{line}, Detail: "a message with " + fmt.Sprint(n) + " headers (the count field holds 65535) is refused: " + err.Error(), Tag: "codec-roundtrip-headers"})
			continue
		}
		got := SerializedMessage(b).Headers()
		same := len(got) == n
		for k, v := range hs {
			if same && !bytes.Equal(got[k], v) {
				same = false
			}
		}
		if !same {
			res.Fail(vFailure{Kind: "spec", Case: []string{line}, Detail: fmt.Sprintf("stored %d headers, read back %d", n, len(got)), Tag: "codec-roundtrip-headers"})
		}
	}
	// SEVERAL headers, every combination of nil / empty / short / longer values over 2-4 headers (round trip on the
	// implementation; a map has no order, so every set is encoded a few times): what comes after a header must not depend on
	// that header's value being nil
	hvals := [][]byte{nil, {}, []byte("v"), []byte("a longer header value")}
	for n := 2; n <= 4; n++ {
		total := 1
		for i := 0; i < n; i++ {
			total *= len(hvals)
		}
		for code := 0; code < total; code++ {
			hs := make(map[string][]byte, n)
			c := code
			for i := 0; i < n; i++ {
				hs[fmt.Sprintf("hdr%d", i)] = hvals[c%len(hvals)]
				c /= len(hvals)
			}
			line := fmt.Sprintf("codec roundtrip multi-headers %s", vShowHdrs(hs))
			res.Count(line, true)
			res.Dist(fmt.Sprintf("codec:%d-headers", n))
			for rep := 0; rep < 3; rep++ {
				b, err := encode(&Message{MagicByte: 1, Key: []byte("k"), Value: []byte("v"), Headers: hs})
				if err != nil {
					res.Fail(vFailure{Kind: "spec", Case: []string{line}, Detail: "encode: " + err.Error(), Tag: "codec-roundtrip-headers"})
					break
				}
				got := vCodecDecImpl(b)
				want := fmt.Sprintf("ok %s %s %s", vShowBytes([]byte("k")), vShowBytes([]byte("v")), vShowHdrs(hs))
				if got != want {
					res.Fail(vFailure{Kind: "spec", Case: []string{line}, Impl: []string{got}, Model: []string{want}, Tag: "codec-roundtrip-headers",
						Detail: "a stored message must read back with exactly the headers it was stored with (nil and empty values told apart); stored bytes: " + vShowBytes(b)})
					break
				}
			}
		}
	}
	ans := model.Ask(encLines)
	for i := range encLines {
		res.Count(encLines[i], true)
		res.Dist("enc")
		if ans[i] != encWant[i] {
			res.Fail(vFailure{Kind: "disagreement", Case: []string{encLines[i]}, Impl: []string{encWant[i]}, Model: []string{ans[i]}})
		}
	}
	res.Sample(map[string]string{"op": encLines[7], "impl": encWant[7]})
	// decoder: encodings (short ones), truncations, mutations, random strings
	add := func(b []byte) { decLines = append(decLines, "codec dec "+vHexNN(b)) }
	var inputs [][]byte
	for _, b := range encs {
		if len(b) > 120 {
			continue
		}
		inputs = append(inputs, b)
		for cut := 0; cut < len(b); cut++ {
			inputs = append(inputs, b[:cut])
		}
		nm := 20
		if vThorough() {
			nm = 200
		}
		for j := 0; j < nm; j++ {
			c := append([]byte{}, b...)
			c[rnd.Intn(len(c))] = byte(rnd.U64())
			inputs = append(inputs, c)
		}
	}
	nr := 3000
	if vThorough() {
		nr = 100000
	}
	for i := 0; i < nr; i++ {
		inputs = append(inputs, rnd.Bytes(rnd.Intn(48)))
	}
	for i, b := range inputs {
		// exact capacity: Go lets a slice expression reach beyond len up to cap, and a
		// truncated view of a longer buffer would "read" the bytes that were cut off
		c := make([]byte, len(b))
		copy(c, b)
		inputs[i] = c
		add(c)
	}
	dans := model.Ask(decLines)
	for i, b := range inputs {
		impl := vCodecDecImpl(b)
		res.Count(decLines[i], impl != "panic")
		res.Dist("dec:" + strings.SplitN(impl, " ", 2)[0])
		if impl != dans[i] {
			res.Fail(vFailure{Kind: "disagreement", Case: []string{decLines[i]}, Impl: []string{impl}, Model: []string{dans[i]}})
			if len(res.Failures) > 20 {
				break
			}
		}
	}
}
