//go:build verif

package commitlog

import "errors"

// VerifRoll does to a log what a cleaner tick does when the active segment is full or old enough
// (cleanerLoop -> checkAndPerformSplit): a new, EMPTY active segment is appended and the old one is sealed.
// An active segment that holds nothing is not rolled. For harnesses of OTHER packages (overlay file, build
// tag verif only).
func VerifRoll(l CommitLog) error {
	cl, ok := l.(*commitLog)
	if !ok {
		return errors.New("not a *commitLog")
	}
	act := cl.activeSegment()
	if act.IsEmpty() {
		return nil
	}
	if err := cl.split(act); err != nil {
		return err
	}
	act.Seal()
	return nil
}
