//go:build verif

package commitlog

// C02 / C04, step-driven part: the replication protocol of one partition executed over
// REAL commit logs (one per replica, temp dirs). The partition glue (roles, ISR view,
// replica offsets, commit queue, in-flight RPCs) is the Lean model's (`proto …` commands of
// lbmodel); every commit-log call the glue makes is executed on the real log of that
// replica (Append, AppendMessageSet, Truncate, SetHighWatermark, NewLeaderEpoch,
// LastOffsetForLeaderEpoch, uncommitted reads, Close+New) and compared with the commit-log
// model's answer (correspondence). After every step the property's oracles are evaluated on
// the REAL logs (read back through uncommitted readers), independently of the model's own
// monitors, and the two verdicts are compared as well.
//
// Cases: the Search witnesses of corpus/C02 and corpus/C04, the GUARD scenarios of
// corpus/<prop>/guards (runs that must stay safe: ISR re-entry of a replica that is seen but not
// caught up, a fetch of an earlier term reaching the new leader — the glue evaluates the
// REGENERATED tick rule / fetch fields / term fence, so a weakened rule turns into a violation on
// the real logs with the scenario's own tag), the witnesses Search finds NOW (it runs on the
// regenerated guards), and seeded random protocol runs.

import (
	"encoding/json"
	"fmt"
	"os"
	"sort"
	"strconv"
	"strings"
	"testing"
)

type vPOp struct {
	sid          int
	line, expect string
}

type vPSrv struct {
	up   bool
	role string
	ep   int
	isr  []int
}

type vPAck struct {
	mid, cid int
	policy   string
	offset   int64
	err      string
	by, ep   int
}

type vPStep struct {
	status  string
	ops     []vPOp
	srv     []vPSrv
	metaISR []int
	acks    []vPAck
	viol    []string
}

func vPField(s, key string) string {
	for _, f := range strings.Fields(s) {
		if strings.HasPrefix(f, key+"=") {
			return f[len(key)+1:]
		}
	}
	return ""
}

func vPInts(s string) []int {
	var out []int
	for _, p := range strings.Split(s, ",") {
		if p == "" {
			continue
		}
		n, _ := strconv.Atoi(strings.SplitN(p, ":", 2)[0])
		out = append(out, n)
	}
	return out
}

func vPParse(out string) vPStep {
	var st vPStep
	sp := strings.SplitN(out, " ", 2)
	st.status = sp[0]
	if st.status != "ok" && st.status != "ops-mismatch" || len(sp) < 2 {
		return st
	}
	sec := strings.Split(sp[1], " ## ")
	if len(sec) != 4 {
		st.status = "unparsable"
		return st
	}
	if strings.TrimSpace(sec[0]) != "" {
		for _, e := range strings.Split(sec[0], " ;; ") {
			p := strings.SplitN(e, " @@ ", 3)
			if len(p) != 3 {
				st.status = "unparsable"
				return st
			}
			sid, _ := strconv.Atoi(strings.TrimSpace(p[0]))
			st.ops = append(st.ops, vPOp{sid, strings.TrimSpace(p[1]), strings.TrimSpace(p[2])})
		}
	}
	gl := strings.Split(sec[1], " ; ")
	for _, g := range gl[:len(gl)-1] {
		ep, _ := strconv.Atoi(vPField(g, "ep"))
		st.srv = append(st.srv, vPSrv{up: vPField(g, "up") == "1", role: vPField(g, "role"), ep: ep, isr: vPInts(vPField(g, "isr"))})
	}
	st.metaISR = vPInts(vPField(gl[len(gl)-1], "isr"))
	for _, a := range strings.Split(strings.TrimPrefix(sec[2], "acks="), ",") {
		if a == "" {
			continue
		}
		p := strings.Split(a, ":")
		mid, _ := strconv.Atoi(p[0])
		cid, _ := strconv.Atoi(p[1])
		off, _ := strconv.ParseInt(p[3], 10, 64)
		by, _ := strconv.Atoi(p[5])
		ep, _ := strconv.Atoi(p[6])
		st.acks = append(st.acks, vPAck{mid, cid, p[2], off, p[4], by, ep})
	}
	for _, v := range strings.Split(strings.TrimPrefix(sec[3], "viol="), ",") {
		if v != "" {
			st.viol = append(st.viol, v)
		}
	}
	sort.Strings(st.viol)
	return st
}

// vPLogView is what the oracle sees of one real commit log: records by offset (full
// canonical text offset:ts:epoch:key:value:headers), and the high watermark.
type vPLogView struct {
	recs map[int64]string
	hw   int64
}

func vPView(v *vLogImpl) (vPLogView, error) {
	out := v.exec("read 0 u")
	view := vPLogView{recs: map[int64]string{}, hw: v.l.HighWatermark()}
	if v.l.OldestOffset() == -1 && v.l.NewestOffset() == -1 {
		return view, nil
	}
	rs, ok := vParseRead(out)
	if !ok || strings.Contains(out, "TIMEOUT") {
		return view, fmt.Errorf("cannot read back real log: %s", out)
	}
	for _, r := range rs {
		view.recs[r.off] = r.text
	}
	return view, nil
}

// mid of a record text offset:ts:epoch:key:value:headers (value = one byte, hex)
func vPMid(tok string) int {
	p := strings.Split(tok, ":")
	if len(p) < 5 {
		return -1
	}
	n, err := strconv.ParseInt(p[4], 16, 32)
	if err != nil {
		return -1
	}
	return int(n)
}

// vPOracle evaluates C02 and C04 on the real logs. State: the ghost set of committed
// records (record text -> epoch of the leader under which it was seen committed) and the
// set of negatively acknowledged message ids.
type vPOracle struct {
	minISR int
	ghost  map[string]int
	nacked map[int]bool
}

func vUnion(a, b []int) []int {
	m := map[int]bool{}
	for _, x := range a {
		m[x] = true
	}
	for _, x := range b {
		m[x] = true
	}
	var out []int
	for x := range m {
		out = append(out, x)
	}
	sort.Ints(out)
	return out
}

func (o *vPOracle) check(st vPStep, views []vPLogView) []string {
	viol := map[string]bool{}
	// committed now: at or below the HW of a leader that is up, stored identically by every
	// member of the ISR (leader's view and controller's view)
	for s, sv := range st.srv {
		if !sv.up || sv.role != "L" {
			continue
		}
		isr := vUnion(sv.isr, st.metaISR)
		for off, tok := range views[s].recs {
			if off > views[s].hw {
				continue
			}
			all := true
			for _, m := range isr {
				if m >= len(views) || views[m].recs[off] != tok {
					all = false
				}
			}
			if all {
				if e, ok := o.ghost[tok]; !ok || sv.ep < e {
					o.ghost[tok] = sv.ep
				}
			}
		}
	}
	// C02a: every committed record is in the log of every later leader
	for tok, e := range o.ghost {
		off, _ := strconv.ParseInt(strings.SplitN(tok, ":", 2)[0], 10, 64)
		for s, sv := range st.srv {
			if sv.up && sv.role == "L" && sv.ep > e && views[s].recs[off] != tok {
				viol["C02a-lost-committed"] = true
			}
		}
	}
	// C02b: identical below both HWs
	for a := range views {
		for b := a + 1; b < len(views); b++ {
			for off, tok := range views[a].recs {
				if off <= views[a].hw && off <= views[b].hw {
					if t2, ok := views[b].recs[off]; ok && t2 != tok {
						viol["C02b-diverged-below-hw"] = true
					}
				}
			}
		}
	}
	// C04: acks sent by this step
	for _, a := range st.acks {
		if a.err != "ok" {
			o.nacked[a.mid] = true
			continue
		}
		if a.cid != 100+a.mid {
			viol["C04-ack-correlation-mismatch"] = true
		}
		if a.by >= len(views) {
			viol["C04-ack-from-nowhere"] = true
			continue
		}
		here := false
		if tok, ok := views[a.by].recs[a.offset]; ok && vPMid(tok) == a.mid {
			here = true
		}
		switch a.policy {
		case "N":
			viol["C04-ack-for-policy-none"] = true
		case "L":
			if !here {
				viol["C04-leader-ack-before-stored"] = true
			}
		case "A":
			if !here {
				viol["C04-ack-offset-mismatch"] = true
			}
			isr := st.srv[a.by].isr
			if len(isr) < o.minISR {
				viol["C04-all-ack-below-min-isr"] = true
			}
			for _, m := range isr {
				tok, ok := views[m].recs[a.offset]
				if !ok || vPMid(tok) != a.mid {
					viol["C04-all-ack-not-stored-by-isr"] = true
				}
			}
		}
	}
	for _, v := range views {
		for _, tok := range v.recs {
			if o.nacked[vPMid(tok)] {
				viol["C04-nacked-stored"] = true
			}
		}
	}
	var out []string
	for k := range viol {
		out = append(out, k)
	}
	sort.Strings(out)
	return out
}

type vPRun struct {
	t     testing.TB
	model *vModel
	logs  []*vLogImpl
	orc   *vPOracle
}

func (r *vPRun) close() {
	for _, l := range r.logs {
		l.close()
	}
	r.logs = nil
}

// begin: "begin n minISR maxSeg occ"
func (r *vPRun) begin(line string) error {
	r.close()
	f := strings.Fields(line)
	if len(f) < 5 || f[0] != "begin" {
		return fmt.Errorf("bad begin line %q", line)
	}
	if out := r.model.Ask1("proto " + line); !strings.HasPrefix(out, "ok") {
		return fmt.Errorf("model refused %q: %s", line, out)
	}
	n, _ := strconv.Atoi(f[1])
	mi, _ := strconv.Atoi(f[2])
	for i := 0; i < n; i++ {
		v := &vLogImpl{t: r.t}
		v.exec(fmt.Sprintf("begin %s %s", f[3], f[4]))
		r.logs = append(r.logs, v)
	}
	r.orc = &vPOracle{minISR: mi, ghost: map[string]int{}, nacked: map[int]bool{}}
	return nil
}

type vPOutcome struct {
	enabled   bool
	disagree  string   // non-empty: model and implementation differ
	implViol  []string // oracle on the real logs
	modelViol []string
	trace     []string // implementation outputs of the log ops
	modelOut  []string
}

func (r *vPRun) step(step string) vPOutcome {
	var oc vPOutcome
	out := r.model.Ask1("proto step " + step)
	st := vPParse(out)
	switch st.status {
	case "disabled":
		return oc
	case "ok":
	default:
		oc.enabled = true
		oc.disagree = "driver answered " + st.status + " for step " + step + ": " + out
		return oc
	}
	oc.enabled = true
	for _, op := range st.ops {
		got := r.logs[op.sid].exec(op.line)
		oc.trace = append(oc.trace, fmt.Sprintf("%d: %s => %s", op.sid, op.line, got))
		oc.modelOut = append(oc.modelOut, fmt.Sprintf("%d: %s => %s", op.sid, op.line, op.expect))
		if got != op.expect && oc.disagree == "" {
			oc.disagree = fmt.Sprintf("step %q, log op %q on replica %d: implementation %q, model %q", step, op.line, op.sid, got, op.expect)
		}
	}
	views := make([]vPLogView, len(r.logs))
	for i, l := range r.logs {
		v, err := vPView(l)
		if err != nil && oc.disagree == "" {
			oc.disagree = fmt.Sprintf("replica %d: %v", i, err)
		}
		views[i] = v
	}
	oc.implViol = r.orc.check(st, views)
	oc.modelViol = st.viol
	if strings.Join(oc.implViol, ",") != strings.Join(oc.modelViol, ",") && oc.disagree == "" {
		oc.disagree = fmt.Sprintf("step %q: oracle on the real logs says [%s], the model's monitors say [%s]", step,
			strings.Join(oc.implViol, ","), strings.Join(oc.modelViol, ","))
	}
	return oc
}

func vPKindsOf(prop string, kinds []string) []string {
	var out []string
	for _, k := range kinds {
		if strings.HasPrefix(k, prop) {
			out = append(out, k)
		}
	}
	return out
}

// vPCorpusFiles returns (name, declared tag, lines) of the corpus entries of a property.
func vPCorpusFiles(t testing.TB, prop string) (names, tags []string, cases [][]string) {
	return vPCorpusDir(t, prop)
}

// vPCorpusDir reads corpus/<sub>/*.ops (sub = "C02", "C02/guards", …).
func vPCorpusDir(t testing.TB, prop string) (names, tags []string, cases [][]string) {
	dir := os.Getenv("VERIF_CORPUS")
	ents, err := os.ReadDir(dir + "/" + prop)
	if err != nil {
		return
	}
	for _, e := range ents {
		if !strings.HasSuffix(e.Name(), ".ops") {
			continue
		}
		b, err := os.ReadFile(dir + "/" + prop + "/" + e.Name())
		if err != nil {
			t.Fatal(err)
		}
		tag := ""
		var c []string
		for _, l := range strings.Split(string(b), "\n") {
			l = strings.TrimSpace(l)
			if strings.HasPrefix(l, "# tag:") {
				tag = strings.TrimSpace(strings.TrimPrefix(l, "# tag:"))
			}
			if l != "" && !strings.HasPrefix(l, "#") {
				c = append(c, l)
			}
		}
		names = append(names, strings.TrimSuffix(e.Name(), ".ops"))
		tags = append(tags, tag)
		cases = append(cases, c)
	}
	return
}

func vPStepKind(step string) string { return strings.Fields(step)[0] }

// weights of the random walk (per step kind; unknown kinds weigh 0 and are never picked)
var vPWeight = map[string]int{"pub": 6, "fetch": 8, "serve": 12, "apply": 12, "commit": 8, "next": 10, "offserve": 12, "reconcile": 12,
	"fail": 2, "elect": 2, "raft": 8, "crash": 1, "restart": 6, "shrink": 2, "expand": 4, "clear": 2, "unseen": 2, "drop": 1}

// vRunProto is the body of TestVerifC02 / TestVerifC04.
func vRunProto(t *testing.T, prop string) {
	model := vStartModel(t)
	defer model.Close()
	res := vNewResult(prop, "replication-protocol runs over 3 REAL commit logs (glue = Lean model, logs = implementation): (a) Search witnesses of corpus/"+prop+
		", (b) witnesses found by Search on the regenerated model in this run, (c) seeded random runs of up to 70 fine-grained steps "+
		"(publish with ALL/LEADER/NONE and refused messages, fetch/serve/apply, commit, ISR shrink/expand decisions with stale proposals, elections, "+
		"apply at each server's own pace, reconciliation RPC answered by any leading server or failing, crash/restart with any replay point, message loss); "+
		"after every step: every log call compared with the commit-log model, "+prop+" oracles evaluated on the real logs and compared with the model's monitors; "+
		"non-trivial = the run has a leader change, a reconciliation and a replicated append; distinct by step list")
	defer res.Write(t)
	run := &vPRun{t: t, model: model}
	defer run.close()

	// runCase executes one case; declaredTag != "" means a corpus witness that must still fail.
	// guardTag != "": a guard scenario — it must NOT violate (any C02 / C04 kind counts), a violation is
	// reported under this tag without attribution; steps the model does not enable are skipped.
	guardTag := ""
	runCase := func(name string, lines []string, declaredTag string, mustFail bool) {
		if len(lines) == 0 {
			return
		}
		if err := run.begin(lines[0]); err != nil {
			res.Fail(vFailure{Kind: "disagreement", Case: lines, Detail: err.Error()})
			return
		}
		var taken []string
		taken = append(taken, lines[0])
		sawChange, sawRec, sawRepl := false, false, false
		reported := false
		for _, step := range lines[1:] {
			oc := run.step(step)
			if !oc.enabled {
				if mustFail {
					res.Fail(vFailure{Kind: "disagreement", Case: append(taken, step), Detail: "corpus witness " + name + ": step is not enabled in the model any more"})
					return
				}
				continue
			}
			taken = append(taken, step)
			res.Dist("step:" + vPStepKind(step))
			switch vPStepKind(step) {
			case "elect":
				sawChange = true
			case "reconcile", "fail":
				sawRec = true
			case "apply":
				for _, l := range oc.trace {
					if strings.Contains(l, "appendset") {
						sawRepl = true
					}
				}
			}
			if oc.disagree != "" {
				res.Fail(vFailure{Kind: "disagreement", Case: append([]string(nil), taken...), Impl: oc.trace, Model: oc.modelOut, Detail: oc.disagree})
				return
			}
			mine := vPKindsOf(prop, oc.implViol)
			if guardTag != "" {
				mine = oc.implViol
			}
			if len(mine) > 0 && !reported && guardTag != "" {
				reported = true
				for _, k := range mine {
					res.Dist("viol:" + k)
				}
				res.Dist("tag:" + guardTag)
				res.Fail(vFailure{Kind: "spec", Case: append([]string(nil), taken...), Impl: oc.trace, Model: oc.modelOut, Tag: guardTag,
					Detail: fmt.Sprintf("guard scenario %s must stay safe, but after step %q the oracle on the REAL commit logs says %s (the glue evaluates the tick rule, "+
						"the fetch fields and the term fence regenerated from the source: %s)", name, step, strings.Join(mine, ","), model.Ask1("proto facts"))})
			}
			if len(mine) > 0 && !reported {
				reported = true
				att := model.Ask1("proto attribute")
				tag := ""
				if fx := vPField(att, "fixes"); fx != "" {
					tag = strings.Split(fx, ",")[0]
				} else if vPField(att, "all") == "no-violation" {
					tag = "replication-combined-defects"
				} else {
					tag = "replication-unattributed"
				}
				for _, k := range mine {
					res.Dist("viol:" + k)
				}
				res.Dist("tag:" + tag)
				if declaredTag != "" && tag != declaredTag {
					res.Fail(vFailure{Kind: "disagreement", Case: append([]string(nil), taken...),
						Detail: fmt.Sprintf("corpus witness %s is declared %s but is now attributed to %s (%s)", name, declaredTag, tag, att)})
					return
				}
				res.Fail(vFailure{Kind: "spec", Case: append([]string(nil), taken...), Impl: oc.trace, Model: oc.modelOut, Tag: tag,
					Detail: fmt.Sprintf("%s on the REAL commit logs after step %q: %s (root cause by single-repair attribution: %s)", name, step, strings.Join(mine, ","), att)})
			}
		}
		if mustFail && !reported {
			res.Fail(vFailure{Kind: "disagreement", Case: lines, Detail: "witness " + name + " no longer violates " + prop + " on the real logs (defect repaired? then update the model and known_findings.json)"})
		}
		res.Count(strings.Join(taken, "\n"), sawChange && sawRec && sawRepl)
		if res.Evaluations%40 == 1 {
			res.Sample(map[string]interface{}{"case": name, "steps": taken})
		}
	}

	if rc := vReplayCase(t); rc != nil {
		// the replay of a guard-scenario failure is judged as a guard scenario (its tag names one)
		if b, err := os.ReadFile(os.Getenv("VERIF_REPLAY")); err == nil {
			var f struct {
				Tag string `json:"tag"`
			}
			if json.Unmarshal(b, &f) == nil && f.Tag != "" {
				_, gtags, _ := vPCorpusDir(t, prop+"/guards")
				for _, g := range gtags {
					if g == f.Tag {
						guardTag = g
					}
				}
			}
		}
		runCase("replay", rc, "", false)
		return
	}

	// (a) corpus witnesses. A witness whose defect the SOURCE no longer has (regenerated fact) must
	// not violate any more; it still runs for the correspondence.
	model.Ask1("proto begin 3 2 1024 0")
	isrRepaired := strings.Contains(model.Ask1("proto facts"), "isrReset=1")
	if isrRepaired {
		res.Note("becomeLeader resets the replica offsets in this tree (fixes/C04-isr-offsets-reset.diff applied): the stale-isr-offsets-across-terms witness is expected not to violate")
	}
	names, tags, cases := vPCorpusFiles(t, prop)
	for i := range cases {
		if tags[i] == "stale-isr-offsets-across-terms" && isrRepaired {
			runCase("corpus/"+prop+"/"+names[i], cases[i], "", false)
			continue
		}
		runCase("corpus/"+prop+"/"+names[i], cases[i], tags[i], true)
	}

	// (a2) guard scenarios: must stay safe on the real logs with the glue as regenerated now
	gnames, gtags, gcases := vPCorpusDir(t, prop+"/guards")
	for i := range gcases {
		guardTag = gtags[i]
		if guardTag == "" {
			guardTag = gnames[i]
		}
		res.Dist("guard:" + gnames[i])
		runCase("corpus/"+prop+"/guards/"+gnames[i], gcases[i], "", false)
	}
	guardTag = ""

	// (b) witnesses found now
	searches := []string{"epoch-start-minus-one-sentinel", "stale-isr-offsets-across-terms", "isr-reentry-stale-caught-up",
		"hw-fallback-truncation", "reconcile-answered-by-stale-leader", "epoch-boundary-recovered-leader", "check-then-propose-race"}
	if vThorough() {
		searches = append(searches, "epoch-boundary-off-by-one", "reconcile-epoch-unknown-to-leader")
	}
	for _, s := range searches {
		model.Ask1("proto begin 3 2 1024 0")
		budget := "400000"
		if vThorough() {
			budget = "1500000"
		}
		out := model.Ask1("proto search " + s + " " + budget)
		found := false
		for _, w := range strings.Split(out, " || ")[1:] {
			k := strings.Index(w, " steps=")
			e := strings.Index(w, " asis=")
			if k < 0 || e < 0 {
				continue
			}
			kind := strings.TrimPrefix(w[:k], "kind=")
			asis := vPField(w[e:], "asis")
			steps := []string{"begin 3 2 1024 0"}
			for _, x := range strings.Split(w[k+7:e], ";") {
				steps = append(steps, strings.TrimSpace(x))
			}
			found = true
			res.Dist("search:" + s + ":" + kind)
			if asis == "not-a-path" || asis == "no-violation" {
				res.Note("search " + s + ": witness does not carry over to the unrepaired model (" + asis + ")")
				continue
			}
			if len(vPKindsOf(prop, strings.Split(asis, ","))) == 0 {
				continue // a witness of the other property
			}
			tag := s
			if strings.HasPrefix(s, "epoch-boundary") {
				tag = "epoch-boundary-off-by-one"
			}
			runCase("search/"+s, steps, tag, true)
		}
		if !found {
			res.Note("search " + s + ": no witness within the budget: " + strings.SplitN(out, " || ", 2)[0])
		}
	}

	// (c) random runs
	rnd := vNewRand(2)
	n := 250
	if vThorough() {
		n = 4000
	}
	for it := 0; it < n; it++ {
		minISR := 1 + rnd.Intn(2)
		seg := []int{1024, 100, 1 << 20}[rnd.Intn(3)]
		lines := []string{fmt.Sprintf("begin 3 %d %d 0", minISR, seg)}
		if err := run.begin(lines[0]); err != nil {
			t.Fatal(err)
		}
		// generate by walking the model: pick among the enabled steps
		k := 25 + rnd.Intn(46)
		for i := 0; i < k; i++ {
			en := model.Ask1("proto enabled rand")
			if !strings.HasPrefix(en, "ok ") || len(en) <= 3 {
				break
			}
			var cands []string
			for _, c := range strings.Split(en[3:], ";") {
				cands = append(cands, strings.TrimSpace(c))
			}
			// pick a step KIND by weight (RPC completions and progress over faults), then a step of that kind
			byKind := map[string][]string{}
			var kinds []string
			for _, c := range cands {
				k := vPStepKind(c)
				if _, ok := byKind[k]; !ok {
					kinds = append(kinds, k)
				}
				byKind[k] = append(byKind[k], c)
			}
			total := 0
			for _, k := range kinds {
				total += vPWeight[k]
			}
			x := rnd.Intn(total)
			pick := cands[0]
			for _, k := range kinds {
				if x < vPWeight[k] {
					pick = byKind[k][rnd.Intn(len(byKind[k]))]
					break
				}
				x -= vPWeight[k]
			}
			lines = append(lines, pick)
			// advance the generator's copy of the model
			if out := model.Ask1("proto step " + pick); !strings.HasPrefix(out, "ok") {
				break
			}
		}
		runCase(fmt.Sprintf("random-%d", it), lines, "", false)
		nd := 0
		for _, f := range res.Failures {
			if f.Kind == "disagreement" {
				nd++
			}
		}
		if nd >= 5 {
			break
		}
	}
}

func TestVerifC02(t *testing.T) { vRunProto(t, "C02") }

func TestVerifC04(t *testing.T) { vRunProto(t, "C04") }
